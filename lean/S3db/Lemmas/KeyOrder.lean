import S3db.Lemmas.F64
import S3db.Gen.Key
/-!
# Lemmas about the generated `Gen.Key` functions

`compareIntReal` (generated from key.go) computes the exact comparison of an int64 with a double;
`keyOrder` on two admissible keys is `sqliteCmp`.
-/
namespace S3db
open F64 Gen.Key

namespace F64

/-- when `float64(i)` does not round, comparing it is comparing the exact integer -/
theorem cmp_ofInt (i : Int) (m e : Nat) (hm : m < 2^53) (hi : i.natAbs = m * 2^e) (r : F64) :
    cmp (ofInt i) r = cmp (exact i) r := by
  obtain ⟨q, k, h1, h2⟩ := ofInt_repr i m e hm hi
  rw [h1]
  cases r with
  | nan => simp [cmp, exact]
  | inf n => simp [cmp, exact]
  | fin s2 m2 x2 =>
    unfold exact
    rw [cmp_fin_at _ _ _ _ _ _ (min 0 x2) (by omega) (by omega),
        cmp_fin_at _ _ _ _ _ _ (min 0 x2) (by omega) (by omega),
        scaled_lower _ q k (min 0 x2) 0 (by omega) (by omega), scaled_nat_zero, h2,
        scaled_lower _ i.natAbs 0 (min 0 x2) 0 (by omega) (by omega), scaled_self]

theorem lt_some (a b : Int) : (some (cmpInt a b) == some (-1 : Int)) = decide (a < b) := by
  rw [Bool.eq_iff_iff]; simp [cmpInt_eq_neg_one]

theorem gt_some (a b : Int) : (some (cmpInt a b) == some (1 : Int)) = decide (b < a) := by
  rw [Bool.eq_iff_iff]; simp [cmpInt_eq_one]

theorem eq_some (a b : Int) : (some (cmpInt a b) == some (0 : Int)) = decide (a = b) := by
  rw [Bool.eq_iff_iff]; simp [cmpInt_eq_zero]

/-- the final `s < r / s > r / else` ladder of the Go code returns the three-way comparison -/
theorem ladder_eq (a r : F64) (c : Int) (h : cmp a r = some c) (hc : c = -1 ∨ c = 0 ∨ c = 1) :
    (if lt a r then (-1 : Int) else if gt a r then 1 else 0) = c := by
  unfold lt gt; rw [h]; rcases hc with rfl | rfl | rfl <;> decide

end F64

/-- `compareIntReal` on a finite double with a 53-bit mantissa -/
theorem compareIntReal_fin (i : Int) (hi : InInt64 i) (s : Bool) (m : Nat) (x : Int)
    (hm : m < 2^53) : compareIntReal i (.fin s m x) = cmpD (exact i) (.fin s m x) := by
  obtain ⟨b1, b2, m', e, hm', hy⟩ := toInt_bounds s m x
  have hP := pow2_pos (-(min x 0)).toNat
  have c1 : ∀ J : Int, cmp (.fin s m x) (ofIntLit J)
      = some (cmpInt (scaled s m x (min x 0)) (J * pow2 (-(min x 0)).toNat)) := by
    intro J
    show cmp (.fin s m x) (.fin (decide (J < 0)) J.natAbs 0) = _
    rw [cmp_fin_at _ _ _ _ _ _ (min x 0) (by omega) (by omega), scaled_exact]
  have c2 : cmp (exact i) (.fin s m x)
      = some (cmpInt (i * pow2 (-(min x 0)).toNat) (scaled s m x (min x 0))) := by
    unfold exact
    rw [cmp_fin_at _ _ _ _ _ _ (min x 0) (by omega) (by omega), scaled_exact]
  have c2' : cmpD (exact i) (.fin s m x)
      = cmpInt (i * pow2 (-(min x 0)).toNat) (scaled s m x (min x 0)) := by
    unfold cmpD; rw [c2]; rfl
  have hlt : ∀ J : Int, F64.lt (.fin s m x) (ofIntLit J)
      = decide (scaled s m x (min x 0) < J * pow2 (-(min x 0)).toNat) := by
    intro J; unfold F64.lt; rw [c1, lt_some]
  have hge : ∀ J : Int, F64.ge (.fin s m x) (ofIntLit J)
      = (decide (J * pow2 (-(min x 0)).toNat < scaled s m x (min x 0))
          || decide (scaled s m x (min x 0) = J * pow2 (-(min x 0)).toNat)) := by
    intro J; unfold F64.ge; rw [c1, gt_some, eq_some]
  have hlad := ladder_eq (ofInt i) (.fin s m x)
  rw [c2']
  unfold compareIntReal
  rw [hlt, hge]
  simp only []
  generalize toInt (.fin s m x) = y at *
  generalize scaled s m x (min x 0) = M at *
  generalize pow2 (-(min x 0)).toNat = P at *
  obtain ⟨hi1, hi2⟩ := hi
  by_cases h1 : M < -9223372036854775808 * P
  · simp only [h1, decide_true, if_true]
    have : -9223372036854775808 * P ≤ i * P := Int.mul_le_mul_of_nonneg_right (by omega) (by omega)
    symm; rw [cmpInt_eq_one]; omega
  · simp only [h1, decide_false, Bool.false_eq_true, ↓reduceIte]
    by_cases h2 : 9223372036854775808 * P ≤ M
    · have h2' : (decide (9223372036854775808 * P < M) || decide (M = 9223372036854775808 * P))
          = true := by
        simp only [Bool.or_eq_true, decide_eq_true_eq]; omega
      simp only [h2', ↓reduceIte]
      have : (i + 1) * P ≤ 9223372036854775808 * P :=
        Int.mul_le_mul_of_nonneg_right (by omega) (by omega)
      rw [Int.add_mul] at this
      symm; rw [cmpInt_eq_neg_one]; omega
    · have h2' : (decide (9223372036854775808 * P < M) || decide (M = 9223372036854775808 * P))
          = false := by
        simp only [Bool.or_eq_false_iff, decide_eq_false_iff_not]; omega
      simp only [h2', Bool.false_eq_true, ↓reduceIte]
      by_cases h3 : i < y
      · simp only [h3, decide_true, ↓reduceIte]
        have : (i + 1) * P ≤ y * P := Int.mul_le_mul_of_nonneg_right (by omega) (by omega)
        rw [Int.add_mul] at this
        symm; rw [cmpInt_eq_neg_one]; omega
      · by_cases h4 : i > y
        · simp only [h3, h4, decide_true, decide_false, Bool.false_eq_true, ↓reduceIte]
          have : (y + 1) * P ≤ i * P := Int.mul_le_mul_of_nonneg_right (by omega) (by omega)
          rw [Int.add_mul] at this
          symm; rw [cmpInt_eq_one]; omega
        · simp only [h3, h4, decide_false, Bool.false_eq_true, ↓reduceIte]
          have e : i = y := by omega
          subst e
          apply hlad
          · rw [cmp_ofInt i m' e (by omega) hy, c2]
          · exact cmpInt_range _ _

theorem compareIntReal_spec (i : Int) (hi : InInt64 i) (r : F64) (hr : KeyOK (.real r)) :
    compareIntReal i r = cmpD (exact i) r := by
  obtain ⟨⟨n, _, hn⟩, hnan⟩ := hr
  cases r with
  | nan => simp [isNaN] at hnan
  | inf b => cases b <;> simp [compareIntReal, F64.lt, F64.ge, cmp, cmpD, exact, ofIntLit]
  | fin s m x => exact compareIntReal_fin i hi s m x (ofBits_fin_bound n s m x hn.symm).1

theorem order_true (c : Int) : order true c = -c := by
  unfold order
  by_cases h : c = 0 <;> simp [h]

theorem order_false (c : Int) : order false c = c := by
  unfold order; simp

/-- the comparison the tree uses between two keys -/
def ordV (a b : Val) : Option Int := keyOrder a.toSQLite (some b.toSQLite)

theorem ordV_int_int (i j : Int) : ordV (.int i) (.int j) = some (cmpInt i j) := by
  simp [ordV, keyOrder, orderType, typeIndex, Val.toSQLite, order_false, cmpInt]
  by_cases h1 : i < j <;> by_cases h2 : j < i <;> simp [h1, h2]

theorem ordV_int_real (i : Int) (r : F64) : ordV (.int i) (.real r) = some (compareIntReal i r) := by
  simp [ordV, keyOrder, orderType, typeIndex, Val.toSQLite, order_false]

theorem ordV_real_int (i : Int) (r : F64) :
    ordV (.real r) (.int i) = some (- compareIntReal i r) := by
  simp [ordV, keyOrder, orderType, typeIndex, Val.toSQLite, order_true]

theorem ordV_real_real (r s : F64) (hr : r.isNaN = false) (hs : s.isNaN = false) :
    ordV (.real r) (.real s) = some (cmpD r s) := by
  have h := ladder_eq r s (cmpD r s) (cmp_eq_some_cmpD r s hr hs) (cmpD_range r s)
  simp only [ordV, keyOrder, orderType, typeIndex, Val.toSQLite]
  simp
  rw [← h]
  by_cases h1 : r.lt s = true <;> by_cases h2 : r.gt s = true <;> simp [h1, h2, order_false]

theorem ordV_text_text (s t : Bytes) : ordV (.text s) (.text t) = some (Bytes.cmp s t) := by
  simp only [ordV, keyOrder, orderType, typeIndex, Val.toSQLite, Bytes.lt]
  simp
  rw [Bytes.cmp_antisymm t s]
  rcases Bytes.cmp_range s t with h | h | h <;> simp [h, order_false]

theorem ordV_blob_blob (s t : Bytes) : ordV (.blob s) (.blob t) = some (Bytes.cmp s t) := by
  simp [ordV, keyOrder, orderType, typeIndex, Val.toSQLite, order_false]

theorem ordV_null_left (b : Val) : ordV .null b = none := by
  cases b <;> simp [ordV, keyOrder, orderType, typeIndex, Val.toSQLite]

theorem ordV_null_right (a : Val) : ordV a .null = none := by
  cases a <;> simp [ordV, keyOrder, orderType, typeIndex, Val.toSQLite]

/-- different storage classes: ordered by rank -/
theorem ordV_rank (a b : Val) (ha : a ≠ .null) (hb : b ≠ .null) (h : a.rank ≠ b.rank) :
    ordV a b = some (if a.rank < b.rank then -1 else 1) := by
  cases a <;> cases b <;>
    simp_all [ordV, keyOrder, orderType, typeIndex, Val.toSQLite, order_false, order_true, Val.rank]

/-! ## the specification `sqliteCmp` is a total preorder -/

/-- the numeric value of an INTEGER or REAL key, as an exact binary value -/
def Val.num : Val → F64
  | .int i => exact i
  | .real r => r
  | _ => .nan

theorem Val.num_notNaN (a : Val) (ha : KeyOK a) (hr : a.rank = 1) : a.num.isNaN = false := by
  cases a <;> simp_all [Val.rank, Val.num, KeyOK, exact, isNaN]

theorem cmpD_exact (i j : Int) : cmpD (exact i) (exact j) = cmpInt i j := by
  unfold exact
  rw [cmpD_fin_at _ _ _ _ _ _ 0 (by omega) (by omega), scaled_self, scaled_self,
      signed_exact, signed_exact]

theorem sqliteCmp_num (a b : Val) (ha : a.rank = 1) (hb : b.rank = 1) :
    sqliteCmp a b = cmpD a.num b.num := by
  cases a <;> cases b <;> simp_all [Val.rank, Val.num, sqliteCmp, cmpD]
  rw [← cmpD_exact]; rfl

theorem sqliteCmp_rank (a b : Val) (h : a.rank ≠ b.rank) :
    sqliteCmp a b = if a.rank < b.rank then -1 else 1 := by
  cases a <;> cases b <;> simp_all [Val.rank, sqliteCmp]

theorem rank_pos (a : Val) (ha : KeyOK a) : 1 ≤ a.rank ∧ a.rank ≤ 3 := by
  cases a <;> simp_all [Val.rank, KeyOK]

theorem rank_two (a : Val) (h : a.rank = 2) : ∃ s, a = .text s := by
  cases a <;> simp_all [Val.rank]

theorem rank_three (a : Val) (h : a.rank = 3) : ∃ s, a = .blob s := by
  cases a <;> simp_all [Val.rank]

theorem sqliteCmp_text (s t : Bytes) : sqliteCmp (.text s) (.text t) = Bytes.cmp s t := rfl
theorem sqliteCmp_blob (s t : Bytes) : sqliteCmp (.blob s) (.blob t) = Bytes.cmp s t := rfl

theorem rank_le_of_sqliteCmp_le (a b : Val) (h : sqliteCmp a b ≤ 0) : a.rank ≤ b.rank := by
  by_cases hr : a.rank = b.rank
  · omega
  · rw [sqliteCmp_rank a b hr] at h
    by_cases h' : a.rank < b.rank
    · omega
    · simp [h'] at h

theorem rank_eq_of_sqliteCmp_zero (a b : Val) (h : sqliteCmp a b = 0) : a.rank = b.rank := by
  by_cases hr : a.rank = b.rank
  · exact hr
  · rw [sqliteCmp_rank a b hr] at h
    by_cases h' : a.rank < b.rank <;> simp [h'] at h

theorem sqliteCmp_range' (a b : Val) (ha : KeyOK a) (hb : KeyOK b) :
    sqliteCmp a b = -1 ∨ sqliteCmp a b = 0 ∨ sqliteCmp a b = 1 := by
  by_cases hr : a.rank = b.rank
  · have ra := rank_pos a ha
    have : a.rank = 1 ∨ a.rank = 2 ∨ a.rank = 3 := by omega
    rcases this with h | h | h
    · rw [sqliteCmp_num a b h (by omega)]; exact cmpD_range _ _
    · obtain ⟨s, rfl⟩ := rank_two a h
      obtain ⟨t, rfl⟩ := rank_two b (by omega)
      exact Bytes.cmp_range _ _
    · obtain ⟨s, rfl⟩ := rank_three a h
      obtain ⟨t, rfl⟩ := rank_three b (by omega)
      exact Bytes.cmp_range _ _
  · rw [sqliteCmp_rank a b hr]
    by_cases h' : a.rank < b.rank <;> simp [h']

theorem sqliteCmp_refl' (a : Val) (ha : KeyOK a) : sqliteCmp a a = 0 := by
  have ra := rank_pos a ha
  have : a.rank = 1 ∨ a.rank = 2 ∨ a.rank = 3 := by omega
  rcases this with h | h | h
  · rw [sqliteCmp_num a a h h]; exact cmpD_refl _
  · obtain ⟨s, rfl⟩ := rank_two a h
    exact Bytes.cmp_refl _
  · obtain ⟨s, rfl⟩ := rank_three a h
    exact Bytes.cmp_refl _

theorem sqliteCmp_antisymm' (a b : Val) (ha : KeyOK a) (hb : KeyOK b) :
    sqliteCmp a b = - sqliteCmp b a := by
  by_cases hr : a.rank = b.rank
  · have ra := rank_pos a ha
    have : a.rank = 1 ∨ a.rank = 2 ∨ a.rank = 3 := by omega
    rcases this with h | h | h
    · rw [sqliteCmp_num a b h (by omega), sqliteCmp_num b a (by omega) h]
      exact cmpD_antisymm _ _
    · obtain ⟨s, rfl⟩ := rank_two a h
      obtain ⟨t, rfl⟩ := rank_two b (by omega)
      exact Bytes.cmp_antisymm _ _
    · obtain ⟨s, rfl⟩ := rank_three a h
      obtain ⟨t, rfl⟩ := rank_three b (by omega)
      exact Bytes.cmp_antisymm _ _
  · rw [sqliteCmp_rank a b hr, sqliteCmp_rank b a (Ne.symm hr)]
    by_cases h1 : a.rank < b.rank <;> by_cases h2 : b.rank < a.rank <;> simp [h1, h2] <;> omega

theorem sqliteCmp_trans' (a b c : Val) (ha : KeyOK a) (hb : KeyOK b) (hc : KeyOK c)
    (h1 : sqliteCmp a b ≤ 0) (h2 : sqliteCmp b c ≤ 0) : sqliteCmp a c ≤ 0 ∧
      (sqliteCmp a c = 0 → sqliteCmp a b = 0 ∧ sqliteCmp b c = 0) := by
  have r1 := rank_le_of_sqliteCmp_le a b h1
  have r2 := rank_le_of_sqliteCmp_le b c h2
  by_cases hr : a.rank = c.rank
  · have ra := rank_pos a ha
    have : a.rank = 1 ∨ a.rank = 2 ∨ a.rank = 3 := by omega
    rcases this with h | h | h
    · have hb1 : b.rank = 1 := by omega
      have hc1 : c.rank = 1 := by omega
      rw [sqliteCmp_num a b h hb1] at h1 ⊢
      rw [sqliteCmp_num b c hb1 hc1] at h2 ⊢
      rw [sqliteCmp_num a c h hc1]
      exact cmpD_trans _ _ _ (Val.num_notNaN a ha h) (Val.num_notNaN b hb hb1)
        (Val.num_notNaN c hc hc1) h1 h2
    · obtain ⟨s, rfl⟩ := rank_two a h
      obtain ⟨t, rfl⟩ := rank_two b (by omega)
      obtain ⟨u, rfl⟩ := rank_two c (by omega)
      exact Bytes.cmp_trans _ _ _ h1 h2
    · obtain ⟨s, rfl⟩ := rank_three a h
      obtain ⟨t, rfl⟩ := rank_three b (by omega)
      obtain ⟨u, rfl⟩ := rank_three c (by omega)
      exact Bytes.cmp_trans _ _ _ h1 h2
  · have hlt : a.rank < c.rank := by omega
    rw [sqliteCmp_rank a c hr]
    simp [hlt]

theorem sqliteCmp_eq_zero' (a b : Val) (_ : KeyOK a) (_ : KeyOK b) (h : sqliteCmp a b = 0) :
    a.rank = b.rank ∧
    (∀ i j, a = .int i → b = .int j → i = j) ∧
    (∀ s t, a = .text s → b = .text t → s = t) ∧
    (∀ s t, a = .blob s → b = .blob t → s = t) := by
  refine ⟨rank_eq_of_sqliteCmp_zero a b h, ?_, ?_, ?_⟩
  · rintro i j rfl rfl
    exact (cmpInt_eq_zero i j).1 h
  · rintro s t rfl rfl
    exact (Bytes.cmp_eq_zero s t).1 h
  · rintro s t rfl rfl
    exact (Bytes.cmp_eq_zero s t).1 h

/-! ## the generated order is the specification -/

theorem ordV_eq_sqliteCmp (a b : Val) (ha : KeyOK a) (hb : KeyOK b) :
    ordV a b = some (sqliteCmp a b) := by
  by_cases hr : a.rank = b.rank
  · cases a with
    | null => exact absurd ha (by simp [KeyOK])
    | int i =>
      cases b with
      | int j => exact ordV_int_int i j
      | real r => rw [ordV_int_real, compareIntReal_spec i ha r hb]; rfl
      | _ => simp [Val.rank] at hr
    | real r =>
      cases b with
      | int j =>
        rw [ordV_real_int, compareIntReal_spec j hb r ha, ← cmpD_antisymm]; rfl
      | real s => rw [ordV_real_real r s ha.2 hb.2]; rfl
      | _ => simp [Val.rank] at hr
    | text s =>
      cases b with
      | text t => exact ordV_text_text s t
      | _ => simp [Val.rank] at hr
    | blob s =>
      cases b with
      | blob t => exact ordV_blob_blob s t
      | _ => simp [Val.rank] at hr
  · rw [sqliteCmp_rank a b hr]
    apply ordV_rank a b _ _ hr
    · rintro rfl; exact ha
    · rintro rfl; exact hb

end S3db
