import S3db.Model.Vacuum
/-!
# The depth-first deletion order is closed at every prefix (F93)

Helper lemmas for `C09.deletion_order_prefix_closed`.  Core Lean only.
-/
namespace S3db.Vacuum

variable (g : VGraph) (chosen : List Nat)

theorem good_mem {l : List Nat} (h : Good g chosen l) {c : Nat} (hc : c ∈ l) {p : Nat}
    (hp : p ∈ g.parents c) (hpc : p ∈ chosen) : p ∈ l := by
  induction l with
  | nil => cases hc
  | cons a older ih =>
    obtain ⟨ha, hold⟩ := h
    rcases List.mem_cons.mp hc with rfl | hc
    · exact List.mem_cons_of_mem _ (ha p hp hpc)
    · exact List.mem_cons_of_mem _ (ih hold hc)

theorem good_suffix {a b : List Nat} (h : Good g chosen (a ++ b)) : Good g chosen b := by
  induction a with
  | nil => simpa using h
  | cons x a ih => exact ih h.2

/-- the walk only ever adds in front -/
theorem visitFirst_extends (fuel : Nat) : ∀ (acc : List Nat) (v : Nat),
    ∃ ext, visitFirst g chosen fuel acc v = ext ++ acc := by
  induction fuel with
  | zero =>
    intro acc v
    unfold visitFirst
    split
    · exact ⟨[], rfl⟩
    · exact ⟨[v], rfl⟩
  | succ fuel ih =>
    intro acc v
    have hfold : ∀ (ps : List Nat) (acc : List Nat), ∃ ext, ps.foldl (visitFirst g chosen fuel) acc = ext ++ acc := by
      intro ps
      induction ps with
      | nil => intro acc; exact ⟨[], rfl⟩
      | cons p ps ihp =>
        intro acc
        obtain ⟨e1, h1⟩ := ih acc p
        obtain ⟨e2, h2⟩ := ihp (visitFirst g chosen fuel acc p)
        exact ⟨e2 ++ e1, by rw [List.foldl_cons, h2, h1, List.append_assoc]⟩
    unfold visitFirst
    split
    · exact ⟨[], rfl⟩
    · obtain ⟨e, he⟩ := hfold ((g.parents v).filter chosen.contains) acc
      simp only
      split
      · exact ⟨e, he⟩
      · exact ⟨v :: e, by rw [he]; rfl⟩

theorem visitFirst_mem_self (fuel : Nat) (acc : List Nat) (v : Nat) :
    v ∈ visitFirst g chosen fuel acc v := by
  cases fuel with
  | zero =>
    unfold visitFirst
    split
    · rename_i h; simpa using h
    · exact List.mem_cons_self
  | succ fuel =>
    unfold visitFirst
    split
    · rename_i h; simpa using h
    · simp only
      split
      · rename_i h; simpa using h
      · exact List.mem_cons_self

theorem foldl_keeps (fuel : Nat) (ps : List Nat) (acc : List Nat) (x : Nat) (hx : x ∈ acc) :
    x ∈ ps.foldl (visitFirst g chosen fuel) acc := by
  induction ps generalizing acc with
  | nil => exact hx
  | cons p ps ih =>
    simp only [List.foldl_cons]
    apply ih
    obtain ⟨e, he⟩ := visitFirst_extends g chosen fuel acc p
    rw [he]; exact List.mem_append_right _ hx

theorem foldl_mem (fuel : Nat) (ps : List Nat) (acc : List Nat) (p : Nat) (hp : p ∈ ps) :
    p ∈ ps.foldl (visitFirst g chosen fuel) acc := by
  induction ps generalizing acc with
  | nil => cases hp
  | cons q ps ih =>
    simp only [List.foldl_cons]
    rcases List.mem_cons.mp hp with rfl | hp
    · exact foldl_keeps g chosen fuel ps _ p (visitFirst_mem_self g chosen fuel acc p)
    · exact ih _ hp

/-- the invariant is kept by a visit with enough fuel; `rank` witnesses that the graph has no
    cycles (a version's parents rank below it) -/
theorem visitFirst_good (rank : Nat → Nat) (hrank : ∀ c p, p ∈ g.parents c → rank p < rank c)
    (fuel : Nat) : ∀ (acc : List Nat) (v : Nat), rank v ≤ fuel → Good g chosen acc →
      Good g chosen (visitFirst g chosen fuel acc v) := by
  induction fuel with
  | zero =>
    intro acc v hv hg
    unfold visitFirst
    split
    · exact hg
    · refine ⟨fun p hp _ => ?_, hg⟩
      have := hrank v p hp
      omega
  | succ fuel ih =>
    intro acc v hv hg
    have hfold : ∀ (ps : List Nat), (∀ p, p ∈ ps → p ∈ g.parents v) → ∀ (acc : List Nat), Good g chosen acc →
        Good g chosen (ps.foldl (visitFirst g chosen fuel) acc) := by
      intro ps
      induction ps with
      | nil => intro _ acc h; exact h
      | cons p ps ihp =>
        intro hps acc h
        simp only [List.foldl_cons]
        apply ihp (fun q hq => hps q (List.mem_cons_of_mem _ hq))
        apply ih acc p _ h
        have := hrank v p (hps p List.mem_cons_self)
        omega
    unfold visitFirst
    split
    · exact hg
    · simp only
      have hps : ∀ p, p ∈ (g.parents v).filter chosen.contains → p ∈ g.parents v :=
        fun p hp => (List.mem_filter.mp hp).1
      have hg' := hfold _ hps acc hg
      split
      · exact hg'
      · refine ⟨fun p hp hpc => ?_, hg'⟩
        apply foldl_mem
        exact List.mem_filter.mpr ⟨hp, by simpa using hpc⟩

theorem foldl_visit_good (rank : Nat → Nat) (hrank : ∀ c p, p ∈ g.parents c → rank p < rank c)
    (fuel : Nat) (vs : List Nat) (hvs : ∀ v, v ∈ vs → rank v ≤ fuel) (acc : List Nat)
    (hg : Good g chosen acc) : Good g chosen (vs.foldl (visitFirst g chosen fuel) acc) := by
  induction vs generalizing acc with
  | nil => exact hg
  | cons v vs ih =>
    simp only [List.foldl_cons]
    exact ih (fun w hw => hvs w (List.mem_cons_of_mem _ hw)) _
      (visitFirst_good g chosen rank hrank fuel acc v (hvs v List.mem_cons_self) hg)

/-- only chosen versions are emitted -/
theorem visitFirst_sub (fuel : Nat) : ∀ (acc : List Nat) (v : Nat), v ∈ chosen → (∀ x, x ∈ acc → x ∈ chosen) →
    ∀ x, x ∈ visitFirst g chosen fuel acc v → x ∈ chosen := by
  induction fuel with
  | zero =>
    intro acc v hv hacc x hx
    unfold visitFirst at hx
    split at hx
    · exact hacc x hx
    · rcases List.mem_cons.mp hx with rfl | hx
      · exact hv
      · exact hacc x hx
  | succ fuel ih =>
    intro acc v hv hacc x hx
    have hfold : ∀ (ps : List Nat), (∀ p, p ∈ ps → p ∈ chosen) → ∀ (acc : List Nat), (∀ x, x ∈ acc → x ∈ chosen) →
        ∀ x, x ∈ ps.foldl (visitFirst g chosen fuel) acc → x ∈ chosen := by
      intro ps
      induction ps with
      | nil => intro _ acc h x hx; exact h x hx
      | cons p ps ihp =>
        intro hps acc h
        simp only [List.foldl_cons]
        exact ihp (fun q hq => hps q (List.mem_cons_of_mem _ hq)) _
          (ih acc p (hps p List.mem_cons_self) h)
    have hps : ∀ p, p ∈ (g.parents v).filter chosen.contains → p ∈ chosen :=
      fun p hp => by simpa using (List.mem_filter.mp hp).2
    unfold visitFirst at hx
    split at hx
    · exact hacc x hx
    · simp only at hx
      split at hx
      · exact hfold _ hps acc hacc x hx
      · rcases List.mem_cons.mp hx with rfl | hx
        · exact hv
        · exact hfold _ hps acc hacc x hx

theorem foldl_visit_sub (fuel : Nat) (vs : List Nat) (hvs : ∀ v, v ∈ vs → v ∈ chosen) (acc : List Nat)
    (hacc : ∀ x, x ∈ acc → x ∈ chosen) : ∀ x, x ∈ vs.foldl (visitFirst g chosen fuel) acc → x ∈ chosen := by
  induction vs generalizing acc with
  | nil => exact hacc
  | cons v vs ih =>
    simp only [List.foldl_cons]
    exact ih (fun w hw => hvs w (List.mem_cons_of_mem _ hw)) _
      (visitFirst_sub g chosen fuel acc v (hvs v List.mem_cons_self) hacc)

/-- a good list, reversed, is closed at every prefix -/
theorem prefixClosed_of_good {l : List Nat} (h : Good g chosen l) : PrefixClosed g chosen l.reverse := by
  intro done todo hsplit c hc p hp hpc
  have hl : l = todo.reverse ++ done.reverse := by
    have := congrArg List.reverse hsplit
    simpa using this
  rw [hl] at h
  have hd := good_suffix g chosen h
  have := good_mem g chosen hd (List.mem_reverse.mpr hc) hp hpc
  exact List.mem_reverse.mp this

end S3db.Vacuum
