import S3db.Model.Row
import S3db.Model.Table
import S3db.Lemmas.Sel
import S3db.Lemmas.KvMerge
/-!
# Helper lemmas: under `RowInv` the row merge is a component-wise *selection*

A row is a status cell `(dut, deleted)` plus one optional cell per column.  `MergeRows` picks the
status with the later time and, per column, the assignment with the later time; the "reset" that
hides values older than a re-insert never hides anything on rows that satisfy `RowInv`
(every column of a live row was assigned at or after the row's insert time — which every SQL
INSERT establishes because it assigns every column).
-/
namespace S3db.Row
open S3db S3db.AList

variable {V : Type}

theorem lookup_mergeCols (reset : Option Int) (c1 c2 : AList String (ACol V)) (k : String) :
    lookup k (mergeCols reset c1 c2) = mergeCol reset (lookup k c1) (lookup k c2) := by
  sorry

/-- the status cell of a row -/
structure Status where
  dut : Int
  deleted : Bool
deriving DecidableEq, Repr

def ARow.status (r : ARow V) : Status := ⟨r.dut, r.deleted⟩

/-- later time wins; on a tie the second argument -/
def selStatus (x y : Status) : Status := if ¬ (x.dut > y.dut) then y else x
/-- "distinct times": two different statuses never carry the same time -/
def StatusR (x y : Status) : Prop := x.dut = y.dut → x = y

theorem statusLaws : Sel.Laws selStatus StatusR := by
  sorry

def selCol (x y : ACol V) : ACol V := if ¬ (y.t < x.t) then y else x
def ColR (x y : ACol V) : Prop := x.t = y.t → x = y

theorem colLaws : Sel.Laws (selCol (V := V)) ColR := by
  sorry

/-- the invariant of rows written through SQL, for the declared non-key columns `S` -/
def RowInv (S : List String) (r : ARow V) : Prop :=
  (∀ c, lookup c r.cols ≠ none → c ∈ S) ∧
  (r.deleted = false → ∀ c ∈ S, ∃ x, lookup c r.cols = some x ∧ r.dut ≤ x.t)

theorem mergeRows_status (r1 r2 : ARow V) :
    (mergeRows r1 r2).status = selStatus r1.status r2.status := by
  sorry

theorem mergeRows_col (S : List String) (r1 r2 : ARow V) (h1 : RowInv S r1) (h2 : RowInv S r2) (c : String) :
    lookup c (mergeRows r1 r2).cols = Sel.selOpt selCol (lookup c r1.cols) (lookup c r2.cols) := by
  sorry

theorem rowInv_mergeRows (S : List String) (r1 r2 : ARow V) (h1 : RowInv S r1) (h2 : RowInv S r2) :
    RowInv S (mergeRows r1 r2) := by
  sorry

/-- without the invariant `MergeRows` is *not* associative: a hand-built triple (not reachable
    through SQL) on which grouping changes the visible columns -/
theorem mergeRows_not_assoc_without_inv :
    ∃ x y z : ARow Nat, ∃ c : String,
      lookup c (mergeRows (mergeRows x y) z).cols ≠ lookup c (mergeRows x (mergeRows y z)).cols := by
  sorry

end S3db.Row

namespace S3db.Row
open S3db S3db.AList
variable {V : Type}

/-- when nothing is hidden (no re-insert over a delete) the columns merge cell-wise, invariant or not -/
theorem mergeRows_col_nohide (r1 r2 : ARow V) (h : (status r1 r2).2.2 = none) (c : String) :
    lookup c (mergeRows r1 r2).cols = Sel.selOpt selCol (lookup c r1.cols) (lookup c r2.cols) := by
  sorry

theorem lookup_stamp (when : Int) (vals : AList String V) (c : String) :
    lookup c (Table.stamp when vals) = (lookup c vals).map fun v => ({ v := v, t := when } : ACol V) := by
  sorry

end S3db.Row
