import S3db.Model.Row
import S3db.Model.Table
import S3db.Lemmas.Sel
import S3db.Lemmas.KvMerge
/-!
# Helper lemmas: under `RowInv` the row merge is a component-wise *selection*

A row is a status cell `(dut, deleted)` plus one optional cell per column.  `MergeRows` picks the
status with the later time and, per column, the assignment with the later time; the "reset" that
hides values older than a re-insert never hides anything on rows that satisfy `RowInv`
(every column of a live row was assigned at or after the row's insert time — which every SQL
INSERT establishes because it assigns every column).
-/
namespace S3db.Row
open S3db S3db.AList

variable {V : Type}

theorem mem_dedup (k : String) : ∀ ks : List String, k ∈ dedup ks ↔ k ∈ ks
  | [] => by simp [dedup]
  | a :: ks => by
    have ih := mem_dedup k ks
    unfold dedup
    by_cases h : a ∈ ks
    · simp only [h, if_true, List.mem_cons, ih]
      constructor
      · exact Or.inr
      · rintro (e | e)
        · subst e; exact h
        · exact e
    · simp only [h, if_false, List.mem_cons, ih]

/-- `lookup` in a list built by `filterMap` of a function of the key -/
theorem lookup_filterMap_key {W : Type} (f : String → Option W) (k : String) :
    ∀ ks : List String,
      lookup k (ks.filterMap fun k' => (f k').map fun c => (k', c)) = if k ∈ ks then f k else none
  | [] => by simp
  | a :: ks => by
    have ih := lookup_filterMap_key f k ks
    rw [List.filterMap_cons]
    cases hf : f a with
    | none =>
      simp only [Option.map_none, ih, List.mem_cons]
      by_cases h : k = a
      · subst h; simp [hf]
      · simp [h]
    | some w =>
      simp only [Option.map_some, lookup, List.mem_cons]
      by_cases h : a = k
      · subst h; simp [hf]
      · have h' : ¬ k = a := fun e => h e.symm
        simp [h, h', ih]

theorem mergeCol_none_none (reset : Option Int) : mergeCol (V := V) reset none none = none := rfl

theorem lookup_mergeCols (reset : Option Int) (c1 c2 : AList String (ACol V)) (k : String) :
    lookup k (mergeCols reset c1 c2) = mergeCol reset (lookup k c1) (lookup k c2) := by
  unfold mergeCols
  rw [lookup_filterMap_key (fun k => mergeCol reset (lookup k c1) (lookup k c2)) k]
  by_cases h : k ∈ dedup (keys c1 ++ keys c2)
  · simp [h]
  · simp only [h, if_false]
    rw [mem_dedup, List.mem_append, not_or] at h
    rw [lookup_eq_none_iff.2 h.1, lookup_eq_none_iff.2 h.2]
    rfl

/-- the status cell of a row -/
structure Status where
  dut : Int
  deleted : Bool
deriving DecidableEq, Repr

def ARow.status (r : ARow V) : Status := ⟨r.dut, r.deleted⟩

/-- later time wins; on a tie the second argument -/
def selStatus (x y : Status) : Status := if ¬ (x.dut > y.dut) then y else x
/-- "distinct times": two different statuses never carry the same time -/
def StatusR (x y : Status) : Prop := x.dut = y.dut → x = y

theorem statusLaws : Sel.Laws selStatus StatusR where
  pick x y := by unfold selStatus; split <;> simp
  comm x y h := by
    unfold selStatus
    by_cases h1 : x.dut > y.dut <;> by_cases h2 : y.dut > x.dut <;>
      simp only [h1, h2, not_true, not_false_iff, if_true, if_false]
    · exfalso; omega
    · exact (h (by omega)).symm
  assoc x y z _ _ _ := by
    unfold selStatus
    by_cases h1 : x.dut > y.dut <;> by_cases h2 : y.dut > z.dut <;> by_cases h3 : x.dut > z.dut <;>
      simp only [h1, h2, h3, not_true, not_false_iff, if_true, if_false] <;>
      (exfalso; omega)

def selCol (x y : ACol V) : ACol V := if ¬ (y.t < x.t) then y else x
def ColR (x y : ACol V) : Prop := x.t = y.t → x = y

theorem colLaws : Sel.Laws (selCol (V := V)) ColR where
  pick x y := by unfold selCol; split <;> simp
  comm x y h := by
    unfold selCol
    by_cases h1 : y.t < x.t <;> by_cases h2 : x.t < y.t <;>
      simp only [h1, h2, not_true, not_false_iff, if_true, if_false]
    · exfalso; omega
    · exact (h (by omega)).symm
  assoc x y z _ _ _ := by
    unfold selCol
    by_cases h1 : y.t < x.t <;> by_cases h2 : z.t < y.t <;> by_cases h3 : z.t < x.t <;>
      simp only [h1, h2, h3, not_true, not_false_iff, if_true, if_false] <;>
      (exfalso; omega)

/-- the invariant of rows written through SQL, for the declared non-key columns `S` -/
def RowInv (S : List String) (r : ARow V) : Prop :=
  (∀ c, lookup c r.cols ≠ none → c ∈ S) ∧
  (r.deleted = false → ∀ c ∈ S, ∃ x, lookup c r.cols = some x ∧ r.dut ≤ x.t)

theorem mergeRows_cols (r1 r2 : ARow V) :
    (mergeRows r1 r2).cols = mergeCols (status r1 r2).2.2 r1.cols r2.cols := rfl
theorem mergeRows_deleted (r1 r2 : ARow V) :
    (mergeRows r1 r2).deleted = if r1.dut > r2.dut then r1.deleted else r2.deleted := by
  unfold mergeRows status; by_cases h : r1.dut > r2.dut <;> simp [h]
theorem mergeRows_dut (r1 r2 : ARow V) :
    (mergeRows r1 r2).dut = if r1.dut > r2.dut then r1.dut else r2.dut := by
  unfold mergeRows status; by_cases h : r1.dut > r2.dut <;> simp [h]

theorem mergeRows_status (r1 r2 : ARow V) :
    (mergeRows r1 r2).status = selStatus r1.status r2.status := by
  unfold ARow.status selStatus
  rw [mergeRows_deleted, mergeRows_dut]
  by_cases h : r1.dut > r2.dut <;> simp [h]

/-- a reset time only arises when the winner of the status is live, and then it is the winner's
    insert time -/
theorem status_reset_some {r1 r2 : ARow V} {d : Int} (h : (status r1 r2).2.2 = some d) :
    (r2.deleted = false ∧ r2.dut = d ∧ ¬ r1.dut > r2.dut) ∨
    (r1.deleted = false ∧ r1.dut = d ∧ r1.dut > r2.dut) := by
  unfold status at h
  by_cases h0 : r1.dut > r2.dut
  · right
    simp only [h0, not_true, if_false] at h
    cases h1 : r1.deleted <;> cases h2 : r2.deleted <;> simp [h1, h2] at h
    exact ⟨rfl, h, h0⟩
  · left
    simp only [h0, not_false_iff, if_true] at h
    cases h1 : r1.deleted <;> cases h2 : r2.deleted <;> simp [h1, h2] at h
    exact ⟨rfl, h, h0⟩

theorem selCol_t_ge_left (x y : ACol V) : x.t ≤ (selCol x y).t := by
  unfold selCol; split <;> omega
theorem selCol_t_ge_right (x y : ACol V) : y.t ≤ (selCol x y).t := by
  unfold selCol; split <;> omega

theorem selOptCol_ge_left {x w : ACol V} {b : Option (ACol V)}
    (h : Sel.selOpt selCol (some x) b = some w) : x.t ≤ w.t := by
  cases b with
  | none => simp at h; subst h; exact Int.le_refl _
  | some y => simp at h; subst h; exact selCol_t_ge_left x y
theorem selOptCol_ge_right {y w : ACol V} {a : Option (ACol V)}
    (h : Sel.selOpt selCol a (some y) = some w) : y.t ≤ w.t := by
  cases a with
  | none => simp at h; subst h; exact Int.le_refl _
  | some x => simp at h; subst h; exact selCol_t_ge_right x y

theorem mergeCol_none (a b : Option (ACol V)) : mergeCol none a b = Sel.selOpt selCol a b := by
  cases a <;> cases b <;> simp [mergeCol, keep, hide, Sel.selOpt, selCol]
  split <;> rfl

/-- a reset time that is not later than the selected cell hides nothing -/
theorem mergeCol_some_of_ge (d : Int) (a b : Option (ACol V))
    (h : ∀ w, Sel.selOpt selCol a b = some w → d ≤ w.t) :
    mergeCol (some d) a b = Sel.selOpt selCol a b := by
  cases a with
  | none =>
    cases b with
    | none => rfl
    | some y =>
      have := h y (by simp)
      have hn : ¬ y.t < d := by omega
      simp [mergeCol, keep, hide, hn]
  | some x =>
    cases b with
    | none =>
      have := h x (by simp)
      have hn : ¬ x.t < d := by omega
      simp [mergeCol, keep, hide, hn]
    | some y =>
      have := h (selCol x y) (by simp)
      unfold selCol at this
      simp only [mergeCol, keep, hide, Sel.selOpt_some, selCol]
      by_cases hyx : y.t < x.t
      · simp only [hyx, not_true, if_false] at this ⊢
        have hn : ¬ x.t < d := by omega
        simp [hn]
      · simp only [hyx, not_false_iff, if_true] at this ⊢
        have hn : ¬ y.t < d := by omega
        simp [hn]

/-- when nothing is hidden (no re-insert over a delete) the columns merge cell-wise, invariant or not -/
theorem mergeRows_col_nohide (r1 r2 : ARow V) (h : (status r1 r2).2.2 = none) (c : String) :
    lookup c (mergeRows r1 r2).cols = Sel.selOpt selCol (lookup c r1.cols) (lookup c r2.cols) := by
  rw [mergeRows_cols, lookup_mergeCols, h, mergeCol_none]

theorem selOpt_ne_none_mem {S : List String} {r1 r2 : ARow V} (h1 : RowInv S r1) (h2 : RowInv S r2)
    {c : String} (h : Sel.selOpt selCol (lookup c r1.cols) (lookup c r2.cols) ≠ none) : c ∈ S := by
  by_cases e1 : lookup c r1.cols = none
  · by_cases e2 : lookup c r2.cols = none
    · rw [e1, e2] at h; exact absurd rfl h
    · exact h2.1 c e2
  · exact h1.1 c e1

theorem mergeRows_col (S : List String) (r1 r2 : ARow V) (h1 : RowInv S r1) (h2 : RowInv S r2) (c : String) :
    lookup c (mergeRows r1 r2).cols = Sel.selOpt selCol (lookup c r1.cols) (lookup c r2.cols) := by
  cases hs : (status r1 r2).2.2 with
  | none => exact mergeRows_col_nohide r1 r2 hs c
  | some d =>
    rw [mergeRows_cols, lookup_mergeCols, hs]
    apply mergeCol_some_of_ge
    intro w hw
    have hc : c ∈ S := selOpt_ne_none_mem h1 h2 (by rw [hw]; simp)
    rcases status_reset_some hs with ⟨hl, hd, _⟩ | ⟨hl, hd, _⟩
    · obtain ⟨x, hx, hle⟩ := h2.2 hl c hc
      rw [hx] at hw
      have := selOptCol_ge_right hw
      omega
    · obtain ⟨x, hx, hle⟩ := h1.2 hl c hc
      rw [hx] at hw
      have := selOptCol_ge_left hw
      omega

theorem rowInv_mergeRows (S : List String) (r1 r2 : ARow V) (h1 : RowInv S r1) (h2 : RowInv S r2) :
    RowInv S (mergeRows r1 r2) := by
  constructor
  · intro c hne
    rw [mergeRows_col S r1 r2 h1 h2] at hne
    exact selOpt_ne_none_mem h1 h2 hne
  · intro hl c hc
    rw [mergeRows_col S r1 r2 h1 h2, mergeRows_dut]
    rw [mergeRows_deleted] at hl
    by_cases h : r1.dut > r2.dut
    · simp only [h, if_true] at hl ⊢
      obtain ⟨x, hx, hle⟩ := h1.2 hl c hc
      rw [hx]
      cases hy : lookup c r2.cols with
      | none => exact ⟨x, rfl, hle⟩
      | some y => exact ⟨selCol x y, rfl, Int.le_trans hle (selCol_t_ge_left x y)⟩
    · simp only [h, if_false] at hl ⊢
      obtain ⟨y, hy, hle⟩ := h2.2 hl c hc
      rw [hy]
      cases hx : lookup c r1.cols with
      | none => exact ⟨y, rfl, hle⟩
      | some x => exact ⟨selCol x y, rfl, Int.le_trans hle (selCol_t_ge_right x y)⟩

/-- without the invariant `MergeRows` is *not* associative: a hand-built triple (not reachable
    through SQL) on which grouping changes the visible columns -/
theorem mergeRows_not_assoc_without_inv :
    ∃ x y z : ARow Nat, ∃ c : String,
      lookup c (mergeRows (mergeRows x y) z).cols ≠ lookup c (mergeRows x (mergeRows y z)).cols := by
  refine ⟨{ deleted := true, dut := 5, cols := [] },
          { deleted := false, dut := 10, cols := [("b", ⟨1, 12⟩)] },
          { deleted := false, dut := 20, cols := [] }, "b", ?_⟩
  decide

/-- a cell that survives a selection is not older than the one it was selected against -/
theorem selStatus_eq_left_le {r y : Status} (h : selStatus r y = r) : y.dut ≤ r.dut := by
  unfold selStatus at h
  by_cases h0 : r.dut > y.dut
  · omega
  · simp only [h0, not_false_iff, if_true] at h; subst h; exact Int.le_refl _

theorem selCol_eq_left_le {r y : ACol V} (h : selCol r y = r) : y.t ≤ r.t := by
  unfold selCol at h
  by_cases h0 : y.t < r.t
  · omega
  · simp only [h0, not_false_iff, if_true] at h; subst h; exact Int.le_refl _

/-- a cell with an older time loses -/
theorem selStatus_of_lt {x y : Status} (h : y.dut < x.dut) : selStatus x y = x := by
  unfold selStatus
  have : x.dut > y.dut := h
  simp [this]

theorem selCol_of_lt {x y : ACol V} (h : y.t < x.t) : selCol x y = x := by
  unfold selCol; simp [h]

/-- a checker for `RowInv` on concrete rows -/
def rowInvB (S : List String) (r : ARow V) : Bool :=
  (keys r.cols).all (fun c => decide (c ∈ S)) &&
  (r.deleted || S.all fun c =>
    match lookup c r.cols with
    | some x => decide (r.dut ≤ x.t)
    | none => false)

theorem rowInv_of_rowInvB {S : List String} {r : ARow V} (h : rowInvB S r = true) : RowInv S r := by
  unfold rowInvB at h
  simp only [Bool.and_eq_true, Bool.or_eq_true, List.all_eq_true, decide_eq_true_eq] at h
  obtain ⟨h1, h2⟩ := h
  constructor
  · intro c hne
    apply h1
    apply Classical.byContradiction
    intro hn
    exact hne (lookup_eq_none_iff.2 hn)
  · intro hl c hc
    rcases h2 with h2 | h2
    · rw [hl] at h2; cases h2
    · have := h2 c hc
      cases hx : lookup c r.cols with
      | none => rw [hx] at this; cases this
      | some x =>
        rw [hx] at this
        exact ⟨x, rfl, by simpa using this⟩

theorem lookup_stamp (when : Int) (vals : AList String V) (c : String) :
    lookup c (Table.stamp when vals) = (lookup c vals).map fun v => ({ v := v, t := when } : ACol V) := by
  induction vals with
  | nil => rfl
  | cons p vals ih =>
    obtain ⟨a, b⟩ := p
    unfold Table.stamp at ih ⊢
    simp only [List.map_cons, lookup]
    by_cases h : a = c
    · simp [h]
    · simp [h, ih]

end S3db.Row
