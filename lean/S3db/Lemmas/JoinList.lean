import S3db.Model.Proto
/-!
# Helper lemmas for C04

* joins over lists for an associative, commutative, idempotent `join` with unit `bot`
  (`foldl join bot` depends only on the set of elements; proved through the induced order);
* what a prefix of the request list `putNodes n :: putCur n :: retire…` does to a bucket.

Core Lean only.
-/
namespace S3db.JoinList
open S3db.Proto

/-! ## joins over lists -/

structure Laws {C : Type} (join : C → C → C) (bot : C) : Prop where
  assoc : ∀ a b c, join (join a b) c = join a (join b c)
  comm : ∀ a b, join a b = join b a
  idem : ∀ a, join a a = a
  bot_left : ∀ a, join bot a = a

section Join
variable {C : Type} {join : C → C → C} {bot : C}

/-- the join of a list (same unfolding as `C04.joinAll`) -/
def jall (join : C → C → C) (bot : C) (xs : List C) : C := xs.foldl join bot

/-- the order induced by the join -/
def Le (join : C → C → C) (a b : C) : Prop := join a b = b

theorem Laws.bot_right (L : Laws join bot) (a : C) : join a bot = a := by
  rw [L.comm, L.bot_left]

theorem foldl_init (L : Laws join bot) (xs : List C) (a : C) :
    xs.foldl join a = join a (xs.foldl join bot) := by
  induction xs generalizing a with
  | nil => simp [L.bot_right]
  | cons x xs ih =>
    simp only [List.foldl_cons]
    rw [ih (join a x), ih (join bot x), L.bot_left, L.assoc]

theorem jall_nil : jall join bot [] = bot := rfl

theorem jall_cons (L : Laws join bot) (x : C) (xs : List C) :
    jall join bot (x :: xs) = join x (jall join bot xs) := by
  simp only [jall, List.foldl_cons]
  rw [foldl_init L, L.bot_left]

theorem Le.refl (L : Laws join bot) (a : C) : Le join a a := L.idem a

theorem Le.trans (L : Laws join bot) {a b c : C} (h1 : Le join a b) (h2 : Le join b c) :
    Le join a c := by
  unfold Le at *
  rw [← h2, ← L.assoc, h1]

theorem Le.antisymm (L : Laws join bot) {a b : C} (h1 : Le join a b) (h2 : Le join b a) : a = b := by
  unfold Le at *
  rw [← h2, L.comm, h1]

theorem Le.join_left (L : Laws join bot) (a b : C) : Le join a (join a b) := by
  unfold Le
  rw [← L.assoc, L.idem]

theorem Le.join_right (L : Laws join bot) (a b : C) : Le join b (join a b) := by
  unfold Le
  rw [L.comm a b, ← L.assoc, L.idem]

theorem Le.join_le (L : Laws join bot) {a b c : C} (h1 : Le join a c) (h2 : Le join b c) :
    Le join (join a b) c := by
  unfold Le at *
  rw [L.assoc, h2, h1]

theorem Le.bot_le (L : Laws join bot) (a : C) : Le join bot a := L.bot_left a

/-- every element is below the join of the list -/
theorem le_jall (L : Laws join bot) {x : C} {xs : List C} (h : x ∈ xs) : Le join x (jall join bot xs) := by
  induction xs with
  | nil => cases h
  | cons y ys ih =>
    rw [jall_cons L]
    rcases List.mem_cons.mp h with h | h
    · subst h; exact Le.join_left L _ _
    · exact Le.trans L (ih h) (Le.join_right L _ _)

/-- the join of the list is the least upper bound -/
theorem jall_le (L : Laws join bot) {u : C} {xs : List C} (h : ∀ x, x ∈ xs → Le join x u) :
    Le join (jall join bot xs) u := by
  induction xs with
  | nil => exact Le.bot_le L u
  | cons y ys ih =>
    rw [jall_cons L]
    exact Le.join_le L (h y (List.mem_cons_self ..)) (ih fun x hx => h x (List.mem_cons_of_mem _ hx))

/-- membership absorption -/
theorem jall_absorb (L : Laws join bot) {x : C} {xs : List C} (h : x ∈ xs) :
    join x (jall join bot xs) = jall join bot xs := le_jall L h

theorem jall_mono (L : Laws join bot) {xs ys : List C} (h : ∀ x, x ∈ xs → x ∈ ys) :
    Le join (jall join bot xs) (jall join bot ys) :=
  jall_le L fun x hx => le_jall L (h x hx)

/-- the join of a list depends only on its set of elements -/
theorem jall_congr (L : Laws join bot) {xs ys : List C} (h : ∀ x, x ∈ xs ↔ x ∈ ys) :
    jall join bot xs = jall join bot ys :=
  Le.antisymm L (jall_mono L fun x => (h x).mp) (jall_mono L fun x => (h x).mpr)

theorem jall_append (L : Laws join bot) (xs ys : List C) :
    jall join bot (xs ++ ys) = join (jall join bot xs) (jall join bot ys) := by
  induction xs with
  | nil => simp [jall_nil, L.bot_left]
  | cons x xs ih => rw [List.cons_append, jall_cons L, jall_cons L, ih, L.assoc]

end Join

/-! ## prefixes of a commit's request list -/

/-- `moveMergedRoots` for one parent, in the order the generated facts give -/
def retire (n p : Vid) : List Req := if n == p then [] else [.putMerged p, .delCur p]

/-- the request list of a commit, in the order the generated facts give -/
def reqs (n : Vid) (ps : List Vid) : List Req := .putNodes n :: .putCur n :: ps.flatMap (retire n)

theorem mem_addNew {v x : Vid} {xs : List Vid} : x ∈ addNew v xs ↔ x = v ∨ x ∈ xs := by
  unfold addNew
  split
  · constructor
    · exact Or.inr
    · rintro (h | h)
      · subst h; assumption
      · exact h
  · simp [or_comm]

theorem mem_retireAll {n : Vid} {ps : List Vid} {r : Req} (h : r ∈ ps.flatMap (retire n)) :
    ∃ p, p ∈ ps ∧ p ≠ n ∧ (r = .putMerged p ∨ r = .delCur p) := by
  rcases List.mem_flatMap.mp h with ⟨p, hp, hr⟩
  unfold retire at hr
  by_cases hnp : n = p
  · simp [hnp] at hr
  · have : (n == p) = false := by simpa using hnp
    simp only [this] at hr
    refine ⟨p, hp, fun e => hnp e.symm, ?_⟩
    simpa using hr

theorem take_reqs (n : Vid) (ps : List Vid) (k : Nat) :
    (k = 0 ∧ (reqs n ps).take k = []) ∨ (k = 1 ∧ (reqs n ps).take k = [.putNodes n]) ∨
    (2 ≤ k ∧ ∃ rs, (reqs n ps).take k = .putNodes n :: .putCur n :: rs ∧
        ∀ r, r ∈ rs → ∃ p, p ∈ ps ∧ p ≠ n ∧ (r = .putMerged p ∨ r = .delCur p)) := by
  match k with
  | 0 => exact Or.inl ⟨rfl, rfl⟩
  | 1 => exact Or.inr (Or.inl ⟨rfl, rfl⟩)
  | k + 2 =>
    refine Or.inr (Or.inr ⟨by omega, (ps.flatMap (retire n)).take k, rfl, fun r hr => ?_⟩)
    exact mem_retireAll (List.mem_of_mem_take hr)

theorem putCur_mem_take {n : Vid} {ps : List Vid} {k : Nat}
    (h : Req.putCur n ∈ (reqs n ps).take k) : 2 ≤ k := by
  rcases take_reqs n ps k with ⟨_, e⟩ | ⟨_, e⟩ | ⟨h2, _⟩
  · rw [e] at h; cases h
  · rw [e] at h; simp at h
  · exact h2

/-- the `root/current/` listing once the version PUT was served, while parents are being retired -/
structure After (cur0 : List Vid) (n : Vid) (ps : List Vid) (cur : List Vid) : Prop where
  new_mem : n ∈ cur
  sub : ∀ x, x ∈ cur → x = n ∨ x ∈ cur0
  kept : ∀ x, x ∈ cur0 → x ∈ cur ∨ x ∈ ps

theorem After.retire {cur0 : List Vid} {n : Vid} {ps : List Vid} (rs : List Req)
    (hrs : ∀ r, r ∈ rs → ∃ p, p ∈ ps ∧ p ≠ n ∧ (r = .putMerged p ∨ r = .delCur p))
    (b : Bucket) (h : After cur0 n ps b.current) :
    After cur0 n ps (rs.foldl Bucket.apply b).current := by
  induction rs generalizing b with
  | nil => exact h
  | cons r rs ih =>
    simp only [List.foldl_cons]
    apply ih (fun r' hr' => hrs r' (List.mem_cons_of_mem _ hr'))
    obtain ⟨p, hp, hpn, hr | hr⟩ := hrs r (List.mem_cons_self ..)
    · subst hr; exact h
    · subst hr
      simp only [Bucket.apply]
      refine ⟨?_, ?_, ?_⟩
      · simp [List.mem_filter, h.new_mem, Ne.symm hpn]
      · intro x hx
        exact h.sub x (List.mem_filter.mp hx).1
      · intro x hx
        by_cases hxp : x = p
        · subst hxp; exact Or.inr hp
        · rcases h.kept x hx with h1 | h1
          · exact Or.inl (by simp [List.mem_filter, h1, hxp])
          · exact Or.inr h1

/-- the `root/current/` listing after a crash that let `k` requests through -/
theorem crash_current (b : Bucket) (n : Vid) (ps : List Vid) (k : Nat) :
    (k < 2 ∧ (((reqs n ps).take k).foldl Bucket.apply b).current = b.current) ∨
    (2 ≤ k ∧ After b.current n ps (((reqs n ps).take k).foldl Bucket.apply b).current) := by
  rcases take_reqs n ps k with ⟨hk, e⟩ | ⟨hk, e⟩ | ⟨hk, rs, e, hrs⟩
  · exact Or.inl ⟨by omega, by rw [e]; rfl⟩
  · exact Or.inl ⟨by omega, by rw [e]; rfl⟩
  · refine Or.inr ⟨hk, ?_⟩
    rw [e]
    simp only [List.foldl_cons]
    apply After.retire rs hrs
    simp only [Bucket.apply]
    refine ⟨?_, ?_, ?_⟩
    · exact mem_addNew.mpr (Or.inl rfl)
    · intro x hx; exact mem_addNew.mp hx
    · intro x hx; exact Or.inl (mem_addNew.mpr (Or.inr hx))

/-- the view of a listing in the `After` shape is the old view joined with the transaction's `δ` -/
theorem After.view {C : Type} {join : C → C → C} {bot : C} (L : Laws join bot) (content : Vid → C)
    {cur0 : List Vid} {n : Vid} {ps : List Vid} {cur : List Vid} {δ : C}
    (hps : ∀ p, p ∈ ps → p ∈ cur0)
    (hcontent : content n = join (jall join bot (ps.map content)) δ)
    (h : After cur0 n ps cur) :
    jall join bot (cur.map content) = join (jall join bot (cur0.map content)) δ := by
  have hpsle : Le join (jall join bot (ps.map content)) (jall join bot (cur0.map content)) :=
    jall_mono L fun x hx => by
      obtain ⟨p, hp, rfl⟩ := List.mem_map.mp hx
      exact List.mem_map.mpr ⟨p, hps p hp, rfl⟩
  have hnle : Le join (content n) (jall join bot (cur.map content)) :=
    le_jall L (List.mem_map.mpr ⟨n, h.new_mem, rfl⟩)
  apply Le.antisymm L
  · apply jall_le L
    intro x hx
    obtain ⟨y, hy, rfl⟩ := List.mem_map.mp hx
    rcases h.sub y hy with rfl | hy0
    · rw [hcontent]
      exact Le.join_le L (Le.trans L hpsle (Le.join_left L _ _)) (Le.join_right L _ _)
    · exact Le.trans L (le_jall L (List.mem_map.mpr ⟨y, hy0, rfl⟩)) (Le.join_left L _ _)
  · apply Le.join_le L
    · apply jall_le L
      intro x hx
      obtain ⟨y, hy, rfl⟩ := List.mem_map.mp hx
      rcases h.kept y hy with h1 | h1
      · exact le_jall L (List.mem_map.mpr ⟨y, h1, rfl⟩)
      · refine Le.trans L ?_ hnle
        rw [hcontent]
        exact Le.trans L (le_jall L (List.mem_map.mpr ⟨y, h1, rfl⟩)) (Le.join_left L _ _)
    · refine Le.trans L ?_ hnle
      rw [hcontent]
      exact Le.join_right L _ _

/-- the view after a crash that let `k` requests through: unchanged before the version PUT,
    the old view joined with `δ` from then on -/
theorem crash_view {C : Type} {join : C → C → C} {bot : C} (L : Laws join bot) (content : Vid → C)
    (b : Bucket) (n : Vid) (ps : List Vid) (δ : C) (hps : ∀ p, p ∈ ps → p ∈ b.current)
    (hcontent : content n = join (jall join bot (ps.map content)) δ) (k : Nat) :
    (k < 2 ∧ jall join bot ((((reqs n ps).take k).foldl Bucket.apply b).current.map content) =
        jall join bot (b.current.map content)) ∨
    (2 ≤ k ∧ jall join bot ((((reqs n ps).take k).foldl Bucket.apply b).current.map content) =
        join (jall join bot (b.current.map content)) δ) := by
  rcases crash_current b n ps k with ⟨hk, e⟩ | ⟨hk, ha⟩
  · exact Or.inl ⟨hk, by rw [e]⟩
  · exact Or.inr ⟨hk, ha.view L content hps hcontent⟩

theorem join_absorb_new {C : Type} {join : C → C → C} {bot : C} (L : Laws join bot) (a δ : C) :
    join (join a δ) a = join a δ := by
  rw [L.comm, ← L.assoc, L.idem]

/-- listed versions have their nodes stored, at every crash point -/
theorem crash_nodes (b : Bucket) (n : Vid) (ps : List Vid) (k : Nat)
    (hb : ∀ v, v ∈ b.current → v ∈ b.nodes) :
    ∀ v, v ∈ (((reqs n ps).take k).foldl Bucket.apply b).current →
      v ∈ (((reqs n ps).take k).foldl Bucket.apply b).nodes := by
  have retire : ∀ (rs : List Req) (b : Bucket),
      (∀ r, r ∈ rs → ∃ p, p ∈ ps ∧ p ≠ n ∧ (r = .putMerged p ∨ r = .delCur p)) →
      (∀ v, v ∈ b.current → v ∈ b.nodes) →
      ∀ v, v ∈ (rs.foldl Bucket.apply b).current → v ∈ (rs.foldl Bucket.apply b).nodes := by
    intro rs
    induction rs with
    | nil => intro b _ hb; exact hb
    | cons r rs ih =>
      intro b hrs hb
      simp only [List.foldl_cons]
      apply ih _ (fun r' hr' => hrs r' (List.mem_cons_of_mem _ hr'))
      obtain ⟨p, _, _, hr | hr⟩ := hrs r (List.mem_cons_self ..)
      · subst hr; exact hb
      · subst hr
        intro v hv
        simp only [Bucket.apply] at hv ⊢
        exact hb v (List.mem_filter.mp hv).1
  rcases take_reqs n ps k with ⟨_, e⟩ | ⟨_, e⟩ | ⟨_, rs, e, hrs⟩
  · rw [e]; exact hb
  · rw [e]
    intro v hv
    simp only [List.foldl_cons, List.foldl_nil, Bucket.apply] at hv ⊢
    exact mem_addNew.mpr (Or.inr (hb v hv))
  · rw [e]
    simp only [List.foldl_cons]
    apply retire rs _ hrs
    intro v hv
    simp only [Bucket.apply] at hv ⊢
    rcases mem_addNew.mp hv with rfl | h
    · exact mem_addNew.mpr (Or.inl rfl)
    · exact mem_addNew.mpr (Or.inr (hb v h))

end S3db.JoinList
