import S3db.Lemmas.RowMerge
/-!
# Helper lemmas: the entry merge, the tree merge and the three statements, cell by cell

A stored entry is observed through its *cells*: the status `(dut, deleted)` of its row and one
optional cell per column.  `mergeEntry` (whatever order its `mod` comparison picks) and the three
SQL statements act on each cell as a `Sel.selOpt`.
-/
namespace S3db.Sel
variable {A : Type}

/-- the results of two plans are leaves' cells, hence related -/
theorem evalAt_rel {sel : A → A → A} {R : A → A → Prop} (L : Laws sel R) {v : Nat → Option A}
    (hR : ∀ i j x y, v i = some x → v j = some y → R x y) (p q : Plan) {a b : A}
    (ha : evalAt sel v p = some a) (hb : evalAt sel v q = some b) : R a b := by
  obtain ⟨⟨i, _, hi⟩, _⟩ := evalAt_some L hR p a ha
  obtain ⟨⟨j, _, hj⟩, _⟩ := evalAt_some L hR q b hb
  exact hR i j a b hi hj

theorem selOpt_comm {sel : A → A → A} {R : A → A → Prop} (L : Laws sel R) (x y : Option A)
    (h : ∀ a b, x = some a → y = some b → R a b) : selOpt sel x y = selOpt sel y x := by
  cases x with
  | none => simp
  | some a =>
    cases y with
    | none => simp
    | some b => simp only [selOpt_some]; rw [L.comm a b (h a b rfl rfl)]

theorem selOpt_idem {sel : A → A → A} {R : A → A → Prop} (L : Laws sel R) (x : Option A) :
    selOpt sel x x = x := by
  cases x with
  | none => rfl
  | some a => simp [L.idem]

/-- selecting against the same cell twice changes nothing -/
theorem selOpt_absorb_right {sel : A → A → A} {R : A → A → Prop} (L : Laws sel R) (x y : Option A) :
    selOpt sel (selOpt sel x y) y = selOpt sel x y := by
  cases x with
  | none => simp [selOpt_idem L]
  | some a =>
    cases y with
    | none => simp
    | some b =>
      simp only [selOpt_some]
      rcases L.pick a b with h | h
      · rw [h, h]
      · rw [h, L.idem]

end S3db.Sel

namespace S3db.Table
open S3db S3db.AList S3db.Row
set_option linter.unusedSectionVars false

variable {K V : Type} [DecidableEq K] [DecidableEq V]

/-! ### the entry merge -/

theorem mergeEntry_status (x y : SEntry V) (hR : StatusR x.row.status y.row.status) :
    (mergeEntry x y).row.status = selStatus x.row.status y.row.status := by
  unfold mergeEntry
  by_cases h : x.mod < y.mod
  · simp only [h, if_true]; exact mergeRows_status _ _
  · simp only [h, if_false]; rw [mergeRows_status]; exact (statusLaws.comm _ _ hR).symm

theorem mergeEntry_col (S : List String) (x y : SEntry V) (hx : RowInv S x.row) (hy : RowInv S y.row)
    (c : String)
    (hR : ∀ a b, lookup c x.row.cols = some a → lookup c y.row.cols = some b → ColR a b) :
    lookup c (mergeEntry x y).row.cols
      = Sel.selOpt selCol (lookup c x.row.cols) (lookup c y.row.cols) := by
  unfold mergeEntry
  by_cases h : x.mod < y.mod
  · simp only [h, if_true]; exact mergeRows_col S _ _ hx hy c
  · simp only [h, if_false]; rw [mergeRows_col S _ _ hy hx c]
    exact (Sel.selOpt_comm colLaws _ _ hR).symm

theorem rowInv_mergeEntry (S : List String) (x y : SEntry V) (hx : RowInv S x.row) (hy : RowInv S y.row) :
    RowInv S (mergeEntry x y).row := by
  unfold mergeEntry
  by_cases h : x.mod < y.mod
  · simp only [h, if_true]; exact rowInv_mergeRows S _ _ hx hy
  · simp only [h, if_false]; exact rowInv_mergeRows S _ _ hy hx

/-! ### one key of the tree merge -/

theorem mergeOpt_status (ox oy : Option (SEntry V))
    (hR : ∀ x y, ox = some x → oy = some y → StatusR x.row.status y.row.status) :
    (Kv.mergeOpt mergeEntry ox oy).map (·.row.status)
      = Sel.selOpt selStatus (ox.map (·.row.status)) (oy.map (·.row.status)) := by
  cases ox with
  | none => cases oy <;> simp [Kv.mergeOpt]
  | some x =>
    cases oy with
    | none => simp [Kv.mergeOpt]
    | some y =>
      simp only [Kv.mergeOpt, Option.map_some, Sel.selOpt_some]
      by_cases e : x = y
      · subst e; simp [statusLaws.idem]
      · simp only [e, if_false]; rw [mergeEntry_status x y (hR x y rfl rfl)]

theorem mergeOpt_col (S : List String) (ox oy : Option (SEntry V))
    (hx : ∀ x, ox = some x → RowInv S x.row) (hy : ∀ y, oy = some y → RowInv S y.row) (c : String)
    (hR : ∀ x y a b, ox = some x → oy = some y →
      lookup c x.row.cols = some a → lookup c y.row.cols = some b → ColR a b) :
    (Kv.mergeOpt mergeEntry ox oy).bind (fun e => lookup c e.row.cols)
      = Sel.selOpt selCol (ox.bind fun e => lookup c e.row.cols) (oy.bind fun e => lookup c e.row.cols) := by
  cases ox with
  | none => cases oy <;> simp [Kv.mergeOpt]
  | some x =>
    cases oy with
    | none => simp [Kv.mergeOpt]
    | some y =>
      simp only [Kv.mergeOpt, Option.bind_some]
      by_cases e : x = y
      · subst e; simp [Sel.selOpt_idem colLaws]
      · simp only [e, if_false]
        exact mergeEntry_col S x y (hx x rfl) (hy y rfl) c (hR x y · · rfl rfl)

theorem mergeOpt_inv (S : List String) (ox oy : Option (SEntry V))
    (hx : ∀ x, ox = some x → RowInv S x.row) (hy : ∀ y, oy = some y → RowInv S y.row) :
    ∀ e, Kv.mergeOpt mergeEntry ox oy = some e → RowInv S e.row := by
  intro e he
  cases ox with
  | none =>
    cases oy with
    | none => simp [Kv.mergeOpt] at he
    | some y => simp [Kv.mergeOpt] at he; subst he; exact hy y rfl
  | some x =>
    cases oy with
    | none => simp [Kv.mergeOpt] at he; subst he; exact hx x rfl
    | some y =>
      simp only [Kv.mergeOpt, Option.some.injEq] at he
      by_cases e' : x = y
      · simp only [e', if_true] at he; subst he; exact hy y rfl
      · simp only [e', if_false] at he; subst he
        exact rowInv_mergeEntry S x y (hx x rfl) (hy y rfl)

/-! ### what SQL sees is a function of the cells -/

theorem visibleRow_eq (t : Table K V) (k : K) :
    visibleRow t k = (lookup k t).bind fun e => visible e.row := by
  unfold visibleRow; cases lookup k t <;> rfl

theorem visible_isSome_of_status (ox oy : Option (SEntry V))
    (h : ox.map (·.row.status) = oy.map (·.row.status)) :
    (ox.bind fun e => visible e.row).isSome = (oy.bind fun e => visible e.row).isSome := by
  cases ox with
  | none => cases oy with
    | none => rfl
    | some y => simp at h
  | some x => cases oy with
    | none => simp at h
    | some y =>
      simp only [Option.map_some, Option.some.injEq, ARow.status, Status.mk.injEq] at h
      simp only [Option.bind_some, visible, h.2]
      cases y.row.deleted <;> rfl

theorem visible_col_of_cells (ox oy : Option (SEntry V)) (c : String)
    (h : ox.map (·.row.status) = oy.map (·.row.status))
    (hc : (ox.bind fun e => lookup c e.row.cols) = (oy.bind fun e => lookup c e.row.cols)) :
    (ox.bind fun e => visible e.row).bind (lookup c) = (oy.bind fun e => visible e.row).bind (lookup c) := by
  cases ox with
  | none => cases oy with
    | none => rfl
    | some y => simp at h
  | some x => cases oy with
    | none => simp at h
    | some y =>
      simp only [Option.map_some, Option.some.injEq, ARow.status, Status.mk.injEq] at h
      simp only [Option.bind_some] at hc ⊢
      unfold visible
      rw [h.2]
      cases y.row.deleted <;> simp [hc]

/-! ### the three statements: the delta rows they merge into the stored row -/

/-- the row an INSERT merges in: live since `when`, every column assigned at `when` -/
def insDelta (when : Int) (vals : AList String V) : ARow V :=
  { deleted := false, dut := when, cols := stamp when vals }
/-- the row a DELETE merges in -/
def delDelta (when : Int) : ARow V := { deleted := true, dut := when, cols := [] }
/-- the row an UPDATE merges in: it re-states the insert time of the row it saw -/
def updDelta (r : ARow V) (when : Int) (vals : AList String V) : ARow V :=
  { deleted := false, dut := r.dut, cols := stamp when vals }

theorem lookup_stamp_ne_none {when : Int} {vals : AList String V} {c : String}
    (h : lookup c (stamp when vals) ≠ none) : c ∈ keys vals := by
  rw [lookup_stamp] at h
  apply Classical.byContradiction
  intro hn
  rw [lookup_eq_none_iff.2 hn] at h
  exact h rfl

theorem rowInv_insDelta (S : List String) (when : Int) (vals : AList String V)
    (hc : ∀ c, c ∈ S ↔ c ∈ keys vals) : RowInv S (insDelta when vals) := by
  constructor
  · intro c h; exact (hc c).2 (lookup_stamp_ne_none h)
  · intro _ c hcS
    have hk := (hc c).1 hcS
    cases hv : lookup c vals with
    | none => exact absurd hk (lookup_eq_none_iff.1 hv)
    | some v =>
      refine ⟨⟨v, when⟩, ?_, Int.le_refl _⟩
      show lookup c (stamp when vals) = _
      rw [lookup_stamp, hv]; rfl

theorem rowInv_delDelta (S : List String) (when : Int) : RowInv (V := V) S (delDelta when) := by
  constructor
  · intro c h; exact absurd rfl h
  · intro h; cases h

theorem status_updDelta (r : ARow V) (hl : r.deleted = false) (when : Int) (vals : AList String V) :
    (status r (updDelta r when vals)).2.2 = none := by
  simp [status, updDelta, hl]

theorem mergeRows_updDelta_status (r : ARow V) (hl : r.deleted = false) (when : Int) (vals : AList String V) :
    (mergeRows r (updDelta r when vals)).status = r.status := by
  rw [mergeRows_status]
  simp [selStatus, ARow.status, updDelta, hl]

theorem mergeRows_updDelta_col (r : ARow V) (hl : r.deleted = false) (when : Int) (vals : AList String V)
    (c : String) :
    lookup c (mergeRows r (updDelta r when vals)).cols
      = Sel.selOpt selCol (lookup c r.cols) ((lookup c vals).map fun v => ⟨v, when⟩) := by
  rw [mergeRows_col_nohide _ _ (status_updDelta r hl when vals)]
  show Sel.selOpt selCol _ (lookup c (stamp when vals)) = _
  rw [lookup_stamp]

/-- the row an UPDATE stores keeps the invariant although its delta alone does not satisfy it -/
theorem rowInv_updateMerge (S : List String) (r : ARow V) (hr : RowInv S r) (hl : r.deleted = false)
    (when : Int) (vals : AList String V) (hc : ∀ c, c ∈ keys vals → c ∈ S) :
    RowInv S (mergeRows r (updDelta r when vals)) := by
  constructor
  · intro c hne
    rw [mergeRows_updDelta_col r hl] at hne
    by_cases e1 : lookup c r.cols = none
    · cases hv : lookup c vals with
      | none => rw [e1, hv] at hne; exact absurd rfl hne
      | some v =>
        apply hc
        apply Classical.byContradiction
        intro hn
        rw [lookup_eq_none_iff.2 hn] at hv
        cases hv
    · exact hr.1 c e1
  · intro _ c hcS
    have hs := mergeRows_updDelta_status r hl when vals
    simp only [ARow.status, Status.mk.injEq] at hs
    rw [mergeRows_updDelta_col r hl, hs.1]
    obtain ⟨x, hx, hle⟩ := hr.2 hl c hcS
    rw [hx]
    cases lookup c vals with
    | none => exact ⟨x, rfl, hle⟩
    | some v => exact ⟨selCol x ⟨v, when⟩, rfl, Int.le_trans hle (selCol_t_ge_left _ _)⟩

/-! ### the shape of the table after a statement -/

theorem insertRow_ok {t t' : Table K V} {when : Int} {k : K} {vals : AList String V}
    (h : insertRow t when k vals = .ok t') :
    (lookup k t = none ∧ t' = insert k ⟨when, insDelta when vals⟩ t) ∨
    (∃ e, lookup k t = some e ∧ e.row.deleted = true ∧ e.row.dut ≤ when ∧
      t' = insert k ⟨laterOf e.mod when, mergeRows e.row (insDelta when vals)⟩ t) := by
  unfold insertRow at h
  cases hl : lookup k t with
  | none =>
    left
    simp only [hl, Except.ok.injEq] at h
    exact ⟨rfl, h.symm⟩
  | some e =>
    right
    simp only [hl] at h
    split at h
    · cases h
    · rename_i hcond
      simp only [Except.ok.injEq] at h
      simp only [Bool.or_eq_true, Bool.not_eq_true', decide_eq_true_eq, not_or, Bool.not_eq_false] at hcond
      exact ⟨e, rfl, hcond.1, by omega, h.symm⟩

theorem insertRow_error_iff (t : Table K V) (when : Int) (k : K) (vals : AList String V) :
    insertRow t when k vals = .error .constraintPK ↔
      ∃ e, lookup k t = some e ∧ (e.row.deleted = false ∨ e.row.dut > when) := by
  unfold insertRow
  cases hl : lookup k t with
  | none => simp
  | some e =>
    simp only [Option.some.injEq, exists_eq_left']
    split
    · rename_i hcond
      simp only [Bool.or_eq_true, Bool.not_eq_true', decide_eq_true_eq] at hcond
      simp [hcond]
    · rename_i hcond
      simp only [Bool.or_eq_true, Bool.not_eq_true', decide_eq_true_eq] at hcond
      simp [hcond]

theorem updateRow_live {t : Table K V} {k : K} {e : SEntry V} (he : lookup k t = some e)
    (hl : e.row.deleted = false) (when : Int) (vals : AList String V) :
    updateRow t when k vals
      = insert k ⟨laterOf e.mod when, mergeRows e.row (updDelta e.row when vals)⟩ t := by
  unfold updateRow
  simp only [he, hl]
  rfl

theorem updateRow_noop {t : Table K V} {k : K} (h : ∀ e, lookup k t = some e → e.row.deleted = true)
    (when : Int) (vals : AList String V) : updateRow t when k vals = t := by
  unfold updateRow
  cases he : lookup k t with
  | none => rfl
  | some e => simp [h e he]

theorem exists_live_of_not {t : Table K V} {k : K}
    (h : ¬ ∀ e, lookup k t = some e → e.row.deleted = true) :
    ∃ e, lookup k t = some e ∧ e.row.deleted = false := by
  apply Classical.byContradiction
  intro hn
  apply h
  intro e he
  cases hd : e.row.deleted with
  | true => rfl
  | false => exact absurd ⟨e, he, hd⟩ hn

/-- after an UPDATE of a live key the key is still live -/
theorem updateRow_live_entry {t : Table K V} {k : K} {e : SEntry V} (he : lookup k t = some e)
    (hl : e.row.deleted = false) (when : Int) (vals : AList String V) :
    ∃ e1, lookup k (updateRow t when k vals) = some e1 ∧ e1.row.deleted = false := by
  refine ⟨_, by rw [updateRow_live he hl, lookup_insert_self], ?_⟩
  have := mergeRows_updDelta_status e.row hl when vals
  simp only [ARow.status, Status.mk.injEq] at this
  show (mergeRows e.row (updDelta e.row when vals)).deleted = false
  rw [this.2, hl]

/-- after an accepted INSERT the key is live -/
theorem insertRow_ok_live {t t' : Table K V} {when : Int} {k : K} {vals : AList String V}
    (h : insertRow t when k vals = .ok t') : ∃ e, lookup k t' = some e ∧ e.row.deleted = false := by
  rcases insertRow_ok h with ⟨_, rfl⟩ | ⟨e, _, _, hle, rfl⟩
  · exact ⟨_, lookup_insert_self _ _ _, rfl⟩
  · refine ⟨_, lookup_insert_self _ _ _, ?_⟩
    show (mergeRows e.row (insDelta when vals)).deleted = false
    rw [mergeRows_deleted]
    have : ¬ e.row.dut > (insDelta when vals).dut := by show ¬ e.row.dut > when; omega
    simp only [this, if_false]
    rfl

theorem deleteRow_eq (t : Table K V) (when : Int) (k : K) :
    deleteRow t when k = insert k (match lookup k t with
      | some e => ⟨laterOf e.mod when, mergeRows e.row (delDelta when)⟩
      | none => ⟨when, delDelta when⟩) t := by
  unfold deleteRow
  cases lookup k t <;> rfl

/-- storing one more entry that satisfies the invariant keeps the table invariant -/
theorem inv_insert (S : List String) {t : Table K V} (hn : NodupKeys t)
    (hi : ∀ k e, lookup k t = some e → RowInv S e.row) (k0 : K) (e0 : SEntry V) (h0 : RowInv S e0.row) :
    NodupKeys (insert k0 e0 t) ∧ ∀ k e, lookup k (insert k0 e0 t) = some e → RowInv S e.row := by
  refine ⟨nodupKeys_insert hn, ?_⟩
  intro k e he
  rw [lookup_insert] at he
  split at he
  · cases he; exact h0
  · exact hi k e he

/-! ### what a statement does to the cells of its key -/

theorem cells_insert (S : List String) (t t' : Table K V) (when : Int) (k : K) (vals : AList String V)
    (hc : ∀ c, c ∈ S ↔ c ∈ keys vals) (hi : ∀ e, lookup k t = some e → RowInv S e.row)
    (h : insertRow t when k vals = .ok t') :
    (lookup k t').map (·.row.status)
      = Sel.selOpt selStatus ((lookup k t).map (·.row.status)) (some ⟨when, false⟩) ∧
    (∀ c, (lookup k t').bind (fun e => lookup c e.row.cols) =
      Sel.selOpt selCol ((lookup k t).bind fun e => lookup c e.row.cols)
        ((lookup c vals).map fun v => ⟨v, when⟩)) ∧
    (∀ k', k' ≠ k → lookup k' t' = lookup k' t) := by
  rcases insertRow_ok h with ⟨hn, rfl⟩ | ⟨e, he, _, _, rfl⟩
  · refine ⟨?_, ?_, ?_⟩
    · rw [lookup_insert_self, hn]; rfl
    · intro c
      rw [lookup_insert_self, hn]
      show lookup c (stamp when vals) = _
      rw [lookup_stamp]; simp
    · intro k' hk; exact lookup_insert_ne (Ne.symm hk) _ _
  · refine ⟨?_, ?_, ?_⟩
    · rw [lookup_insert_self, he]
      simp only [Option.map_some, Sel.selOpt_some]
      rw [mergeRows_status]; rfl
    · intro c
      rw [lookup_insert_self, he]
      simp only [Option.bind_some]
      rw [mergeRows_col S _ _ (hi e he) (rowInv_insDelta S when vals hc)]
      show Sel.selOpt selCol _ (lookup c (stamp when vals)) = _
      rw [lookup_stamp]
    · intro k' hk; exact lookup_insert_ne (Ne.symm hk) _ _

theorem cells_update (t : Table K V) (when : Int) (k : K) (vals : AList String V)
    (e : SEntry V) (he : lookup k t = some e) (hl : e.row.deleted = false) :
    (lookup k (updateRow t when k vals)).map (·.row.status) = (lookup k t).map (·.row.status) ∧
    (∀ c, (lookup k (updateRow t when k vals)).bind (fun e => lookup c e.row.cols) =
      Sel.selOpt selCol ((lookup k t).bind fun e => lookup c e.row.cols)
        ((lookup c vals).map fun v => ⟨v, when⟩)) ∧
    (∀ k', k' ≠ k → lookup k' (updateRow t when k vals) = lookup k' t) := by
  rw [updateRow_live he hl]
  refine ⟨?_, ?_, ?_⟩
  · rw [lookup_insert_self, he]
    simp only [Option.map_some]
    rw [mergeRows_updDelta_status _ hl]
  · intro c
    rw [lookup_insert_self, he]
    simp only [Option.bind_some]
    exact mergeRows_updDelta_col _ hl when vals c
  · intro k' hk; exact lookup_insert_ne (Ne.symm hk) _ _

theorem cells_delete (S : List String) (t : Table K V) (when : Int) (k : K)
    (hi : ∀ e, lookup k t = some e → RowInv S e.row) :
    (lookup k (deleteRow t when k)).map (·.row.status)
      = Sel.selOpt selStatus ((lookup k t).map (·.row.status)) (some ⟨when, true⟩) ∧
    (∀ c, (lookup k (deleteRow t when k)).bind (fun e => lookup c e.row.cols)
      = (lookup k t).bind fun e => lookup c e.row.cols) ∧
    (∀ k', k' ≠ k → lookup k' (deleteRow t when k) = lookup k' t) := by
  rw [deleteRow_eq]
  refine ⟨?_, ?_, ?_⟩
  · rw [lookup_insert_self]
    cases he : lookup k t with
    | none => rfl
    | some e =>
      simp only [Option.map_some, Sel.selOpt_some]
      rw [mergeRows_status]; rfl
  · intro c
    rw [lookup_insert_self]
    cases he : lookup k t with
    | none => rfl
    | some e =>
      simp only [Option.bind_some]
      rw [mergeRows_col S _ _ (hi e he) (rowInv_delDelta S when)]
      show Sel.selOpt selCol _ none = _
      simp
  · intro k' hk; exact lookup_insert_ne (Ne.symm hk) _ _

end S3db.Table
