import S3db.Lemmas.TableCells
/-!
# Helper lemmas: every merge and every statement only *selects* cells

`RowFrom S P Q r`: the row `r` is SQL-shaped (`RowInv`), its status satisfies `P` and every
column cell `(c, x)` it holds satisfies `Q c x`.  Because the row merge picks, per cell, one of
its two arguments (`Sel.Laws.pick`), `RowFrom` is preserved by `mergeRows`, `mergeEntry`, the
per-key tree merge `Kv.mergeOpt`, and by the rows the three SQL statements store.  Instantiated
with "is a cell of the history" this gives `C01.reach_from`.  Core Lean only.
-/
namespace S3db.Sel
variable {A : Type}

/-- the selection of two optional cells is one of them -/
theorem selOpt_pick {sel : A → A → A} (hp : ∀ x y, sel x y = x ∨ sel x y = y)
    {a b : Option A} {w : A} (h : selOpt sel a b = some w) : a = some w ∨ b = some w := by
  cases a with
  | none => right; simpa using h
  | some x =>
    cases b with
    | none => left; simpa using h
    | some y =>
      simp only [selOpt_some, Option.some.injEq] at h
      rcases hp x y with e | e
      · left; rw [← h, e]
      · right; rw [← h, e]

end S3db.Sel

namespace S3db.Table
open S3db S3db.AList S3db.Row
set_option linter.unusedSectionVars false

variable {K V : Type} [DecidableEq K] [DecidableEq V]

/-- an SQL-shaped row all of whose cells satisfy the given predicates -/
def RowFrom (S : List String) (P : Status → Prop) (Q : String → ACol V → Prop) (r : ARow V) : Prop :=
  RowInv S r ∧ P r.status ∧ ∀ c x, lookup c r.cols = some x → Q c x

variable {S : List String} {P : Status → Prop} {Q : String → ACol V → Prop}

theorem rowFrom_mergeRows {r1 r2 : ARow V} (h1 : RowFrom S P Q r1) (h2 : RowFrom S P Q r2) :
    RowFrom S P Q (mergeRows r1 r2) := by
  refine ⟨rowInv_mergeRows S r1 r2 h1.1 h2.1, ?_, ?_⟩
  · rw [mergeRows_status]
    rcases statusLaws.pick r1.status r2.status with e | e <;> rw [e]
    · exact h1.2.1
    · exact h2.2.1
  · intro c x hx
    rw [mergeRows_col S r1 r2 h1.1 h2.1] at hx
    rcases Sel.selOpt_pick colLaws.pick hx with e | e
    · exact h1.2.2 c x e
    · exact h2.2.2 c x e

theorem rowFrom_mergeEntry {x y : SEntry V} (hx : RowFrom S P Q x.row) (hy : RowFrom S P Q y.row) :
    RowFrom S P Q (mergeEntry x y).row := by
  unfold mergeEntry
  by_cases h : x.mod < y.mod
  · simp only [h, if_true]; exact rowFrom_mergeRows hx hy
  · simp only [h, if_false]; exact rowFrom_mergeRows hy hx

theorem rowFrom_mergeOpt {ox oy : Option (SEntry V)}
    (hx : ∀ x, ox = some x → RowFrom S P Q x.row) (hy : ∀ y, oy = some y → RowFrom S P Q y.row) :
    ∀ e, Kv.mergeOpt mergeEntry ox oy = some e → RowFrom S P Q e.row := by
  intro e he
  cases ox with
  | none =>
    cases oy with
    | none => simp [Kv.mergeOpt] at he
    | some y => simp [Kv.mergeOpt] at he; subst he; exact hy y rfl
  | some x =>
    cases oy with
    | none => simp [Kv.mergeOpt] at he; subst he; exact hx x rfl
    | some y =>
      simp only [Kv.mergeOpt, Option.some.injEq] at he
      by_cases e' : x = y
      · simp only [e', if_true] at he; subst he; exact hy y rfl
      · simp only [e', if_false] at he; subst he
        exact rowFrom_mergeEntry (hx x rfl) (hy y rfl)

/-- the row an INSERT merges in -/
theorem rowFrom_insDelta (when : Int) (vals : AList String V)
    (hc : ∀ c, c ∈ S ↔ c ∈ keys vals) (hs : P ⟨when, false⟩)
    (hv : ∀ c v, lookup c vals = some v → Q c ⟨v, when⟩) : RowFrom S P Q (insDelta when vals) := by
  refine ⟨rowInv_insDelta S when vals hc, hs, ?_⟩
  intro c x hx
  have hx' : lookup c (stamp when vals) = some x := hx
  rw [lookup_stamp] at hx'
  cases hl : lookup c vals with
  | none => rw [hl] at hx'; cases hx'
  | some v =>
    rw [hl] at hx'
    simp only [Option.map_some, Option.some.injEq] at hx'
    subst hx'
    exact hv c v hl

/-- the row a DELETE merges in -/
theorem rowFrom_delDelta (when : Int) (hs : P ⟨when, true⟩) : RowFrom S P Q (delDelta when) := by
  refine ⟨rowInv_delDelta S when, hs, ?_⟩
  intro c x hx
  cases hx

/-- the row an UPDATE stores: same status, every column the old or the assigned cell -/
theorem rowFrom_updateMerge {r : ARow V} (hr : RowFrom S P Q r) (hl : r.deleted = false)
    (when : Int) (vals : AList String V) (hc : ∀ c, c ∈ keys vals → c ∈ S)
    (hv : ∀ c v, lookup c vals = some v → Q c ⟨v, when⟩) :
    RowFrom S P Q (mergeRows r (updDelta r when vals)) := by
  refine ⟨rowInv_updateMerge S r hr.1 hl when vals hc, ?_, ?_⟩
  · rw [mergeRows_updDelta_status r hl]; exact hr.2.1
  · intro c x hx
    rw [mergeRows_updDelta_col r hl] at hx
    rcases Sel.selOpt_pick colLaws.pick hx with e | e
    · exact hr.2.2 c x e
    · cases hl' : lookup c vals with
      | none => rw [hl'] at e; cases e
      | some v =>
        rw [hl'] at e
        simp only [Option.map_some, Option.some.injEq] at e
        subst e
        exact hv c v hl'

/-- a table all of whose cells satisfy per-key predicates -/
def TableFrom (S : List String) (P : K → Status → Prop) (Q : K → String → ACol V → Prop)
    (t : Table K V) : Prop :=
  NodupKeys t ∧ ∀ k e, lookup k t = some e → RowFrom S (P k) (Q k) e.row

variable {PK : K → Status → Prop} {QK : K → String → ACol V → Prop}

theorem tableFrom_nil : TableFrom S PK QK ([] : Table K V) :=
  ⟨nodupKeys_nil, fun k e he => by simp at he⟩

/-- storing one more entry whose cells are good keeps the table good -/
theorem tableFrom_store {t : Table K V} (ht : TableFrom S PK QK t) (k0 : K) (e0 : SEntry V)
    (h0 : RowFrom S (PK k0) (QK k0) e0.row) : TableFrom S PK QK (insert k0 e0 t) := by
  refine ⟨nodupKeys_insert ht.1, ?_⟩
  intro k e he
  rw [lookup_insert] at he
  split at he
  · rename_i hk; subst hk; cases he; exact h0
  · exact ht.2 k e he

theorem tableFrom_insert {t t' : Table K V} {when : Int} {k : K} {vals : AList String V}
    (ht : TableFrom S PK QK t) (hc : ∀ c, c ∈ S ↔ c ∈ keys vals) (hs : PK k ⟨when, false⟩)
    (hv : ∀ c v, lookup c vals = some v → QK k c ⟨v, when⟩)
    (h : insertRow t when k vals = .ok t') : TableFrom S PK QK t' := by
  have hd := rowFrom_insDelta (S := S) (P := PK k) (Q := QK k) when vals hc hs hv
  rcases insertRow_ok h with ⟨_, rfl⟩ | ⟨e, he, _, _, rfl⟩
  · exact tableFrom_store ht k _ hd
  · exact tableFrom_store ht k _ (rowFrom_mergeRows (ht.2 k e he) hd)

theorem tableFrom_update {t : Table K V} (when : Int) (k : K) (vals : AList String V)
    (ht : TableFrom S PK QK t) (hc : ∀ c, c ∈ keys vals → c ∈ S)
    (hv : ∀ c v, lookup c vals = some v → QK k c ⟨v, when⟩) :
    TableFrom S PK QK (updateRow t when k vals) := by
  by_cases h : ∀ e, lookup k t = some e → e.row.deleted = true
  · rw [updateRow_noop h]; exact ht
  · obtain ⟨e, he, hl⟩ := exists_live_of_not h
    rw [updateRow_live he hl]
    exact tableFrom_store ht k _ (rowFrom_updateMerge (ht.2 k e he) hl when vals hc hv)

theorem tableFrom_delete {t : Table K V} (when : Int) (k : K)
    (ht : TableFrom S PK QK t) (hs : PK k ⟨when, true⟩) :
    TableFrom S PK QK (deleteRow t when k) := by
  have hd := rowFrom_delDelta (S := S) (P := PK k) (Q := QK k) when hs
  rw [deleteRow_eq]
  apply tableFrom_store ht
  cases he : lookup k t with
  | none => exact hd
  | some e => exact rowFrom_mergeRows (ht.2 k e he) hd

theorem tableFrom_merge {a g : Table K V} (ha : TableFrom S PK QK a) (hg : TableFrom S PK QK g) :
    TableFrom S PK QK (mergeTables a g) := by
  refine ⟨Kv.nodupKeys_mergeTrees _ _ ha.1, fun k e he => ?_⟩
  rw [mergeTables, Kv.lookup_mergeTrees mergeEntry g hg.1 a k] at he
  exact rowFrom_mergeOpt (ha.2 k) (hg.2 k) e he

end S3db.Table
