/-!
# Merges that *select*: order, grouping and repetition do not matter

Both the kv-level `LastWriteWins` and each component of the row merge (row status, every
column) return one of their two arguments.  For such a function, commutativity and
associativity on a pairwise-compatible family are enough to show that evaluating **any**
merge plan (any binary tree over the versions, leaves repeated at will) yields the same
result as any other plan with the same set of leaves.  Core Lean only.
-/
namespace S3db.Sel

variable {A : Type}

/-- laws of a selecting merge on a family related by `R` ("no two different values tie") -/
structure Laws (sel : A → A → A) (R : A → A → Prop) : Prop where
  pick  : ∀ x y, sel x y = x ∨ sel x y = y
  comm  : ∀ x y, R x y → sel x y = sel y x
  assoc : ∀ x y z, R x y → R y z → R x z → sel (sel x y) z = sel x (sel y z)

theorem Laws.idem {sel : A → A → A} {R} (L : Laws sel R) (x : A) : sel x x = x := by
  rcases L.pick x x with h | h <;> exact h

/-- lift to optional values: an absent value is the unit -/
def selOpt (sel : A → A → A) : Option A → Option A → Option A
  | none, y => y
  | x, none => x
  | some x, some y => some (sel x y)

@[simp] theorem selOpt_none_left (sel : A → A → A) (y : Option A) : selOpt sel none y = y := by
  cases y <;> rfl
@[simp] theorem selOpt_none_right (sel : A → A → A) (x : Option A) : selOpt sel x none = x := by
  cases x <;> rfl
@[simp] theorem selOpt_some (sel : A → A → A) (x y : A) : selOpt sel (some x) (some y) = some (sel x y) := rfl

/-- a merge plan: which versions are merged, in which grouping -/
inductive Plan where
  | leaf (i : Nat)
  | node (p q : Plan)
deriving Repr

def Plan.leaves : Plan → List Nat
  | .leaf i => [i]
  | .node p q => p.leaves ++ q.leaves

/-- the value of one cell after executing the plan; `v i` is the cell in version `i` -/
def evalAt (sel : A → A → A) (v : Nat → Option A) : Plan → Option A
  | .leaf i => v i
  | .node p q => selOpt sel (evalAt sel v p) (evalAt sel v q)

theorem evalAt_none {sel : A → A → A} {v : Nat → Option A} :
    ∀ p : Plan, evalAt sel v p = none ↔ ∀ i ∈ p.leaves, v i = none
  | .leaf i => by simp [evalAt, Plan.leaves]
  | .node p q => by
    have hp := evalAt_none (sel := sel) (v := v) p
    have hq := evalAt_none (sel := sel) (v := v) q
    simp only [evalAt, Plan.leaves, List.mem_append]
    constructor
    · intro h i hi
      cases h1 : evalAt sel v p <;> cases h2 : evalAt sel v q <;> simp [h1, h2] at h
      rcases hi with hi | hi
      · exact hp.1 h1 i hi
      · exact hq.1 h2 i hi
    · intro h
      rw [hp.2 (fun i hi => h i (Or.inl hi)), hq.2 (fun i hi => h i (Or.inr hi))]
      rfl

/-- the result of a plan is one of its leaves and dominates all of them -/
theorem evalAt_some {sel : A → A → A} {R : A → A → Prop} (L : Laws sel R) {v : Nat → Option A}
    (hR : ∀ i j x y, v i = some x → v j = some y → R x y) :
    ∀ (p : Plan) (r : A), evalAt sel v p = some r →
      (∃ i ∈ p.leaves, v i = some r) ∧ (∀ i ∈ p.leaves, ∀ y, v i = some y → sel r y = r)
  | .leaf i, r, h => by
    simp only [evalAt] at h
    refine ⟨⟨i, by simp [Plan.leaves], h⟩, ?_⟩
    intro j hj y hy
    simp only [Plan.leaves, List.mem_singleton] at hj
    subst hj
    rw [h] at hy; cases hy
    exact L.idem r
  | .node p q, r, h => by
    simp only [evalAt] at h
    cases h1 : evalAt sel v p with
    | none =>
      rw [h1] at h; simp at h
      obtain ⟨⟨i, hi, hv⟩, hd⟩ := evalAt_some L hR q r h
      refine ⟨⟨i, by simp [Plan.leaves, hi], hv⟩, ?_⟩
      intro j hj y hy
      simp only [Plan.leaves, List.mem_append] at hj
      rcases hj with hj | hj
      · have := (evalAt_none p).1 h1 j hj; rw [this] at hy; cases hy
      · exact hd j hj y hy
    | some a =>
      cases h2 : evalAt sel v q with
      | none =>
        rw [h1, h2] at h; simp at h; subst h
        obtain ⟨⟨i, hi, hv⟩, hd⟩ := evalAt_some L hR p a h1
        refine ⟨⟨i, by simp [Plan.leaves, hi], hv⟩, ?_⟩
        intro j hj y hy
        simp only [Plan.leaves, List.mem_append] at hj
        rcases hj with hj | hj
        · exact hd j hj y hy
        · have := (evalAt_none q).1 h2 j hj; rw [this] at hy; cases hy
      | some b =>
        rw [h1, h2] at h; simp at h
        obtain ⟨⟨ia, hia, hva⟩, hda⟩ := evalAt_some L hR p a h1
        obtain ⟨⟨ib, hib, hvb⟩, hdb⟩ := evalAt_some L hR q b h2
        have Rab : R a b := hR ia ib a b hva hvb
        have Rba : R b a := hR ib ia b a hvb hva
        rcases L.pick a b with hab | hab
        · -- a wins
          rw [hab] at h; subst h
          refine ⟨⟨ia, by simp [Plan.leaves, hia], hva⟩, ?_⟩
          intro j hj y hy
          simp only [Plan.leaves, List.mem_append] at hj
          rcases hj with hj | hj
          · exact hda j hj y hy
          · have hby := hdb j hj y hy
            have Rby : R b y := hR ib j b y hvb hy
            have Ray : R a y := hR ia j a y hva hy
            calc sel a y = sel (sel a b) y := by rw [hab]
              _ = sel a (sel b y) := L.assoc a b y Rab Rby Ray
              _ = sel a b := by rw [hby]
              _ = a := hab
        · -- b wins
          rw [hab] at h; subst h
          refine ⟨⟨ib, by simp [Plan.leaves, hib], hvb⟩, ?_⟩
          intro j hj y hy
          simp only [Plan.leaves, List.mem_append] at hj
          rcases hj with hj | hj
          · have hay := hda j hj y hy
            have Ray : R a y := hR ia j a y hva hy
            have Rby : R b y := hR ib j b y hvb hy
            have hba : sel b a = b := by rw [← L.comm a b Rab]; exact hab
            calc sel b y = sel (sel b a) y := by rw [hba]
              _ = sel b (sel a y) := L.assoc b a y Rba Ray Rby
              _ = sel b a := by rw [hay]
              _ = b := hba
          · exact hdb j hj y hy

/-- **Convergence of one cell**: two plans over the same set of versions agree, whatever the
    order, the grouping, and however often a version is merged again. -/
theorem evalAt_indep {sel : A → A → A} {R : A → A → Prop} (L : Laws sel R) {v : Nat → Option A}
    (hR : ∀ i j x y, v i = some x → v j = some y → R x y)
    (p q : Plan) (hpq : ∀ i, i ∈ p.leaves ↔ i ∈ q.leaves) :
    evalAt sel v p = evalAt sel v q := by
  cases hp : evalAt sel v p with
  | none =>
    symm
    exact (evalAt_none q).2 (fun i hi => (evalAt_none p).1 hp i ((hpq i).2 hi))
  | some a =>
    cases hq : evalAt sel v q with
    | none =>
      obtain ⟨⟨i, hi, hv⟩, _⟩ := evalAt_some L hR p a hp
      have := (evalAt_none q).1 hq i ((hpq i).1 hi)
      rw [this] at hv; cases hv
    | some b =>
      obtain ⟨⟨ia, hia, hva⟩, hda⟩ := evalAt_some L hR p a hp
      obtain ⟨⟨ib, hib, hvb⟩, hdb⟩ := evalAt_some L hR q b hq
      have h1 : sel a b = a := hda ib ((hpq ib).2 hib) b hvb
      have h2 : sel b a = b := hdb ia ((hpq ia).1 hia) a hva
      have : sel a b = sel b a := L.comm a b (hR ia ib a b hva hvb)
      rw [h1, h2] at this
      rw [this]

/-- merging a version (or any merge of versions already included) again changes nothing -/
theorem evalAt_absorb {sel : A → A → A} {R : A → A → Prop} (L : Laws sel R) {v : Nat → Option A}
    (hR : ∀ i j x y, v i = some x → v j = some y → R x y)
    (p q : Plan) (hsub : ∀ i, i ∈ q.leaves → i ∈ p.leaves) :
    evalAt sel v (.node p q) = evalAt sel v p := by
  apply evalAt_indep L hR
  intro i
  simp only [Plan.leaves, List.mem_append]
  constructor
  · rintro (h | h)
    · exact h
    · exact hsub i h
  · intro h; exact Or.inl h

end S3db.Sel
