import S3db.Model.KeySpec
/-!
# Lemmas about the exact double model `F64` and bytewise comparison `Bytes.cmp`

* `F64.cmp` on non-NaN values is a total preorder (`cmpD_*`), computed at any common exponent
  below both operands (`cmp_fin_at`).
* `Bytes.cmp` is a total order.
Core Lean only.
-/
namespace S3db

/-! ## cmpInt -/

theorem cmpInt_range (a b : Int) : cmpInt a b = -1 ∨ cmpInt a b = 0 ∨ cmpInt a b = 1 := by
  unfold cmpInt
  by_cases h1 : a < b <;> by_cases h2 : b < a <;> simp [h1, h2]

theorem cmpInt_self (a : Int) : cmpInt a a = 0 := by
  unfold cmpInt; simp

theorem cmpInt_antisymm (a b : Int) : cmpInt a b = - cmpInt b a := by
  unfold cmpInt
  by_cases h1 : a < b <;> by_cases h2 : b < a <;> simp [h1, h2]
  omega

theorem cmpInt_le_zero (a b : Int) : cmpInt a b ≤ 0 ↔ a ≤ b := by
  unfold cmpInt
  by_cases h1 : a < b <;> by_cases h2 : b < a <;> simp [h1, h2] <;> omega

theorem cmpInt_eq_zero (a b : Int) : cmpInt a b = 0 ↔ a = b := by
  unfold cmpInt
  by_cases h1 : a < b <;> by_cases h2 : b < a <;> simp [h1, h2] <;> omega

theorem cmpInt_eq_neg_one (a b : Int) : cmpInt a b = -1 ↔ a < b := by
  unfold cmpInt
  by_cases h1 : a < b <;> by_cases h2 : b < a <;> simp [h1, h2]

theorem cmpInt_eq_one (a b : Int) : cmpInt a b = 1 ↔ b < a := by
  unfold cmpInt
  by_cases h1 : a < b <;> by_cases h2 : b < a <;> simp [h1, h2] <;> omega

theorem cmpInt_mul_pos (a b p : Int) (hp : 0 < p) : cmpInt (a * p) (b * p) = cmpInt a b := by
  unfold cmpInt
  have e1 : a * p < b * p ↔ a < b := Int.mul_lt_mul_right hp
  have e2 : b * p < a * p ↔ b < a := Int.mul_lt_mul_right hp
  simp only [e1, e2]

/-! ## Bytes.cmp is a total order -/
namespace Bytes

theorem cmp_range (a b : Bytes) : cmp a b = -1 ∨ cmp a b = 0 ∨ cmp a b = 1 := by
  induction a generalizing b with
  | nil => cases b <;> simp [cmp]
  | cons x xs ih =>
    cases b with
    | nil => simp [cmp]
    | cons y ys =>
      simp only [cmp]
      by_cases h1 : x < y <;> by_cases h2 : y < x <;> simp [h1, h2, ih]

theorem cmp_refl (a : Bytes) : cmp a a = 0 := by
  induction a with
  | nil => simp [cmp]
  | cons x xs ih => simp [cmp, ih]

theorem cmp_antisymm (a b : Bytes) : cmp a b = - cmp b a := by
  induction a generalizing b with
  | nil => cases b <;> simp [cmp]
  | cons x xs ih =>
    cases b with
    | nil => simp [cmp]
    | cons y ys =>
      simp only [cmp]
      by_cases h1 : x < y <;> by_cases h2 : y < x <;> simp [h1, h2, ih ys]
      omega

theorem cmp_eq_zero (a b : Bytes) : cmp a b = 0 ↔ a = b := by
  induction a generalizing b with
  | nil => cases b <;> simp [cmp]
  | cons x xs ih =>
    cases b with
    | nil => simp [cmp]
    | cons y ys =>
      simp only [cmp]
      by_cases h1 : x < y <;> by_cases h2 : y < x <;> simp [h1, h2, ih ys] <;> omega

theorem cmp_trans (a b c : Bytes) (h1 : cmp a b ≤ 0) (h2 : cmp b c ≤ 0) :
    cmp a c ≤ 0 ∧ (cmp a c = 0 → cmp a b = 0 ∧ cmp b c = 0) := by
  induction a generalizing b c with
  | nil => cases b <;> cases c <;> simp_all [cmp]
  | cons x xs ih =>
    cases b with
    | nil => simp [cmp] at h1
    | cons y ys =>
      cases c with
      | nil => simp [cmp] at h2
      | cons z zs =>
        simp only [cmp] at h1 h2 ⊢
        by_cases a1 : x < y
        · by_cases b1 : y < z
          · have : x < z := by omega
            simp [this]
          · by_cases b2 : z < y
            · simp [b1, b2] at h2
            · have : x < z := by omega
              simp [this]
        · by_cases a2 : y < x
          · simp [a1, a2] at h1
          · have e : x = y := by omega
            subst e
            simp only [a1, if_false] at h1 ⊢
            by_cases b1 : x < z
            · simp [b1]
            · by_cases b2 : z < x
              · simp [b1, b2] at h2
              · simp only [b1, b2, if_false] at h2 ⊢
                exact ih ys zs h1 h2

end Bytes

namespace F64

/-! ## powers of two and `scaled` -/

theorem pow2_pos (n : Nat) : 0 < pow2 n := by
  unfold pow2; exact Int.pow_pos (by decide)

theorem pow2_add (a b : Nat) : pow2 (a + b) = pow2 a * pow2 b := by
  unfold pow2; exact Int.pow_add ..

theorem pow2_zero : pow2 0 = 1 := rfl

theorem pow2_cast (n : Nat) : pow2 n = ((2 ^ n : Nat) : Int) := by
  unfold pow2; simp

theorem signed_mul (neg : Bool) (m k : Nat) : signed neg m * (k : Int) = signed neg (m * k) := by
  unfold signed; cases neg <;> simp [Int.neg_mul]

theorem signed_exact (i : Int) : signed (decide (i < 0)) i.natAbs = i := by
  unfold signed
  by_cases h : i < 0 <;> simp [h] <;> omega

theorem scaled_self (neg : Bool) (m : Nat) (x : Int) : scaled neg m x x = signed neg m := by
  unfold scaled; simp [pow2_zero]

/-- rescaling to a lower common exponent multiplies by a positive power of two -/
theorem scaled_lower (neg : Bool) (m : Nat) (x lo lo' : Int) (h1 : lo ≤ lo') (h2 : lo' ≤ x) :
    scaled neg m x lo = scaled neg m x lo' * pow2 (lo' - lo).toNat := by
  unfold scaled
  have : (x - lo).toNat = (x - lo').toNat + (lo' - lo).toNat := by omega
  rw [this, pow2_add, Int.mul_assoc]

/-- `cmp` of two finite values, computed at *any* exponent below both -/
theorem cmp_fin_at (n1 : Bool) (m1 : Nat) (x1 : Int) (n2 : Bool) (m2 : Nat) (x2 : Int) (lo : Int)
    (h1 : lo ≤ x1) (h2 : lo ≤ x2) :
    cmp (.fin n1 m1 x1) (.fin n2 m2 x2)
      = some (cmpInt (scaled n1 m1 x1 lo) (scaled n2 m2 x2 lo)) := by
  have hlo : lo ≤ min x1 x2 := by omega
  rw [scaled_lower n1 m1 x1 lo (min x1 x2) hlo (by omega),
      scaled_lower n2 m2 x2 lo (min x1 x2) hlo (by omega),
      cmpInt_mul_pos _ _ _ (pow2_pos _)]
  rfl

/-! ## the comparison with NaN collapsed to 0 -/

/-- `F64.cmp` with the `none` (NaN) case read as 0, as `sqliteCmp` does -/
def cmpD (a b : F64) : Int := (cmp a b).getD 0

theorem cmp_eq_some_cmpD (a b : F64) (ha : a.isNaN = false) (hb : b.isNaN = false) :
    cmp a b = some (cmpD a b) := by
  unfold cmpD
  cases a <;> cases b <;> simp_all [cmp, isNaN]

theorem cmpD_fin_at (n1 : Bool) (m1 : Nat) (x1 : Int) (n2 : Bool) (m2 : Nat) (x2 : Int) (lo : Int)
    (h1 : lo ≤ x1) (h2 : lo ≤ x2) :
    cmpD (.fin n1 m1 x1) (.fin n2 m2 x2) = cmpInt (scaled n1 m1 x1 lo) (scaled n2 m2 x2 lo) := by
  unfold cmpD; rw [cmp_fin_at _ _ _ _ _ _ lo h1 h2]; rfl

theorem cmpD_range (a b : F64) : cmpD a b = -1 ∨ cmpD a b = 0 ∨ cmpD a b = 1 := by
  cases a with
  | nan => simp [cmpD, cmp]
  | inf n1 =>
    cases b with
    | nan => simp [cmpD, cmp]
    | inf n2 => cases n1 <;> cases n2 <;> simp [cmpD, cmp]
    | fin n2 m2 x2 => cases n1 <;> simp [cmpD, cmp]
  | fin n1 m1 x1 =>
    cases b with
    | nan => simp [cmpD, cmp]
    | inf n2 => cases n2 <;> simp [cmpD, cmp]
    | fin n2 m2 x2 =>
      rw [cmpD_fin_at _ _ _ _ _ _ (min x1 x2) (by omega) (by omega)]
      exact cmpInt_range _ _

theorem cmpD_refl (a : F64) : cmpD a a = 0 := by
  cases a with
  | nan => simp [cmpD, cmp]
  | inf n => simp [cmpD, cmp]
  | fin n m x =>
    rw [cmpD_fin_at _ _ _ _ _ _ x (by omega) (by omega)]
    exact cmpInt_self _

theorem cmpD_antisymm (a b : F64) : cmpD a b = - cmpD b a := by
  cases a with
  | nan => cases b <;> simp [cmpD, cmp]
  | inf n1 =>
    cases b with
    | nan => simp [cmpD, cmp]
    | inf n2 => cases n1 <;> cases n2 <;> simp [cmpD, cmp]
    | fin n2 m2 x2 => cases n1 <;> simp [cmpD, cmp]
  | fin n1 m1 x1 =>
    cases b with
    | nan => simp [cmpD, cmp]
    | inf n2 => cases n2 <;> simp [cmpD, cmp]
    | fin n2 m2 x2 =>
      rw [cmpD_fin_at _ _ _ _ _ _ (min x1 x2) (by omega) (by omega),
          cmpD_fin_at _ _ _ _ _ _ (min x1 x2) (by omega) (by omega)]
      exact cmpInt_antisymm _ _

/-- transitivity on non-NaN values, covering `<`, `=` and `≤` at once -/
theorem cmpD_trans (a b c : F64) (ha : a.isNaN = false) (hb : b.isNaN = false)
    (hc : c.isNaN = false) (h1 : cmpD a b ≤ 0) (h2 : cmpD b c ≤ 0) :
    cmpD a c ≤ 0 ∧ (cmpD a c = 0 → cmpD a b = 0 ∧ cmpD b c = 0) := by
  cases a with
  | nan => simp [isNaN] at ha
  | inf n1 =>
    cases b with
    | nan => simp [isNaN] at hb
    | inf n2 =>
      cases c with
      | nan => simp [isNaN] at hc
      | inf n3 => cases n1 <;> cases n2 <;> cases n3 <;> simp_all [cmpD, cmp]
      | fin n3 m3 x3 => cases n1 <;> cases n2 <;> simp_all [cmpD, cmp]
    | fin n2 m2 x2 =>
      cases c with
      | nan => simp [isNaN] at hc
      | inf n3 => cases n1 <;> cases n3 <;> simp_all [cmpD, cmp]
      | fin n3 m3 x3 => cases n1 <;> simp_all [cmpD, cmp]
  | fin n1 m1 x1 =>
    cases b with
    | nan => simp [isNaN] at hb
    | inf n2 =>
      cases c with
      | nan => simp [isNaN] at hc
      | inf n3 => cases n2 <;> cases n3 <;> simp_all [cmpD, cmp]
      | fin n3 m3 x3 => cases n2 <;> simp_all [cmpD, cmp]
    | fin n2 m2 x2 =>
      cases c with
      | nan => simp [isNaN] at hc
      | inf n3 => cases n3 <;> simp_all [cmpD, cmp]
      | fin n3 m3 x3 =>
        have l1 : min x1 (min x2 x3) ≤ x1 := by omega
        have l2 : min x1 (min x2 x3) ≤ x2 := by omega
        have l3 : min x1 (min x2 x3) ≤ x3 := by omega
        rw [cmpD_fin_at _ _ _ _ _ _ _ l1 l2] at h1
        rw [cmpD_fin_at _ _ _ _ _ _ _ l2 l3] at h2
        rw [cmpD_fin_at _ _ _ _ _ _ _ l1 l3, cmpD_fin_at _ _ _ _ _ _ _ l1 l2,
            cmpD_fin_at _ _ _ _ _ _ _ l2 l3]
        rw [cmpInt_le_zero] at h1 h2 ⊢
        simp only [cmpInt_eq_zero]
        omega

/-! ## decoding bit patterns, `float64(int64)` and `int64(float64)` -/

/-- a finite decoded double has a 53-bit mantissa and an exponent in the IEEE range -/
theorem ofBits_fin_bound (b : Nat) (s : Bool) (m : Nat) (x : Int) (h : ofBits b = .fin s m x) :
    m < 2^53 ∧ -1074 ≤ x ∧ x ≤ 971 := by
  unfold ofBits at h
  simp only at h
  split at h
  · split at h <;> cases h
  · split at h
    · cases h
      omega
    · rename_i h1 h2
      cases h
      have : b / 2^52 % 2^11 < 2^11 := Nat.mod_lt _ (by decide)
      simp at h1 h2
      omega

theorem bitLen_le (n k : Nat) (h : n < 2^k) : bitLen n ≤ k := by
  cases n with
  | zero => simp [bitLen]
  | succ n =>
    simp only [bitLen]
    have := (Nat.log2_lt (n := n+1) (k := k) (by omega)).2 h
    omega

/-- `float64(i)` is exact (no rounding) whenever `|i| = m·2^e` with a 53-bit `m` -/
theorem ofInt_repr (i : Int) (m e : Nat) (hm : m < 2^53) (hi : i.natAbs = m * 2^e) :
    ∃ q k : Nat, ofInt i = .fin (decide (i < 0)) q (k : Int) ∧ q * 2^k = i.natAbs := by
  unfold ofInt
  simp only
  by_cases hn : i.natAbs < 2^53
  · refine ⟨i.natAbs, 0, ?_, by simp⟩
    simp [hn]
  · simp only [hn, if_false]
    generalize hk : bitLen i.natAbs - 53 = k
    have hlt : i.natAbs < 2^(53 + e) := by
      rw [hi, Nat.pow_add]
      exact Nat.mul_lt_mul_of_lt_of_le hm (Nat.le_refl _) (Nat.pow_pos (by decide))
    have hb := bitLen_le _ _ hlt
    have hke : k ≤ e := by omega
    have hdvd : 2^k ∣ i.natAbs := by
      rw [hi]
      exact Nat.dvd_trans (Nat.pow_dvd_pow 2 hke) (Nat.dvd_mul_left _ _)
    have hmod : i.natAbs % 2^k = 0 := Nat.mod_eq_zero_of_dvd hdvd
    have hhalf : 0 < 2^(k-1) := Nat.pow_pos (by decide)
    refine ⟨i.natAbs / 2^k, k, ?_, Nat.div_mul_cancel hdvd⟩
    rw [hmod]
    have h1 : ¬ (0 > 2^(k-1)) := by omega
    have h2 : ((0:Nat) == 2^(k-1)) = false := by
      simp; omega
    simp [h1, h2]

theorem natAbs_signed (s : Bool) (n : Nat) : (signed s n).natAbs = n := by
  unfold signed; cases s <;> simp

/-- a finite value with a natural exponent, at level 0, is the integer it denotes -/
theorem scaled_nat_zero (s : Bool) (q k : Nat) : scaled s q (k : Int) 0 = signed s (q * 2^k) := by
  unfold scaled
  rw [← signed_mul, pow2_cast]
  simp

theorem scaled_exact (i : Int) (lo : Int) :
    scaled (decide (i < 0)) i.natAbs 0 lo = i * pow2 (-lo).toNat := by
  unfold scaled
  rw [signed_exact]
  simp

/-- the truncation `int64(r)` of a finite `r`, against `r` at the common level `min x 0` -/
theorem toInt_bounds (s : Bool) (m : Nat) (x : Int) :
    toInt (.fin s m x) * pow2 (-(min x 0)).toNat - pow2 (-(min x 0)).toNat
        < scaled s m x (min x 0) ∧
    scaled s m x (min x 0)
        < toInt (.fin s m x) * pow2 (-(min x 0)).toNat + pow2 (-(min x 0)).toNat ∧
    ∃ m' e : Nat, m' ≤ m ∧ (toInt (.fin s m x)).natAbs = m' * 2^e := by
  by_cases hx : 0 ≤ x
  · have hmin : min x 0 = 0 := by omega
    rw [hmin]
    have hx' : x = (x.toNat : Int) := by omega
    have e1 : scaled s m x 0 = signed s (m * 2^x.toNat) := by
      conv => lhs; rw [hx']
      exact scaled_nat_zero ..
    have e2 : toInt (.fin s m x) = signed s (m * 2^x.toNat) := by
      simp [toInt, hx]
    rw [e1, e2]
    simp only [Int.neg_zero, Int.toNat_zero, pow2_zero]
    refine ⟨by omega, by omega, m, x.toNat, Nat.le_refl _, natAbs_signed ..⟩
  · have hmin : min x 0 = x := by omega
    rw [hmin, scaled_self]
    have e2 : toInt (.fin s m x) = signed s (m / 2^(-x).toNat) := by
      simp [toInt, hx]
    rw [e2, pow2_cast, signed_mul]
    have hP : 0 < 2^(-x).toNat := Nat.pow_pos (by decide)
    generalize (2:Nat)^(-x).toNat = P at *
    have d1 : m / P * P ≤ m := Nat.div_mul_le_self m P
    have d2 : m < m / P * P + P := by
      have := Nat.lt_div_mul_add (a := m) hP
      omega
    have d3 : m / P ≤ m := Nat.div_le_self _ _
    generalize m / P = d at *
    refine ⟨?_, ?_, d, 0, d3, by rw [natAbs_signed]; simp⟩
    · unfold signed; cases s <;> simp <;> omega
    · unfold signed; cases s <;> simp <;> omega

end F64
end S3db
