import S3db.Model.Proto
import S3db.Gen.Facts
import S3db.Lemmas.JoinList
/-!
# Helper lemmas for C03 / C11 / C13: the inductive invariant of the bucket protocol

1. the generated facts, specialised once (`commitReqs_eq`, `openLocs_eq`, …);
2. `step` as a relation with one constructor per case (`StepRel`, `step_cases`);
3. what every step preserves without any invariant (`Upd`: registry grows by appending, `stored`
   and `root/merged/` grow, `ro` flags are constant);
4. the invariant `Inv` (global part `GInv`, per-client part `CInv`, trace part `TInv`), preserved by
   every step, hence true of every reachable state.

Core Lean only.
-/
namespace S3db.ProtoInv
open S3db S3db.Proto S3db.JoinList
abbrev F : Facts := S3db.Gen.facts

theorem retireReqs_eq (n p : Nat) : retireReqs F n p = retire n p := by
  simp [retireReqs, retire, S3db.Gen.facts]

theorem commitReqs_eq (n : Nat) (ps : List Nat) : commitReqs F n ps = reqs n ps := by
  have h1 : retireReqs F n = retire n := funext (retireReqs_eq n)
  have h2 : F.commitOrder = ["flushNodes", "putRoot", "retireParents"] := rfl
  unfold commitReqs
  rw [h2, h1]
  simp [reqs]

theorem openLocs_eq : openLocs F = [.current, .merged] := by decide
theorem historicLocs_eq : historicLocs F = [.current, .merged] := by decide
theorem roCommitBlocked_eq : roCommitBlocked F = true := by decide
theorem openCommitsOnlyIfRW_eq : F.openCommitsOnlyIfRW = true := rfl

inductive StepRel (s : Sys) (i : Nat) (c : Client) : Sys → Prop
  | crash : StepRel s i c
      (setClient s i { c with alive := false, queue := [], opening := false, committing := none })
  | startOpen (hq : c.queue = []) (ho : c.opening = false) : StepRel s i c
      (setClient s i { c with opening := true, queue := [.list], toLoad := [], loaded := [] })
  | startCommit (hq : c.queue = []) (ho : c.opening = false) (hro : c.ro = false) : StepRel s i c
      (beginCommit F s i c c.source)
  | list (rest : List Req) (hq : c.queue = .list :: rest) : StepRel s i c
      (setClient (serve s i .list) i
        { c with queue := rest, toLoad := s.bucket.current, tryLocs := none, loaded := [], seen := s.stored })
  | req (r : Req) (rest : List Req) (hq : c.queue = r :: rest) (hr : r ≠ .list) : StepRel s i c
      (finishIfDone (serve s i r) i { c with queue := rest })
  | skip (v : Nat) (more : List Nat) (hq : c.queue = []) (ho : c.opening = true)
      (hl : c.toLoad = v :: more) (ht : c.tryLocs.getD [.current, .merged] = []) : StepRel s i c
      (setClient s i { c with toLoad := more, tryLocs := none })
  | hit (v : Nat) (more : List Nat) (l : Loc) (ls : List Loc) (hq : c.queue = []) (ho : c.opening = true)
      (hl : c.toLoad = v :: more) (ht : c.tryLocs.getD [.current, .merged] = l :: ls)
      (hh : s.bucket.has l v = true) : StepRel s i c
      (setClient (serve s i (.get l v)) i { c with toLoad := more, tryLocs := none, loaded := c.loaded ++ [v] })
  | miss (v : Nat) (more : List Nat) (l : Loc) (ls : List Loc) (hq : c.queue = []) (ho : c.opening = true)
      (hl : c.toLoad = v :: more) (ht : c.tryLocs.getD [.current, .merged] = l :: ls)
      (hh : s.bucket.has l v = false) : StepRel s i c
      (setClient (serve s i (.get l v)) i { c with tryLocs := some ls })
  | openCommit (hq : c.queue = []) (ho : c.opening = true) (hl : c.toLoad = []) (hro : c.ro = false)
      (hlen : 2 ≤ c.loaded.length) : StepRel s i c
      (beginCommit F s i { c with opening := false, source := c.loaded } c.loaded)
  | openDone (hq : c.queue = []) (ho : c.opening = true) (hl : c.toLoad = []) : StepRel s i c
      (setClient s i { c with opening := false, source := c.loaded })

theorem stepClient_cases (s : Sys) (i : Nat) (c : Client) :
    stepClient F s i c = s ∨ StepRel s i c (stepClient F s i c) := by
  unfold stepClient
  split
  · next rest hq => exact Or.inr (.list rest hq)
  · next r rest hne hq =>
    refine Or.inr (.req r rest hq ?_)
    rintro rfl
    exact hne rfl
  · next hq =>
    split
    · next ho =>
      split
      · next v more hl =>
        rw [openLocs_eq]
        split
        · next ht => exact Or.inr (.skip v more hq ho hl ht)
        · next l ls ht =>
          split
          · next hh => exact Or.inr (.hit v more l ls hq ho hl ht hh)
          · next hh => exact Or.inr (.miss v more l ls hq ho hl ht (by simpa using hh))
      · next hl =>
        rw [openCommitsOnlyIfRW_eq]
        split
        · next hcond =>
          simp at hcond
          exact Or.inr (.openCommit hq ho hl hcond.1 hcond.2)
        · exact Or.inr (.openDone hq ho hl)
    · exact Or.inl rfl

theorem step_cases (s : Sys) (i : Nat) (a : Act) :
    step F s i a = s ∨ ∃ c, s.clients[i]? = some c ∧ c.alive = true ∧ StepRel s i c (step F s i a) := by
  unfold step
  split
  · exact Or.inl rfl
  · next c hc =>
    split
    · exact Or.inl rfl
    · next ha =>
      have ha : c.alive = true := by simpa using ha
      split
      · exact Or.inr ⟨c, hc, ha, .crash⟩
      · split
        · next h =>
          simp at h
          exact Or.inr ⟨c, hc, ha, .startOpen h.1 h.2⟩
        · exact Or.inl rfl
      · split
        · next h =>
          simp at h
          rw [roCommitBlocked_eq]
          split
          · exact Or.inl rfl
          · next h2 =>
            simp at h2
            exact Or.inr ⟨c, hc, ha, .startCommit h.1 h.2 h2⟩
        · exact Or.inl rfl
      · rcases stepClient_cases s i c with h | h
        · exact Or.inl h
        · exact Or.inr ⟨c, hc, ha, h⟩

/-! ## the registry and ancestry -/

theorem getD_append_lt {vers extra : List (List Nat)} {n : Nat} (h : n < vers.length) :
    (vers ++ extra).getD n [] = vers.getD n [] := by
  simp [List.getD_eq_getElem?_getD, List.getElem?_append_left h]

theorem getD_ge {vers : List (List Nat)} {n : Nat} (h : vers.length ≤ n) : vers.getD n [] = [] := by
  simp [List.getD_eq_getElem?_getD, List.getElem?_eq_none h]

theorem getD_append_self (vers : List (List Nat)) (ps : List Nat) :
    (vers ++ [ps]).getD vers.length [] = ps := by
  simp [List.getD_eq_getElem?_getD]

theorem mem_getD_append {vers extra : List (List Nat)} {n p : Nat} (h : p ∈ vers.getD n []) :
    p ∈ (vers ++ extra).getD n [] := by
  by_cases hn : n < vers.length
  · rwa [getD_append_lt hn]
  · rw [getD_ge (by omega)] at h; cases h

theorem _root_.S3db.Proto.Anc.append {vers : List (List Nat)} (extra : List (List Nat)) {v n : Nat} (h : Anc vers v n) :
    Anc (vers ++ extra) v n := by
  induction h with
  | refl => exact .refl _
  | step hp _ ih => exact .step (mem_getD_append hp) ih

theorem _root_.S3db.Proto.Anc.trans {vers : List (List Nat)} {v p n : Nat} (h1 : Anc vers v p) (h2 : Anc vers p n) :
    Anc vers v n := by
  induction h2 with
  | refl => exact h1
  | step hp _ ih => exact .step hp ih

theorem _root_.S3db.Proto.Anc.le {vers : List (List Nat)} (hlt : ∀ n p, p ∈ vers.getD n [] → p < n) {v n : Nat}
    (h : Anc vers v n) : v ≤ n := by
  induction h with
  | refl => exact Nat.le_refl _
  | step hp _ ih => exact Nat.le_trans ih (Nat.le_of_lt (hlt _ _ hp))

/-! ## the shape of a commit's request list -/

theorem mem_reqs {n : Nat} {ps : List Nat} {r : Req} (h : r ∈ reqs n ps) :
    r = .putNodes n ∨ r = .putCur n ∨ ∃ p, p ∈ ps ∧ p ≠ n ∧ (r = .putMerged p ∨ r = .delCur p) := by
  unfold reqs at h
  rcases List.mem_cons.mp h with h | h
  · exact Or.inl h
  rcases List.mem_cons.mp h with h | h
  · exact Or.inr (Or.inl h)
  · exact Or.inr (Or.inr (mem_retireAll h))

theorem list_not_mem_reqs {n : Nat} {ps : List Nat} : Req.list ∉ reqs n ps := by
  intro h
  rcases mem_reqs h with h | h | ⟨p, _, _, h | h⟩ <;> cases h

theorem putCur_mem_reqs (n : Nat) (ps : List Nat) : Req.putCur n ∈ reqs n ps := by
  simp [reqs]

/-- inside the retire list, `DELETE root/current/p` comes after `PUT root/merged/p` -/
theorem putMerged_before_delCur {n : Nat} {ps : List Nat} {pre rest : List Req} {p : Nat}
    (h : pre ++ .delCur p :: rest = ps.flatMap (retire n)) : .putMerged p ∈ pre := by
  induction ps generalizing pre with
  | nil => simp at h
  | cons q qs ih =>
    rw [List.flatMap_cons] at h
    by_cases hnq : n = q
    · have e : retire n q = [] := by simp [retire, hnq]
      rw [e] at h
      exact ih h
    · have e : retire n q = [.putMerged q, .delCur q] := by simp [retire, hnq]
      rw [e] at h
      match pre, h with
      | [], h => simp at h
      | [x], h =>
        simp at h
        obtain ⟨h1, h2, _⟩ := h
        subst h1; subst h2
        exact List.mem_cons_self ..
      | x :: y :: pre', h =>
        simp at h
        obtain ⟨_, _, h⟩ := h
        exact List.mem_cons_of_mem _ (List.mem_cons_of_mem _ (ih h))

/-- the request at the head of a commit's pending queue, given that the served prefix was served -/
theorem reqs_split {n : Nat} {ps : List Nat} {pre rest : List Req} {r : Req}
    (h : pre ++ r :: rest = reqs n ps) :
    r = .putNodes n ∨ r = .putCur n ∨
    ∃ p, p ∈ ps ∧ (r = .putMerged p ∨ (r = .delCur p ∧ .putMerged p ∈ pre ∧ .putCur n ∈ pre)) := by
  unfold reqs at h
  match pre, h with
  | [], h => simp at h; exact Or.inl h.1
  | [x], h => simp at h; exact Or.inr (Or.inl h.2.1)
  | x :: y :: pre', h =>
    simp at h
    obtain ⟨_, hy, h⟩ := h
    have hr : r ∈ ps.flatMap (retire n) := by rw [← h]; simp
    obtain ⟨p, hp, _, hr | hr⟩ := mem_retireAll hr
    · exact Or.inr (Or.inr ⟨p, hp, Or.inl hr⟩)
    · subst hr
      refine Or.inr (Or.inr ⟨p, hp, Or.inr ⟨rfl, ?_, ?_⟩⟩)
      · exact List.mem_cons_of_mem _ (List.mem_cons_of_mem _ (putMerged_before_delCur h))
      · subst hy; simp

/-! ## what every step preserves, without any invariant -/

/-- `stored` after serving `r` (the same `match` as in `serve`) -/
def storedAfter (stored : List Nat) (r : Req) : List Nat :=
  match r with
  | .putCur v => addNew v stored
  | _ => stored

theorem serve_stored (s : Sys) (i : Nat) (r : Req) : (serve s i r).stored = storedAfter s.stored r := by
  cases r <;> rfl

theorem storedAfter_mono (stored : List Nat) (r : Req) : ∀ v, v ∈ stored → v ∈ storedAfter stored r := by
  intro v hv
  cases r <;> first | exact hv | exact mem_addNew.mpr (Or.inr hv)

theorem apply_merged_mono (b : Bucket) (r : Req) : ∀ v, v ∈ b.merged → v ∈ (b.apply r).merged := by
  intro v hv
  cases r <;> first | exact hv | exact mem_addNew.mpr (Or.inr hv)

theorem finishIfDone_cases (s : Sys) (i : Nat) (c : Client) :
    (∃ n, c.queue = [] ∧ c.committing = some n ∧
      finishIfDone s i c =
        setClient { s with acked := addNew n s.acked } i { c with committing := none, source := [n] }) ∨
    ((c.queue ≠ [] ∨ c.committing = none) ∧ finishIfDone s i c = setClient s i c) := by
  unfold finishIfDone
  split
  · next n hq hcm => exact Or.inl ⟨n, hq, hcm, rfl⟩
  · next hne =>
    refine Or.inr ⟨?_, rfl⟩
    cases hq : c.queue with
    | nil =>
      cases hcm : c.committing with
      | none => exact Or.inr rfl
      | some n => exact (hne n hq hcm).elim
    | cons => exact Or.inl (by simp)

theorem map_ro_set {cs : List Client} {i : Nat} {c c' : Client} (hc : cs[i]? = some c)
    (hro : c'.ro = c.ro) : (cs.set i c').map (·.ro) = cs.map (·.ro) := by
  apply List.ext_getElem?
  intro j
  simp only [List.getElem?_map, List.getElem?_set]
  by_cases hij : i = j
  · subst hij
    rcases List.getElem?_eq_some_iff.mp hc with ⟨hlt, he⟩
    simp [hlt, hro, ← he]
  · simp [hij]

/-- the effect of one step of client `i` on the parts of the state other clients can observe -/
structure Upd (s : Sys) (i : Nat) (c : Client) (s' : Sys) : Prop where
  vers : ∃ extra, s'.vers = s.vers ++ extra
  clients : ∃ c', s'.clients = s.clients.set i c' ∧ c'.ro = c.ro
  stored : ∀ v, v ∈ s.stored → v ∈ s'.stored
  merged : ∀ v, v ∈ s.bucket.merged → v ∈ s'.bucket.merged

theorem Upd.of_set {s : Sys} {i : Nat} {c c' : Client} (hro : c'.ro = c.ro) :
    Upd s i c (setClient s i c') :=
  ⟨⟨[], (List.append_nil _).symm⟩, ⟨c', rfl, hro⟩, fun _ h => h, fun _ h => h⟩

theorem Upd.of_serve {s : Sys} {i : Nat} {c c' : Client} (r : Req) (hro : c'.ro = c.ro) :
    Upd s i c (setClient (serve s i r) i c') :=
  ⟨⟨[], (List.append_nil _).symm⟩, ⟨c', rfl, hro⟩,
   fun v h => by rw [show (setClient (serve s i r) i c').stored = (serve s i r).stored from rfl,
                     serve_stored]; exact storedAfter_mono _ _ v h,
   fun v h => apply_merged_mono _ r v h⟩

theorem Upd.of_begin {s : Sys} {i : Nat} {c c0 : Client} (ps : List Nat) (hro : c0.ro = c.ro) :
    Upd s i c (beginCommit F s i c0 ps) :=
  ⟨⟨[ps], rfl⟩, ⟨_, rfl, hro⟩, fun _ h => h, fun _ h => h⟩

theorem StepRel.upd {s : Sys} {i : Nat} {c : Client} {s' : Sys} (h : StepRel s i c s') : Upd s i c s' := by
  cases h with
  | crash => exact .of_set rfl
  | startOpen => exact .of_set rfl
  | startCommit => exact .of_begin _ rfl
  | list => exact .of_serve _ rfl
  | req r rest hq hr =>
    rcases finishIfDone_cases (serve s i r) i { c with queue := rest } with ⟨n, _, _, e⟩ | ⟨_, e⟩
    · rw [e]
      have := Upd.of_serve (s := s) (i := i) (c := c)
        (c' := { ({ c with queue := rest } : Client) with committing := none, source := [n] }) r rfl
      exact ⟨this.vers, this.clients, this.stored, this.merged⟩
    · rw [e]; exact .of_serve _ rfl
  | skip => exact .of_set rfl
  | hit => exact .of_serve _ rfl
  | miss => exact .of_serve _ rfl
  | openCommit => exact .of_begin _ rfl
  | openDone => exact .of_set rfl

/-- `s'` is a later state than `s` -/
structure Later (s s' : Sys) : Prop where
  vers : ∃ extra, s'.vers = s.vers ++ extra
  ro : s'.clients.map (·.ro) = s.clients.map (·.ro)
  stored : ∀ v, v ∈ s.stored → v ∈ s'.stored
  merged : ∀ v, v ∈ s.bucket.merged → v ∈ s'.bucket.merged

theorem Later.refl (s : Sys) : Later s s :=
  ⟨⟨[], (List.append_nil _).symm⟩, rfl, fun _ h => h, fun _ h => h⟩

theorem Later.trans {s1 s2 s3 : Sys} (h1 : Later s1 s2) (h2 : Later s2 s3) : Later s1 s3 := by
  obtain ⟨e1, he1⟩ := h1.vers
  obtain ⟨e2, he2⟩ := h2.vers
  exact ⟨⟨e1 ++ e2, by rw [he2, he1, List.append_assoc]⟩, h2.ro.trans h1.ro,
    fun v h => h2.stored v (h1.stored v h), fun v h => h2.merged v (h1.merged v h)⟩

theorem step_later (s : Sys) (i : Nat) (a : Act) : Later s (step F s i a) := by
  rcases step_cases s i a with e | ⟨c, hc, _, h⟩
  · rw [e]; exact Later.refl s
  · have u := h.upd
    obtain ⟨c', hcl, hro⟩ := u.clients
    exact ⟨u.vers, by rw [hcl]; exact map_ro_set hc hro, u.stored, u.merged⟩

theorem run_nil (s : Sys) : run F s [] = s := rfl
theorem run_cons (s : Sys) (p : Nat × Act) (sched : List (Nat × Act)) :
    run F s (p :: sched) = run F (step F s p.1 p.2) sched := rfl
theorem run_append (s : Sys) (a b : List (Nat × Act)) : run F s (a ++ b) = run F (run F s a) b := by
  simp [run, List.foldl_append]

theorem run_later (s : Sys) (sched : List (Nat × Act)) : Later s (run F s sched) := by
  induction sched generalizing s with
  | nil => exact Later.refl s
  | cons p sched ih => rw [run_cons]; exact (step_later s p.1 p.2).trans (ih _)

/-! ## the invariant -/

/-- the effect of an already served request is still there (`stored` and `root/merged/` only grow) -/
def Served (stored merged : List Nat) : Req → Prop
  | .putCur v => v ∈ stored
  | .putMerged v => v ∈ merged
  | _ => True

theorem Served.mono {stored merged stored' merged' : List Nat} {r : Req} (h : Served stored merged r)
    (hs : ∀ v, v ∈ stored → v ∈ stored') (hm : ∀ v, v ∈ merged → v ∈ merged') :
    Served stored' merged' r := by
  cases r <;> first | exact trivial | exact hs _ h | exact hm _ h

theorem Served.after (stored : List Nat) (b : Bucket) (r : Req) :
    Served (storedAfter stored r) (b.apply r).merged r := by
  cases r <;> first | exact trivial | exact mem_addNew.mpr (Or.inl rfl)

/-- the global part: registry, bucket, `stored`, `acked` -/
structure GInv (vers : List (List Nat)) (b : Bucket) (stored acked : List Nat) : Prop where
  stored_lt : ∀ v : Nat, v ∈ stored → v < vers.length
  parent_lt : ∀ n p : Nat, p ∈ vers.getD n [] → p < n
  stored_sub : ∀ v : Nat, v ∈ stored → v ∈ b.current ∨ v ∈ b.merged
  current_sub : ∀ v : Nat, v ∈ b.current → v ∈ stored
  acked_sub : ∀ v : Nat, v ∈ acked → v ∈ stored
  covered : ∀ v : Nat, v ∈ stored → ∃ n : Nat, n ∈ b.current ∧ Anc vers v n

/-- the per-client part; it mentions the global state only through the registry, `stored` and
    `root/merged/`, all of which only grow -/
structure CInv (vers : List (List Nat)) (stored merged : List Nat) (c : Client) : Prop where
  toLoad_sub : ∀ v : Nat, v ∈ c.toLoad → v ∈ stored
  loaded_sub : ∀ v : Nat, v ∈ c.loaded → v ∈ stored
  source_sub : ∀ v : Nat, v ∈ c.source → v ∈ stored
  idle : c.committing = none → c.queue = [] ∨ c.queue = [.list]
  busy : ∀ n : Nat, c.committing = some n →
    c.opening = false ∧ c.ro = false ∧ n < vers.length ∧ c.queue ≠ [] ∧
    ∃ pre, pre ++ c.queue = reqs n (vers.getD n []) ∧ ∀ r, r ∈ pre → Served stored merged r
  opening : c.opening = true → c.queue = [] →
    (∀ v : Nat, v ∈ c.seen → ∃ n : Nat, n ∈ c.loaded ++ c.toLoad ∧ Anc vers v n) ∧
    (c.tryLocs = none ∨ ∃ (v : Nat) (more : List Nat), c.toLoad = v :: more ∧ c.tryLocs = some [.merged] ∧ v ∈ merged)

/-- mutating requests in the trace were issued by read-write clients -/
def TInv (s : Sys) : Prop :=
  ∀ p, p ∈ s.trace → p.2.mutation = true → (s.clients.map (·.ro))[p.1]? = some false

structure Inv (s : Sys) : Prop where
  g : GInv s.vers s.bucket s.stored s.acked
  c : ∀ (i : Nat) (c : Client), s.clients[i]? = some c → CInv s.vers s.stored s.bucket.merged c
  t : TInv s

theorem CInv.queue_nil {vers : List (List Nat)} {stored merged : List Nat} {c : Client}
    (h : CInv vers stored merged c) (hq : c.queue = []) : c.committing = none := by
  cases hcm : c.committing with
  | none => rfl
  | some n => exact ((h.busy n hcm).2.2.2.1 hq).elim

theorem CInv.mono {vers : List (List Nat)} {stored merged : List Nat} {c : Client}
    (h : CInv vers stored merged c) (extra : List (List Nat)) {stored' merged' : List Nat}
    (hs : ∀ v, v ∈ stored → v ∈ stored') (hm : ∀ v, v ∈ merged → v ∈ merged') :
    CInv (vers ++ extra) stored' merged' c := by
  refine ⟨fun v hv => hs v (h.toLoad_sub v hv), fun v hv => hs v (h.loaded_sub v hv),
    fun v hv => hs v (h.source_sub v hv), h.idle, ?_, ?_⟩
  · intro n hn
    obtain ⟨h1, h2, h3, h4, pre, h5, h6⟩ := h.busy n hn
    have h3' : n < (vers ++ extra).length := by rw [List.length_append]; omega
    refine ⟨h1, h2, h3', h4, pre, ?_, fun r hr => (h6 r hr).mono hs hm⟩
    rw [getD_append_lt h3]; exact h5
  · intro ho hq
    obtain ⟨h1, h2⟩ := h.opening ho hq
    refine ⟨fun v hv => ?_, ?_⟩
    · obtain ⟨n, hn, ha⟩ := h1 v hv
      exact ⟨n, hn, ha.append extra⟩
    · rcases h2 with h2 | ⟨v, more, e1, e2, hv⟩
      · exact Or.inl h2
      · exact Or.inr ⟨v, more, e1, e2, hm v hv⟩

/-- a commit begins: the registry gets the new version, whose parents are stored versions -/
theorem GInv.append {vers : List (List Nat)} {b : Bucket} {stored acked : List Nat}
    (h : GInv vers b stored acked) (ps : List Nat) (hps : ∀ p, p ∈ ps → p ∈ stored) :
    GInv (vers ++ [ps]) b stored acked := by
  refine ⟨?_, ?_, h.stored_sub, h.current_sub, h.acked_sub, ?_⟩
  · intro v hv
    have := h.stored_lt v hv
    rw [List.length_append]; omega
  · intro n p hp
    by_cases h1 : n < vers.length
    · rw [getD_append_lt h1] at hp; exact h.parent_lt n p hp
    · by_cases h2 : n = vers.length
      · subst h2
        rw [getD_append_self] at hp
        exact h.stored_lt p (hps p hp)
      · rw [getD_ge (by simp; omega)] at hp; cases hp
  · intro v hv
    obtain ⟨n, hn, ha⟩ := h.covered v hv
    exact ⟨n, hn, ha.append _⟩

theorem GInv.ack {vers : List (List Nat)} {b : Bucket} {stored acked : List Nat}
    (h : GInv vers b stored acked) {n : Nat} (hn : n ∈ stored) : GInv vers b stored (addNew n acked) := by
  refine ⟨h.stored_lt, h.parent_lt, h.stored_sub, h.current_sub, ?_, h.covered⟩
  intro v hv
  rcases mem_addNew.mp hv with rfl | hv
  · exact hn
  · exact h.acked_sub v hv

/-- serving one request of the commit of `n` -/
theorem GInv.serve {vers : List (List Nat)} {b : Bucket} {stored acked : List Nat}
    (h : GInv vers b stored acked) {n : Nat} (hn : n < vers.length) {r : Req}
    (hr : r = .putNodes n ∨ r = .putCur n ∨
      ∃ p, p ∈ vers.getD n [] ∧ (r = .putMerged p ∨ (r = .delCur p ∧ p ∈ b.merged ∧ n ∈ stored))) :
    GInv vers (b.apply r) (storedAfter stored r) acked := by
  rcases hr with rfl | rfl | ⟨p, hp, rfl | ⟨rfl, hpm, hns⟩⟩
  · exact ⟨h.stored_lt, h.parent_lt, h.stored_sub, h.current_sub, h.acked_sub, h.covered⟩
  · -- PUT root/current/n
    refine ⟨?_, h.parent_lt, ?_, ?_, ?_, ?_⟩
    · intro v hv
      rcases mem_addNew.mp hv with rfl | hv
      · exact hn
      · exact h.stored_lt v hv
    · intro v hv
      rcases mem_addNew.mp hv with rfl | hv
      · exact Or.inl (mem_addNew.mpr (Or.inl rfl))
      · rcases h.stored_sub v hv with h1 | h1
        · exact Or.inl (mem_addNew.mpr (Or.inr h1))
        · exact Or.inr h1
    · intro v hv
      rcases mem_addNew.mp hv with rfl | hv
      · exact mem_addNew.mpr (Or.inl rfl)
      · exact mem_addNew.mpr (Or.inr (h.current_sub v hv))
    · intro v hv
      exact mem_addNew.mpr (Or.inr (h.acked_sub v hv))
    · intro v hv
      rcases mem_addNew.mp hv with rfl | hv
      · exact ⟨v, mem_addNew.mpr (Or.inl rfl), .refl _⟩
      · obtain ⟨m, hm, ha⟩ := h.covered v hv
        exact ⟨m, mem_addNew.mpr (Or.inr hm), ha⟩
  · -- PUT root/merged/p
    refine ⟨h.stored_lt, h.parent_lt, ?_, h.current_sub, h.acked_sub, h.covered⟩
    intro v hv
    rcases h.stored_sub v hv with h1 | h1
    · exact Or.inl h1
    · exact Or.inr (mem_addNew.mpr (Or.inr h1))
  · -- DELETE root/current/p: `p` is in `root/merged/` already, and the child `n` is stored
    have hfilter : ∀ x : Nat, x ∈ (b.apply (.delCur p)).current ↔ x ∈ b.current ∧ x ≠ p := by
      intro x; simp [Bucket.apply, List.mem_filter]
    refine ⟨h.stored_lt, h.parent_lt, ?_, ?_, h.acked_sub, ?_⟩
    · intro v hv
      by_cases hvp : v = p
      · subst hvp; exact Or.inr hpm
      · rcases h.stored_sub v hv with h1 | h1
        · exact Or.inl ((hfilter v).mpr ⟨h1, hvp⟩)
        · exact Or.inr h1
    · intro v hv
      exact h.current_sub v ((hfilter v).mp hv).1
    · intro v hv
      obtain ⟨m, hm, ha⟩ := h.covered v hv
      by_cases hmp : m = p
      · subst hmp
        obtain ⟨n', hn', ha'⟩ := h.covered n hns
        have h1 : m < n := h.parent_lt n m hp
        have h2 : n ≤ n' := ha'.le h.parent_lt
        exact ⟨n', (hfilter n').mpr ⟨hn', by omega⟩, (Anc.step hp ha).trans ha'⟩
      · exact ⟨m, (hfilter m).mpr ⟨hm, hmp⟩, ha⟩

/-! ## preservation -/

/-- the generic step: client `i` becomes `c'`, the global state moves to a later one -/
theorem Inv.update {s s' : Sys} (hI : Inv s) {i : Nat} {c c' : Client} {extra : List (List Nat)}
    (hc : s.clients[i]? = some c)
    (hV : s'.vers = s.vers ++ extra)
    (hCl : s'.clients = s.clients.set i c')
    (hS : ∀ v, v ∈ s.stored → v ∈ s'.stored)
    (hM : ∀ v, v ∈ s.bucket.merged → v ∈ s'.bucket.merged)
    (hG : GInv s'.vers s'.bucket s'.stored s'.acked)
    (hC : CInv s'.vers s'.stored s'.bucket.merged c')
    (hro : c'.ro = c.ro)
    (hT : ∀ p, p ∈ s'.trace → p ∈ s.trace ∨ (p.1 = i ∧ (p.2.mutation = true → c.ro = false))) :
    Inv s' := by
  refine ⟨hG, ?_, ?_⟩
  · intro j cj hj
    rw [hCl, List.getElem?_set] at hj
    by_cases hij : i = j
    · rw [if_pos hij] at hj
      split at hj
      · cases hj; exact hC
      · cases hj
    · rw [if_neg hij] at hj
      rw [hV]
      exact (hI.c j cj hj).mono extra hS hM
  · intro p hp hmut
    rw [hCl, map_ro_set hc hro]
    rcases hT p hp with h | ⟨h1, h2⟩
    · exact hI.t p h hmut
    · rw [h1, List.getElem?_map, hc, ← h2 hmut]; rfl

theorem Inv.init (ros : List Bool) : Inv (init ros) := by
  refine ⟨⟨?_, ?_, ?_, ?_, ?_, ?_⟩, ?_, ?_⟩
  · intro v hv; cases hv
  · intro n p hp; simp [Proto.init] at hp
  · intro v hv; cases hv
  · intro v hv; cases hv
  · intro v hv; cases hv
  · intro v hv; cases hv
  · intro i c hc
    simp only [Proto.init, List.getElem?_map] at hc
    cases hr : ros[i]? with
    | none => simp [hr] at hc
    | some r =>
      simp [hr] at hc
      subst hc
      refine ⟨?_, ?_, ?_, ?_, ?_, ?_⟩
      · intro v hv; cases hv
      · intro v hv; cases hv
      · intro v hv; cases hv
      · intro _; exact Or.inl rfl
      · intro n hn; cases hn
      · intro ho; cases ho
  · intro p hp; cases hp

/-- a client that is not in the middle of a commit starts one -/
theorem CInv.begin {vers : List (List Nat)} {stored merged : List Nat} {c0 : Client}
    (h : CInv vers stored merged c0) (ho : c0.opening = false) (hro : c0.ro = false) (ps : List Nat) :
    CInv (vers ++ [ps]) stored merged
      { c0 with queue := commitReqs F vers.length ps, committing := some vers.length } := by
  have hm := h.mono [ps] (fun _ hv => hv) (fun _ hv => hv)
  refine ⟨hm.toLoad_sub, hm.loaded_sub, hm.source_sub, ?_, ?_, ?_⟩
  · intro hcm; cases hcm
  · intro n hn
    cases hn
    refine ⟨ho, hro, by simp, ?_, [], ?_, ?_⟩
    · show commitReqs F vers.length ps ≠ []
      rw [commitReqs_eq]; simp [reqs]
    · show [] ++ commitReqs F vers.length ps = _
      rw [commitReqs_eq, getD_append_self]; rfl
    · intro r hr; cases hr
  · intro ho'
    rw [show ({ c0 with queue := commitReqs F vers.length ps,
                        committing := some vers.length } : Client).opening = c0.opening from rfl, ho] at ho'
    cases ho'

theorem trace_same {s : Sys} {i : Nat} {c : Client} :
    ∀ p, p ∈ s.trace → p ∈ s.trace ∨ (p.1 = i ∧ (p.2.mutation = true → c.ro = false)) :=
  fun _ h => Or.inl h

theorem trace_served {s : Sys} {i : Nat} {c : Client} {r : Req} (h : r.mutation = true → c.ro = false) :
    ∀ p, p ∈ (i, r) :: s.trace → p ∈ s.trace ∨ (p.1 = i ∧ (p.2.mutation = true → c.ro = false)) := by
  intro p hp
  rcases List.mem_cons.mp hp with rfl | hp
  · exact Or.inr ⟨rfl, h⟩
  · exact Or.inl hp

theorem inv_crash {s : Sys} (hI : Inv s) {i : Nat} {c : Client} (hc : s.clients[i]? = some c) :
    Inv (setClient s i { c with alive := false, queue := [], opening := false, committing := none }) := by
  have h := hI.c i c hc
  refine hI.update (extra := []) hc (List.append_nil _).symm rfl (fun _ h => h) (fun _ h => h) hI.g ?_ rfl
    trace_same
  refine ⟨h.toLoad_sub, h.loaded_sub, h.source_sub, fun _ => Or.inl rfl, ?_, ?_⟩
  · intro n hn; cases hn
  · intro ho; cases ho

theorem inv_startOpen {s : Sys} (hI : Inv s) {i : Nat} {c : Client} (hc : s.clients[i]? = some c)
    (hq : c.queue = []) :
    Inv (setClient s i { c with opening := true, queue := [.list], toLoad := [], loaded := [] }) := by
  have h := hI.c i c hc
  have hcm := h.queue_nil hq
  refine hI.update (extra := []) hc (List.append_nil _).symm rfl (fun _ h => h) (fun _ h => h) hI.g ?_ rfl
    trace_same
  refine ⟨?_, ?_, h.source_sub, fun _ => Or.inr rfl, ?_, ?_⟩
  · intro v hv; cases hv
  · intro v hv; cases hv
  · intro n hn
    rw [show ({ c with opening := true, queue := [Req.list], toLoad := [], loaded := [] } : Client).committing
          = c.committing from rfl, hcm] at hn
    cases hn
  · intro _ hq'; cases hq'

theorem inv_begin {s : Sys} (hI : Inv s) {i : Nat} {c c0 : Client} (hc : s.clients[i]? = some c)
    (h0 : CInv s.vers s.stored s.bucket.merged c0) (ho : c0.opening = false) (hro : c0.ro = false)
    (hro' : c0.ro = c.ro) (ps : List Nat) (hps : ∀ p, p ∈ ps → p ∈ s.stored) :
    Inv (beginCommit F s i c0 ps) :=
  hI.update (extra := [ps]) hc rfl rfl (fun _ h => h) (fun _ h => h) (hI.g.append ps hps)
    (h0.begin ho hro ps) hro' trace_same

theorem inv_list {s : Sys} (hI : Inv s) {i : Nat} {c : Client} (hc : s.clients[i]? = some c)
    {rest : List Req} (hq : c.queue = .list :: rest) :
    Inv (setClient (serve s i .list) i
      { c with queue := rest, toLoad := s.bucket.current, tryLocs := none, loaded := [], seen := s.stored }) := by
  have h := hI.c i c hc
  have hcm : c.committing = none := by
    cases hcm : c.committing with
    | none => rfl
    | some n =>
      obtain ⟨_, _, _, _, pre, hpre, _⟩ := h.busy n hcm
      rw [hq] at hpre
      exact (list_not_mem_reqs (n := n) (ps := s.vers.getD n []) (by rw [← hpre]; simp)).elim
  have hrest : rest = [] := by
    rcases h.idle hcm with h1 | h1 <;> rw [hq] at h1 <;> simp at h1
    exact h1
  subst hrest
  refine hI.update (extra := []) hc (List.append_nil _).symm rfl (fun _ h => h) (fun _ h => h) hI.g ?_ rfl
    (trace_served (fun h => by cases h))
  refine ⟨hI.g.current_sub, ?_, h.source_sub, fun _ => Or.inl rfl, ?_, ?_⟩
  · intro v hv; cases hv
  · intro n hn
    rw [show ({ c with queue := [], toLoad := s.bucket.current, tryLocs := none, loaded := [],
                       seen := s.stored } : Client).committing = c.committing from rfl, hcm] at hn
    cases hn
  · intro _ _
    refine ⟨?_, Or.inl rfl⟩
    intro v hv
    obtain ⟨n, hn, ha⟩ := hI.g.covered v hv
    exact ⟨n, by simpa using hn, ha⟩

theorem inv_req {s : Sys} (hI : Inv s) {i : Nat} {c : Client} (hc : s.clients[i]? = some c)
    {r : Req} {rest : List Req} (hq : c.queue = r :: rest) (hr : r ≠ .list) :
    Inv (finishIfDone (serve s i r) i { c with queue := rest }) := by
  have h := hI.c i c hc
  obtain ⟨n, hcm⟩ : ∃ n : Nat, c.committing = some n := by
    cases hcm : c.committing with
    | some n => exact ⟨n, rfl⟩
    | none =>
      rcases h.idle hcm with h1 | h1 <;> rw [hq] at h1 <;> simp at h1
      exact (hr h1.1).elim
  obtain ⟨ho, hro, hn, _, pre, hpre, hserved⟩ := h.busy n hcm
  rw [hq] at hpre
  -- the global part after serving `r`
  have hshape : r = .putNodes n ∨ r = .putCur n ∨ ∃ p, p ∈ s.vers.getD n [] ∧
      (r = .putMerged p ∨ (r = .delCur p ∧ p ∈ s.bucket.merged ∧ n ∈ s.stored)) := by
    rcases reqs_split hpre with h1 | h1 | ⟨p, hp, h1 | ⟨h1, h2, h3⟩⟩
    · exact Or.inl h1
    · exact Or.inr (Or.inl h1)
    · exact Or.inr (Or.inr ⟨p, hp, Or.inl h1⟩)
    · exact Or.inr (Or.inr ⟨p, hp, Or.inr ⟨h1, hserved _ h2, hserved _ h3⟩⟩)
  have hG : GInv s.vers (s.bucket.apply r) (storedAfter s.stored r) s.acked := hI.g.serve hn hshape
  have hS := storedAfter_mono s.stored r
  have hM := apply_merged_mono s.bucket r
  have hm := h.mono [] hS hM
  rw [List.append_nil] at hm
  -- the served prefix grows by `r`
  have hpre' : (pre ++ [r]) ++ rest = reqs n (s.vers.getD n []) := by
    rw [← hpre]; simp
  have hserved' : ∀ x, x ∈ pre ++ [r] → Served (storedAfter s.stored r) (s.bucket.apply r).merged x := by
    intro x hx
    rcases List.mem_append.mp hx with hx | hx
    · exact (hserved x hx).mono hS hM
    · rw [List.mem_singleton.mp hx]; exact Served.after _ _ _
  have hT := trace_served (s := s) (i := i) (c := c) (r := r) (fun _ => hro)
  rcases finishIfDone_cases (serve s i r) i { c with queue := rest } with ⟨n', hq', hcm', e⟩ | ⟨hne, e⟩
  · -- the last request: the commit returns
    rw [e]
    have hq' : rest = [] := hq'
    have hn' : n' = n := by
      have : c.committing = some n' := hcm'
      rw [hcm] at this; cases this; rfl
    subst hq'; subst hn'
    have hns : n' ∈ storedAfter s.stored r := by
      have := hserved' (.putCur n') (by rw [← List.append_nil (pre ++ [r]), hpre']; exact putCur_mem_reqs _ _)
      exact this
    refine hI.update (extra := []) hc (List.append_nil _).symm rfl ?_ hM ?_ ?_ rfl hT
    · intro v hv; show v ∈ (serve s i r).stored; rw [serve_stored]; exact hS v hv
    · show GInv s.vers (s.bucket.apply r) (serve s i r).stored (addNew n' s.acked)
      rw [serve_stored]; exact hG.ack hns
    · show CInv s.vers (serve s i r).stored (s.bucket.apply r).merged _
      rw [serve_stored]
      refine ⟨hm.toLoad_sub, hm.loaded_sub, ?_, fun _ => Or.inl rfl, ?_, ?_⟩
      · intro v hv
        rw [List.mem_singleton.mp hv]; exact hns
      · intro m hm'; cases hm'
      · intro ho'
        rw [show ({ ({ c with queue := [] } : Client) with committing := none, source := [n'] } : Client).opening
              = c.opening from rfl, ho] at ho'
        cases ho'
  · -- more requests pending
    rw [e]
    have hrest : rest ≠ [] := by
      rcases hne with h1 | h1
      · exact h1
      · have : c.committing = none := h1
        rw [hcm] at this; cases this
    refine hI.update (extra := []) hc (List.append_nil _).symm rfl ?_ hM ?_ ?_ rfl hT
    · intro v hv; show v ∈ (serve s i r).stored; rw [serve_stored]; exact hS v hv
    · show GInv s.vers (s.bucket.apply r) (serve s i r).stored s.acked
      rw [serve_stored]; exact hG
    · show CInv s.vers (serve s i r).stored (s.bucket.apply r).merged _
      rw [serve_stored]
      refine ⟨hm.toLoad_sub, hm.loaded_sub, hm.source_sub, ?_, ?_, ?_⟩
      · intro hcm'
        have : c.committing = none := hcm'
        rw [hcm] at this; cases this
      · intro m hm'
        have : c.committing = some m := hm'
        rw [hcm] at this; cases this
        exact ⟨ho, hro, hn, hrest, pre ++ [r], hpre', hserved'⟩
      · intro ho'
        have : c.opening = true := ho'
        rw [ho] at this; cases this

theorem inv_skip {s : Sys} (hI : Inv s) {i : Nat} {c : Client} (hc : s.clients[i]? = some c)
    (hq : c.queue = []) (ho : c.opening = true)
    (ht : c.tryLocs.getD [.current, .merged] = []) : False := by
  rcases ((hI.c i c hc).opening ho hq).2 with h | ⟨_, _, _, h, _⟩ <;> rw [h] at ht <;> simp at ht

theorem inv_hit {s : Sys} (hI : Inv s) {i : Nat} {c : Client} (hc : s.clients[i]? = some c)
    {v : Nat} {more : List Nat} {l : Loc} (hq : c.queue = []) (ho : c.opening = true)
    (hl : c.toLoad = v :: more) :
    Inv (setClient (serve s i (.get l v)) i
      { c with toLoad := more, tryLocs := none, loaded := c.loaded ++ [v] }) := by
  have h := hI.c i c hc
  have hcm := h.queue_nil hq
  refine hI.update (extra := []) hc (List.append_nil _).symm rfl (fun _ h => h) (fun _ h => h) hI.g ?_ rfl
    (trace_served (fun h => by cases h))
  refine ⟨?_, ?_, h.source_sub, h.idle, ?_, ?_⟩
  · intro x hx; exact h.toLoad_sub x (by rw [hl]; exact List.mem_cons_of_mem _ hx)
  · intro x hx
    rcases List.mem_append.mp hx with hx | hx
    · exact h.loaded_sub x hx
    · rw [List.mem_singleton.mp hx]; exact h.toLoad_sub v (by rw [hl]; exact List.mem_cons_self ..)
  · intro n hn
    have : c.committing = some n := hn
    rw [hcm] at this; cases this
  · intro _ _
    refine ⟨?_, Or.inl rfl⟩
    intro x hx
    obtain ⟨n, hn, ha⟩ := (h.opening ho hq).1 x hx
    refine ⟨n, ?_, ha⟩
    rw [hl] at hn
    show n ∈ (c.loaded ++ [v]) ++ more
    simpa using hn

theorem inv_miss {s : Sys} (hI : Inv s) {i : Nat} {c : Client} (hc : s.clients[i]? = some c)
    {v : Nat} {more : List Nat} {l : Loc} {ls : List Loc} (hq : c.queue = []) (ho : c.opening = true)
    (hl : c.toLoad = v :: more) (ht : c.tryLocs.getD [.current, .merged] = l :: ls)
    (hh : s.bucket.has l v = false) :
    Inv (setClient (serve s i (.get l v)) i { c with tryLocs := some ls }) := by
  have h := hI.c i c hc
  have hcm := h.queue_nil hq
  refine hI.update (extra := []) hc (List.append_nil _).symm rfl (fun _ h => h) (fun _ h => h) hI.g ?_ rfl
    (trace_served (fun h => by cases h))
  refine ⟨h.toLoad_sub, h.loaded_sub, h.source_sub, h.idle, h.busy, ?_⟩
  intro _ _
  refine ⟨(h.opening ho hq).1, Or.inr ⟨v, more, hl, ?_, ?_⟩⟩
  · show some ls = some [Loc.merged]
    rcases (h.opening ho hq).2 with h1 | ⟨v', more', e1, e2, hv'⟩
    · rw [h1] at ht; simp at ht; rw [ht.2]
    · exfalso
      rw [e2] at ht; simp at ht
      rw [hl] at e1; cases e1
      rw [← ht.1] at hh
      simp [Bucket.has, hv'] at hh
  · rcases (h.opening ho hq).2 with h1 | ⟨v', more', e1, e2, hv'⟩
    · rw [h1] at ht; simp at ht
      rw [← ht.1] at hh
      have hvc : v ∉ s.bucket.current := by simpa [Bucket.has] using hh
      rcases hI.g.stored_sub v (h.toLoad_sub v (by rw [hl]; exact List.mem_cons_self ..)) with h2 | h2
      · exact (hvc h2).elim
      · exact h2
    · rw [hl] at e1; cases e1; exact hv'

theorem inv_openDone {s : Sys} (hI : Inv s) {i : Nat} {c : Client} (hc : s.clients[i]? = some c)
    (hq : c.queue = []) :
    Inv (setClient s i { c with opening := false, source := c.loaded }) := by
  have h := hI.c i c hc
  have hcm := h.queue_nil hq
  refine hI.update (extra := []) hc (List.append_nil _).symm rfl (fun _ h => h) (fun _ h => h) hI.g ?_ rfl
    trace_same
  refine ⟨h.toLoad_sub, h.loaded_sub, h.loaded_sub, h.idle, ?_, ?_⟩
  · intro n hn
    have : c.committing = some n := hn
    rw [hcm] at this; cases this
  · intro ho'; cases ho'

theorem inv_openCommit {s : Sys} (hI : Inv s) {i : Nat} {c : Client} (hc : s.clients[i]? = some c)
    (hq : c.queue = []) (hro : c.ro = false) :
    Inv (beginCommit F s i { c with opening := false, source := c.loaded } c.loaded) := by
  have h := hI.c i c hc
  have hcm := h.queue_nil hq
  refine inv_begin (c0 := { c with opening := false, source := c.loaded }) hI hc ?_ rfl hro rfl c.loaded
    h.loaded_sub
  refine ⟨h.toLoad_sub, h.loaded_sub, h.loaded_sub, h.idle, ?_, ?_⟩
  · intro n hn
    have : c.committing = some n := hn
    rw [hcm] at this; cases this
  · intro ho'; cases ho'

theorem inv_stepRel {s : Sys} (hI : Inv s) {i : Nat} {c : Client} (hc : s.clients[i]? = some c)
    {s' : Sys} (h : StepRel s i c s') : Inv s' := by
  cases h with
  | crash => exact inv_crash hI hc
  | startOpen hq ho => exact inv_startOpen hI hc hq
  | startCommit hq ho hro => exact inv_begin hI hc (hI.c i c hc) ho hro rfl c.source (hI.c i c hc).source_sub
  | list rest hq => exact inv_list hI hc hq
  | req r rest hq hr => exact inv_req hI hc hq hr
  | skip v more hq ho hl ht => exact (inv_skip hI hc hq ho ht).elim
  | hit v more l ls hq ho hl ht hh => exact inv_hit hI hc hq ho hl
  | miss v more l ls hq ho hl ht hh => exact inv_miss hI hc hq ho hl ht hh
  | openCommit hq ho hl hro hlen => exact inv_openCommit hI hc hq hro
  | openDone hq ho hl => exact inv_openDone hI hc hq

theorem inv_step {s : Sys} (hI : Inv s) (i : Nat) (a : Act) : Inv (step F s i a) := by
  rcases step_cases s i a with e | ⟨c, hc, _, h⟩
  · rw [e]; exact hI
  · exact inv_stepRel hI hc h

theorem inv_run {s : Sys} (hI : Inv s) (sched : List (Nat × Act)) : Inv (run F s sched) := by
  induction sched generalizing s with
  | nil => exact hI
  | cons p sched ih => rw [run_cons]; exact ih (inv_step hI p.1 p.2)

theorem inv_reachable (ros : List Bool) (sched : List (Nat × Act)) : Inv (run F (init ros) sched) :=
  inv_run (Inv.init ros) sched

/-! ## consequences used by the property theorems -/

theorem Later.client {s s' : Sys} (h : Later s s') {j : Nat} {c : Client} (hc : s.clients[j]? = some c) :
    ∃ c', s'.clients[j]? = some c' ∧ c'.ro = c.ro := by
  have e : (s'.clients.map (·.ro))[j]? = (s.clients.map (·.ro))[j]? := by rw [h.ro]
  rw [List.getElem?_map, List.getElem?_map, hc] at e
  cases hc' : s'.clients[j]? with
  | none => rw [hc'] at e; cases e
  | some c' =>
    rw [hc'] at e
    exact ⟨c', rfl, by simpa using e⟩

theorem Later.vers_get {s s' : Sys} (h : Later s s') {v : Nat} {ps : List Nat}
    (hv : s.vers[v]? = some ps) : s'.vers[v]? = some ps := by
  obtain ⟨extra, e⟩ := h.vers
  rcases List.getElem?_eq_some_iff.mp hv with ⟨hlt, _⟩
  rw [e, List.getElem?_append_left hlt, hv]

theorem Inv.ro_no_mutation {s : Sys} (hI : Inv s) {i : Nat} {r : Req} {c : Client}
    (ht : (i, r) ∈ s.trace) (hc : s.clients[i]? = some c) (hro : c.ro = true) : r.mutation = false := by
  cases hm : r.mutation with
  | false => rfl
  | true =>
    have := hI.t (i, r) ht hm
    rw [List.getElem?_map, hc] at this
    simp [hro] at this

theorem openOnly_of_mem (b : Bucket) (vs : List Nat)
    (h : ∀ v, v ∈ vs → v ∈ b.current ∨ v ∈ b.merged) : openOnly F b vs = some vs := by
  unfold openOnly
  rw [historicLocs_eq, if_pos]
  rw [List.all_eq_true]
  intro v hv
  rcases h v hv with h1 | h1 <;> simp [Bucket.has, h1]

theorem openOnly_missing (b : Bucket) (vs : List Nat) (v : Nat) (hv : v ∈ vs)
    (h1 : v ∉ b.current) (h2 : v ∉ b.merged) : openOnly F b vs = none := by
  unfold openOnly
  rw [historicLocs_eq, if_neg]
  rw [List.all_eq_true]
  intro h
  have := h v hv
  simp [Bucket.has, h1, h2] at this

theorem step_list (s : Sys) (i : Nat) (c : Client) (rest : List Req)
    (hc : s.clients[i]? = some c) (ha : c.alive = true) (hq : c.queue = .list :: rest) :
    ∃ c', (step F s i .step).clients[i]? = some c' ∧ c'.seen = s.stored ∧ c'.toLoad = s.bucket.current := by
  rcases List.getElem?_eq_some_iff.mp hc with ⟨hlt, _⟩
  refine ⟨{ c with queue := rest, toLoad := s.bucket.current, tryLocs := none, loaded := [], seen := s.stored },
    ?_, rfl, rfl⟩
  simp only [step, hc, ha, stepClient, hq, setClient, serve]
  simp [hlt]
