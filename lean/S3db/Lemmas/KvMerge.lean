import S3db.Model.Kv
import S3db.Lemmas.Sel
/-! Helper lemmas: the tree merge is pointwise. -/
namespace S3db.AList
set_option linter.unusedSectionVars false
variable {K V : Type} [DecidableEq K]

def NodupKeys (xs : AList K V) : Prop := (keys xs).Nodup

theorem mem_keys_insert {k k' : K} {v : V} {xs : AList K V} :
    k' ∈ keys (insert k v xs) ↔ k' = k ∨ k' ∈ keys xs := by
  induction xs with
  | nil => simp [insert, keys]
  | cons p xs ih =>
    obtain ⟨a, b⟩ := p
    by_cases h : a = k
    · subst h; simp [insert, keys]
    · simp only [insert, h, if_false, keys, List.map_cons, List.mem_cons] at ih ⊢
      rw [ih]
      constructor
      · rintro (h1 | h1 | h1)
        · exact Or.inr (Or.inl h1)
        · exact Or.inl h1
        · exact Or.inr (Or.inr h1)
      · rintro (h1 | h1 | h1)
        · exact Or.inr (Or.inl h1)
        · exact Or.inl h1
        · exact Or.inr (Or.inr h1)

theorem nodupKeys_insert {k : K} {v : V} {xs : AList K V} (h : NodupKeys xs) :
    NodupKeys (insert k v xs) := by
  induction xs with
  | nil => simp [insert, NodupKeys, keys]
  | cons p xs ih =>
    obtain ⟨a, b⟩ := p
    unfold NodupKeys keys at h
    simp only [List.map_cons, List.nodup_cons] at h
    by_cases hk : a = k
    · subst hk
      simp only [insert, if_true, NodupKeys, keys, List.map_cons, List.nodup_cons]
      exact h
    · simp only [insert, hk, if_false, NodupKeys, keys, List.map_cons, List.nodup_cons]
      refine ⟨?_, ih h.2⟩
      intro hm
      have := (mem_keys_insert (k := k) (v := v) (xs := xs)).1 hm
      rcases this with h1 | h1
      · exact hk h1
      · exact h.1 h1

theorem nodupKeys_nil : NodupKeys ([] : AList K V) := by simp [NodupKeys, keys]

theorem nodupKeys_filter {xs : AList K V} (p : K × V → Bool) (h : NodupKeys xs) :
    NodupKeys (xs.filter p) := by
  unfold NodupKeys keys at *
  induction xs with
  | nil => simp
  | cons q xs ih =>
    simp only [List.map_cons, List.nodup_cons] at h
    by_cases hq : p q
    · simp only [List.filter_cons, hq, if_true, List.map_cons, List.nodup_cons]
      refine ⟨?_, ih h.2⟩
      intro hm
      apply h.1
      rcases List.mem_map.1 hm with ⟨r, hr, e⟩
      exact List.mem_map.2 ⟨r, (List.mem_filter.1 hr).1, e⟩
    · simp only [List.filter_cons, hq]
      exact ih h.2

theorem lookup_filter {xs : AList K V} (p : K × V → Bool) (h : NodupKeys xs) (k : K) :
    lookup k (xs.filter p) = match lookup k xs with
      | some v => if p (k, v) then some v else none
      | none => none := by
  induction xs with
  | nil => simp [lookup]
  | cons q xs ih =>
    obtain ⟨a, b⟩ := q
    unfold NodupKeys keys at h
    simp only [List.map_cons, List.nodup_cons] at h
    have ih' := ih h.2
    by_cases hk : a = k
    · subst hk
      have hn : lookup a xs = none := lookup_eq_none_iff.2 h.1
      by_cases hp : p (a, b) = true
      · rw [List.filter_cons_of_pos hp]; simp [lookup, hp]
      · rw [List.filter_cons_of_neg hp, ih', hn]; simp [lookup, hp]
    · by_cases hp : p (a, b) = true
      · rw [List.filter_cons_of_pos hp]; simp only [lookup, hk, if_false]; exact ih'
      · rw [List.filter_cons_of_neg hp]; simp only [lookup, hk, if_false]; exact ih'

end S3db.AList

namespace S3db.Kv
open S3db S3db.AList S3db.Gen.Crdt
variable {K E : Type} [DecidableEq K] [DecidableEq E]

/-- what the merge does to one key -/
def mergeOpt (f : E → E → E) : Option E → Option E → Option E
  | none, y => y
  | x, none => x
  | some x, some y => some (if x = y then x else f x y)

theorem lookup_mergeStep (f : E → E → E) (a : AList K E) (p : K × E) (k : K) :
    lookup k (mergeStep f a p) = if p.1 = k then mergeOpt f (lookup k a) (some p.2) else lookup k a := by
  unfold mergeStep
  by_cases h : p.1 = k
  · subst h
    cases hl : lookup p.1 a with
    | none => simp [lookup_insert, mergeOpt]
    | some x =>
      by_cases hx : x = p.2
      · simp [hx, mergeOpt, hl]
      · simp [hx, mergeOpt, lookup_insert]
  · cases hl : lookup p.1 a with
    | none => simp [lookup_insert, h]
    | some x =>
      by_cases hx : x = p.2
      · simp [hx, h]
      · simp [hx, h, lookup_insert]

theorem nodupKeys_mergeStep (f : E → E → E) {a : AList K E} (p : K × E)
    (h : NodupKeys a) : NodupKeys (mergeStep f a p) := by
  unfold mergeStep
  cases lookup p.1 a with
  | none => exact nodupKeys_insert h
  | some x =>
    by_cases hx : x = p.2
    · simp [hx, h]
    · simp only [hx, if_false]; exact nodupKeys_insert h

theorem nodupKeys_mergeTrees (f : E → E → E) (g : AList K E) :
    ∀ {a : AList K E}, NodupKeys a → NodupKeys (mergeTrees f a g) := by
  induction g with
  | nil => intro a h; exact h
  | cons p g ih => intro a h; exact ih (nodupKeys_mergeStep f p h)

/-- **the tree merge is pointwise** -/
theorem lookup_mergeTrees (f : E → E → E) (g : AList K E) (hg : NodupKeys g) :
    ∀ (a : AList K E) (k : K), lookup k (mergeTrees f a g) = mergeOpt f (lookup k a) (lookup k g) := by
  induction g with
  | nil => intro a k; cases h : lookup k a <;> simp [mergeTrees, mergeOpt, h]
  | cons p g ih =>
    intro a k
    obtain ⟨k0, y0⟩ := p
    unfold NodupKeys keys at hg
    simp only [List.map_cons, List.nodup_cons] at hg
    have ih' := ih hg.2 (mergeStep f a (k0, y0)) k
    simp only [mergeTrees, List.foldl_cons] at ih' ⊢
    rw [ih', lookup_mergeStep]
    by_cases h : k0 = k
    · subst h
      have : lookup k0 g = none := lookup_eq_none_iff.2 hg.1
      simp only [if_true, this, lookup]
      cases lookup k0 a <;> simp [mergeOpt]
    · simp [h, lookup]

theorem mergeOpt_eq_selOpt {f : E → E → E} {R} (L : Sel.Laws f R)
    (x y : Option E) : mergeOpt f x y = Sel.selOpt f x y := by
  cases x <;> cases y <;> simp [mergeOpt, Sel.selOpt]
  rename_i a b
  intro h; subst h; exact (L.idem a).symm

end S3db.Kv
