import S3db.Model.Scan
/-!
# Lemmas about the range-scan model (`Model/Scan.lean`), used by `Props/C06.lean`

* `InWin` / `SoundFor`: a window that excludes no key satisfying the constraints;
  `window_soundFor`: the window computed by `Filter` is sound (no order law needed).
* `recheck_nextAsc` / `recheck_nextDesc`: over a sorted (resp. reverse-sorted) list and with any
  sound window, the `Next` loop followed by SQLite's re-check is the filter of the live keys.
* the seek (`ceilFrom`, `descFrom`) only drops entries that fail a constraint.
Core Lean only.
-/
namespace S3db.Scan

variable {K : Type}

/-- the window `w` does not exclude the key `k` -/
def InWin (cmp : K → K → Int) (w : Win K) (k : K) : Prop :=
  (∀ m, w.min = some m → cmp k m ≥ 0 ∧ (w.gtMin = true → cmp k m > 0)) ∧
  (∀ m, w.max = some m → cmp k m ≤ 0 ∧ (w.ltMax = true → cmp k m < 0))

/-- the window `w` excludes no key that satisfies all of `cs` -/
def SoundFor (cmp : K → K → Int) (cs : List (Con K)) (w : Win K) : Prop :=
  ∀ k, sat cmp cs k = true → InWin cmp w k

theorem inWin_empty (cmp : K → K → Int) (k : K) : InWin cmp {} k := by
  constructor <;> intro m h <;> simp at h

theorem addCon_inWin (cmp : K → K → Int) (w : Win K) (c : Con K) (k : K)
    (hw : InWin cmp w k) (hc : sat1 cmp k c = true) : InWin cmp (addCon cmp w c) k := by
  obtain ⟨op, x⟩ := c
  obtain ⟨wmin, wmax, g, l⟩ := w
  obtain ⟨hmin, hmax⟩ := hw
  cases op <;> cases wmin <;> cases wmax <;>
    simp [addCon, sat1, InWin] at hc hmin hmax ⊢ <;>
    (repeat' split) <;> simp_all <;> omega

theorem foldl_addCon_inWin (cmp : K → K → Int) (k : K) :
    ∀ (cs : List (Con K)) (w : Win K), InWin cmp w k → sat cmp cs k = true →
      InWin cmp (cs.foldl (addCon cmp) w) k := by
  intro cs
  induction cs with
  | nil => intro w hw _; exact hw
  | cons c cs ih =>
    intro w hw hs
    simp only [sat, List.all_cons, Bool.and_eq_true] at hs
    exact ih _ (addCon_inWin cmp w c k hw hs.1) hs.2

/-- `window_sound`: the window computed by `Filter` excludes no satisfying key -/
theorem window_soundFor (cmp : K → K → Int) (cs : List (Con K)) : SoundFor cmp cs (window cmp cs) :=
  fun k h => foldl_addCon_inWin cmp k cs {} (inWin_empty cmp k) h

theorem SoundFor.clear_gtMin {cmp : K → K → Int} {cs : List (Con K)} {w : Win K}
    (h : SoundFor cmp cs w) : SoundFor cmp cs { w with gtMin := false } := by
  intro k hk
  obtain ⟨h1, h2⟩ := h k hk
  exact ⟨fun m hm => ⟨(h1 m hm).1, fun hf => by simp at hf⟩, h2⟩

theorem SoundFor.clear_ltMax {cmp : K → K → Int} {cs : List (Con K)} {w : Win K}
    (h : SoundFor cmp cs w) : SoundFor cmp cs { w with ltMax := false } := by
  intro k hk
  obtain ⟨h1, h2⟩ := h k hk
  exact ⟨h1, fun m hm => ⟨(h2 m hm).1, fun hf => by simp at hf⟩⟩

/-! ## live keys and sortedness -/

/-- the keys of the entries that are not delete markers -/
def liveKeys (es : List (Ent K)) : List K := (es.filter fun e => !e.2).map (·.1)

theorem expected_eq (cmp : K → K → Int) (desc : Bool) (cs : List (Con K)) (es : List (Ent K)) :
    expected cmp desc cs es =
      if desc then ((liveKeys es).filter (sat cmp cs)).reverse else (liveKeys es).filter (sat cmp cs) := rfl

theorem liveKeys_cons (k : K) (d : Bool) (es : List (Ent K)) :
    liveKeys ((k, d) :: es) = if d then liveKeys es else k :: liveKeys es := by
  cases d <;> simp [liveKeys]

theorem liveKeys_append (xs ys : List (Ent K)) : liveKeys (xs ++ ys) = liveKeys xs ++ liveKeys ys := by
  simp [liveKeys]

theorem liveKeys_reverse (xs : List (Ent K)) : liveKeys xs.reverse = (liveKeys xs).reverse := by
  simp [liveKeys, List.filter_reverse]

/-- entries whose keys all fail a constraint contribute nothing -/
theorem filter_liveKeys_eq_nil (p : K → Bool) (es : List (Ent K)) (h : ∀ e ∈ es, p e.1 = false) :
    (liveKeys es).filter p = [] := by
  rw [List.filter_eq_nil_iff]
  intro k hk
  simp only [liveKeys, List.mem_map, List.mem_filter] at hk
  obtain ⟨e, ⟨he, _⟩, rfl⟩ := hk
  simp [h e he]

/-- strictly increasing keys, as a `Pairwise` -/
abbrev Asc (cmp : K → K → Int) (es : List (Ent K)) : Prop := es.Pairwise fun a b => cmp a.1 b.1 < 0
/-- strictly decreasing keys -/
abbrev Desc (cmp : K → K → Int) (es : List (Ent K)) : Prop := es.Pairwise fun a b => cmp b.1 a.1 < 0

theorem sorted_iff_asc (cmp : K → K → Int) (es : List (Ent K)) : Sorted cmp es ↔ Asc cmp es := by
  induction es with
  | nil => simp [Sorted, Asc]
  | cons e es ih => simp [Sorted, Asc, List.pairwise_cons, ih]

theorem Asc.reverse {cmp : K → K → Int} {es : List (Ent K)} (h : Asc cmp es) : Desc cmp es.reverse := by
  simpa [Asc, Desc, List.pairwise_reverse] using h

/-! ## the `Next` loops -/

/-- the stop test of an ascending `Next` -/
def stopAsc (cmp : K → K → Int) (w : Win K) (k : K) : Bool :=
  match w.max with
  | some m => (w.ltMax && decide (cmp k m ≥ 0)) || decide (cmp k m > 0)
  | none => false

/-- the skip-the-excluded-lower-bound test of an ascending `Next` -/
def skipAsc (cmp : K → K → Int) (w : Win K) (k : K) : Bool :=
  match w.min with
  | some m => w.gtMin && cmp k m == 0
  | none => false

theorem nextAsc_cons (cmp : K → K → Int) (w : Win K) (k : K) (d : Bool) (rest : List (Ent K)) :
    nextAsc cmp w ((k, d) :: rest) =
      if stopAsc cmp w k then []
      else if skipAsc cmp w k then nextAsc cmp { w with gtMin := false } rest
      else if d then nextAsc cmp w rest else k :: nextAsc cmp w rest := by
  rw [nextAsc]
  show (if stopAsc cmp w k = true then []
    else if (skipAsc cmp w k || d) = true then
      nextAsc cmp (if skipAsc cmp w k = true then { w with gtMin := false } else w) rest
    else k :: nextAsc cmp (if skipAsc cmp w k = true then { w with gtMin := false } else w) rest) = _
  cases stopAsc cmp w k <;> cases skipAsc cmp w k <;> cases d <;> simp

def stopDesc (cmp : K → K → Int) (w : Win K) (k : K) : Bool :=
  match w.min with
  | some m => (w.gtMin && decide (cmp k m ≤ 0)) || decide (cmp k m < 0)
  | none => false

def skipDesc (cmp : K → K → Int) (w : Win K) (k : K) : Bool :=
  match w.max with
  | some m => w.ltMax && cmp k m == 0
  | none => false

theorem nextDesc_cons (cmp : K → K → Int) (w : Win K) (k : K) (d : Bool) (rest : List (Ent K)) :
    nextDesc cmp w ((k, d) :: rest) =
      if stopDesc cmp w k then []
      else if skipDesc cmp w k then nextDesc cmp { w with ltMax := false } rest
      else if d then nextDesc cmp w rest else k :: nextDesc cmp w rest := by
  rw [nextDesc]
  show (if stopDesc cmp w k = true then []
    else if (skipDesc cmp w k || d) = true then
      nextDesc cmp (if skipDesc cmp w k = true then { w with ltMax := false } else w) rest
    else k :: nextDesc cmp (if skipDesc cmp w k = true then { w with ltMax := false } else w) rest) = _
  cases stopDesc cmp w k <;> cases skipDesc cmp w k <;> cases d <;> simp

/-- an ascending scan stops only on a key that fails a constraint, as does every larger key -/
theorem unsat_of_stopAsc {cmp : K → K → Int} (L : OrderLaws cmp) {cs : List (Con K)} {w : Win K}
    (hw : SoundFor cmp cs w) {k : K} (hstop : stopAsc cmp w k = true) {k' : K} (hk' : cmp k k' ≤ 0) :
    sat cmp cs k' = false := by
  cases hsat : sat cmp cs k' with
  | false => rfl
  | true =>
    exfalso
    unfold stopAsc at hstop
    split at hstop
    · next m hm =>
      obtain ⟨hle, hlt⟩ := (hw k' hsat).2 m hm
      have hkm : cmp k m ≤ 0 := L.trans _ _ _ hk' hle
      simp only [Bool.or_eq_true, Bool.and_eq_true, decide_eq_true_eq] at hstop
      rcases hstop with ⟨hl, _⟩ | h
      · have := L.trans_lt' _ _ _ hk' (hlt hl); omega
      · omega
    · simp at hstop

theorem unsat_of_skipAsc {cmp : K → K → Int} {cs : List (Con K)} {w : Win K}
    (hw : SoundFor cmp cs w) {k : K} (hskip : skipAsc cmp w k = true) : sat cmp cs k = false := by
  cases hsat : sat cmp cs k with
  | false => rfl
  | true =>
    exfalso
    unfold skipAsc at hskip
    split at hskip
    · next m hm =>
      obtain ⟨_, hgt⟩ := (hw k hsat).1 m hm
      simp only [Bool.and_eq_true, beq_iff_eq] at hskip
      have := hgt hskip.1; omega
    · simp at hskip

theorem unsat_of_stopDesc {cmp : K → K → Int} (L : OrderLaws cmp) {cs : List (Con K)} {w : Win K}
    (hw : SoundFor cmp cs w) {k : K} (hstop : stopDesc cmp w k = true) {k' : K} (hk' : cmp k' k ≤ 0) :
    sat cmp cs k' = false := by
  cases hsat : sat cmp cs k' with
  | false => rfl
  | true =>
    exfalso
    unfold stopDesc at hstop
    split at hstop
    · next m hm =>
      obtain ⟨hge, hgt⟩ := (hw k' hsat).1 m hm
      have ha := L.antisymm m k'
      have h1 : cmp m k' ≤ 0 := by omega
      have hmk : cmp m k ≤ 0 := L.trans _ _ _ h1 hk'
      have h2 := L.antisymm m k
      simp only [Bool.or_eq_true, Bool.and_eq_true, decide_eq_true_eq] at hstop
      rcases hstop with ⟨hg, _⟩ | h
      · have h3 : cmp m k' < 0 := by have := hgt hg; omega
        have := L.trans_lt _ _ _ h3 hk'; omega
      · omega
    · simp at hstop

theorem unsat_of_skipDesc {cmp : K → K → Int} {cs : List (Con K)} {w : Win K}
    (hw : SoundFor cmp cs w) {k : K} (hskip : skipDesc cmp w k = true) : sat cmp cs k = false := by
  cases hsat : sat cmp cs k with
  | false => rfl
  | true =>
    exfalso
    unfold skipDesc at hskip
    split at hskip
    · next m hm =>
      obtain ⟨_, hlt⟩ := (hw k hsat).2 m hm
      simp only [Bool.and_eq_true, beq_iff_eq] at hskip
      have := hlt hskip.1; omega
    · simp at hskip

/-- ascending `Next` loop + re-check = filter of the live keys, for any sound window -/
theorem recheck_nextAsc {cmp : K → K → Int} (L : OrderLaws cmp) (cs : List (Con K)) :
    ∀ (xs : List (Ent K)) (w : Win K), SoundFor cmp cs w → Asc cmp xs →
      recheck cmp cs (nextAsc cmp w xs) = (liveKeys xs).filter (sat cmp cs) := by
  intro xs
  induction xs with
  | nil => intro w _ _; simp [nextAsc, recheck, liveKeys]
  | cons e rest ih =>
    obtain ⟨k, d⟩ := e
    intro w hw hs
    obtain ⟨hk, hrest⟩ := List.pairwise_cons.mp hs
    rw [nextAsc_cons]
    split
    · next hstop =>
      rw [filter_liveKeys_eq_nil]
      · rfl
      · intro e he
        rcases List.mem_cons.mp he with rfl | he
        · exact unsat_of_stopAsc L hw hstop (by have := L.refl k; simp only; omega)
        · exact unsat_of_stopAsc L hw hstop (by have := hk e he; simp only at this; omega)
    · split
      · next hskip =>
        have hk0 := unsat_of_skipAsc hw hskip
        rw [ih _ hw.clear_gtMin hrest, liveKeys_cons]
        cases d <;> simp [hk0]
      · rw [liveKeys_cons]
        cases d
        · simp only [Bool.false_eq_true, if_false, recheck, List.filter_cons]
          have := ih w hw hrest
          simp only [recheck] at this
          rw [this]
        · simpa using ih w hw hrest

/-- descending `Next` loop + re-check = filter of the live keys, for any sound window -/
theorem recheck_nextDesc {cmp : K → K → Int} (L : OrderLaws cmp) (cs : List (Con K)) :
    ∀ (xs : List (Ent K)) (w : Win K), SoundFor cmp cs w → Desc cmp xs →
      recheck cmp cs (nextDesc cmp w xs) = (liveKeys xs).filter (sat cmp cs) := by
  intro xs
  induction xs with
  | nil => intro w _ _; simp [nextDesc, recheck, liveKeys]
  | cons e rest ih =>
    obtain ⟨k, d⟩ := e
    intro w hw hs
    obtain ⟨hk, hrest⟩ := List.pairwise_cons.mp hs
    rw [nextDesc_cons]
    split
    · next hstop =>
      rw [filter_liveKeys_eq_nil]
      · rfl
      · intro e he
        rcases List.mem_cons.mp he with rfl | he
        · exact unsat_of_stopDesc L hw hstop (by have := L.refl k; simp only; omega)
        · exact unsat_of_stopDesc L hw hstop (by have := hk e he; simp only at this; omega)
    · split
      · next hskip =>
        have hk0 := unsat_of_skipDesc hw hskip
        rw [ih _ hw.clear_ltMax hrest, liveKeys_cons]
        cases d <;> simp [hk0]
      · rw [liveKeys_cons]
        cases d
        · simp only [Bool.false_eq_true, if_false, recheck, List.filter_cons]
          have := ih w hw hrest
          simp only [recheck] at this
          rw [this]
        · simpa using ih w hw hrest

/-! ## the seek -/

theorem dropWhile_head_false {α : Type} (p : α → Bool) :
    ∀ (l : List α) (e : α) (tl : List α), l.dropWhile p = e :: tl → p e = false := by
  intro l
  induction l with
  | nil => intro e tl h; simp at h
  | cons a l ih =>
    intro e tl h
    rw [List.dropWhile_cons] at h
    split at h
    · exact ih e tl h
    · next hpa =>
      obtain ⟨rfl, _⟩ := List.cons.inj h
      simpa using hpa

theorem mem_takeWhile_true {α : Type} (p : α → Bool) :
    ∀ (l : List α) (a : α), a ∈ l.takeWhile p → p a = true := by
  intro l
  induction l with
  | nil => intro a h; simp at h
  | cons b l ih =>
    intro a h
    rw [List.takeWhile_cons] at h
    split at h
    · next hpb =>
      rcases List.mem_cons.mp h with rfl | h
      · exact hpb
      · exact ih a h
    · simp at h

/-- the entries below a lower bound of a sound window fail a constraint -/
theorem unsat_of_lt_min {cmp : K → K → Int} {cs : List (Con K)} {w : Win K}
    (hw : SoundFor cmp cs w) {m : K} (hm : w.min = some m) {k : K} (hk : cmp k m < 0) :
    sat cmp cs k = false := by
  cases hsat : sat cmp cs k with
  | false => rfl
  | true => have := ((hw k hsat).1 m hm).1; omega

/-- the entries above an upper bound of a sound window fail a constraint -/
theorem unsat_of_gt_max {cmp : K → K → Int} {cs : List (Con K)} {w : Win K}
    (hw : SoundFor cmp cs w) {m : K} (hm : w.max = some m) {k : K} (hk : cmp k m > 0) :
    sat cmp cs k = false := by
  cases hsat : sat cmp cs k with
  | false => rfl
  | true => have := ((hw k hsat).2 m hm).1; omega

/-- `Ceil min` only skips entries that fail a constraint -/
theorem filter_liveKeys_ceilFrom {cmp : K → K → Int} {cs : List (Con K)} {w : Win K}
    (hw : SoundFor cmp cs w) {m : K} (hm : w.min = some m) (es : List (Ent K)) :
    (liveKeys (ceilFrom cmp m es)).filter (sat cmp cs) = (liveKeys es).filter (sat cmp cs) := by
  have hes := List.takeWhile_append_dropWhile (p := fun e : Ent K => decide (cmp e.1 m < 0)) (l := es)
  have h0 := filter_liveKeys_eq_nil (sat cmp cs)
    (es.takeWhile fun e : Ent K => decide (cmp e.1 m < 0)) (by
      intro e he
      have := mem_takeWhile_true _ _ _ he
      exact unsat_of_lt_min hw hm (by simpa using this))
  conv => rhs; rw [← hes]
  rw [liveKeys_append, List.filter_append, h0, List.nil_append]
  rfl

theorem Asc.ceilFrom {cmp : K → K → Int} {es : List (Ent K)} (h : Asc cmp es) (m : K) :
    Asc cmp (ceilFrom cmp m es) :=
  List.Pairwise.sublist (List.dropWhile_sublist _) h

/-- what a descending cursor visits after `Ceil max` (with the fall-back to `Max`) is decreasing -/
theorem Asc.descFrom {cmp : K → K → Int} {es : List (Ent K)} (h : Asc cmp es) (m : K) :
    Desc cmp (descFrom cmp true m es) := by
  have hes := List.takeWhile_append_dropWhile (p := fun e : Ent K => decide (cmp e.1 m < 0)) (l := es)
  have hr : Desc cmp es.reverse := h.reverse
  unfold S3db.Scan.descFrom S3db.Scan.ceilFrom
  cases hdw : es.dropWhile (fun e : Ent K => decide (cmp e.1 m < 0)) with
  | nil =>
    simp only [if_true]
    exact List.Pairwise.sublist (List.reverse_sublist.mpr (List.takeWhile_sublist _)) hr
  | cons e tl =>
    simp only
    rw [hdw] at hes
    rw [← hes, List.reverse_append, List.reverse_cons, List.append_assoc] at hr
    exact List.Pairwise.sublist (List.sublist_append_right _ _) hr

/-- … and, up to entries that fail a constraint, it is all of the tree, backwards -/
theorem filter_liveKeys_descFrom {cmp : K → K → Int} (L : OrderLaws cmp) {cs : List (Con K)} {w : Win K}
    (hw : SoundFor cmp cs w) {m : K} (hm : w.max = some m) {es : List (Ent K)} (hs : Asc cmp es) :
    (liveKeys (descFrom cmp true m es)).filter (sat cmp cs) =
      ((liveKeys es).filter (sat cmp cs)).reverse := by
  have hes := List.takeWhile_append_dropWhile (p := fun e : Ent K => decide (cmp e.1 m < 0)) (l := es)
  unfold S3db.Scan.descFrom S3db.Scan.ceilFrom
  cases hdw : es.dropWhile (fun e : Ent K => decide (cmp e.1 m < 0)) with
  | nil =>
    simp only [if_true]
    rw [hdw, List.append_nil] at hes
    rw [hes, liveKeys_reverse, List.filter_reverse]
  | cons e tl =>
    simp only
    have he : cmp e.1 m ≥ 0 := by
      have := dropWhile_head_false _ es e tl hdw
      simpa using this
    rw [hdw] at hes
    have htl : ∀ e' ∈ tl, sat cmp cs e'.1 = false := by
      intro e' he'
      rw [← hes] at hs
      have h1 := (List.pairwise_cons.mp (List.pairwise_append.mp hs).2.1).1 e' he'
      apply unsat_of_gt_max hw hm
      have h2 := L.trans_lt e.1 e'.1 m h1
      omega
    conv => rhs; rw [← hes]
    have hcons : ∀ xs : List (Ent K), e :: xs = [e] ++ xs := fun _ => rfl
    rw [hcons tl, hcons (List.reverse _)]
    simp only [liveKeys_append, List.filter_append, filter_liveKeys_eq_nil _ tl htl,
      List.append_nil, List.reverse_append, liveKeys_reverse, List.filter_reverse]
    congr 1
    obtain ⟨k, d⟩ := e
    cases d <;> simp [liveKeys, List.filter_cons] <;> split <;> simp

/-! ## seek + `Next` loop + re-check -/

theorem recheck_scan_asc (F : Facts) {cmp : K → K → Int} (L : OrderLaws cmp) (cs : List (Con K))
    {es : List (Ent K)} (hs : Sorted cmp es) :
    recheck cmp cs (scan F cmp false cs es) = expected cmp false cs es := by
  have hw := window_soundFor cmp cs
  have ha : Asc cmp es := (sorted_iff_asc cmp es).mp hs
  rw [expected_eq]
  simp only [scan, Bool.not_false, if_true, Bool.false_eq_true, if_false]
  split
  · next m hm => rw [recheck_nextAsc L cs _ _ hw (ha.ceilFrom m), filter_liveKeys_ceilFrom hw hm]
  · exact recheck_nextAsc L cs _ _ hw ha

theorem recheck_scan_desc (F : Facts) (hF : F.descSeekFallsBackToMax = true) {cmp : K → K → Int}
    (L : OrderLaws cmp) (cs : List (Con K)) {es : List (Ent K)} (hs : Sorted cmp es) :
    recheck cmp cs (scan F cmp true cs es) = expected cmp true cs es := by
  have hw := window_soundFor cmp cs
  have ha : Asc cmp es := (sorted_iff_asc cmp es).mp hs
  rw [expected_eq]
  simp only [scan, Bool.not_true, Bool.false_eq_true, if_false, if_true, hF]
  split
  · next m hm => rw [recheck_nextDesc L cs _ _ hw (ha.descFrom m), filter_liveKeys_descFrom L hw hm ha]
  · rw [recheck_nextDesc L cs _ _ hw ha.reverse, liveKeys_reverse, List.filter_reverse]

end S3db.Scan
