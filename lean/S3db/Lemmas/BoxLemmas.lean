import S3db.Model.Box
/-!
# Lemmas for the node-encryption model (`Model/Box.lean`)

Salsa20 is never evaluated: the only facts used about it are that a block has 64 bytes, each
`< 256`.  Everything else is about `xorAt k off m` for an ARBITRARY keystream function
`k : Nat → Nat`, to which the executable `xorKeyStream` is proved equal (`xorKeyStream_eq`).
-/
namespace S3db.Box
open S3db

/-! ## `List.getD` helpers (core has only the `getElem?` forms) -/

theorem getD_of_lt {α : Type} (l : List α) (d : α) (i : Nat) (h : i < l.length) : l.getD i d = l[i] := by
  simp [List.getD_eq_getElem?_getD, List.getElem?_eq_getElem h]

theorem getD_append_lt {α : Type} (l l' : List α) (d : α) (i : Nat) (h : i < l.length) :
    (l ++ l').getD i d = l.getD i d := by
  simp [List.getD_eq_getElem?_getD, List.getElem?_append_left h]

theorem getD_append_ge {α : Type} (l l' : List α) (d : α) (i : Nat) (h : l.length ≤ i) :
    (l ++ l').getD i d = l'.getD (i - l.length) d := by
  simp [List.getD_eq_getElem?_getD, List.getElem?_append_right h]

theorem eq_of_xor_eq_zero (x y : Nat) (h : x ^^^ y = 0) : x = y := by
  apply Nat.eq_of_testBit_eq
  intro i
  have := congrArg (fun n => n.testBit i) h
  simpa [Nat.testBit_xor] using this

/-! ## shape of the Salsa20 output -/

theorem le32_length (w : UInt32) : (le32 w).length = 4 := rfl

theorem le32_lt (w : UInt32) : ∀ b ∈ le32 w, b < 256 := by
  intro b hb
  simp only [le32, List.mem_cons, List.not_mem_nil, or_false] at hb
  rcases hb with h | h | h | h <;> subst h <;> exact Nat.mod_lt _ (by decide)

theorem flatMap_length_const {α β : Type} (f : α → List β) (c : Nat) (h : ∀ a, (f a).length = c) :
    ∀ l : List α, (l.flatMap f).length = c * l.length
  | [] => by simp
  | a :: l => by
    simp only [List.flatMap_cons, List.length_append, List.length_cons, h,
      flatMap_length_const f c h l, Nat.mul_succ]
    omega

theorem salsa20Block_length (key nonce : Bytes) (ctr : Nat) : (salsa20Block key nonce ctr).length = 64 := by
  unfold salsa20Block
  simp only []
  rw [flatMap_length_const _ 4 (fun _ => le32_length _)]
  simp

theorem salsa20Block_lt (key nonce : Bytes) (ctr : Nat) : ∀ b ∈ salsa20Block key nonce ctr, b < 256 := by
  intro b hb
  unfold salsa20Block at hb
  simp only [List.mem_flatMap] at hb
  obtain ⟨_, _, h⟩ := hb
  exact le32_lt _ b h

theorem hsalsa20_length (key n16 : Bytes) : (hsalsa20 key n16).length = 32 := by
  unfold hsalsa20
  simp only []
  rw [flatMap_length_const _ 4 (fun _ => le32_length _)]
  simp

/-- every keystream byte is a byte -/
theorem ks_lt_256 (sub n8 : Bytes) (i : Nat) : ks sub n8 i < 256 := by
  unfold ks
  have hl := salsa20Block_length sub n8 (i / 64)
  have hi : i % 64 < (salsa20Block sub n8 (i / 64)).length := by rw [hl]; exact Nat.mod_lt _ (by decide)
  rw [getD_of_lt _ _ _ hi]
  exact salsa20Block_lt sub n8 (i / 64) _ (List.getElem_mem hi)

theorem ksBlocks_length (sub n8 : Bytes) (n : Nat) : (ksBlocks sub n8 n).length = 64 * n := by
  unfold ksBlocks
  rw [flatMap_length_const _ 64 (salsa20Block_length sub n8)]
  simp

theorem ksBlocks_succ (sub n8 : Bytes) (n : Nat) :
    ksBlocks sub n8 (n + 1) = ksBlocks sub n8 n ++ salsa20Block sub n8 n := by
  simp [ksBlocks, List.range_succ, List.flatMap_append]

/-- the concatenated blocks are the keystream -/
theorem ksBlocks_getD (sub n8 : Bytes) : ∀ (n i : Nat), i < 64 * n → (ksBlocks sub n8 n).getD i 0 = ks sub n8 i
  | 0, i, h => by omega
  | n + 1, i, h => by
    rw [ksBlocks_succ]
    by_cases hi : i < 64 * n
    · rw [getD_append_lt _ _ _ _ (by rw [ksBlocks_length]; exact hi)]
      exact ksBlocks_getD sub n8 n i hi
    · rw [getD_append_ge _ _ _ _ (by rw [ksBlocks_length]; omega), ksBlocks_length]
      unfold ks
      have h1 : i / 64 = n := by omega
      have h2 : i % 64 = i - 64 * n := by omega
      rw [h1, h2]

/-! ## `xorAt`: XOR against an abstract keystream -/

theorem xorList_drop_eq_xorAt (k : Nat → Nat) (l : Bytes) :
    ∀ (m : Bytes) (off : Nat), off + m.length ≤ l.length →
      (∀ i, i < l.length → l.getD i 0 = k i) → xorList m (l.drop off) = xorAt k off m
  | [], _, _, _ => by simp [xorList, xorAt]
  | b :: bs, off, hl, hk => by
    simp only [List.length_cons] at hl
    have ho : off < l.length := by omega
    rw [List.drop_eq_getElem_cons ho]
    simp only [xorList, xorAt]
    rw [xorList_drop_eq_xorAt k l bs (off + 1) (by omega) hk, ← hk off ho, getD_of_lt _ _ _ ho]

/-- the executable stream XOR is XOR with the keystream function `ks` -/
theorem xorKeyStream_eq (sub n8 : Bytes) (off : Nat) (m : Bytes) :
    xorKeyStream sub n8 off m = xorAt (ks sub n8) off m := by
  unfold xorKeyStream
  apply xorList_drop_eq_xorAt
  · rw [ksBlocks_length]; omega
  · intro i hi
    rw [ksBlocks_length] at hi
    exact ksBlocks_getD sub n8 _ i hi

theorem xorAt_length (k : Nat → Nat) : ∀ (m : Bytes) (off : Nat), (xorAt k off m).length = m.length
  | [], _ => rfl
  | _ :: bs, off => by simp [xorAt, xorAt_length k bs]

/-- XOR with the same keystream twice is the identity (on all naturals, a fortiori on bytes) -/
theorem xorAt_xorAt (k : Nat → Nat) : ∀ (m : Bytes) (off : Nat), xorAt k off (xorAt k off m) = m
  | [], _ => rfl
  | b :: bs, off => by
    simp only [xorAt, xorAt_xorAt k bs, Nat.xor_assoc, Nat.xor_self, Nat.xor_zero]

theorem xorAt_append (k : Nat → Nat) : ∀ (a b : Bytes) (off : Nat),
    xorAt k off (a ++ b) = xorAt k off a ++ xorAt k (off + a.length) b
  | [], b, off => by simp [xorAt]
  | x :: a, b, off => by
    simp only [List.cons_append, xorAt, xorAt_append k a b, List.length_cons]
    rw [show off + 1 + a.length = off + (a.length + 1) by omega]

theorem xorAt_take (k : Nat → Nat) : ∀ (n : Nat) (m : Bytes) (off : Nat),
    (xorAt k off m).take n = xorAt k off (m.take n)
  | 0, _, _ => by simp [xorAt]
  | _ + 1, [], _ => by simp [xorAt]
  | n + 1, b :: bs, off => by simp [xorAt, xorAt_take k n bs]

theorem xorAt_drop (k : Nat → Nat) : ∀ (n : Nat) (m : Bytes) (off : Nat),
    (xorAt k off m).drop n = xorAt k (off + n) (m.drop n)
  | 0, _, _ => by simp
  | _ + 1, [], _ => by simp [xorAt]
  | n + 1, b :: bs, off => by
    simp only [xorAt, List.drop_succ_cons, xorAt_drop k n bs]
    rw [show off + 1 + n = off + (n + 1) by omega]

theorem xorAt_lt (k : Nat → Nat) (hk : ∀ i, k i < 256) : ∀ (m : Bytes) (off : Nat),
    (∀ b ∈ m, b < 256) → ∀ b ∈ xorAt k off m, b < 256
  | [], _, _ => by simp [xorAt]
  | x :: xs, off, hm => by
    intro b hb
    simp only [xorAt, List.mem_cons] at hb
    rcases hb with h | h
    · subst h
      exact Nat.xor_lt_two_pow (n := 8) (hm x (by simp)) (hk off)
    · exact xorAt_lt k hk xs (off + 1) (fun y hy => hm y (by simp [hy])) b h

/-- byte `i` of the result -/
theorem xorAt_getElem? (k : Nat → Nat) : ∀ (m : Bytes) (off i : Nat),
    (xorAt k off m)[i]? = m[i]?.map (fun b => b ^^^ k (off + i))
  | [], _, _ => by simp [xorAt]
  | b :: bs, off, 0 => by simp [xorAt]
  | b :: bs, off, i + 1 => by
    simp only [xorAt, List.getElem?_cons_succ, xorAt_getElem? k bs]
    rw [show off + 1 + i = off + (i + 1) by omega]

/-! ## the legacy stream transformation against an abstract keystream -/

/-- first 32 bytes against positions `32 …`, the rest against positions `0 …` -/
def legacyXorAt (k : Nat → Nat) (m : Bytes) : Bytes := xorAt k 32 (m.take 32) ++ xorAt k 0 (m.drop 32)

theorem legacyXor_eq (key nonce m : Bytes) :
    legacyXor key nonce m = legacyXorAt (ks (subkey key nonce) (nonce8 nonce)) m := by
  simp [legacyXor, legacyXorAt, xorKeyStream_eq]

theorem legacyXorAt_length (k : Nat → Nat) (m : Bytes) : (legacyXorAt k m).length = m.length := by
  simp only [legacyXorAt, List.length_append, xorAt_length, List.length_take, List.length_drop]
  omega

theorem legacyXorAt_take (k : Nat → Nat) (m : Bytes) : (legacyXorAt k m).take 32 = xorAt k 32 (m.take 32) := by
  unfold legacyXorAt
  by_cases h : 32 ≤ m.length
  · rw [List.take_append_of_le_length (by simp [xorAt_length]; omega)]
    rw [List.take_of_length_le (by simp [xorAt_length]; omega)]
  · have : m.drop 32 = [] := List.drop_eq_nil_of_le (by omega)
    rw [this]
    simp only [xorAt, List.append_nil]
    rw [List.take_of_length_le (by simp [xorAt_length]; omega)]

theorem legacyXorAt_drop (k : Nat → Nat) (m : Bytes) : (legacyXorAt k m).drop 32 = xorAt k 0 (m.drop 32) := by
  unfold legacyXorAt
  by_cases h : 32 ≤ m.length
  · have hl : (xorAt k 32 (m.take 32)).length = 32 := by simp [xorAt_length]; omega
    rw [List.drop_append_of_le_length (by omega), List.drop_of_length_le (by omega)]
    simp
  · have : m.drop 32 = [] := List.drop_eq_nil_of_le (by omega)
    rw [this]
    simp only [xorAt, List.append_nil]
    rw [List.drop_of_length_le (by simp [xorAt_length]; omega)]

/-- the legacy transformation is an involution, across the 32-byte boundary -/
theorem legacyXorAt_involutive (k : Nat → Nat) (m : Bytes) : legacyXorAt k (legacyXorAt k m) = m := by
  show xorAt k 32 ((legacyXorAt k m).take 32) ++ xorAt k 0 ((legacyXorAt k m).drop 32) = m
  rw [legacyXorAt_take, legacyXorAt_drop, xorAt_xorAt, xorAt_xorAt, List.take_append_drop]

/-- up to 32 bytes the legacy transformation is the secretbox one -/
theorem legacyXorAt_short (k : Nat → Nat) (m : Bytes) (h : m.length ≤ 32) : legacyXorAt k m = xorAt k 32 m := by
  unfold legacyXorAt
  rw [List.take_of_length_le h, List.drop_eq_nil_of_le h]
  simp [xorAt]

theorem legacyXorAt_lt (k : Nat → Nat) (hk : ∀ i, k i < 256) (m : Bytes) (hm : ∀ b ∈ m, b < 256) :
    ∀ b ∈ legacyXorAt k m, b < 256 := by
  intro b hb
  simp only [legacyXorAt, List.mem_append] at hb
  rcases hb with h | h
  · exact xorAt_lt k hk _ _ (fun y hy => hm y (List.mem_of_mem_take hy)) b h
  · exact xorAt_lt k hk _ _ (fun y hy => hm y (List.mem_of_mem_drop hy)) b h

/-! ## Poly1305 and the MAC key -/

theorem natLE_length : ∀ (n x : Nat), (natLE n x).length = n
  | 0, _ => rfl
  | n + 1, x => by simp [natLE, natLE_length n]

theorem natLE_lt : ∀ (n x : Nat), ∀ b ∈ natLE n x, b < 256
  | 0, _ => by simp [natLE]
  | n + 1, x => by
    intro b hb
    simp only [natLE, List.mem_cons] at hb
    rcases hb with h | h
    · subst h; exact Nat.mod_lt _ (by decide)
    · exact natLE_lt n _ b h

theorem poly1305_length (key msg : Bytes) : (poly1305 key msg).length = 16 := by
  simp [poly1305, natLE_length]

theorem poly1305_lt (key msg : Bytes) : ∀ b ∈ poly1305 key msg, b < 256 := by
  unfold poly1305
  exact natLE_lt _ _

/-- the MAC key is keystream bytes `0 … 31` -/
theorem macKey_eq (key nonce : Bytes) :
    macKey key nonce = (List.range 32).map (ks (subkey key nonce) (nonce8 nonce)) := by
  apply List.ext_getElem
  · simp [macKey, salsa20Block_length]
  · intro i h1 h2
    simp only [List.length_map, List.length_range] at h2
    simp only [macKey, List.getElem_take, List.getElem_map, List.getElem_range, ks]
    have h3 : i / 64 = 0 := by omega
    have h4 : i % 64 = i := by omega
    rw [h3, h4, getD_of_lt]

theorem macKey_length (key nonce : Bytes) : (macKey key nonce).length = 32 := by
  simp [macKey, salsa20Block_length]

end S3db.Box
