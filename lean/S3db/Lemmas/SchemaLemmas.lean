import S3db.Model.Schema
/-!
# Lemmas about the table-definition model (`Model/Schema.lean`)

* `Le`: a preorder on `Parsed` along which `errs` and `pk.length` never decrease and `failed`
  is sticky; `applyCons`, `parseItem` and their folds only move upwards.
* `Bad`: the upward-closed set of states that `convert` rejects outright.
* the columns after a fold are the accumulator's columns followed by the columns contributed by
  the items (`specCols`, `specNames`).
* the option loop: a name already in `seen` rejects, `seen` only grows.
* `lower` on literals, without kernel evaluation of `String.mapAux`.

Core Lean only.
-/
namespace S3db.Schema

/-! ### the items, as specified -/

/-- the names of the column items, in order -/
def specNames : List Item → List String
  | [] => []
  | .col n _ _ :: rest => n :: specNames rest
  | .tablePK _ :: rest => specNames rest

/-- name and NOT NULL of the column items, in order -/
def specCols : List Item → List (String × Bool)
  | [] => []
  | .col n _ cs :: rest => (n, cs.contains .notNull) :: specCols rest
  | .tablePK _ :: rest => specCols rest

theorem specNames_eq_map (items : List Item) : specNames items = (specCols items).map Prod.fst := by
  induction items with
  | nil => rfl
  | cons it rest ih => cases it <;> simp [specNames, specCols, ih]

/-! ### monotonicity -/

/-- `q` is at least as far along (and at least as broken) as `p` -/
def Le (p q : Parsed) : Prop :=
  p.errs ≤ q.errs ∧ (p.failed = true → q.failed = true) ∧ p.pk.length ≤ q.pk.length

theorem Le.refl (p : Parsed) : Le p p := ⟨Nat.le_refl _, id, Nat.le_refl _⟩

theorem Le.trans {p q r : Parsed} (h1 : Le p q) (h2 : Le q r) : Le p r :=
  ⟨Nat.le_trans h1.1 h2.1, fun h => h2.2.1 (h1.2.1 h), Nat.le_trans h1.2.2 h2.2.2⟩

/-- the states `convert` rejects before looking at the columns -/
def Bad (p : Parsed) : Prop := p.failed = true ∨ p.errs > 0 ∨ p.pk.length > 1

theorem Bad.mono {p q : Parsed} (h : Le p q) (hb : Bad p) : Bad q := by
  rcases hb with hb | hb | hb
  · exact .inl (h.2.1 hb)
  · exact .inr (.inl (Nat.lt_of_lt_of_le hb h.1))
  · exact .inr (.inr (Nat.lt_of_lt_of_le hb h.2.2))

theorem applyCons_le (n : String) (p : Parsed) (c : Cons) : Le p (applyCons n p c) := by
  cases c
  · -- primaryKey
    unfold applyCons
    by_cases hp : p.pk.isEmpty = true
    · have : p.pk = [] := by simpa using hp
      simp [Le, this]
    · simp [Le, hp]
  · simp [applyCons, Le]
  · simp [applyCons, Le]
  · simp [applyCons, Le]

theorem foldl_applyCons_le (n : String) (cs : List Cons) (p : Parsed) :
    Le p (cs.foldl (applyCons n) p) := by
  induction cs generalizing p with
  | nil => exact Le.refl p
  | cons c cs ih => exact Le.trans (applyCons_le n p c) (ih _)

theorem parseItem_le (p : Parsed) (it : Item) : Le p (parseItem p it) := by
  cases it with
  | col n t cs =>
    unfold parseItem
    refine Le.trans ?_ (foldl_applyCons_le n cs _)
    cases t <;> simp [Le]
  | tablePK ns =>
    unfold parseItem
    by_cases hp : p.pk.isEmpty = true <;> simp [Le, hp] <;> exact fun h => .inl h

theorem foldl_parseItem_le (items : List Item) (p : Parsed) : Le p (items.foldl parseItem p) := by
  induction items generalizing p with
  | nil => exact Le.refl p
  | cons it items ih => exact Le.trans (parseItem_le p it) (ih _)

theorem parse_le (items : List Item) : Le (items.foldl parseItem {}) (parse items) := by
  simp only [parse, Le, Nat.le_refl, true_and, and_true]
  intro h; simp [h]

/-- one offending item anywhere spoils the whole parse -/
theorem parse_bad_of_item (pre post : List Item) (it : Item) (h : ∀ q, Bad (parseItem q it)) :
    Bad (parse (pre ++ it :: post)) := by
  refine Bad.mono (parse_le _) ?_
  rw [List.foldl_append, List.foldl_cons]
  exact Bad.mono (foldl_parseItem_le post _) (h _)

/-! ### what the single offending items do -/

theorem foldl_applyCons_unique (n : String) (cs : List Cons) (h : Cons.unique ∈ cs) (p : Parsed) :
    (cs.foldl (applyCons n) p).errs > 0 := by
  obtain ⟨a, b, rfl⟩ := List.append_of_mem h
  rw [List.foldl_append, List.foldl_cons]
  refine Nat.lt_of_lt_of_le ?_ (foldl_applyCons_le n b _).1
  simp [applyCons]

theorem foldl_applyCons_other (n : String) (cs : List Cons) (h : Cons.other ∈ cs) (p : Parsed) :
    (cs.foldl (applyCons n) p).failed = true := by
  obtain ⟨a, b, rfl⟩ := List.append_of_mem h
  rw [List.foldl_append, List.foldl_cons]
  refine (foldl_applyCons_le n b _).2.1 ?_
  simp [applyCons]

theorem parseItem_unique_bad (q : Parsed) (n : String) (t : Bool) (cs : List Cons)
    (h : Cons.unique ∈ cs) : Bad (parseItem q (.col n t cs)) :=
  .inr (.inl (foldl_applyCons_unique n cs h _))

theorem parseItem_other_bad (q : Parsed) (n : String) (t : Bool) (cs : List Cons)
    (h : Cons.other ∈ cs) : Bad (parseItem q (.col n t cs)) :=
  .inl (foldl_applyCons_other n cs h _)

theorem parseItem_unknownType_bad (q : Parsed) (n : String) (cs : List Cons) :
    Bad (parseItem q (.col n false cs)) := by
  refine .inl ((foldl_applyCons_le n cs _).2.1 ?_)
  simp

theorem parseItem_composite_bad (q : Parsed) (ns : List String) (h : ns.length ≥ 2) :
    Bad (parseItem q (.tablePK ns)) := by
  refine .inr (.inr ?_)
  simp only [parseItem]
  split <;> simp <;> omega

/-! ### the columns -/

/-- what `convert` declares for a column -/
def decl (c : Col) : String × Bool := (c.name, c.notNull)

/-- the constraints of a column touch only that column (the last one): its name stays, and it
    becomes NOT NULL iff `NOT NULL` is among them -/
theorem foldl_applyCons_cols (n : String) (cs : List Cons) (p : Parsed) (init : List Col) (c : Col)
    (hp : p.cols = init ++ [c]) :
    ∃ c', (cs.foldl (applyCons n) p).cols = init ++ [c'] ∧ c'.name = c.name ∧
      c'.notNull = (c.notNull || cs.contains .notNull) := by
  induction cs generalizing p c with
  | nil => exact ⟨c, by simpa using hp⟩
  | cons k cs ih =>
    rw [List.foldl_cons]
    cases k with
    | primaryKey =>
      have hq : (applyCons n p .primaryKey).cols = init ++ [c] := by
        simp only [applyCons]; split <;> simpa using hp
      obtain ⟨c', h1, h2, h3⟩ := ih _ c hq
      exact ⟨c', h1, h2, by simp [h3]⟩
    | notNull =>
      have hq : (applyCons n p .notNull).cols = init ++ [{ c with notNull := true }] := by
        simp [applyCons, hp]
      obtain ⟨c', h1, h2, h3⟩ := ih _ _ hq
      exact ⟨c', h1, h2, by simp [h3]⟩
    | unique =>
      have hq : (applyCons n p .unique).cols = init ++ [{ c with unique := true }] := by
        simp [applyCons, hp]
      obtain ⟨c', h1, h2, h3⟩ := ih _ _ hq
      exact ⟨c', h1, h2, by simp [h3]⟩
    | other =>
      have hq : (applyCons n p .other).cols = init ++ [c] := by
        simpa [applyCons] using hp
      obtain ⟨c', h1, h2, h3⟩ := ih _ c hq
      exact ⟨c', h1, h2, by simp [h3]⟩

theorem parseItem_cols (p : Parsed) (it : Item) :
    (parseItem p it).cols.map decl = p.cols.map decl ++ specCols [it] := by
  cases it with
  | col n t cs =>
    obtain ⟨c', h1, h2, h3⟩ := foldl_applyCons_cols n cs
      (if t then { p with cols := p.cols ++ [{ name := n, notNull := false, unique := false }] }
        else { p with cols := p.cols ++ [{ name := n, notNull := false, unique := false }], failed := true })
      p.cols { name := n, notNull := false, unique := false } (by cases t <;> rfl)
    have : parseItem p (.col n t cs) = cs.foldl (applyCons n)
      (if t then { p with cols := p.cols ++ [{ name := n, notNull := false, unique := false }] }
        else { p with cols := p.cols ++ [{ name := n, notNull := false, unique := false }], failed := true }) := by
      cases t <;> rfl
    rw [this, h1]
    simp [specCols, decl, h2, h3]
  | tablePK ns =>
    simp only [parseItem, specCols, List.append_nil]
    split <;> rfl

theorem specCols_cons (it : Item) (items : List Item) :
    specCols (it :: items) = specCols [it] ++ specCols items := by
  cases it <;> simp [specCols]

theorem foldl_parseItem_cols (items : List Item) (p : Parsed) :
    (items.foldl parseItem p).cols.map decl = p.cols.map decl ++ specCols items := by
  induction items generalizing p with
  | nil => simp [specCols]
  | cons it items ih =>
    rw [List.foldl_cons, ih, parseItem_cols, specCols_cons it items, List.append_assoc]

/-- the parsed columns are exactly the specified ones, in order -/
theorem parse_cols (items : List Item) : (parse items).cols.map decl = specCols items := by
  have := foldl_parseItem_cols items {}
  simpa [parse] using this

theorem parse_names (items : List Item) : (parse items).cols.map Col.name = specNames items := by
  rw [specNames_eq_map, ← parse_cols, List.map_map]
  rfl

/-! ### `convert` -/

theorem convert_none_of_bad (items : List Item) (h : Bad (parse items)) : convert items = none := by
  rcases h with h | h | h <;> simp [convert, h]

theorem convert_none_of_dup (items : List Item)
    (h : hasDup ((parse items).cols.map (lower ∘ Col.name)) = true) : convert items = none := by
  simp [convert, h]

/-- what an accepted definition looks like -/
theorem convert_some {items : List Item} {d : Declared} (h : convert items = some d) :
    d.cols = (parse items).cols.map decl ∧
    ∀ k, d.key = some k → (∃ k0, (parse items).pk = [k0] ∧ lower k = lower k0) ∧
      k ∈ (parse items).cols.map Col.name := by
  unfold convert at h
  simp only [] at h
  split at h
  · cases h
  · split at h
    · cases h
    · split at h
      · cases h
      · split at h
        · rename_i k hpk
          split at h
          · rename_i n hn
            cases h
            refine ⟨rfl, ?_⟩
            intro k' hk'
            cases hk'
            have hmem := List.mem_of_find?_eq_some hn
            have hp := List.find?_some hn
            exact ⟨⟨k, hpk, by simpa using hp⟩, hmem⟩
          · cases h
        · cases h
          exact ⟨rfl, fun k hk => by cases hk⟩

/-! ### options -/

/-- a name that has been seen rejects the definition when it comes again -/
theorem applyOpts_seen (pre post : List (String × OptVal)) (name : String) (v : OptVal)
    (o : Opts) (seen : List String) (h : name ∈ seen) :
    applyOpts o seen (pre ++ (name, v) :: post) = none := by
  induction pre generalizing o seen with
  | nil => simp [applyOpts, h]
  | cons mw pre ih =>
    obtain ⟨m, w⟩ := mw
    rw [List.cons_append, applyOpts]
    split
    · rfl
    · split
      · exact ih _ _ (List.mem_cons_of_mem _ h)
      · rfl

theorem applyOpts_dup (pre mid post : List (String × OptVal)) (name : String) (v1 v2 : OptVal)
    (o : Opts) (seen : List String) :
    applyOpts o seen (pre ++ (name, v1) :: (mid ++ (name, v2) :: post)) = none := by
  induction pre generalizing o seen with
  | nil =>
    rw [List.nil_append, applyOpts]
    split
    · rfl
    · split
      · exact applyOpts_seen mid post name v2 _ _ (List.mem_cons_self ..)
      · rfl
  | cons mw pre ih =>
    obtain ⟨m, w⟩ := mw
    rw [List.cons_append, applyOpts]
    split
    · rfl
    · split
      · exact ih _ _
      · rfl

/-! ### `lower` on literals -/

/-- `String.toLower` through lists of characters: the right-hand side reduces in the kernel on
    literals, `String.mapAux` does not -/
theorem lower_eq (s : String) : lower s = String.ofList (s.toList.map Char.toLower) := by
  unfold lower String.toLower
  exact String.map_eq_internal

end S3db.Schema
