import S3db.Model.Table
import S3db.Model.Facts
/-!
# `s3db_vacuum`: purge of old delete markers, and deletion of superseded versions and their nodes

Row part (`Vacuum` in vtable_common.go + `RemoveTombstones`): every row that is a delete marker
whose delete time is *before* the cutoff is tombstoned with the zero time and the tombstone is
removed at once; nothing else changes.  The comparison is read from the source (`rowCutoff`).

Storage part (`DeleteHistoricVersions` / `getHistoricRootsAndNodes`): a set of candidate nodes —
whatever `DiffLinks(child, parent)` reports, possibly too much — minus everything reachable
from a version that is kept (`vacuumKeepsReachable`) is deleted, then the superseded version
objects.  Nodes are content-addressed, so different versions may share them.  Core Lean only.
-/
namespace S3db.Vacuum
open S3db S3db.AList S3db.Row S3db.Table

variable {K V : Type} [DecidableEq K]

/-- how the source compares a row's delete time with the cutoff; `none` when the text is not one
    the model knows (then nothing can be proved, and the check searches for a failing input) -/
def rowPurged (F : Facts) (deleted : Bool) (dut cutoff : Int) : Option Bool :=
  if F.rowCutoff = "row.Deleted && rowTime.Add(row.DeleteUpdateOffset.AsDuration()).Before(beforeTime)" then
    some (deleted && decide (dut < cutoff))
  else if F.rowCutoff = "row.Deleted && !rowTime.Add(row.DeleteUpdateOffset.AsDuration()).After(beforeTime)" then
    some (deleted && decide (dut ≤ cutoff))
  else if F.rowCutoff = "rowTime.Add(row.DeleteUpdateOffset.AsDuration()).Before(beforeTime)" then
    some (decide (dut < cutoff))
  else none

/-- the row part of vacuum -/
def vacuumRows (F : Facts) (cutoff : Int) (t : Table K V) : Table K V :=
  t.filter fun p => !((rowPurged F p.2.row.deleted p.2.row.dut cutoff).getD true)

/-! ### storage part -/

abbrev Hash := Nat

structure Store where
  nodes : List Hash                 -- node objects present
  reach : Nat → List Hash           -- nodes a version's tree consists of (immutable: content-addressed)

/-- the nodes vacuum deletes: the candidates, minus (when the keep pass is in place) everything a
    kept version reaches -/
def deleteSet (F : Facts) (s : Store) (candidates : List Hash) (kept : List Nat) : List Hash :=
  if F.vacuumKeepsReachable then candidates.filter fun h => !(kept.any fun v => (s.reach v).contains h)
  else candidates

/-- the store after any prefix of the node deletions was served (a crash anywhere inside vacuum) -/
def afterDeletes (s : Store) (dels : List Hash) : Store :=
  { s with nodes := s.nodes.filter fun h => !dels.contains h }

def Complete (s : Store) (v : Nat) : Prop := ∀ h, h ∈ s.reach v → h ∈ s.nodes

/-- which version objects are listed under root/current/ and root/merged/.  A superseded version
    is normally only under merged/, but stays under current/ when its retirement (PUT merged/,
    DELETE current/, both best-effort) failed half-way. -/
structure Listing where
  current : List Nat
  merged : List Nat

/-- the version objects vacuum removes: the historic versions from root/merged/ and — when the
    retire-finishing pass is in place (`vacuumFinishesRetire`) — from root/current/ too -/
def delist (F : Facts) (l : Listing) (historic : List Nat) : Listing :=
  { current := if F.vacuumFinishesRetire then l.current.filter fun v => !historic.contains v else l.current,
    merged := l.merged.filter fun v => !historic.contains v }

/-! ### which versions vacuum removes

`getHistoricRootsAndNodes`: a version is removed iff it has children in the graph and none of
them is "too new" (`versionCutoff`: created after the cutoff, or undated).  Creation times are
the commit times of the versions (`versionsDatedAtCommit`). -/

structure VGraph where
  versions : List Nat
  parents : Nat → List Nat          -- merge sources of a version
  created : Nat → Int

def VGraph.children (g : VGraph) (p : Nat) : List Nat :=
  g.versions.filter fun c => (g.parents c).contains p

/-- how the source decides that a child keeps its parent; `none` for an unknown text -/
def tooNew (F : Facts) (created cutoff : Int) : Option Bool :=
  if F.versionCutoff = "childRoot.Created == nil || childRoot.Created.After(olderThan)" then
    some (decide (created > cutoff))
  else if F.versionCutoff = "childRoot.Created == nil || !childRoot.Created.Before(olderThan)" then
    some (decide (created ≥ cutoff))
  else none

/-- the versions whose objects vacuum deletes -/
def removed (F : Facts) (g : VGraph) (cutoff : Int) (p : Nat) : Bool :=
  !(g.children p).isEmpty && !(F.vacuumChecksOwnAge && decide (g.created p ≥ cutoff)) &&
  (g.children p).all fun c => !((tooNew F (g.created c) cutoff).getD true)

/-! ### the order in which the chosen version objects are deleted (F93)

The next vacuum finds the history by walking back from the current version through `parents`.
`visitFirst` is the depth-first walk of the source (`supersededFirst`): a version is emitted after
the chosen versions it supersedes.  The emitted list is kept newest first (`acc`), so that the
invariant below is structural; `deletionOrder` reverses it.  Fuel bounds the depth (a version
graph has no cycles: names are hashes of contents that include the parents' names). -/

/-- visit `v`: first the chosen parents not yet emitted, then `v` itself; `acc` = emitted so far,
    newest first -/
def visitFirst (g : VGraph) (chosen : List Nat) : Nat → List Nat → Nat → List Nat
  | 0, acc, v => if acc.contains v then acc else v :: acc
  | fuel + 1, acc, v =>
    if acc.contains v then acc
    else
      let acc' := ((g.parents v).filter chosen.contains).foldl (visitFirst g chosen fuel) acc
      if acc'.contains v then acc' else v :: acc'

/-- the deletion order for the chosen versions; with the fact off, the order they came in (a Go
    map's: any) -/
def deletionOrder (F : Facts) (g : VGraph) (chosen : List Nat) : List Nat :=
  if F.vacuumDeletesSupersededFirst then (chosen.foldl (visitFirst g chosen g.versions.length) []).reverse else chosen

/-- a list of emitted versions, newest first, in which every version comes after (is consed onto)
    the chosen versions it supersedes -/
def Good (g : VGraph) (chosen : List Nat) : List Nat → Prop
  | [] => True
  | c :: older => (∀ p, p ∈ g.parents c → p ∈ chosen → p ∈ older) ∧ Good g chosen older

/-- what makes an order safe to be interrupted in: wherever the deletion loop stops, the version
    objects already deleted are closed under "supersedes" (among the chosen ones) -/
def PrefixClosed (g : VGraph) (chosen order : List Nat) : Prop :=
  ∀ done todo, order = done ++ todo → ∀ c, c ∈ done → ∀ p, p ∈ g.parents c → p ∈ chosen → p ∈ done

/-- a walk back through the history: each version is followed by one it supersedes -/
def Walk (g : VGraph) : List Nat → Prop
  | [] => True
  | [_] => True
  | a :: b :: rest => b ∈ g.parents a ∧ Walk g (b :: rest)

end S3db.Vacuum
