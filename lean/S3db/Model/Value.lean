/-!
# L0: SQLite values as s3db stores them (`proto/v1.SQLiteValue`)

`F64` is the exact value a finite IEEE-754 double denotes (`±m·2^x`, straight from the bit
fields), or an infinity / NaN.  Lean's `Float` is opaque to the kernel, so every comparison
is exact integer arithmetic.  Byte strings are `List Nat` (each < 256): Go's `string <` and
`bytes.Compare` are bytewise lexicographic, as is SQLite's BINARY collation (`memcmp`).
Core Lean only.
-/
namespace S3db

abbrev Bytes := List Nat

namespace Bytes
/-- `bytes.Compare` / Go string comparison: -1, 0, 1 -/
def cmp : Bytes → Bytes → Int
  | [], [] => 0
  | [], _ :: _ => -1
  | _ :: _, [] => 1
  | a :: as, b :: bs => if a < b then -1 else if b < a then 1 else cmp as bs

def lt (a b : Bytes) : Bool := cmp a b == -1
end Bytes

inductive F64 where
  | fin (neg : Bool) (m : Nat) (x : Int)   -- (-1)^neg · m · 2^x
  | inf (neg : Bool)
  | nan
deriving DecidableEq, Repr, Inhabited

namespace F64

def pow2 (n : Nat) : Int := (2 : Int) ^ n

/-- decode the 64 bits of a double -/
def ofBits (b : Nat) : F64 :=
  let s : Bool := b / 2^63 % 2 == 1
  let e : Nat := b / 2^52 % 2^11
  let m : Nat := b % 2^52
  if e == 2047 then (if m == 0 then .inf s else .nan)
  else if e == 0 then .fin s m (-1074)
  else .fin s (2^52 + m) ((e : Int) - 1075)

def signed (neg : Bool) (m : Nat) : Int := if neg then -(m : Int) else (m : Int)

/-- the numerator of `±m·2^x` over the common denominator `2^(-lo)`, for `lo ≤ x` -/
def scaled (neg : Bool) (m : Nat) (x lo : Int) : Int := signed neg m * pow2 (x - lo).toNat

/-- exact three-way comparison of two doubles as Go's `<`/`>` see them; `none` when either is NaN
    (every Go comparison with NaN is false, which the callers treat as "equal") -/
def cmp : F64 → F64 → Option Int
  | .nan, _ => none
  | _, .nan => none
  | .inf n1, .inf n2 => some (if n1 == n2 then 0 else if n1 then -1 else 1)
  | .inf n1, .fin .. => some (if n1 then -1 else 1)
  | .fin .., .inf n2 => some (if n2 then 1 else -1)
  | .fin n1 m1 x1, .fin n2 m2 x2 =>
    let lo := min x1 x2
    let a := scaled n1 m1 x1 lo
    let b := scaled n2 m2 x2 lo
    some (if a < b then -1 else if b < a then 1 else 0)

/-- Go `a < b` on float64 -/
def lt (a b : F64) : Bool := cmp a b == some (-1)
/-- Go `a > b` on float64 -/
def gt (a b : F64) : Bool := cmp a b == some 1
/-- Go `a >= b` on float64 -/
def ge (a b : F64) : Bool := cmp a b == some 1 || cmp a b == some 0

/-- number of binary digits -/
def bitLen : Nat → Nat
  | 0 => 0
  | n + 1 => Nat.log2 (n + 1) + 1

/-- Go `float64(i)` for an int64: round to nearest, ties to even, 53 significant bits -/
def ofInt (i : Int) : F64 :=
  let n := i.natAbs
  let neg := decide (i < 0)
  if n < 2^53 then .fin neg n 0
  else
    let k := bitLen n - 53
    let q := n / 2^k
    let r := n % 2^k
    let half := 2^(k-1)
    let q' := if r > half || (r == half && q % 2 == 1) then q + 1 else q
    .fin neg q' k

/-- Go `int64(r)` for a finite double inside the int64 range: truncation toward zero -/
def toInt : F64 → Int
  | .fin neg m x => if 0 ≤ x then signed neg (m * 2^x.toNat) else signed neg (m / 2^(-x).toNat)
  | _ => 0

/-- an integer constant written as a float literal in the source (exactly representable ones only) -/
def ofIntLit (i : Int) : F64 := .fin (decide (i < 0)) i.natAbs 0

def isNaN : F64 → Bool
  | .nan => true
  | _ => false

end F64

/-- `v1proto.Type` -/
inductive Ty where
  | NULL | INT | REAL | TEXT | BLOB
deriving DecidableEq, Repr, Inhabited

/-- `v1proto.SQLiteValue`: a tagged struct; only the field named by `ty` is meaningful -/
structure SQLiteValue where
  ty : Ty := .NULL
  int : Int := 0
  real : F64 := .fin false 0 0
  text : Bytes := []
  blob : Bytes := []
deriving DecidableEq, Repr, Inhabited

/-- the values SQL hands to the extension and gets back (`interface{}` in the Go code) -/
inductive Val where
  | null
  | int (i : Int)
  | real (f : F64)
  | text (b : Bytes)
  | blob (b : Bytes)
deriving DecidableEq, Repr, Inhabited

/-- `NewKey` / `toSQLiteValue` -/
def Val.toSQLite : Val → SQLiteValue
  | .null => { ty := .NULL }
  | .int i => { ty := .INT, int := i }
  | .real f => { ty := .REAL, real := f }
  | .text b => { ty := .TEXT, text := b }
  | .blob b => { ty := .BLOB, blob := b }

/-- `FromSQLiteValue` / `Key.Value` -/
def Val.ofSQLite (s : SQLiteValue) : Val :=
  match s.ty with
  | .NULL => .null
  | .INT => .int s.int
  | .REAL => .real s.real
  | .TEXT => .text s.text
  | .BLOB => .blob s.blob

end S3db
