import S3db.Model.Value
import S3db.Model.Facts
/-!
# L0: the node codec (`marshalProto` / `unmarshalProto`, vtable_common.go) at message level

A mast node is keys, `crdt.Value` entries and child links (`nil` = no child).  The protobuf wire
codec itself is trusted; what is modelled is which fields the two functions copy (read from the
source as the facts `marshalFields` / `unmarshalFields`) and how an absent link travels
(`marshalNilLinkAs`, `unmarshalEmptyLinkAs`).  The row payload is a parameter.  Core Lean only.
-/
namespace S3db.Codec

structure Entry (R : Type) where
  mod : Int
  prev : String
  tomb : Int
  row : Option R
deriving DecidableEq, Repr

structure Node (R : Type) where
  keys : List SQLiteValue
  values : List (Entry R)
  links : List (Option String)
deriving Repr

/-- the protobuf message: links are plain strings -/
structure Wire (R : Type) where
  keys : List SQLiteValue
  values : List (Entry R)
  links : List String
deriving Repr

def copies (fields : List String) (target source : String) : Bool := fields.contains (target ++ "<-" ++ source)

variable {R : Type}

def marshalEntry (F : Facts) (e : Entry R) : Entry R :=
  { mod := if copies F.marshalFields "ModEpochNanos" "ModEpochNanos" then e.mod else 0,
    prev := if copies F.marshalFields "PreviousRoot" "PreviousRoot" then e.prev else "",
    tomb := if copies F.marshalFields "TombstoneSinceEpochNanos" "TombstoneSinceEpochNanos" then e.tomb else 0,
    row := if copies F.marshalFields "Value" "row" then e.row else none }

def unmarshalEntry (F : Facts) (e : Entry R) : Entry R :=
  { mod := if copies F.unmarshalFields "ModEpochNanos" "ModEpochNanos" then e.mod else 0,
    prev := if copies F.unmarshalFields "PreviousRoot" "PreviousRoot" then e.prev else "",
    tomb := if copies F.unmarshalFields "TombstoneSinceEpochNanos" "TombstoneSinceEpochNanos" then e.tomb else 0,
    row := if copies F.unmarshalFields "Value" "Value" then e.row else none }

def marshalLink (F : Facts) : Option String → String
  | some s => s
  | none => if F.marshalNilLinkAs = "emptyString" then "" else "?"

def unmarshalLink (F : Facts) (s : String) : Option String :=
  if s = "" then (if F.unmarshalEmptyLinkAs = "nil" then none else some "") else some s

def marshal (F : Facts) (n : Node R) : Wire R :=
  { keys := if F.codecKeysAndSizes then n.keys else [],
    values := n.values.map (marshalEntry F),
    links := n.links.map (marshalLink F) }

def unmarshal (F : Facts) (w : Wire R) : Node R :=
  { keys := if F.codecKeysAndSizes then w.keys else [],
    values := w.values.map (unmarshalEntry F),
    links := w.links.map (unmarshalLink F) }

/-- links are content hashes: never the empty string -/
def NodeWF (n : Node R) : Prop := ∀ l, l ∈ n.links → l ≠ some ""

end S3db.Codec
