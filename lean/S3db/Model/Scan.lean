import S3db.Model.Facts
/-!
# L4: `Cursor.Filter` / `Cursor.Next` over an abstract ordered cursor

The tree is seen through mast's cursor contract (`MastSpec`): the entries in strictly increasing
key order; `Ceil x` positions on the first key `≥ x`, `Min`/`Max` on the first/last, `Forward`/
`Backward` move by one.  `cmp` is the key comparison (`Key.Order`, a total preorder by C07).
`window` is the bound computation of `Filter`; `scan` is the seek followed by the `Next` loop.
The module never sets `Omit`, so SQLite evaluates every constraint again on each returned row
(`recheck`): the scan may over-approximate (a descending scan starts on the first key *above* an
upper bound that is not stored), but must never miss a row or return rows out of order.
Core Lean only.
-/
namespace S3db.Scan

inductive Op where
  | eq | lt | le | ge | gt
deriving DecidableEq, Repr

/-- a usable constraint on the key column: operator and (non-NULL) operand -/
abbrev Con (K : Type) := Op × K

structure Win (K : Type) where
  min : Option K := none
  max : Option K := none
  gtMin : Bool := false
  ltMax : Bool := false
deriving Repr

variable {K : Type}

/-- one iteration of the loop over the constraints in `Filter` -/
def addCon (cmp : K → K → Int) (w : Win K) (c : Con K) : Win K :=
  let (op, x) := c
  let w := if op == .lt || op == .le || op == .eq then
      (match w.max with
       | none => { w with max := some x, ltMax := op == .lt }
       | some m => if cmp x m < 0 then { w with max := some x, ltMax := op == .lt } else w)
    else w
  if op == .gt || op == .ge || op == .eq then
    (match w.min with
     | none => { w with min := some x, gtMin := op == .gt }
     | some m => if cmp x m > 0 then { w with min := some x, gtMin := op == .gt } else w)
  else w

def window (cmp : K → K → Int) (cs : List (Con K)) : Win K := cs.foldl (addCon cmp) {}

/-- does key `k` satisfy constraint `c` (what SQLite re-checks) -/
def sat1 (cmp : K → K → Int) (k : K) (c : Con K) : Bool :=
  match c.1 with
  | .eq => cmp k c.2 == 0
  | .lt => decide (cmp k c.2 < 0)
  | .le => decide (cmp k c.2 ≤ 0)
  | .ge => decide (cmp k c.2 ≥ 0)
  | .gt => decide (cmp k c.2 > 0)

def sat (cmp : K → K → Int) (cs : List (Con K)) (k : K) : Bool := cs.all (sat1 cmp k)

/-- an entry of the tree: key and whether the row is a delete marker -/
abbrev Ent (K : Type) := K × Bool

/-- the `Next` loop of an ascending scan over the entries from the cursor position on -/
def nextAsc (cmp : K → K → Int) (w : Win K) : List (Ent K) → List K
  | [] => []
  | (k, deleted) :: rest =>
    let stop := match w.max with
      | some m => (w.ltMax && decide (cmp k m ≥ 0)) || decide (cmp k m > 0)
      | none => false
    if stop then []
    else
      let skipMin := match w.min with
        | some m => w.gtMin && cmp k m == 0
        | none => false
      let w' := if skipMin then { w with gtMin := false } else w
      if skipMin || deleted then nextAsc cmp w' rest else k :: nextAsc cmp w' rest

/-- the `Next` loop of a descending scan over the entries from the cursor position backwards
    (the list is already in the order the cursor visits them: descending) -/
def nextDesc (cmp : K → K → Int) (w : Win K) : List (Ent K) → List K
  | [] => []
  | (k, deleted) :: rest =>
    let stop := match w.min with
      | some m => (w.gtMin && decide (cmp k m ≤ 0)) || decide (cmp k m < 0)
      | none => false
    if stop then []
    else
      let skipMax := match w.max with
        | some m => w.ltMax && cmp k m == 0
        | none => false
      let w' := if skipMax then { w with ltMax := false } else w
      if skipMax || deleted then nextDesc cmp w' rest else k :: nextDesc cmp w' rest

/-- `Ceil x`: the entries from the first key `≥ x` on -/
def ceilFrom (cmp : K → K → Int) (x : K) (es : List (Ent K)) : List (Ent K) :=
  es.dropWhile fun e => decide (cmp e.1 x < 0)

/-- what a descending cursor visits after `Ceil x` (falling back to `Max` past the end, when
    `descSeekFallsBackToMax`): the first key `≥ x`, then everything below it, downwards -/
def descFrom (cmp : K → K → Int) (fallback : Bool) (x : K) (es : List (Ent K)) : List (Ent K) :=
  let below := es.takeWhile fun e => decide (cmp e.1 x < 0)
  match ceilFrom cmp x es with
  | e :: _ => e :: below.reverse
  | [] => if fallback then below.reverse else []

/-- `Filter` + repeated `Next`: the keys handed to SQLite, in order -/
def scan (F : Facts) (cmp : K → K → Int) (desc : Bool) (cs : List (Con K)) (es : List (Ent K)) : List K :=
  let w := window cmp cs
  if !desc then
    match w.min with
    | some m => nextAsc cmp w (ceilFrom cmp m es)
    | none => nextAsc cmp w es
  else
    match w.max with
    | some m => nextDesc cmp w (descFrom cmp F.descSeekFallsBackToMax m es)
    | none => nextDesc cmp w es.reverse

/-- SQLite's second evaluation of the constraints on the rows the module returned -/
def recheck (cmp : K → K → Int) (cs : List (Con K)) (ks : List K) : List K := ks.filter (sat cmp cs)

/-- the reference: the live keys that satisfy every constraint, in scan order -/
def expected (cmp : K → K → Int) (desc : Bool) (cs : List (Con K)) (es : List (Ent K)) : List K :=
  let live := (es.filter fun e => !e.2).map (·.1)
  let hits := live.filter (sat cmp cs)
  if desc then hits.reverse else hits

/-! ### constraints under another collation (F62)

SQLite evaluates `k = 'abc' COLLATE NOCASE` with its own relation; the tree is ordered bytewise.
`CCon` carries whether a constraint's collation is BINARY; `sat'` is whatever SQLite's relation
is for the others (nothing is assumed about it). -/

structure CCon (K : Type) where
  con : Con K
  binary : Bool

/-- what `BestIndex` hands to `Filter` -/
def pushed (F : Facts) (cs : List (CCon K)) : List (Con K) :=
  (cs.filter fun c => c.binary || !F.bestIndexSkipsOtherCollations).map (·.con)

/-- SQLite's own evaluation of one constraint -/
def satC (cmp : K → K → Int) (sat' : K → Con K → Bool) (k : K) (c : CCon K) : Bool :=
  if c.binary then sat1 cmp k c.con else sat' k c.con

def recheckC (cmp : K → K → Int) (sat' : K → Con K → Bool) (cs : List (CCon K)) (ks : List K) : List K :=
  ks.filter fun k => cs.all (satC cmp sat' k)

def expectedC (cmp : K → K → Int) (sat' : K → Con K → Bool) (desc : Bool) (cs : List (CCon K)) (es : List (Ent K)) : List K :=
  let live := (es.filter fun e => !e.2).map (·.1)
  let hits := live.filter fun k => cs.all (satC cmp sat' k)
  if desc then hits.reverse else hits

/-- laws of the key comparison (what C07 proves of `Key.Order`) and sortedness of the cursor -/
structure OrderLaws (cmp : K → K → Int) : Prop where
  refl : ∀ a, cmp a a = 0
  antisymm : ∀ a b, cmp a b = - cmp b a
  trans : ∀ a b c, cmp a b ≤ 0 → cmp b c ≤ 0 → cmp a c ≤ 0
  trans_lt : ∀ a b c, cmp a b < 0 → cmp b c ≤ 0 → cmp a c < 0
  trans_lt' : ∀ a b c, cmp a b ≤ 0 → cmp b c < 0 → cmp a c < 0

def Sorted (cmp : K → K → Int) : List (Ent K) → Prop
  | [] => True
  | e :: rest => (∀ e' ∈ rest, cmp e.1 e'.1 < 0) ∧ Sorted cmp rest

end S3db.Scan
