import S3db.Model.AList
import S3db.Model.Txn
/-!
# Several connections in one process

What the connections of one process share is exactly: the registry of tables (`tables`, keyed by
table name, under `tableLock`), the lazily created in-memory object store (`inMemoryS3*`, under
`inMemoryS3Lock`) and the object store itself.  Everything else — the attributes of a
connection (`S3DBConn`), the tree of a table — hangs off one connection.  The model is the
product of those parts; a statement is executed atomically with respect to the shared parts
(they are only touched under their mutex: fact `sharedGlobalsLocked`).  Data races, deadlocks and
cgo thread affinity are runtime behaviour no model exhibits (exercised under the race detector).
Core Lean only.
-/
namespace S3db.World
open S3db S3db.AList

structure TableSt where
  owner : Nat              -- connection that created it
  prefix_ : String         -- bucket prefix it stores under
  rows : List (Nat × Nat)  -- its tree (content abstracted to key/value pairs)
deriving DecidableEq, Repr

structure W where
  registry : AList String TableSt := []     -- process-wide, by table name
  attrs : AList Nat Txn.Conn := []          -- per connection
  buckets : AList String (List (Nat × Nat)) := []   -- committed content per prefix
deriving Repr

inductive Stmt where
  | create (name pfx : String)
  | insert (name : String) (k v : Nat)
  | commit (name : String)
  | refresh (name : String)
  | setWriteTime (w : Option Int)
  | drop (name : String)
deriving DecidableEq, Repr

inductive Out where
  | ok | err
deriving DecidableEq, Repr

/-- connection `c` executes one statement -/
def step (w : W) (c : Nat) : Stmt → W × Out
  | .create name pfx =>
    match lookup name w.registry with
    | some _ => (w, .err)                                       -- "table already exists"
    | none => ({ w with registry := insert name { owner := c, prefix_ := pfx, rows := (lookup pfx w.buckets).getD [] } w.registry }, .ok)
  | .insert name k v =>
    match lookup name w.registry with
    | some t => if t.owner = c then ({ w with registry := insert name { t with rows := (k, v) :: t.rows } w.registry }, .ok) else (w, .err)
    | none => (w, .err)
  | .commit name =>
    match lookup name w.registry with
    | some t => if t.owner = c then ({ w with buckets := insert t.prefix_ t.rows w.buckets }, .ok) else (w, .err)
    | none => (w, .err)
  | .refresh name =>
    match lookup name w.registry with
    | some t => if t.owner = c then ({ w with registry := insert name { t with rows := (lookup t.prefix_ w.buckets).getD [] } w.registry }, .ok) else (w, .err)
    | none => (w, .err)
  | .setWriteTime wt =>
    ({ w with attrs := insert c { (lookup c w.attrs).getD {} with writeTime := wt } w.attrs }, .ok)
  | .drop name =>
    match lookup name w.registry with
    | some t => if t.owner = c then ({ w with registry := erase name w.registry }, .ok) else (w, .err)
    | none => (w, .err)

/-- the table and the prefix a statement touches -/
def Stmt.table : Stmt → Option String
  | .create n _ => some n | .insert n _ _ => some n | .commit n => some n | .refresh n => some n | .drop n => some n
  | .setWriteTime _ => none

/-- observational equality of worlds -/
def Same (a b : W) : Prop :=
  (∀ n, lookup n a.registry = lookup n b.registry) ∧ (∀ c, lookup c a.attrs = lookup c b.attrs) ∧
  (∀ p, lookup p a.buckets = lookup p b.buckets)

end S3db.World
