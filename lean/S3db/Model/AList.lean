/-!
# Association lists observed through `lookup`

Maps of the model (columns of a row, entries of a tree, objects of a bucket) are plain
association lists: first match wins, `insert` replaces the first match or appends.
Nothing depends on an ordering invariant; the driver sorts when it prints.
Core Lean only.
-/
namespace S3db

abbrev AList (K V : Type) := List (K × V)

namespace AList
variable {K V : Type} [DecidableEq K]

def lookup (k : K) : AList K V → Option V
  | [] => none
  | (k', v) :: xs => if k' = k then some v else lookup k xs

def contains (k : K) (xs : AList K V) : Bool := (lookup k xs).isSome

/-- replace the first binding of `k`, or append one -/
def insert (k : K) (v : V) : AList K V → AList K V
  | [] => [(k, v)]
  | (k', v') :: xs => if k' = k then (k, v) :: xs else (k', v') :: insert k v xs

/-- remove every binding of `k` -/
def erase (k : K) : AList K V → AList K V
  | [] => []
  | (k', v') :: xs => if k' = k then erase k xs else (k', v') :: erase k xs

def keys (xs : AList K V) : List K := xs.map (·.1)

@[simp] theorem lookup_nil (k : K) : lookup k ([] : AList K V) = none := rfl

theorem lookup_insert (k k' : K) (v : V) (xs : AList K V) :
    lookup k (insert k' v xs) = if k' = k then some v else lookup k xs := by
  induction xs with
  | nil => simp [insert, lookup]
  | cons p xs ih =>
    obtain ⟨a, b⟩ := p
    by_cases h1 : a = k' <;> by_cases h2 : k' = k <;> by_cases h3 : a = k <;>
      simp_all [insert, lookup]

theorem lookup_insert_self (k : K) (v : V) (xs : AList K V) :
    lookup k (insert k v xs) = some v := by simp [lookup_insert]

theorem lookup_insert_ne {k k' : K} (h : k' ≠ k) (v : V) (xs : AList K V) :
    lookup k (insert k' v xs) = lookup k xs := by simp [lookup_insert, h]

theorem lookup_erase (k k' : K) (xs : AList K V) :
    lookup k (erase k' xs) = if k' = k then none else lookup k xs := by
  induction xs with
  | nil => simp [erase, lookup]
  | cons p xs ih =>
    obtain ⟨a, b⟩ := p
    by_cases h1 : a = k' <;> by_cases h2 : k' = k <;> by_cases h3 : a = k <;>
      simp_all [erase, lookup]

theorem lookup_some_mem {k : K} {v : V} : ∀ {xs : AList K V}, lookup k xs = some v → (k, v) ∈ xs
  | [], h => by simp [lookup] at h
  | (a, b) :: xs, h => by
    unfold lookup at h
    split at h
    · rename_i e; cases h; subst e; exact List.mem_cons_self ..
    · exact List.mem_cons_of_mem _ (lookup_some_mem h)

theorem lookup_isSome_of_mem {k : K} {v : V} : ∀ {xs : AList K V}, (k, v) ∈ xs → (lookup k xs).isSome
  | [], h => by simp at h
  | (a, b) :: xs, h => by
    unfold lookup
    split
    · rfl
    · rename_i hne
      rcases List.mem_cons.1 h with h | h
      · cases h; exact absurd rfl hne
      · exact lookup_isSome_of_mem h

theorem lookup_eq_none_iff {k : K} {xs : AList K V} : lookup k xs = none ↔ k ∉ keys xs := by
  induction xs with
  | nil => simp [keys]
  | cons p xs ih =>
    obtain ⟨a, b⟩ := p
    by_cases h : a = k
    · simp [lookup, keys, h]
    · simp [lookup, h, keys] at ih ⊢
      constructor
      · intro hl; exact ⟨fun e => h e.symm, ih.1 hl⟩
      · intro hl; exact ih.2 hl.2

/-- fold a list of updates into a map and observe one key -/
theorem lookup_foldl_insertWith (k : K) (f : Option V → K → V → V) (ys : List (K × V)) :
    ∀ (xs : AList K V),
      lookup k (ys.foldl (fun acc p => insert p.1 (f (lookup p.1 acc) p.1 p.2) acc) xs)
        = ys.foldl (fun o p => if p.1 = k then some (f o p.1 p.2) else o) (lookup k xs) := by
  induction ys with
  | nil => intro xs; rfl
  | cons y ys ih =>
    intro xs
    simp only [List.foldl_cons]
    rw [ih]
    congr 1
    by_cases h : y.1 = k
    · subst h; simp [lookup_insert]
    · simp [lookup_insert, h]

end AList
end S3db
