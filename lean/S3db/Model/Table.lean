import S3db.Model.Row
import S3db.Model.Kv
/-!
# L1/L2: a table as s3db stores it, and the three statements

An entry is `crdt.Value{ModEpochNanos, Value: *Row}` (kv-level tombstones never persist in an
s3db table: `Vacuum` removes the ones it sets before it commits).  `mergeEntry` is `mergeValues`,
`insertRow/updateRow/deleteRow` are `VirtualTable.Insert/Update/Delete` (vtable_common.go).
Core Lean only.
-/
namespace S3db.Table
open S3db S3db.AList S3db.Row

structure SEntry (V : Type) where
  mod : Int
  row : ARow V
deriving DecidableEq, Repr

variable {K V : Type} [DecidableEq K]


abbrev Table (K V : Type) := AList K (SEntry V)

/-- `mergeValues(i1, i2)`: the result keeps the later modification time (`LastWriteWins` on
    the metadata) and the rows are merged with the *older* entry as first argument;
    `i1.ModEpochNanos < i2.ModEpochNanos` decides, so on equal times `i2` goes first -/
def mergeEntry (i1 i2 : SEntry V) : SEntry V :=
  { mod := if i1.mod ≥ i2.mod then i1.mod else i2.mod,
    row := if i1.mod < i2.mod then mergeRows i1.row i2.row else mergeRows i2.row i1.row }

/-- the tree merge of two table versions (`MergeModeCustom`) -/
def mergeTables [DecidableEq V] (a g : Table K V) : Table K V := Kv.mergeTrees mergeEntry a g

inductive Err where
  | constraintPK
  | constraintNotNull
deriving DecidableEq, Repr

def laterOf (a b : Int) : Int := if a > b then a else b

def stamp (when : Int) (vals : AList String V) : AList String (ACol V) :=
  vals.map fun p => (p.1, { v := p.2, t := when })

/-- `VirtualTable.Insert` for a non-NULL key: `vals` holds every non-key column -/
def insertRow (t : Table K V) (when : Int) (k : K) (vals : AList String V) : Except Err (Table K V) :=
  let delta : ARow V := { deleted := false, dut := when, cols := stamp when vals }
  match lookup k t with
  | some e =>
    if !e.row.deleted || decide (e.row.dut > when) then .error .constraintPK
    else .ok (insert k { mod := laterOf e.mod when, row := mergeRows e.row delta } t)
  | none => .ok (insert k { mod := when, row := delta } t)

/-- `VirtualTable.Update`: `vals` holds the assigned columns only; the delta keeps the row's
    own insert time -/
def updateRow (t : Table K V) (when : Int) (k : K) (vals : AList String V) : Table K V :=
  match lookup k t with
  | some e =>
    if e.row.deleted then t
    else
      let delta : ARow V := { deleted := false, dut := e.row.dut, cols := stamp when vals }
      insert k { mod := laterOf e.mod when, row := mergeRows e.row delta } t
  | none => t

/-- `VirtualTable.Delete` -/
def deleteRow (t : Table K V) (when : Int) (k : K) : Table K V :=
  let delta : ARow V := { deleted := true, dut := when, cols := [] }
  match lookup k t with
  | some e => insert k { mod := laterOf e.mod when, row := mergeRows e.row delta } t
  | none => insert k { mod := when, row := delta } t

/-- what a SELECT shows for a key -/
def visibleRow (t : Table K V) (k : K) : Option (AList String (ACol V)) :=
  match lookup k t with
  | some e => visible e.row
  | none => none

end S3db.Table
