/-!
# Decision facts extracted from the Go source by `go2lean` (fact mode)

`Gen/Facts.lean` (regenerated on every run) instantiates this structure from fixed AST queries
over `/repo`; the protocol, scan and schema models are *parameterised* by it, and the property
theorems are stated for the generated instance.  A reordered PUT, a dropped read-only guard or a
flipped cutoff comparison changes the instance, and the proofs that unfold it stop checking.
`"unknown"` / `false` is emitted when a query no longer matches the source.  Core Lean only.
-/
namespace S3db

structure Facts where
  /-- `DB.Commit`: order of `s.crdt.MakeRoot` (node flush), `s.root.Store` (version PUT), `s.moveMergedRoots` -/
  commitOrder : List String
  /-- `DB.Commit`: the version PUT and the flush are error-guarded (`if err != nil { return … }`) -/
  commitChecksErrors : Bool
  /-- `DB.Commit` remembers a failed flush (`flushErr`, refuses to commit again) and a failed version PUT (`unstored`, part of `IsDirty`) -/
  commitRemembersFailure : Bool
  /-- `VirtualTable.Commit` remembers a failed storage commit (`commitFailed`); `Begin`, `Cursor.Filter` and `Vacuum` reopen the tree from the bucket first (`reopenAfterFailedCommit`) -/
  failedCommitReopens : Bool
  /-- sqlite `BestIndex`: a constraint whose collation is not BINARY is handed on as `OpIgnore` -/
  bestIndexSkipsOtherCollations : Bool
  /-- `moveMergedRoots`: per parent, order of `s.merged.Store` and `DeleteObjectWithContext` -/
  retireOrder : List String
  /-- `moveMergedRoots`: `if newRoot == key { continue }` -/
  retireSkipsSelf : Bool
  /-- `moveMergedRoots`: a failed `merged.Store` stops before the DELETE (`return`) -/
  retireStopsOnPutError : Bool
  /-- `Open` (no OnlyVersions): persists tried for a listed name, in order -/
  openLoadsFrom : List String
  /-- `Open` (OnlyVersions): persists tried, in order -/
  historicLoadsFrom : List String
  /-- `Open`: the condition that selects the historic path -/
  historicCond : String
  /-- `mergeRoots`: the condition under which a failing `crdt.Load` is skipped instead of returned -/
  loadErrorSkipCond : String
  /-- `mergeRoots`: errors from `Clone`/`Merge` other than a skippable NoSuchKey are returned -/
  mergeErrorsReturned : Bool
  /-- `mergeRoots`: a listed name found nowhere is skipped only when `skipUnreadable` -/
  missingSkippedOnlyIfSkipUnreadable : Bool
  /-- `MergeRows`, `mergeValues`, `Insert/Update/Delete` (vtable_common.go): the decision points
      the hand-written model of `Model/Row.lean` / `Model/Table.lean` follows -/
  mergeStatusCond : String
  mergeStatusBranchesAsExpected : Bool
  mergeColumnSwitchAsExpected : Bool
  deletedRowsKeepColumns : Bool
  hideAndAdjAsExpected : Bool
  mergeValuesAsExpected : Bool
  insertRefusedCond : String
  statementsMergeAndStoreAsExpected : Bool
  /-- `loadRootFromAny`: the condition under which the next location is tried -/
  loadAnySkipCond : String
  loadAnyReturnsOtherErrors : Bool
  /-- `Insert`/`Update`/`Delete`/`Commit`/`Filter`/`Next`: every storage call is followed by `if err != nil { return … }` -/
  statementErrorsPropagate : Bool
  getRowReturnsLookupError : Bool
  insertRejectsNullKey : Bool
  changesErrorsPropagate : Bool
  /-- `VirtualTable.Begin/Commit/Rollback` (vtable_common.go): snapshot by `Clone`, restored unconditionally by `Rollback`, dropped by `Commit` only on success -/
  beginClonesTree : Bool
  rollbackRestoresSnapshot : Bool
  commitKeepsSnapshotOnError : Bool
  /-- connection attributes (sqlite/vtable.go, s3db_conn.go, vtable_common.go `updateTime`) -/
  beginFixesWriteTime : Bool
  endOfTxReleasesWriteTime : Bool
  /-- sqlite `VirtualTable.Begin` asks the table first and pins the clock time only when the table has accepted the transaction; the read-only `Sync` ends the table's transaction -/
  beginAsksTableFirst : Bool
  /-- `s3db_refresh` is refused while the connection's write time was fixed by an open transaction -/
  refreshRefusedAfterWrite : Bool
  /-- `VirtualTable.Update` refuses a new key that is not the old key, value and storage class (F77) -/
  updateRefusesKeyChange : Bool
  /-- `New`: a blank after `=` is not part of an option value; sizes are read base 10 (F59) -/
  optionValuesAsWritten : Bool
  /-- `New`: column names SQLite would refuse to declare are refused by `convertSchema`, before `OpenKV` (F61) -/
  declarableCheckedBeforeOpen : Bool
  /-- `ConnCursor.Filter` resets `eof` (F75) -/
  connFilterResetsEof : Bool
  /-- `DeleteHistoricVersions`: after deleting the empty current version the handle stops naming it (F71) -/
  emptyVersionForgotten : Bool
  /-- `Open` (no OnlyVersions): when a listed version had to be skipped it lists again and starts over if the listing changed, at most twice (F81) -/
  openRelistsWhenSkipped : Bool
  /-- `VirtualTable.Insert`: a value given for the generated `_rowid_` is refused (F95) -/
  rowidCannotBeAssigned : Bool
  /-- `convertSchema`: the column named by PRIMARY KEY(...) is looked up by its case-folded name, like duplicates (F96) -/
  keyColumnFoldedLookup : Bool
  /-- `Vacuum`: a failed commit of the clone (in `RemoveTombstones` or `Commit`) sets the table's `commitFailed` (F94) -/
  vacuumRemembersFailedCommit : Bool
  /-- sqlite `VirtualTable.Sync` of a read-only table ends the table's transaction (`Rollback`) instead of just returning (F57) -/
  roSyncEndsTransaction : Bool
  /-- `getHistoricRootsAndNodes` returns the chosen versions so that each comes after the chosen versions it supersedes (depth-first `supersededFirst`), and `DeleteHistoricVersions` deletes the version objects in that order (F93) -/
  vacuumDeletesSupersededFirst : Bool
  connUpdateParsesBeforeAssigning : Bool
  /-- `ConnCursor.Column` returns nothing for an attribute an UPDATE does not mention -/
  connColumnHonoursNoChange : Bool
  resetContextAsExpected : Bool
  updateTimePrefersContext : Bool
  /-- `Open`: historic opens pass `skipUnreadable = false`, listing opens `true` -/
  historicFailsOnMissing : Bool
  /-- `Open`: `s.Commit` is called only under `if !opts.ReadOnly` -/
  openCommitsOnlyIfRW : Bool
  /-- methods that start with `if s.readonly { return … ErrReadOnly }` (before any storage call) -/
  roGuards : List String
  /-- `DB.Commit`: the read-only guard sits after the no-op short-circuit and before `MakeRoot` -/
  commitGuardBeforeFlush : Bool
  /-- `sqlite.VirtualTable.Sync`: returns before `common.Commit` when `S3Options.ReadOnly` -/
  syncSkipsRO : Bool
  /-- `Open` requires `ReadOnly` for `OnlyVersions` -/
  onlyVersionsRequiresRO : Bool
  /-- version names: `name` is formatted from `blake2b.Sum256(rootBytes)` and those same bytes are stored -/
  nameIsHashOfStoredBytes : Bool
  /-- `Vacuum`: a row is purged iff `row.Deleted && deleteTime.Before(beforeTime)` -/
  rowCutoff : String
  /-- `RemoveTombstones`: kept iff `ts == 0 || ts >= cutoff` -/
  tombCutoff : String
  /-- `getHistoricRootsAndNodes`: a parent is a candidate unless a child is `Created.After(olderThan)` (or has no time) -/
  versionCutoff : String
  /-- `Vacuum`: order of `RemoveTombstones`, `Commit`, `DeleteHistoricVersions` -/
  vacuumOrder : List String
  /-- `DeleteHistoricVersions`: nodes are deleted before roots -/
  deleteOrder : List String
  /-- kv/crypto.go: `deriveKey`, `V1NodeEncryptor`, `jencryptor.Encrypt/Decrypt` are the known pure functions -/
  deriveKeyAsExpected : Bool
  /-- `persistEncryptor.Load` refuses content that does not hash to the object's name -/
  nodeContentChecked : Bool
  /-- `DeleteHistoricVersions` first removes the historic versions still listed under root/current/ -/
  vacuumFinishesRetire : Bool
  /-- the keep pass also walks every version listed under root/current/ that is not in the graph -/
  vacuumKeepsListedCurrent : Bool
  /-- the walks of vacuum load nodes from the bucket, not through the node cache -/
  vacuumWalksBypassCache : Bool
  /-- a version's creation time is set when it is committed -/
  versionsDatedAtCommit : Bool
  /-- a version created at or after the cutoff is never a candidate, whatever its successors' times -/
  vacuumChecksOwnAge : Bool
  /-- listed versions that cannot be read (left by an interrupted vacuum) are skipped by the keep pass -/
  vacuumSkipsUnreadableListed : Bool
  /-- `Vacuum` replaces an open transaction's snapshot by the vacuumed tree -/
  vacuumRepointsSnapshot : Bool
  /-- `RemoveTombstones` clamps the cutoff to what int64 nanoseconds can express -/
  purgeCutoffClamped : Bool
  /-- nodes deleted by vacuum are dropped from the node cache -/
  deletedNodesLeaveCache : Bool
  /-- `getHistoricRootsAndNodes`: links reachable from the current tree and from kept versions are removed from the delete set -/
  vacuumKeepsReachable : Bool
  /-- `Vacuum` / `s3db_refresh`: refuse a table with uncommitted changes -/
  vacuumRefusesDirty : Bool
  refreshRefusesDirty : Bool
  /-- `Cursor.Filter`/`Cursor.Next` decision points (C06) -/
  filterMaxOps : List String
  filterMinOps : List String
  filterNullOperandEmpty : Bool
  descSeekFallsBackToMax : Bool
  /-- the bound updates and the seek of `Filter`, and the stop/skip tests of `Next`, read as the model expects -/
  filterWindowAsExpected : Bool
  nextAsExpected : Bool
  /-- `sqlite.VirtualTable.BestIndex` never sets `Omit`, so SQLite re-checks every constraint -/
  bestIndexNeverOmits : Bool
  /-- `sqlite.Cursor.Column` honours `NoChange` for non-key columns; `valuesToGo` skips `NoChange` -/
  columnHonoursNoChange : Bool
  valuesSkipNoChange : Bool
  /-- `marshalProto` / `unmarshalProto`: crdt.Value fields copied each way, and how an absent link travels -/
  marshalFields : List String
  unmarshalFields : List String
  marshalNilLinkAs : String
  unmarshalEmptyLinkAs : String
  codecKeysAndSizes : Bool
  /-- `New`: every option is parsed and checked before `OpenKV`; the table is registered after it; declare failure unregisters -/
  argsBeforeOpen : Bool
  registerAfterOpen : Bool
  declareFailureUnregisters : Bool
  unknownOptionRejected : Bool
  /-- package-level mutable variables of the non-test packages, and whether every access is under its mutex -/
  sharedGlobals : List String
  /-- sql/parse.go `Schema`: no dangling delimiter, two-word keywords need white space, the type variable is cleared per column -/
  schemaGrammarStrict : Bool
  /-- internal/unquote.go: only string literals are unquoted -/
  unquoteOnlyStrings : Bool
  sharedGlobalsLocked : Bool
  /-- `New`: the duplicate-name check and the insertion into `tables` are one critical section -/
  registerAtomic : Bool
deriving Repr

end S3db
