import S3db.Model.AList
/-!
# L1: rows and the row merge (`MergeRows`, vtable_common.go) on absolute times

A stored row (`v1proto.Row`) keeps a delete/insert time and per-column update times as offsets
from the entry's modification time; `abs = mod + offset`.  The model works on absolute times
(the harness converts), so `outTime`/`adj` disappear: `t.Add(o).Sub(out)` re-based on `out` is the
same instant as long as `time.Duration` does not saturate (|Δt| < 292 years — trusted base).
The column value type `V` is a parameter: the merge never looks inside a value.
Core Lean only.
-/
namespace S3db.Row
open S3db S3db.AList

structure ACol (V : Type) where
  v : V
  t : Int            -- UpdateTime: when this column was assigned
deriving DecidableEq, Repr

structure ARow (V : Type) where
  deleted : Bool     -- Row.Deleted
  dut : Int          -- DeleteUpdateTime: time of the INSERT or DELETE that set `deleted`
  cols : AList String (ACol V)
deriving DecidableEq, Repr

variable {V : Type}

/-- `hideDeletedValue`: `resetValuesBefore` is the zero `time.Time` unless a re-insert wins -/
def hide (reset : Option Int) (c : ACol V) : Bool :=
  match reset with
  | some r => decide (c.t < r)
  | none => false

def keep (reset : Option Int) (c : ACol V) : Option (ACol V) := if hide reset c then none else some c

/-- the four-way `switch` inside the column loop of `MergeRows` -/
def mergeCol (reset : Option Int) : Option (ACol V) → Option (ACol V) → Option (ACol V)
  | none, none => none
  | none, some y => keep reset y
  | some x, none => keep reset x
  | some x, some y => if ¬ (y.t < x.t) then keep reset y else keep reset x

def dedup : List String → List String
  | [] => []
  | k :: ks => if k ∈ ks then dedup ks else k :: dedup ks

def mergeCols (reset : Option Int) (c1 c2 : AList String (ACol V)) : AList String (ACol V) :=
  (dedup (keys c1 ++ keys c2)).filterMap fun k =>
    (mergeCol reset (lookup k c1) (lookup k c2)).map fun c => (k, c)

/-- which row decides the status, and from when on older column values are hidden.
    `!t1.Add(d1).After(t2.Add(d2))`: on a tie the second argument decides. -/
def status (r1 r2 : ARow V) : Bool × Int × Option Int :=
  if ¬ (r1.dut > r2.dut) then
    (r2.deleted, r2.dut, if r1.deleted && !r2.deleted then some r2.dut else none)
  else
    (r1.deleted, r1.dut, if !r1.deleted && r2.deleted then some r1.dut else none)

/-- `MergeRows(t1, r1, t2, r2, out)` on absolute times -/
def mergeRows (r1 r2 : ARow V) : ARow V :=
  let (d, dut, reset) := status r1 r2
  { deleted := d, dut := dut, cols := mergeCols reset r1.cols r2.cols }

/-- what SQL can see of a row -/
def visible (r : ARow V) : Option (AList String (ACol V)) := if r.deleted then none else some r.cols

end S3db.Row
