import S3db.Model.Value
/-!
# Node encryption (`kv/crypto.go`): XSalsa20-Poly1305 secretbox and the hand-rolled legacy variant

Executable model of `encrypt` / `decrypt` and of the four `crypto_secretbox_*` functions, byte for
byte (validated against vectors produced by the Go code).  Bytes are `List Nat`, each `< 256`.

* `salsa20Block`, `hsalsa20`: the Salsa20 core (20 rounds, little-endian 32-bit words, the
  "expand 32-byte k" constant);
* `ks sub n8 i`: byte `i` of the Salsa20 keystream (= byte `i % 64` of block `i / 64`);
  `xorKeyStream sub n8 off m` XORs `m` with keystream bytes `off, off+1, …` (blocks are computed
  once each);
* `poly1305`: the one-time MAC with `Nat` arithmetic mod `2^130 - 5`;
* `secretboxSeal` / `secretboxOpen`: `golang.org/x/crypto/nacl/secretbox`;
* `legacySeal` / `legacyOpen`: `crypto_secretbox_easy` / `crypto_secretbox_open_easy`.  What the Go
  code really does: the first `min(len, 32)` bytes use keystream bytes `32 …`, the REST is XORed
  by a *fresh* `salsa20.XORKeyStream` call, i.e. with the keystream restarted at position 0
  (libsodium continues at position 64); the MAC key is keystream bytes `0 … 31` in both;
* `decrypt`, `encryptWith` (the BLAKE2b nonce derivation is not modelled: the nonce is an input).

Core Lean only.
-/
namespace S3db.Box
open S3db

/-! ## Salsa20 -/

@[inline] def rotl (x : UInt32) (k : UInt32) : UInt32 := (x <<< k) ||| (x >>> (32 - k))

/-- little-endian bytes of a 32-bit word -/
def le32 (w : UInt32) : Bytes :=
  [w.toNat % 256, w.toNat / 256 % 256, w.toNat / 65536 % 256, w.toNat / 16777216 % 256]

/-- little-endian 32-bit word at byte offset `i` (missing bytes read as 0) -/
def word (b : Bytes) (i : Nat) : UInt32 :=
  UInt32.ofNat (b.getD i 0 % 256 + 256 * (b.getD (i + 1) 0 % 256) + 65536 * (b.getD (i + 2) 0 % 256)
    + 16777216 * (b.getD (i + 3) 0 % 256))

/-- `y[b] ^= (y[a]+y[d])<<<7; y[c] ^= (y[b]+y[a])<<<9; y[d] ^= (y[c]+y[b])<<<13; y[a] ^= (y[d]+y[c])<<<18` -/
@[inline] def qr (s : Array UInt32) (a b c d : Nat) : Array UInt32 :=
  let s := s.set! b (s[b]! ^^^ rotl (s[a]! + s[d]!) 7)
  let s := s.set! c (s[c]! ^^^ rotl (s[b]! + s[a]!) 9)
  let s := s.set! d (s[d]! ^^^ rotl (s[c]! + s[b]!) 13)
  s.set! a (s[a]! ^^^ rotl (s[d]! + s[c]!) 18)

/-- column round followed by row round -/
def doubleRound (s : Array UInt32) : Array UInt32 :=
  let s := qr s 0 4 8 12
  let s := qr s 5 9 13 1
  let s := qr s 10 14 2 6
  let s := qr s 15 3 7 11
  let s := qr s 0 1 2 3
  let s := qr s 5 6 7 4
  let s := qr s 10 11 8 9
  qr s 15 12 13 14

def rounds : Nat → Array UInt32 → Array UInt32
  | 0, s => s
  | n + 1, s => rounds n (doubleRound s)

/-- the 20 rounds, without the final feed-forward addition -/
def core (s : Array UInt32) : Array UInt32 := rounds 10 s

/-- "expand 32-byte k" -/
def sigma0 : UInt32 := 0x61707865
def sigma1 : UInt32 := 0x3320646e
def sigma2 : UInt32 := 0x79622d32
def sigma3 : UInt32 := 0x6b206574

/-- the Salsa20 input matrix: constants on the diagonal, key, then 16 bytes of nonce ‖ counter -/
def initState (key n16 : Bytes) : Array UInt32 :=
  #[sigma0, word key 0, word key 4, word key 8, word key 12,
    sigma1, word n16 0, word n16 4, word n16 8, word n16 12,
    sigma2, word key 16, word key 20, word key 24, word key 28, sigma3]

/-- little-endian 64-bit counter -/
def ctrBytes (ctr : Nat) : Bytes := (List.range 8).map fun i => ctr / 256 ^ i % 256

/-- one 64-byte Salsa20 block -/
def salsa20Block (key nonce : Bytes) (ctr : Nat) : Bytes :=
  let inp := initState key (nonce.take 8 ++ ctrBytes ctr)
  let x := core inp
  (List.range 16).flatMap fun i => le32 (x[i]! + inp[i]!)

/-- HSalsa20: the core without feed-forward; words 0, 5, 10, 15, 6, 7, 8, 9 -/
def hsalsa20 (key n16 : Bytes) : Bytes :=
  let x := core (initState key n16)
  [0, 5, 10, 15, 6, 7, 8, 9].flatMap fun i => le32 x[i]!

/-- byte `i` of the Salsa20 keystream for (`sub`, 8-byte nonce) -/
def ks (sub n8 : Bytes) (i : Nat) : Nat := (salsa20Block sub n8 (i / 64)).getD (i % 64) 0

/-- the first `n` keystream blocks, concatenated -/
def ksBlocks (sub n8 : Bytes) (n : Nat) : Bytes := (List.range n).flatMap (salsa20Block sub n8)

/-- XOR a byte string with a key string, position by position -/
def xorList : Bytes → Bytes → Bytes
  | b :: bs, k :: ks => (b ^^^ k) :: xorList bs ks
  | _, _ => []

/-- XOR `m` with keystream bytes `off, off + 1, …` (each block is computed once).
    `salsa20.XORKeyStream(out, in, nonce, key)` is `xorKeyStream key nonce 0 in`. -/
def xorKeyStream (sub n8 : Bytes) (off : Nat) (m : Bytes) : Bytes :=
  xorList m ((ksBlocks sub n8 ((off + m.length + 63) / 64)).drop off)

/-- specification of `xorKeyStream` for an arbitrary keystream function -/
def xorAt (k : Nat → Nat) : Nat → Bytes → Bytes
  | _, [] => []
  | off, b :: bs => (b ^^^ k off) :: xorAt k (off + 1) bs

/-! ## Poly1305 -/

/-- little-endian number of a byte string -/
def leNat : Bytes → Nat
  | [] => 0
  | b :: bs => b + 256 * leNat bs

/-- the `n` little-endian bytes of `x` -/
def natLE : Nat → Nat → Bytes
  | 0, _ => []
  | n + 1, x => x % 256 :: natLE n (x / 256)

def polyP : Nat := 2 ^ 130 - 5
def clampMask : Nat := 0x0ffffffc0ffffffc0ffffffc0fffffff

/-- accumulate the 16-byte blocks (the last one may be shorter); a 1 bit is appended to each -/
def polyBlocks (r : Nat) : Nat → Nat → Bytes → Nat
  | 0, acc, _ => acc
  | fuel + 1, acc, m =>
    if m.isEmpty then acc
    else
      let blk := m.take 16
      let n := leNat blk + 256 ^ blk.length
      polyBlocks r fuel ((acc + n) * r % polyP) (m.drop 16)

def poly1305 (key msg : Bytes) : Bytes :=
  let r := leNat (key.take 16) &&& clampMask
  let s := leNat ((key.drop 16).take 16)
  natLE 16 ((polyBlocks r msg.length 0 msg + s) % 2 ^ 128)

/-! ## secretbox -/

/-- XSalsa20 subkey: HSalsa20 of the key and the first 16 nonce bytes -/
def subkey (key nonce : Bytes) : Bytes := hsalsa20 key (nonce.take 16)

/-- the 8 nonce bytes that go into the Salsa20 stream -/
def nonce8 (nonce : Bytes) : Bytes := (nonce.drop 16).take 8

/-- the one-time Poly1305 key: the first 32 keystream bytes -/
def macKey (key nonce : Bytes) : Bytes := (salsa20Block (subkey key nonce) (nonce8 nonce) 0).take 32

/-- `secretbox.Seal(nil, msg, &nonce, &key)`: tag ‖ ciphertext -/
def secretboxSeal (key nonce msg : Bytes) : Bytes :=
  let c := xorKeyStream (subkey key nonce) (nonce8 nonce) 32 msg
  poly1305 (macKey key nonce) c ++ c

/-- `secretbox.Open(nil, box, &nonce, &key)` -/
def secretboxOpen (key nonce box : Bytes) : Option Bytes :=
  if box.length < 16 then none
  else if box.take 16 = poly1305 (macKey key nonce) (box.drop 16) then
    some (xorKeyStream (subkey key nonce) (nonce8 nonce) 32 (box.drop 16))
  else none

/-! ## the legacy pair -/

/-- the stream transformation shared by `crypto_secretbox_detached` and `…_open_detached`:
    the first 32 bytes against keystream position 32, the rest against a RESTARTED keystream -/
def legacyXor (key nonce m : Bytes) : Bytes :=
  xorKeyStream (subkey key nonce) (nonce8 nonce) 32 (m.take 32) ++
    xorKeyStream (subkey key nonce) (nonce8 nonce) 0 (m.drop 32)

/-- `crypto_secretbox_easy(m, n, k)`: tag ‖ ciphertext -/
def legacySeal (key nonce msg : Bytes) : Bytes :=
  let c := legacyXor key nonce msg
  poly1305 (macKey key nonce) c ++ c

/-- `crypto_secretbox_open_easy(box, n, k)`; `none` for "too short for MAC" and for a MAC failure -/
def legacyOpen (key nonce box : Bytes) : Option Bytes :=
  if box.length < 16 then none
  else if box.take 16 = poly1305 (macKey key nonce) (box.drop 16) then
    some (legacyXor key nonce (box.drop 16))
  else none

/-! ## `encrypt` / `decrypt` -/

/-- `decrypt(&key, c)` -/
def decrypt (key c : Bytes) : Option Bytes :=
  if c.length < 24 then none
  else
    match secretboxOpen key (c.take 24) (c.drop 24) with
    | some m => some m
    | none => legacyOpen key (c.take 24) (c.drop 24)

/-- `encrypt(&key, msg)` with the (BLAKE2b-derived) nonce as an input -/
def encryptWith (key nonce msg : Bytes) : Bytes := nonce ++ secretboxSeal key nonce msg

/-! ## line protocol -/

def hexVal (c : Char) : Option Nat :=
  if '0' ≤ c ∧ c ≤ '9' then some (c.toNat - '0'.toNat)
  else if 'a' ≤ c ∧ c ≤ 'f' then some (c.toNat - 'a'.toNat + 10)
  else if 'A' ≤ c ∧ c ≤ 'F' then some (c.toNat - 'A'.toNat + 10)
  else none

def unhexAux : List Char → List Nat → Option (List Nat)
  | [], acc => some acc.reverse
  | [_], _ => none
  | a :: b :: rest, acc =>
    match hexVal a, hexVal b with
    | some x, some y => unhexAux rest ((x * 16 + y) :: acc)
    | _, _ => none

/-- lower/upper-case hex, `-` is the empty byte string -/
def unhex (s : String) : Option Bytes := if s == "-" then some [] else unhexAux s.toList []

def hexDigit (n : Nat) : Char := if n < 10 then Char.ofNat (n + 48) else Char.ofNat (n - 10 + 97)

def hex (b : Bytes) : String :=
  if b.isEmpty then "-" else String.ofList (b.flatMap fun x => [hexDigit (x / 16 % 16), hexDigit (x % 16)])

def showOpen : Option Bytes → String
  | some m => "ok:" ++ hex m
  | none => "err"

def step (args : List String) : String :=
  match args with
  | ["seal", k, n, m] =>
    match unhex k, unhex n, unhex m with
    | some k, some n, some m => hex (secretboxSeal k n m)
    | _, _, _ => "bad-arg"
  | ["open", k, c] =>
    match unhex k, unhex c with
    | some k, some c => showOpen (decrypt k c)
    | _, _ => "bad-arg"
  | ["legacyseal", k, n, m] =>
    match unhex k, unhex n, unhex m with
    | some k, some n, some m => hex (legacySeal k n m)
    | _, _, _ => "bad-arg"
  | ["legacyopen", k, n, b] =>
    match unhex k, unhex n, unhex b with
    | some k, some n, some b => showOpen (legacyOpen k n b)
    | _, _, _ => "bad-arg"
  | _ => "bad-op"

end S3db.Box
