import S3db.Model.Facts
/-!
# L3: the bucket protocol at the granularity of single object-store requests

Clients run `Open` (LIST current, then GET every listed version, from `root/current/` and then
`root/merged/`; a read-write open that merged 2+ versions commits the merge) and `Commit`
(flush nodes, PUT the new version under `root/current/`, then retire each parent: PUT it under
`root/merged/`, DELETE it from `root/current/`).  One `Act.step` serves exactly one request, so a
schedule (`List (Nat × Act)`) is an interleaving at request granularity, with crashes anywhere.

The *order* of the requests is not written here: it is read from the generated `Facts`
(`commitOrder`, `retireOrder`, `openLoadsFrom`, …).  Version objects are immutable and
content-addressed, so a version is an index into the registry `vers` (its parents); `nodes`
records whose node set is completely stored.  Vacuum is not part of this model (see `Vacuum.lean`).
Core Lean only.
-/
namespace S3db.Proto

abbrev Vid := Nat

inductive Loc where
  | current | merged
deriving DecidableEq, Repr

def Loc.ofString : String → Option Loc
  | "current" => some .current
  | "merged" => some .merged
  | _ => none

inductive Req where
  | list
  | get (l : Loc) (v : Vid)
  | putNodes (v : Vid)
  | putCur (v : Vid)
  | putMerged (v : Vid)
  | delCur (v : Vid)
deriving DecidableEq, Repr

def Req.mutation : Req → Bool
  | .list => false
  | .get _ _ => false
  | _ => true

/-- `moveMergedRoots` for one parent `p` of the new version `n` -/
def retireReqs (F : Facts) (n p : Vid) : List Req :=
  if F.retireSkipsSelf && n == p then []
  else F.retireOrder.filterMap fun s =>
    if s = "putMerged" then some (.putMerged p)
    else if s = "delCurrent" then some (.delCur p)
    else none

/-- `DB.Commit` of a new version `n` with parents `ps` -/
def commitReqs (F : Facts) (n : Vid) (ps : List Vid) : List Req :=
  F.commitOrder.flatMap fun s =>
    if s = "flushNodes" then [.putNodes n]
    else if s = "putRoot" then [.putCur n]
    else if s = "retireParents" then ps.flatMap (retireReqs F n)
    else []

def openLocs (F : Facts) : List Loc := F.openLoadsFrom.filterMap Loc.ofString
def historicLocs (F : Facts) : List Loc := F.historicLoadsFrom.filterMap Loc.ofString

structure Bucket where
  current : List Vid := []
  merged : List Vid := []
  nodes : List Vid := []
deriving Repr

def Bucket.has (b : Bucket) : Loc → Vid → Bool
  | .current, v => v ∈ b.current
  | .merged, v => v ∈ b.merged

def addNew (v : Vid) (xs : List Vid) : List Vid := if v ∈ xs then xs else xs ++ [v]

/-- serving one mutating request -/
def Bucket.apply (b : Bucket) : Req → Bucket
  | .putNodes v => { b with nodes := addNew v b.nodes }
  | .putCur v => { b with current := addNew v b.current }
  | .putMerged v => { b with merged := addNew v b.merged }
  | .delCur v => { b with current := b.current.filter (· ≠ v) }
  | _ => b

structure Client where
  ro : Bool := false
  alive : Bool := true
  opening : Bool := false
  toLoad : List Vid := []            -- listed names still to load
  tryLocs : Option (List Loc) := none -- locations still to try for the head of `toLoad` (none: not started)
  loaded : List Vid := []            -- names loaded by the open in progress
  seen : List Vid := []              -- ghost: versions whose PUT had been served when this open listed
  source : List Vid := []            -- the handle's `mergedRoots`: parents of its next commit
  queue : List Req := []             -- requests of the commit in progress
  committing : Option Vid := none
deriving Repr

structure Sys where
  vers : List (List Vid) := []       -- registry: parents of version i (immutable objects)
  bucket : Bucket := {}
  clients : List Client := []
  stored : List Vid := []            -- versions whose `root/current/` PUT was served
  acked : List Vid := []             -- versions whose `Commit` returned
  trace : List (Nat × Req) := []     -- served requests, newest first
deriving Repr

inductive Act where
  | startOpen
  | startCommit
  | step
  | crash
deriving DecidableEq, Repr

def setClient (s : Sys) (i : Nat) (c : Client) : Sys := { s with clients := s.clients.set i c }

/-- the guards that keep a read-only handle from committing -/
def roCommitBlocked (F : Facts) : Bool := F.roGuards.contains "Commit" && F.commitGuardBeforeFlush

/-- begin a commit of a new version with the given parents (allocates the version) -/
def beginCommit (F : Facts) (s : Sys) (i : Nat) (c : Client) (ps : List Vid) : Sys :=
  let n := s.vers.length
  setClient { s with vers := s.vers ++ [ps] } i
    { c with queue := commitReqs F n ps, committing := some n }

/-- a commit whose requests are all served returns: the handle now has the new version as source -/
def finishIfDone (s : Sys) (i : Nat) (c : Client) : Sys :=
  match c.queue, c.committing with
  | [], some n => setClient { s with acked := addNew n s.acked } i { c with committing := none, source := [n] }
  | _, _ => setClient s i c

def serve (s : Sys) (i : Nat) (r : Req) : Sys :=
  { s with bucket := s.bucket.apply r, trace := (i, r) :: s.trace,
           stored := match r with | .putCur v => addNew v s.stored | _ => s.stored }

def stepClient (F : Facts) (s : Sys) (i : Nat) (c : Client) : Sys :=
  match c.queue with
  | .list :: rest =>
    -- LIST root/current/
    let s' := serve s i .list
    setClient s' i { c with queue := rest, toLoad := s.bucket.current, tryLocs := none, loaded := [], seen := s.stored }
  | r :: rest =>
    let s' := serve s i r
    finishIfDone s' i { c with queue := rest }
  | [] =>
    if c.opening then
      match c.toLoad with
      | v :: more =>
        match c.tryLocs.getD (openLocs F) with
        | [] => setClient s i { c with toLoad := more, tryLocs := none }          -- found nowhere: skipped
        | l :: ls =>
          let s' := serve s i (.get l v)
          if s.bucket.has l v then setClient s' i { c with toLoad := more, tryLocs := none, loaded := c.loaded ++ [v] }
          else setClient s' i { c with tryLocs := some ls }
      | [] =>
        -- every listed name handled: the open completes
        let c' := { c with opening := false, source := c.loaded }
        if (!F.openCommitsOnlyIfRW || !c.ro) && decide (c.loaded.length ≥ 2) then beginCommit F s i c' c.loaded
        else setClient s i c'
    else s

def step (F : Facts) (s : Sys) (i : Nat) (a : Act) : Sys :=
  match s.clients[i]? with
  | none => s
  | some c =>
    if !c.alive then s else
    match a with
    | .crash => setClient s i { c with alive := false, queue := [], opening := false, committing := none }
    | .startOpen =>
      if c.queue.isEmpty && !c.opening then setClient s i { c with opening := true, queue := [.list], toLoad := [], loaded := [] } else s
    | .startCommit =>
      if c.queue.isEmpty && !c.opening then
        (if c.ro && roCommitBlocked F then s else beginCommit F s i c c.source)
      else s
    | .step => stepClient F s i c

def run (F : Facts) (s : Sys) (sched : List (Nat × Act)) : Sys :=
  sched.foldl (fun s p => step F s p.1 p.2) s

/-- `k` clients, the first `nro` of them read-only, on an empty bucket -/
def init (ros : List Bool) : Sys := { clients := ros.map fun r => { ro := r } }

/-- ancestor-or-equal in the version graph -/
inductive Anc (vers : List (List Vid)) : Vid → Vid → Prop where
  | refl (v : Vid) : Anc vers v v
  | step {v p n : Vid} (hp : p ∈ vers.getD n []) (h : Anc vers v p) : Anc vers v n

/-- executable ancestry test (fuel = number of versions) -/
def ancB (vers : List (List Vid)) : Nat → Vid → Vid → Bool
  | 0, v, n => v == n
  | fuel + 1, v, n => v == n || (vers.getD n []).any fun p => ancB vers fuel v p

/-- an open restricted to given versions (`OnlyVersions`): every one must be found -/
def openOnly (F : Facts) (b : Bucket) (vs : List Vid) : Option (List Vid) :=
  if vs.all fun v => (historicLocs F).any fun l => b.has l v then some vs else none

end S3db.Proto
