import S3db.Model.Table
import S3db.Model.Facts
/-!
# Transactions and connection attributes

`Conn` is `S3DBConn{deadline, writeTime, txFixedWriteTime}` (sqlite/vtable.go) with
`VirtualTable.Begin/Commit/Rollback` and `ConnModule.Update` (sqlite/s3db_conn.go); a statement's
write time is `updateTime(ctx)`: the connection's `writeTime` if set, else the clock.  `Tx` is the
table side (`VirtualTable.Begin/Commit/Rollback` in vtable_common.go): a snapshot taken by
`Clone` at BEGIN, restored by ROLLBACK.  In this pure model `Clone` is a copy; the aliasing
between snapshot and live tree inside mast is exactly what it cannot exhibit (finding F24), and
is covered by the `sql` and `fault` streams.  Core Lean only.
-/
namespace S3db.Txn
open S3db S3db.AList S3db.Table

/-- `none` is the zero `time.Time` (attribute not set) -/
structure Conn where
  deadline : Option Int := none
  writeTime : Option Int := none
  txFixed : Bool := false
deriving DecidableEq, Repr

/-- `sqlite.VirtualTable.Begin`; `now` is the clock at BEGIN -/
def Conn.begin (F : Facts) (c : Conn) (now : Int) : Conn :=
  if F.beginFixesWriteTime && c.writeTime.isNone then { c with writeTime := some now, txFixed := true } else c

/-- `sqlite.VirtualTable.Begin` on a table that may refuse the transaction (`tableOK = false`: a
    transaction already open, a storage error while reopening).  SQLite calls neither xCommit nor
    xRollback after a failed xBegin, so whatever is pinned here stays. -/
def Conn.beginOn (F : Facts) (c : Conn) (now : Int) (tableOK : Bool) : Conn × Bool :=
  if F.beginAsksTableFirst then (if tableOK then (c.begin F now, true) else (c, false))
  else (c.begin F now, tableOK)

/-- `s3db_refresh`: allowed unless an open transaction has fixed the write time -/
def Conn.refreshAllowed (F : Facts) (c : Conn) : Bool := !(F.refreshRefusedAfterWrite && c.txFixed)

/-- `sqlite.VirtualTable.Commit` / `Rollback` (the attribute part) -/
def Conn.endTx (F : Facts) (c : Conn) : Conn :=
  if F.endOfTxReleasesWriteTime && c.txFixed then { c with writeTime := none, txFixed := false } else c

/-- one assigned column of `UPDATE s3db_conn`: not mentioned, NULL/'' (clear), a parsed time, or malformed -/
inductive Assign where
  | noChange | clear | set (t : Int) | malformed
deriving DecidableEq, Repr

def Assign.apply (a : Assign) (old : Option Int) : Option (Option Int) :=
  match a with
  | .noChange => some old
  | .clear => some none
  | .set t => some (some t)
  | .malformed => none

/-- `ConnModule.Update`: `none` = the statement is rejected.  Only an explicit `write_time`
    takes over from the time fixed at BEGIN; an attribute that is not mentioned is left alone
    (`connColumnHonoursNoChange`). -/
def Conn.update (F : Facts) (c : Conn) (d w : Assign) : Option Conn :=
  match d.apply c.deadline, w.apply c.writeTime with
  | some d', some w' =>
    some { deadline := d', writeTime := w', txFixed := if w = .noChange && F.connColumnHonoursNoChange then c.txFixed else false }
  | some d', none => if F.connUpdateParsesBeforeAssigning then none else some { c with deadline := d' }
  | none, _ => none

/-- `updateTime(ctx)`: the time a statement issued now is stamped with -/
def Conn.stmtTime (F : Facts) (c : Conn) (now : Int) : Int :=
  if F.updateTimePrefersContext && F.resetContextAsExpected then c.writeTime.getD now else now

/-- what `SELECT deadline, write_time FROM s3db_conn` shows -/
def Conn.read (c : Conn) : Option Int × Option Int := (c.deadline, c.writeTime)

/-! ### the table side -/

structure Tx (K V : Type) where
  live : Table K V
  snapshot : Option (Table K V) := none

variable {K V : Type}

/-- `VirtualTable.Begin` -/
def Tx.begin (F : Facts) (t : Tx K V) : Option (Tx K V) :=
  if F.beginClonesTree then (if t.snapshot.isSome then none else some { t with snapshot := some t.live })
  else some t

/-- `VirtualTable.Rollback` -/
def Tx.rollback (F : Facts) (t : Tx K V) : Tx K V :=
  match t.snapshot with
  | some s => if F.rollbackRestoresSnapshot then { live := s, snapshot := none } else { t with snapshot := none }
  | none => t

/-- `VirtualTable.Commit`: `ok` is whether the storage commit succeeded -/
def Tx.commit (F : Facts) (t : Tx K V) (ok : Bool) : Tx K V :=
  if ok || !F.commitKeepsSnapshotOnError then { t with snapshot := none } else t

/-- `sqlite.VirtualTable.Sync` on a READ-ONLY table: nothing is stored; with the repair the
    table's transaction ends there (SQLite calls xCommit next, which has nothing to do) -/
def Tx.syncRO (F : Facts) (t : Tx K V) : Tx K V :=
  if F.roSyncEndsTransaction then t.rollback F else t

/-- `Vacuum` on a table whose live tree is clean: the live tree becomes the vacuumed one
    (`vac`), the storage of the tree from before is deleted, and — when the repair is in place
    (`vacuumRepointsSnapshot`) — so does the snapshot of an open transaction.  `gone t` says that
    tree `t` refers to deleted storage afterwards. -/
def Tx.vacuum (F : Facts) (vac : Table K V → Table K V) (t : Tx K V) : Tx K V :=
  { live := vac t.live,
    snapshot := if F.vacuumRepointsSnapshot then t.snapshot.map fun _ => vac t.live else t.snapshot }

end S3db.Txn
