import S3db.Model.AList
import S3db.Gen.Crdt
/-!
# L2: the kv layer (`kv.DB`, `kv/internal/crdt.Tree`) as an ordered-map content model

A tree is the *content* of a mast: an association list from keys to `crdt.Value` entries.
mast itself (node layout, hashing, cursors) is not modelled here; see `MastSpec` in DESIGN §10.
The entry gate and both merge functions use the **generated** `Gen.Crdt.lastWriteWins`.
-/
namespace S3db.Kv
open S3db S3db.AList S3db.Gen.Crdt

/-- entries carry an optional payload: a tombstone has none (`Value: nil`) -/
abbrev Entry (V : Type) := Value (Option V)
abbrev Tree (K V : Type) := AList K (Entry V)

variable {K V : Type} [DecidableEq K] [DecidableEq V]

/-- `crdt.Tree.update`: the entry gate. `src` is `Tree.Source` (the version this handle was
    loaded from), recorded as `PreviousRoot` when the stored entry is superseded. -/
def update (src : Option String) (t : Tree K V) (k : K) (cv : Entry V) : Tree K V :=
  match lookup k t with
  | some ex =>
    let w := lastWriteWins cv ex
    let w := if lastWriteWinsFst cv ex then { w with prev := src.getD "" } else w
    insert k w t
  | none => insert k cv t

/-- `crdt.Tree.Set` -/
def set (src : Option String) (t : Tree K V) (when : Int) (k : K) (v : V) : Tree K V :=
  update src t k { mod := when, val := some v }

/-- `crdt.Tree.Tombstone` -/
def tombstone (src : Option String) (t : Tree K V) (when : Int) (k : K) : Tree K V :=
  update src t k { mod := when, tomb := when, val := none }

/-- `crdt.Tree.Get`: tombstoned entries read as absent (`TombstoneSinceEpochNanos > 0`) -/
def get (t : Tree K V) (k : K) : Option (Entry V) :=
  match lookup k t with
  | some e => if e.tomb > 0 then none else some e
  | none => none

/-- `crdt.Tree.IsTombstoned` -/
def isTombstoned (t : Tree K V) (k : K) : Bool :=
  match lookup k t with
  | some e => e.tomb != 0
  | none => false

/-- `DB.RemoveTombstones`: drop tombstones strictly older than the cutoff -/
def removeTombstones (t : Tree K V) (cutoff : Int) : Tree K V :=
  t.filter (fun p => !(p.2.tomb != 0 && decide (p.2.tomb < cutoff)))

/-- one step of `mergeTrees`' `DiffIter` callback (`LWW` / `convertMergeFunc`):
    `removed` (only in the graft) → insert; `changed` → insert the merge; `added` → keep.
    Generic in the entry type `E`: the kv layer uses `Entry V`, the SQL layer its row entries. -/
def mergeStep {E : Type} [DecidableEq E] (f : E → E → E) (acc : AList K E) (p : K × E) : AList K E :=
  match lookup p.1 acc with
  | none => insert p.1 p.2 acc
  | some x => if x = p.2 then acc else insert p.1 (f x p.2) acc

/-- `crdt.mergeTrees` with one graft: `f` is `LastWriteWins` or the custom merge -/
def mergeTrees {E : Type} [DecidableEq E] (f : E → E → E) (a g : AList K E) : AList K E :=
  g.foldl (mergeStep f) a

/-- the default merge function of `crdt.LWW`: `*LastWriteWins(&av, &rv)` -/
def lww (av rv : Entry V) : Entry V := lastWriteWins av rv

/-- `DB.TraceHistory`: the raw entry of `k` (tombstones included — the source reads the mast
    directly) is reported when it is older than the cutoff inherited from the previous report and
    not older than `after`; then the version recorded as its `PreviousRoot` is opened and the walk
    goes on with the reported time as the new cutoff.  (An `Open` restricted to one version has
    that version as its only merge source, so every round of the source's loop has one element.)
    `store` maps version names to their contents (`none`: cannot be opened — the source returns an
    error; here the walk ends).  `fuel` bounds the number of versions visited. -/
def atOrAbove (cutoff : Option Int) (m : Int) : Bool :=
  match cutoff with
  | some c => decide (m ≥ c)
  | none => false

def trace (store : String → Option (Tree K V)) (after : Int) (k : K) :
    Nat → Tree K V → Option Int → List (Int × Option V)
  | 0, _, _ => []
  | fuel + 1, t, cutoff =>
    match lookup k t with
    | none => []
    | some e =>
      if atOrAbove cutoff e.mod then []
      else if e.mod < after then []
      else (e.mod, e.val) ::
        (if e.prev = "" then []
         else match store e.prev with
           | none => []
           | some t' => trace store after k fuel t' (some e.mod))

/-- `innerValue`: what `Diff` compares -/
def inner (e : Option (Entry V)) : Option V :=
  match e with
  | some e => if e.tomb != 0 then none else e.val
  | none => none

def dedup : List K → List K
  | [] => []
  | k :: ks => if k ∈ ks then dedup ks else k :: dedup ks

/-- `DB.Diff`: keys whose visible value differs, with (mine, from's) -/
def diff (s frm : Tree K V) : List (K × Option V × Option V) :=
  (dedup (keys s ++ keys frm)).filterMap fun k =>
    let a := inner (lookup k s)
    let b := inner (lookup k frm)
    if a = b then none else some (k, a, b)

end S3db.Kv
