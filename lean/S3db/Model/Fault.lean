import S3db.Model.Facts
/-!
# Storage faults while loading versions (`loadRootFromAny`, `mergeRoots`)

Every object-store answer is one of: found, a well-formed "no such object" (the documented
signal that a version was vacuumed), or an error (transport failure, expired deadline).  The
model follows the two loops: which answers move on to the next location, and what `mergeRoots`
does with the outcome.  Core Lean only.
-/
namespace S3db.Fault

inductive Ans where
  | found | noSuchKey | error
deriving DecidableEq, Repr

inductive Load where
  | found | missing | error
deriving DecidableEq, Repr

/-- which answers make `loadRootFromAny` try the next location; `none` = unknown source text -/
def skips (F : Facts) (a : Ans) (isLast : Bool) : Option Bool :=
  if F.loadAnySkipCond = "errors.As(err, &ae) && ae.Code() == s3.ErrCodeNoSuchKey" then some (a == .noSuchKey)
  else if F.loadAnySkipCond = "isNoSuchKey(err)" then some (a == .noSuchKey)
  else if F.loadAnySkipCond = "isNoSuchKey(err) || i+1 < len(persist)" then some (a == .noSuchKey || (a == .error && !isLast))
  else none

/-- `loadRootFromAny` over the answers of the locations, in order -/
def loadFromAny (F : Facts) : List Ans → Load
  | [] => .missing
  | .found :: _ => .found
  | a :: rest =>
    if (skips F a rest.isEmpty).getD false then loadFromAny F rest
    else .error

inductive Open where
  | ok (loaded : List Nat)
  | error
deriving DecidableEq, Repr

/-- `mergeRoots` over the listed versions (index, answers of its locations) -/
def openVersions (F : Facts) (skipUnreadable : Bool) : List (Nat × List Ans) → Open
  | [] => .ok []
  | (v, answers) :: rest =>
    match loadFromAny F answers with
    | .error => .error
    | .missing =>
      if F.missingSkippedOnlyIfSkipUnreadable && !skipUnreadable then .error
      else openVersions F skipUnreadable rest
    | .found =>
      match openVersions F skipUnreadable rest with
      | .ok l => .ok (v :: l)
      | .error => .error

end S3db.Fault
