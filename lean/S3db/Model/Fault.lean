import S3db.Model.Facts
/-!
# Storage faults while loading versions (`loadRootFromAny`, `mergeRoots`)

Every object-store answer is one of: found, a well-formed "no such object" (the documented
signal that a version was vacuumed), or an error (transport failure, expired deadline).  The
model follows the two loops: which answers move on to the next location, and what `mergeRoots`
does with the outcome.  Core Lean only.
-/
namespace S3db.Fault

inductive Ans where
  | found | noSuchKey | error
deriving DecidableEq, Repr

inductive Load where
  | found | missing | error
deriving DecidableEq, Repr

/-- which answers make `loadRootFromAny` try the next location; `none` = unknown source text -/
def skips (F : Facts) (a : Ans) (isLast : Bool) : Option Bool :=
  if F.loadAnySkipCond = "errors.As(err, &ae) && ae.Code() == s3.ErrCodeNoSuchKey" then some (a == .noSuchKey)
  else if F.loadAnySkipCond = "isNoSuchKey(err)" then some (a == .noSuchKey)
  else if F.loadAnySkipCond = "isNoSuchKey(err) || i+1 < len(persist)" then some (a == .noSuchKey || (a == .error && !isLast))
  else none

/-- `loadRootFromAny` over the answers of the locations, in order -/
def loadFromAny (F : Facts) : List Ans → Load
  | [] => .missing
  | .found :: _ => .found
  | a :: rest =>
    if (skips F a rest.isEmpty).getD false then loadFromAny F rest
    else .error

inductive Open where
  | ok (loaded : List Nat)
  | error
deriving DecidableEq, Repr

/-- `mergeRoots` over the listed versions (index, answers of its locations) -/
def openVersions (F : Facts) (skipUnreadable : Bool) : List (Nat × List Ans) → Open
  | [] => .ok []
  | (v, answers) :: rest =>
    match loadFromAny F answers with
    | .error => .error
    | .missing =>
      if F.missingSkippedOnlyIfSkipUnreadable && !skipUnreadable then .error
      else openVersions F skipUnreadable rest
    | .found =>
      match openVersions F skipUnreadable rest with
      | .ok l => .ok (v :: l)
      | .error => .error

/-! ### vacuum's keep pass under faults (`getHistoricRootsAndNodes`)

Before it deletes anything, vacuum walks every version that stays listed and keeps the nodes it
reaches.  A version that answers "no such object" was half-deleted by an interrupted vacuum and
has nothing left to keep (F69); ANY other failure must stop the vacuum, because a version that
merely could not be read still needs its nodes.  `vacuumSkipsUnreadableListed` is the source text
of exactly that. -/

inductive Keep where
  | kept (vs : List Nat)   -- the versions whose nodes are protected; the deletions go ahead
  | error                  -- the vacuum fails and deletes nothing
deriving DecidableEq, Repr

/-- the keep loop over the listed versions and the answer each walk got -/
def keepPass (F : Facts) : List (Nat × Ans) → Keep
  | [] => .kept []
  | (v, .found) :: rest =>
    match keepPass F rest with
    | .kept l => .kept (v :: l)
    | .error => .error
  | (_, .noSuchKey) :: rest => keepPass F rest
  | (_, .error) :: rest =>
    if F.vacuumSkipsUnreadableListed then .error   -- only NoSuchKey is skipped
    else keepPass F rest                           -- "log and continue" on any error

end S3db.Fault
