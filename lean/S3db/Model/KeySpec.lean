import S3db.Model.Value
/-!
# Specification side of C07: how SQLite orders values

Hand-written and deliberately tiny: NULL < numbers (INTEGER and REAL compared numerically and
*exactly*) < TEXT (bytewise) < BLOB (bytewise).  `Gen.Key.keyOrder` (regenerated from key.go) is
proved equal to this on every admissible pair of keys in `Props/C07.lean`.
-/
namespace S3db

/-- the integer `i` as an exact (unrounded) binary value: no 53-bit limit on the mantissa here -/
def F64.exact (i : Int) : F64 := .fin (decide (i < 0)) i.natAbs 0

def cmpInt (i j : Int) : Int := if i < j then -1 else if j < i then 1 else 0

/-- storage-class rank in SQLite's sort order -/
def Val.rank : Val → Nat
  | .null => 0
  | .int _ => 1
  | .real _ => 1
  | .text _ => 2
  | .blob _ => 3

/-- SQLite's comparison of two non-NULL, non-NaN values: -1, 0, 1 -/
def sqliteCmp (a b : Val) : Int :=
  match a, b with
  | .int i, .int j => cmpInt i j
  | .int i, .real r => (F64.cmp (F64.exact i) r).getD 0
  | .real r, .int i => (F64.cmp r (F64.exact i)).getD 0
  | .real r, .real s => (F64.cmp r s).getD 0
  | .text s, .text t => Bytes.cmp s t
  | .blob s, .blob t => Bytes.cmp s t
  | a, b => if a.rank < b.rank then -1 else 1

def InInt64 (i : Int) : Prop := -(2:Int)^63 ≤ i ∧ i < (2:Int)^63

/-- what can be a primary-key value: anything SQLite can hand over except NULL.
    A REAL is the decoding of some 64-bit pattern and is not NaN (SQLite turns NaN into NULL). -/
def KeyOK : Val → Prop
  | .null => False
  | .int i => InInt64 i
  | .real f => (∃ n : Nat, n < 2^64 ∧ f = F64.ofBits n) ∧ f.isNaN = false
  | .text _ => True
  | .blob _ => True

end S3db
