import S3db.Model.Table
/-!
# `s3db_changes` (sqlite/s3db_changes.go): rows of `to` whose entry differs from `from`

`StartDiff`/`NextEntry` yield, for every key whose entry differs between the two trees
(`MastSpec.diff`: exactly those keys, in key order), the old and the new entry; `ChangesCursor.Next`
returns the new row when there is one and it is not a delete marker.  `none` stands for a read
that failed: the cursor must then fail as a whole.  Core Lean only.
-/
namespace S3db.Changes
open S3db S3db.AList S3db.Row S3db.Table

variable {K V : Type} [DecidableEq K] [DecidableEq V]

def dedupK : List K → List K
  | [] => []
  | k :: ks => if k ∈ ks then dedupK ks else k :: dedupK ks

/-- the diff cursor: keys (of either tree) whose entries differ -/
def diffKeys (frm to : Table K V) : List K :=
  (dedupK (keys to ++ keys frm)).filter fun k => decide (lookup k to ≠ lookup k frm)

/-- `ChangesCursor.Next` over the whole diff -/
def changes (frm to : Table K V) : List (K × AList String (ACol V)) :=
  (diffKeys frm to).filterMap fun k =>
    match lookup k to with
    | some e => if e.row.deleted then none else some (k, e.row.cols)
    | none => none

/-- a diff in which some step of the cursor may fail: the first failure fails the query
    (`errs k = true`: reading the entry of key `k` fails) -/
def changesWithFaults (errs : K → Bool) (frm to : Table K V) : Option (List (K × AList String (ACol V))) :=
  if (diffKeys frm to).any errs then none else some (changes frm to)

end S3db.Changes
