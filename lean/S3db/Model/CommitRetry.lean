import S3db.Model.Facts
/-!
# What a kv handle remembers about a failed `Commit`

`DB.Commit` flushes the dirty nodes (`MakeRoot`), then stores the version object, and takes a
shortcut — "nothing to do", acknowledged with the previous version — when the tree does not look
dirty.  mast marks a node as stored when its store is *queued*, so after a failed flush or a
failed version PUT the tree looks clean although its changes are in no stored version.  The
model tracks that with a ghost bit `pending`; `unstored` and `poisoned` are the two fields the
source keeps (`commitRemembersFailure`: they are set on the two error paths, `IsDirty` includes
`unstored`, and a poisoned handle refuses to commit).  Core Lean only.
-/
namespace S3db.CommitRetry

structure H where
  pending : Bool := false    -- ghost: the handle holds changes that are in no stored version
  clean : Bool := true       -- mast's view: no dirty node
  unstored : Bool := false   -- `DB.unstored`
  poisoned : Bool := false   -- `DB.flushErr != nil`
deriving DecidableEq, Repr

inductive Ev where
  | set                                  -- Set / Tombstone / anything that changes the tree
  | commit (flushOK putOK : Bool)        -- a Commit call and the fate of its two storage steps
deriving DecidableEq, Repr

inductive Out where
  | na | err | ack
deriving DecidableEq, Repr

def looksDirty (F : Facts) (h : H) : Bool := !h.clean || (F.commitRemembersFailure && h.unstored)

def step (F : Facts) (h : H) : Ev → H × Out
  | .set => ({ h with pending := true, clean := false }, .na)
  | .commit flushOK putOK =>
    if F.commitRemembersFailure && h.poisoned then (h, .err)
    else if !looksDirty F h then (h, .ack)                           -- the shortcut
    else if !flushOK then ({ h with clean := true, poisoned := true }, .err)
    else if !putOK then ({ h with clean := true, unstored := true }, .err)
    else ({ h with pending := false, clean := true, unstored := false }, .ack)

def run (F : Facts) : H → List Ev → H × List Out
  | h, [] => (h, [])
  | h, e :: es => let (h', o) := step F h e; let (h'', os) := run F h' es; (h'', o :: os)

/-- pending changes are always visible to the next `Commit` -/
def HInv (h : H) : Prop := h.pending = true → (h.clean = false ∨ h.unstored = true ∨ h.poisoned = true)

end S3db.CommitRetry
