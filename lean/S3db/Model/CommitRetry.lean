import S3db.Model.Facts
/-!
# What a kv handle remembers about a failed `Commit`

`DB.Commit` flushes the dirty nodes (`MakeRoot`), then stores the version object, and takes a
shortcut — "nothing to do", acknowledged with the previous version — when the tree does not look
dirty.  mast marks a node as stored when its store is *queued*, so after a failed flush or a
failed version PUT the tree looks clean although its changes are in no stored version.  The
model tracks that with a ghost bit `pending`; `unstored` and `poisoned` are the two fields the
source keeps (`commitRemembersFailure`: they are set on the two error paths, `IsDirty` includes
`unstored`, and a poisoned handle refuses to commit).  Core Lean only.
-/
namespace S3db.CommitRetry

structure H where
  pending : Bool := false    -- ghost: the handle holds changes that are in no stored version
  clean : Bool := true       -- mast's view: no dirty node
  unstored : Bool := false   -- `DB.unstored`
  poisoned : Bool := false   -- `DB.flushErr != nil`
deriving DecidableEq, Repr

inductive Ev where
  | set                                  -- Set / Tombstone / anything that changes the tree
  | commit (flushOK putOK : Bool)        -- a Commit call and the fate of its two storage steps
deriving DecidableEq, Repr

inductive Out where
  | na | err | ack
deriving DecidableEq, Repr

def looksDirty (F : Facts) (h : H) : Bool := !h.clean || (F.commitRemembersFailure && h.unstored)

def step (F : Facts) (h : H) : Ev → H × Out
  | .set => ({ h with pending := true, clean := false }, .na)
  | .commit flushOK putOK =>
    if F.commitRemembersFailure && h.poisoned then (h, .err)
    else if !looksDirty F h then (h, .ack)                           -- the shortcut
    else if !flushOK then ({ h with clean := true, poisoned := true }, .err)
    else if !putOK then ({ h with clean := true, unstored := true }, .err)
    else ({ h with pending := false, clean := true, unstored := false }, .ack)

def run (F : Facts) : H → List Ev → H × List Out
  | h, [] => (h, [])
  | h, e :: es => let (h', o) := step F h e; let (h'', os) := run F h' es; (h'', o :: os)

/-- pending changes are always visible to the next `Commit` -/
def HInv (h : H) : Prop := h.pending = true → (h.clean = false ∨ h.unstored = true ∨ h.poisoned = true)

/-! ## The table above the handle: what a connection carries over a failed COMMIT (F76)

SQLite answers a failed `xSync` with `xRollback`, and `VirtualTable.Rollback` goes back to the
clone taken at `Begin`.  The clone is a fresh handle (not poisoned), but it shares node objects with
the tree whose flush failed, and those are marked stored although they never reached the bucket:
ghost bit `tainted`.  A commit from a tainted tree can be acknowledged with a link to a missing
node (`ackDangling`).  `commitFailed` is the field the source keeps; `Begin` reopens the tree from
the bucket when it is set (`failedCommitReopens`), which needs the bucket (`reopenOK`). -/

structure T where
  tainted : Bool := false       -- ghost: memory holds nodes marked stored that the bucket lacks
  commitFailed : Bool := false  -- `VirtualTable.commitFailed`
  inTx : Bool := false          -- `txStart != nil`
  poisoned : Bool := false      -- the live handle's `flushErr`
deriving DecidableEq, Repr

inductive TEv where
  | begin (reopenOK : Bool)
  | commit (flushOK putOK : Bool)
  | rollback
  | vacuum (reopenOK commitOK : Bool)   -- `s3db.Vacuum` outside a transaction: it commits a clone of the tree
deriving DecidableEq, Repr

inductive TOut where
  | ok | err | ack | ackDangling
deriving DecidableEq, Repr

def tstep (F : Facts) (t : T) : TEv → T × TOut
  | .begin reopenOK =>
    if t.inTx then (t, .err)
    else if F.failedCommitReopens && t.commitFailed then
      if reopenOK then ({ tainted := false, commitFailed := false, inTx := true, poisoned := false }, .ok)
      else (t, .err)
    else ({ t with inTx := true }, .ok)
  | .commit flushOK putOK =>
    if !t.inTx then (t, .err)
    else if t.poisoned then (t, .err)                          -- kv: "reopen to try again"
    else if !flushOK then ({ t with tainted := true, poisoned := true, commitFailed := true }, .err)
    else if !putOK then ({ t with commitFailed := true }, .err)
    else ({ t with inTx := false }, if t.tainted then .ackDangling else .ack)
  | .rollback => ({ t with inTx := false, poisoned := false }, .ok)   -- back to the clone taken at Begin
  | .vacuum reopenOK commitOK =>
    -- inside an open transaction: not modelled (observation O13); the state is left alone
    if t.inTx then (t, .err)
    else if F.failedCommitReopens && t.commitFailed && !reopenOK then (t, .err)
    else
      let t1 : T := if F.failedCommitReopens && t.commitFailed then {} else t
      if commitOK then (t1, if t1.tainted then .ackDangling else .ack)
      else
        -- the clone is dropped, but it shares node objects with the table's tree
        ({ t1 with tainted := true, commitFailed := t1.commitFailed || F.vacuumRemembersFailedCommit }, .err)

def trun (F : Facts) : T → List TEv → T × List TOut
  | t, [] => (t, [])
  | t, e :: es => let (t', o) := tstep F t e; let (t'', os) := trun F t' es; (t'', o :: os)

/-- a tainted tree is remembered, and is never the live tree of an open, unpoisoned transaction -/
def TInv (t : T) : Prop :=
  (t.tainted = true → t.commitFailed = true) ∧ (t.inTx = true → t.poisoned = false → t.tainted = false)

end S3db.CommitRetry
