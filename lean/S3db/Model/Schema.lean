import S3db.Model.Facts
/-!
# `CREATE VIRTUAL TABLE … USING s3db(…)`: which definitions are accepted, and what is declared

The model works on the *structure* of the arguments — the column items as the grammar of
`sql.Schema` sees them, and the options as `New` splits them — not on their spelling: how a
definition is written (quoting, case, white space) is the business of the combinator parser and
its regular expressions, which are validated differentially by the `schema` stream (rendering a
structure in many spellings must give the same outcome).  The decision logic follows the actions
of `sql.Schema`, `convertSchema` and the option loop of `New`.  Core Lean only.
-/
namespace S3db.Schema

/-- a constraint word after a column name/type, in source order; `other` is anything the
    grammar does not know (DEFAULT …, CHECK …, REFERENCES …): a parse failure -/
inductive Cons where
  | primaryKey | notNull | unique | other
deriving DecidableEq, Repr

inductive Item where
  | col (name : String) (knownType : Bool) (cons : List Cons)   -- `knownType = false`: an unknown type word
  | tablePK (names : List String)                                -- `PRIMARY KEY (a, b)`
deriving Repr

structure Col where
  name : String
  notNull : Bool
  unique : Bool
deriving DecidableEq, Repr

structure Parsed where
  cols : List Col := []
  pk : List String := []
  errs : Nat := 0          -- errors appended by the grammar's actions
  failed : Bool := false   -- the grammar did not consume the whole string
deriving Repr

def applyCons (name : String) (p : Parsed) (c : Cons) : Parsed :=
  match c with
  | .primaryKey => if p.pk.isEmpty then { p with pk := [name] } else { p with errs := p.errs + 1 }
  | .notNull => { p with cols := match p.cols.reverse with
      | [] => []
      | last :: rest => (({ last with notNull := true } : Col) :: rest).reverse }
  | .unique => { p with errs := p.errs + 1, cols := match p.cols.reverse with
      | [] => []
      | last :: rest => (({ last with unique := true } : Col) :: rest).reverse }
  | .other => { p with failed := true }

/-- the actions of `sql.Schema` over the items, in order -/
def parseItem (p : Parsed) : Item → Parsed
  | .col name knownType cons =>
    let p := { p with cols := p.cols ++ [{ name := name, notNull := false, unique := false }] }
    let p := if knownType then p else { p with failed := true }
    cons.foldl (applyCons name) p
  | .tablePK names =>
    let p := if p.pk.isEmpty then p else { p with errs := p.errs + 1 }
    { p with pk := p.pk ++ names, failed := p.failed || names.isEmpty }

def parse (items : List Item) : Parsed :=
  let p := items.foldl parseItem {}
  { p with failed := p.failed || items.isEmpty }

structure Declared where
  cols : List (String × Bool)   -- name, NOT NULL, in declaration order
  key : Option String           -- the key column; `none`: hidden rowid
deriving DecidableEq, Repr

def lower (s : String) : String := s.toLower

def hasDup : List String → Bool
  | [] => false
  | x :: xs => xs.contains x || hasDup xs

/-- `parseSchema` + `convertSchema` (+ SQLite's own check of the declared statement, which
    compares column names without regard to case) -/
def convert (items : List Item) : Option Declared :=
  let p := parse items
  if p.failed || p.errs > 0 then none
  else if p.pk.length > 1 then none
  else if hasDup (p.cols.map (lower ∘ Col.name)) then none
  else match p.pk with
    | [k] =>
      -- the key column is found the way duplicates are: by its case-folded name (`keyColumnFoldedLookup`);
      -- the key declared is the column's own spelling
      match (p.cols.map Col.name).find? (fun n => lower n == lower k) with
      | some n => some { cols := p.cols.map fun c => (c.name, c.notNull), key := some n }
      | none => none
    | _ => some { cols := p.cols.map fun c => (c.name, c.notNull), key := none }

/-! ### options -/

/-- the value of an option as `New` sees it after splitting at the first `=` -/
inductive OptVal where
  | none                 -- no `=` at all
  | number (n : Int)     -- parses as an integer (any base prefix `strconv.ParseInt(s, 0, 32)` accepts)
  | text                 -- anything else
deriving DecidableEq, Repr

structure Opts where
  entriesPerNode : Int := 0
  nodeCache : Int := 0
  readonly : Bool := false
deriving DecidableEq, Repr

def int32 (n : Int) : Bool := decide (-(2:Int)^31 ≤ n) && decide (n < (2:Int)^31)

/-- one round of the option loop of `New` (`columns` is handled by `convert`) -/
def applyOpt (o : Opts) (name : String) (v : OptVal) : Option Opts :=
  if name = "readonly" then (if v = .none then some { o with readonly := true } else none)
  else if v = .none then none
  else if name = "entries_per_node" then
    (match v with | .number n => if int32 n && decide (0 ≤ n) then some { o with entriesPerNode := n } else none | _ => none)
  else if name = "node_cache_entries" then
    (match v with | .number n => if int32 n && decide (0 ≤ n) then some { o with nodeCache := n } else none | _ => none)
  else if name = "s3_bucket" || name = "s3_endpoint" || name = "s3_prefix" || name = "columns" then some o
  else none

def applyOpts : Opts → List String → List (String × OptVal) → Option Opts
  | o, _, [] => some o
  | o, seen, (n, v) :: rest =>
    if seen.contains n then none
    else match applyOpt o n v with
      | some o' => applyOpts o' (n :: seen) rest
      | none => none

/-- the whole decision: `none` = the CREATE fails -/
def create (F : Facts) (items : Option (List Item)) (opts : List (String × OptVal)) : Option (Declared × Opts) :=
  if !F.unknownOptionRejected then
    -- without the `default:` / duplicate checks nothing can be said
    none
  else match applyOpts {} [] opts with
    | none => none
    | some o =>
      match items with
      | none => none                       -- no `columns=` argument
      | some is => (convert is).map fun d => (d, o)

/-- what a CREATE leaves behind, by the order of its steps: the arguments are decided (`dec`),
    the storage is opened (`opens`), the table is registered, SQLite accepts the declaration
    (`declOK`).  Result: (accepted, the name is registered afterwards).  Where the registration
    sits relative to the open, and whether a refused declaration unregisters, are read from the
    source. -/
def createEff (F : Facts) (dec opens declOK : Bool) : Bool × Bool :=
  if !dec then (false, !F.argsBeforeOpen)
  else if !opens then (false, !F.registerAfterOpen)
  else if !declOK then (false, !F.declareFailureUnregisters)
  else (true, true)

/-- … and whether the bucket may have been written by the attempt.  The storage open stores a
    merge version when it finds several unmerged versions under the prefix (`multi`).  `namesOK`:
    SQLite will accept the declaration (no two columns equal up to case, no `_rowid_` without a
    key, valid UTF-8) — checked by `convertSchema` before the open when
    `declarableCheckedBeforeOpen`.  A storage that cannot be opened is one whose first request
    fails (it writes nothing).  Result: (accepted, wrote). -/
def createWrites (F : Facts) (dec namesOK opens multi : Bool) : Bool × Bool :=
  if !dec then (false, false)
  else if F.declarableCheckedBeforeOpen && !namesOK then (false, false)
  else if !opens then (false, false)
  else if !namesOK then (false, multi)      -- refused by SQLite's declare, after the open
  else (true, multi)

end S3db.Schema
