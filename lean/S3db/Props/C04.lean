import S3db.Model.Proto
import S3db.Gen.Facts
import S3db.Lemmas.ProtoInv
import S3db.Lemmas.JoinList
/-!
# C04 — a crash at any point of a commit leaves old or new contents, never a mixture

The table contents of a version are an element of a join-semilattice `C` (C01 shows that the row
merge is such a join on SQL-written rows); what an open shows is the join of the versions in
`root/current/`.  A commit of version `n` with parents `ps` issues `commitReqs F n ps` (order
taken from the **generated** facts); a crash after `k` of them leaves the bucket in the state the
first `k` produce.  `δ` is what the transaction adds (`⊥` for the merge commit of an open).
-/
namespace S3db.Props.C04
open S3db S3db.Proto

abbrev F : Facts := S3db.Gen.facts

structure JoinLaws {C : Type} (join : C → C → C) (bot : C) : Prop where
  assoc : ∀ a b c, join (join a b) c = join a (join b c)
  comm : ∀ a b, join a b = join b a
  idem : ∀ a, join a a = a
  bot_left : ∀ a, join bot a = a

def joinAll {C : Type} (join : C → C → C) (bot : C) (xs : List C) : C := xs.foldl join bot

/-- what any open of the bucket shows (read-only or read-write, any merge order: C01) -/
def view {C : Type} (join : C → C → C) (bot : C) (content : Vid → C) (b : Bucket) : C :=
  joinAll join bot (b.current.map content)

/-- the bucket after a crash that let the first `k` requests of the commit through -/
def crashAt (b : Bucket) (n : Vid) (ps : List Vid) (k : Nat) : Bucket :=
  ((commitReqs F n ps).take k).foldl Bucket.apply b

private theorem JoinLaws.laws {C : Type} {join : C → C → C} {bot : C} (L : JoinLaws join bot) :
    JoinList.Laws join bot := ⟨L.assoc, L.comm, L.idem, L.bot_left⟩

private theorem crashAt_eq (b : Bucket) (n : Vid) (ps : List Vid) (k : Nat) :
    crashAt b n ps k = ((JoinList.reqs n ps).take k).foldl Bucket.apply b := by
  unfold crashAt; rw [ProtoInv.commitReqs_eq]

/-- **old or new, never a mixture**, at every crash point `k` (including 0 and "all served") -/
theorem crash_old_or_new {C : Type} (join : C → C → C) (bot : C) (L : JoinLaws join bot)
    (content : Vid → C) (b : Bucket) (n : Vid) (ps : List Vid) (δ : C)
    (hps : ∀ p, p ∈ ps → p ∈ b.current) (hn : n ∉ b.current)
    (hcontent : content n = join (joinAll join bot (ps.map content)) δ) (k : Nat) :
    view join bot content (crashAt b n ps k) = view join bot content b ∨
    view join bot content (crashAt b n ps k) = join (view join bot content b) δ := by
  have _ := hn -- not needed: `addNew` avoids duplicates and the retire loop skips `n` itself
  rw [crashAt_eq]
  rcases JoinList.crash_view L.laws content b n ps δ hps hcontent k with ⟨_, h⟩ | ⟨_, h⟩
  · exact Or.inl h
  · exact Or.inr h

/-- once the version PUT was served the new contents are what every later open shows — in
    particular when the commit was acknowledged (all requests served) -/
theorem crash_after_put_is_new {C : Type} (join : C → C → C) (bot : C) (L : JoinLaws join bot)
    (content : Vid → C) (b : Bucket) (n : Vid) (ps : List Vid) (δ : C)
    (hps : ∀ p, p ∈ ps → p ∈ b.current) (hn : n ∉ b.current)
    (hcontent : content n = join (joinAll join bot (ps.map content)) δ) (k : Nat)
    (hk : Req.putCur n ∈ (commitReqs F n ps).take k) :
    view join bot content (crashAt b n ps k) = join (view join bot content b) δ := by
  have _ := hn
  rw [ProtoInv.commitReqs_eq] at hk
  have h2 := JoinList.putCur_mem_take hk
  rw [crashAt_eq]
  rcases JoinList.crash_view L.laws content b n ps δ hps hcontent k with ⟨h1, _⟩ | ⟨_, h⟩
  · omega
  · exact h

theorem acked_is_new {C : Type} (join : C → C → C) (bot : C) (L : JoinLaws join bot)
    (content : Vid → C) (b : Bucket) (n : Vid) (ps : List Vid) (δ : C)
    (hps : ∀ p, p ∈ ps → p ∈ b.current) (hn : n ∉ b.current)
    (hcontent : content n = join (joinAll join bot (ps.map content)) δ) :
    view join bot content (crashAt b n ps (commitReqs F n ps).length) = join (view join bot content b) δ := by
  apply crash_after_put_is_new join bot L content b n ps δ hps hn hcontent
  rw [List.take_length, ProtoInv.commitReqs_eq]
  simp [JoinList.reqs]

/-- all earlier committed data stays intact at every crash point -/
theorem crash_keeps_earlier_data {C : Type} (join : C → C → C) (bot : C) (L : JoinLaws join bot)
    (content : Vid → C) (b : Bucket) (n : Vid) (ps : List Vid) (δ : C)
    (hps : ∀ p, p ∈ ps → p ∈ b.current) (hn : n ∉ b.current)
    (hcontent : content n = join (joinAll join bot (ps.map content)) δ) (k : Nat) :
    join (view join bot content (crashAt b n ps k)) (view join bot content b) =
      view join bot content (crashAt b n ps k) := by
  have _ := hn
  rw [crashAt_eq]
  rcases JoinList.crash_view L.laws content b n ps δ hps hcontent k with ⟨_, h⟩ | ⟨_, h⟩
  · show join (JoinList.jall join bot _) (JoinList.jall join bot _) = JoinList.jall join bot _
    rw [h, L.idem]
  · show join (JoinList.jall join bot _) (JoinList.jall join bot _) = JoinList.jall join bot _
    rw [h, JoinList.join_absorb_new L.laws]

/-- every later open *succeeds*: a version is never visible under `root/current/` before all of
    its nodes are stored (the flush precedes the version PUT) -/
theorem nodes_before_root (b : Bucket) (n : Vid) (ps : List Vid) (k : Nat)
    (hb : ∀ v, v ∈ b.current → v ∈ b.nodes) :
    ∀ v, v ∈ (crashAt b n ps k).current → v ∈ (crashAt b n ps k).nodes := by
  rw [crashAt_eq]
  exact JoinList.crash_nodes b n ps k hb

/-- the merge commit of a recovery open (`δ = ⊥`) changes nothing at any of its own crash points -/
theorem recovery_open_is_stable {C : Type} (join : C → C → C) (bot : C) (L : JoinLaws join bot)
    (content : Vid → C) (b : Bucket) (n : Vid) (ps : List Vid)
    (hps : ∀ p, p ∈ ps → p ∈ b.current) (hn : n ∉ b.current)
    (hcontent : content n = joinAll join bot (ps.map content)) (k : Nat) :
    view join bot content (crashAt b n ps k) = view join bot content b := by
  have hcontent' : content n = join (joinAll join bot (ps.map content)) bot := by
    rw [L.laws.bot_right]; exact hcontent
  rcases crash_old_or_new join bot L content b n ps bot hps hn hcontent' k with h | h
  · exact h
  · rw [h, L.laws.bot_right]

/-- what "acknowledged" means in the source: `Commit` returns the error of the node flush and of
    the version PUT unconditionally (an acknowledged commit is one whose requests up to and
    including the version PUT were all served — the hypothesis of `acked_is_new`), in this order -/
theorem ack_facts :
    F.commitChecksErrors = true ∧ F.commitRemembersFailure = true ∧ F.failedCommitReopens = true ∧
    F.commitKeepsSnapshotOnError = true ∧ F.rollbackRestoresSnapshot = true ∧
    F.commitOrder = ["flushNodes", "putRoot", "retireParents"] := by
  decide

/-- non-vacuity on a concrete lattice (sets of naturals as sorted duplicate-free lists are
    awkward; `Nat` with `max` is a join-semilattice with bottom 0) -/
example : JoinLaws (C := Nat) max 0 :=
  { assoc := Nat.max_assoc, comm := Nat.max_comm, idem := Nat.max_self, bot_left := Nat.zero_max }

end S3db.Props.C04
