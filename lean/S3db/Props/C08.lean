import S3db.Model.Value
import S3db.Lemmas.RowMerge
import S3db.Props.C16
/-!
# C08 — stored values come back unchanged in value and storage class

Values are carried, never computed on: conversion in and out (`NewKey`/`toSQLiteValue`,
`FromSQLiteValue`/`Key.Value`) is a bijection on the five storage classes, the row merge only ever
returns values it was given (it is parametric in the value type), and the node codec returns what
it was given (C16).  What crosses the cgo boundary (how `""` and empty blobs reach SQLite) is
runtime behaviour outside the model: exercised by the `sql` stream (`typeof`, `hex`), finding F10.
-/
namespace S3db.Props.C08
open S3db S3db.AList S3db.Row

/-- `FromSQLiteValue (toSQLiteValue v) = v` for every value of every storage class -/
theorem from_to (v : Val) : Val.ofSQLite (Val.toSQLite v) = v := by
  cases v <;> rfl

/-- the storage class is kept -/
theorem class_kept (v : Val) : (Val.toSQLite v).ty =
    match v with
    | .null => .NULL | .int _ => .INT | .real _ => .REAL | .text _ => .TEXT | .blob _ => .BLOB := by
  cases v <;> rfl

variable {V : Type}

/-- **the merge never alters a value**: every column of a merged row is, value and time, a column
    of one of the two rows merged -/
theorem merge_preserves_values (r1 r2 : ARow V) (c : String) (x : ACol V)
    (h : lookup c (mergeRows r1 r2).cols = some x) :
    lookup c r1.cols = some x ∨ lookup c r2.cols = some x := by
  rw [mergeRows_cols, lookup_mergeCols] at h
  generalize (status r1 r2).2.2 = reset at h
  cases h1 : lookup c r1.cols with
  | none =>
    cases h2 : lookup c r2.cols with
    | none => rw [h1, h2] at h; simp [mergeCol] at h
    | some y =>
      rw [h1, h2] at h
      simp only [mergeCol, keep] at h
      split at h
      · cases h
      · right; exact h
  | some y1 =>
    cases h2 : lookup c r2.cols with
    | none =>
      rw [h1, h2] at h
      simp only [mergeCol, keep] at h
      split at h
      · cases h
      · left; exact h
    | some y2 =>
      rw [h1, h2] at h
      simp only [mergeCol, keep] at h
      split at h
      · split at h
        · cases h
        · right; exact h
      · split at h
        · cases h
        · left; exact h

/-- an INSERT stores exactly the values it was given, for every column it names -/
theorem insert_stores_given (when : Int) (vals : AList String V) (c : String) :
    lookup c (Table.stamp when vals) = (lookup c vals).map fun v => ({ v := v, t := when } : ACol V) :=
  lookup_stamp when vals c

/-- the codec returns the entry it was given (C16), so the row payload is untouched -/
theorem codec_keeps_rows {R : Type} (e : Codec.Entry R) :
    Codec.unmarshalEntry C16.F (Codec.marshalEntry C16.F e) = e :=
  C16.entry_roundtrip e

/-! ### the key column of an UPDATE (F77)

Changing a key is not implemented.  The SQLite binding decides between "update in place" and
"replace" by a comparison of its own that lets a new key pass as unchanged whenever it converts to
the old one (`binding old new`, about which nothing is assumed); `VirtualTable.Update` then
addresses the row by the old key.  `updateRefusesKeyChange`: it first compares the two, value and
storage class. -/

/-- what an UPDATE assigning `new` to the key of the row `old` does: `none` = refused, `some k` =
    applied to the row whose key then reads back as `k` -/
def updateKey (F : Facts) (binding : Val → Val → Bool) (old new : Val) : Option Val :=
  if !binding old new then none                                   -- Replace: "unimplemented"
  else if F.updateRefusesKeyChange && decide (new ≠ old) then none
  else some old

/-- **a key that is written is the key that is read back, or the statement is refused** —
    whatever the binding takes for "unchanged" -/
theorem key_update_stored_or_refused (binding : Val → Val → Bool) (old new k : Val)
    (h : updateKey S3db.Gen.facts binding old new = some k) : k = new := by
  have hF : S3db.Gen.facts.updateRefusesKeyChange = true := by decide
  unfold updateKey at h
  split at h
  · cases h
  · simp only [hF, Bool.true_and] at h
    split at h
    · cases h
    · rename_i hne
      simp only [decide_eq_true_eq, ne_eq, Decidable.not_not] at hne
      cases h; exact hne.symm

/-- an UPDATE that leaves the key alone (SQLite passes the old key as the new one) is applied -/
theorem same_key_update_applied (binding : Val → Val → Bool) (old : Val) (hb : binding old old = true) :
    updateKey S3db.Gen.facts binding old old = some old := by
  simp [updateKey, hb]

/-- the defect F77 on the model without the comparison, with a binding that compares through the
    old key's accessor (the text `3` read as an integer is `3`): the statement succeeds with the old key -/
theorem without_comparison_coerced_key_kept :
    let F0 : Facts := { S3db.Gen.facts with updateRefusesKeyChange := false }
    let binding : Val → Val → Bool := fun _ _ => true
    updateKey F0 binding (.int 3) (.text [51]) = some (.int 3) := by
  decide

theorem key_update_facts :
    S3db.Gen.facts.updateRefusesKeyChange = true ∧ S3db.Gen.facts.rowidCannotBeAssigned = true := by decide

end S3db.Props.C08
