import S3db.Model.Fault
import S3db.Props.C03
import S3db.Props.C12
/-!
# C14 — storage faults surface as errors; never as wrong answers (logic part)

Panics, hangs and deadline expiry are runtime behaviour no Lean model exhibits: they are covered
by the `fault` stream (child processes with a time limit, a fault at every request index).  What
is proved is the logic of error propagation, from the source as read on this run.
-/
namespace S3db.Props.C14
open S3db S3db.Fault

abbrev F : Facts := S3db.Gen.facts

theorem skips_eq (a : Ans) (l : Bool) : skips F a l = some (a == .noSuchKey) := by
  simp [skips, F, S3db.Gen.facts]

/-- **an error answer is never mistaken for "vacuumed"**: if any location tried before a hit
    answers with an error, loading the version fails -/
theorem load_error_surfaces (pre post : List Ans) (hpre : ∀ a ∈ pre, a = .noSuchKey) :
    loadFromAny F (pre ++ .error :: post) = .error := by
  induction pre with
  | nil => simp [loadFromAny, skips_eq]
  | cons a pre ih =>
    have ha : a = .noSuchKey := hpre a (List.mem_cons_self ..)
    subst ha
    have := ih (fun a h => hpre a (List.mem_cons_of_mem _ h))
    simp only [List.cons_append, loadFromAny, skips_eq]
    simpa using this

/-- "missing" is reported only when every location gave the well-formed "no such object" answer -/
theorem missing_only_if_all_nosuchkey (answers : List Ans) (h : loadFromAny F answers = .missing) :
    ∀ a ∈ answers, a = .noSuchKey := by
  induction answers with
  | nil => intro a ha; cases ha
  | cons a rest ih =>
    cases a with
    | found => simp [loadFromAny] at h
    | error => simp [loadFromAny, skips_eq] at h
    | noSuchKey =>
      simp only [loadFromAny, skips_eq] at h
      have h' : loadFromAny F rest = .missing := by simpa using h
      intro b hb
      rcases List.mem_cons.1 hb with hb | hb
      · exact hb
      · exact ih h' b hb

/-- **an open either fails or is complete**: when it succeeds, it loaded every listed version
    except those for which *every* location gave the well-formed "no such object" answer -/
theorem open_error_or_complete (skip : Bool) (vs : List (Nat × List Ans)) (loaded : List Nat)
    (h : openVersions F skip vs = .ok loaded) :
    ∀ v answers, (v, answers) ∈ vs → v ∈ loaded ∨ (∀ a ∈ answers, a = .noSuchKey) := by
  induction vs generalizing loaded with
  | nil => intro v a hm; cases hm
  | cons p rest ih =>
    obtain ⟨v0, a0⟩ := p
    intro v answers hm
    unfold openVersions at h
    cases hl : loadFromAny F a0 with
    | error => rw [hl] at h; cases h
    | missing =>
      rw [hl] at h
      simp only at h
      split at h
      · cases h
      · rcases List.mem_cons.1 hm with hm | hm
        · cases hm; right; exact missing_only_if_all_nosuchkey a0 hl
        · exact ih loaded h v answers hm
    | found =>
      rw [hl] at h
      simp only at h
      cases hr : openVersions F skip rest with
      | error => rw [hr] at h; cases h
      | ok l =>
        rw [hr] at h
        cases h
        rcases List.mem_cons.1 hm with hm | hm
        · cases hm; left; exact List.mem_cons_self ..
        · rcases ih l hr v answers hm with h1 | h1
          · left; exact List.mem_cons_of_mem _ h1
          · right; exact h1

/-- an open restricted to named versions treats even "no such object" as an error -/
theorem named_version_missing_is_error (vs : List (Nat × List Ans)) (v : Nat) (answers : List Ans)
    (hm : (v, answers) ∈ vs) (ha : loadFromAny F answers = .missing) :
    openVersions F false vs = .error := by
  induction vs with
  | nil => cases hm
  | cons p rest ih =>
    obtain ⟨v0, a0⟩ := p
    unfold openVersions
    rcases List.mem_cons.1 hm with hm | hm
    · cases hm
      rw [ha]
      have : F.missingSkippedOnlyIfSkipUnreadable = true := rfl
      simp [this]
    · have := ih hm
      cases hl : loadFromAny F a0 with
      | error => rfl
      | missing =>
        have hf : F.missingSkippedOnlyIfSkipUnreadable = true := rfl
        simp [hf]
      | found => simp [this]

/-- no write is reported successful before its version object is stored (C03) -/
theorem no_false_ack (s : Proto.Sys) (h : C03.Reachable s) (v : Proto.Vid) (hv : v ∈ s.acked) : v ∈ s.stored :=
  C03.acked_is_stored s h v hv

/-- the propagation facts, as read from the source on this run -/
theorem fault_facts :
    F.loadAnySkipCond = "errors.As(err, &ae) && ae.Code() == s3.ErrCodeNoSuchKey" ∧
    F.loadAnyReturnsOtherErrors = true ∧ F.mergeErrorsReturned = true ∧
    F.statementErrorsPropagate = true ∧ F.changesErrorsPropagate = true ∧
    F.commitChecksErrors = true ∧ F.filterNullOperandEmpty = true ∧
    F.rollbackRestoresSnapshot = true ∧ F.commitKeepsSnapshotOnError = true := by
  decide

/-! ### vacuum under faults -/

/-- **a vacuum that could not read a listed version deletes nothing**: if the keep pass lets the
    deletions go ahead, every listed version that did not answer "no such object" is protected —
    in particular none answered with an error -/
theorem vacuum_keep_pass_error_or_complete (vs : List (Nat × Ans)) (l : List Nat)
    (h : keepPass F vs = .kept l) :
    (∀ p, p ∈ vs → p.2 ≠ .error) ∧ (∀ p, p ∈ vs → p.2 = .found → p.1 ∈ l) := by
  have hF : F.vacuumSkipsUnreadableListed = true := by decide
  induction vs generalizing l with
  | nil => exact ⟨fun _ hp => (nomatch hp), fun _ hp => (nomatch hp)⟩
  | cons p rest ih =>
    obtain ⟨v, a⟩ := p
    cases a with
    | found =>
      simp only [keepPass] at h
      split at h
      · rename_i l' hl'
        cases h
        obtain ⟨h1, h2⟩ := ih l' hl'
        refine ⟨fun q hq => ?_, fun q hq hf => ?_⟩
        · rcases List.mem_cons.mp hq with rfl | hq
          · simp
          · exact h1 q hq
        · rcases List.mem_cons.mp hq with rfl | hq
          · exact List.mem_cons_self
          · exact List.mem_cons_of_mem _ (h2 q hq hf)
      · cases h
    | noSuchKey =>
      simp only [keepPass] at h
      obtain ⟨h1, h2⟩ := ih l h
      refine ⟨fun q hq => ?_, fun q hq hf => ?_⟩
      · rcases List.mem_cons.mp hq with rfl | hq
        · simp
        · exact h1 q hq
      · rcases List.mem_cons.mp hq with rfl | hq
        · cases hf
        · exact h2 q hq hf
    | error =>
      simp [keepPass, hF] at h

/-- the seeded variant "log and continue on any error": one failed GET and the vacuum goes ahead
    without protecting version 7 -/
theorem tolerant_keep_pass_drops_a_version :
    let F0 : Facts := { F with vacuumSkipsUnreadableListed := false }
    keepPass F0 [(7, .error), (8, .found)] = .kept [8] ∧ keepPass F [(7, .error), (8, .found)] = .error := by
  decide

theorem vacuum_fault_facts : F.vacuumSkipsUnreadableListed = true ∧ F.vacuumKeepsListedCurrent = true := by decide

/-- with the tolerant variant ("try the next location on any error") a transient error on the
    first location of a retired version makes the version look vacuumed: the model shows it -/
theorem tolerant_skip_hides_a_version :
    let F0 : Facts := { F with loadAnySkipCond := "isNoSuchKey(err) || i+1 < len(persist)" }
    openVersions F0 true [(7, [.error, .noSuchKey])] = .ok [] ∧
    openVersions F true [(7, [.error, .noSuchKey])] = .error := by
  decide

end S3db.Props.C14
