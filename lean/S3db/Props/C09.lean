import S3db.Lemmas.DelOrder
import S3db.Model.Vacuum
import S3db.Lemmas.KvMerge
import S3db.Gen.Facts
/-!
# C09 — vacuum never changes what the table contains
-/
namespace S3db.Props.C09
open S3db S3db.AList S3db.Row S3db.Table S3db.Vacuum

abbrev F : Facts := S3db.Gen.facts

variable {K V : Type} [DecidableEq K]

theorem rowPurged_eq (deleted : Bool) (dut cutoff : Int) :
    rowPurged F deleted dut cutoff = some (deleted && decide (dut < cutoff)) := by
  simp [rowPurged, F, S3db.Gen.facts]

/-- **the visible rows are untouched**, for every cutoff: only delete markers are removed -/
theorem vacuum_rows_unchanged (cutoff : Int) (t : Table K V) (ht : NodupKeys t) (k : K) :
    visibleRow (vacuumRows F cutoff t) k = visibleRow t k := by
  unfold visibleRow vacuumRows
  rw [lookup_filter _ ht]
  cases hl : lookup k t with
  | none => rfl
  | some e =>
    simp only [rowPurged_eq]
    by_cases hd : e.row.deleted = true
    · by_cases hc : e.row.dut < cutoff <;> simp [hd, hc, visible]
    · simp [hd]

/-- a live row's entry is kept exactly as it is (values, times, everything) -/
theorem vacuum_keeps_live_entries (cutoff : Int) (t : Table K V) (ht : NodupKeys t) (k : K) (e : SEntry V)
    (hl : lookup k t = some e) (hlive : e.row.deleted = false) :
    lookup k (vacuumRows F cutoff t) = some e := by
  unfold vacuumRows
  rw [lookup_filter _ ht, hl]
  simp [rowPurged_eq, hlive]

/-- **no retained version ever refers to a deleted object**: whatever the candidate set (even if
    the link diff over-reports), at every crash point inside the deletion loop, every version
    that is kept — the current one above all — still has all of its nodes -/
theorem vacuum_safe (s : Store) (candidates : List Hash) (kept : List Nat) (v : Nat) (hv : v ∈ kept)
    (hc : Complete s v) (k : Nat) :
    Complete (afterDeletes s ((deleteSet F s candidates kept).take k)) v := by
  intro h hh
  unfold afterDeletes
  simp only [List.mem_filter, Bool.not_eq_true', List.contains_eq_mem, decide_eq_false_iff_not]
  refine ⟨hc h hh, ?_⟩
  intro hm
  have hm' : h ∈ deleteSet F s candidates kept := List.mem_of_mem_take hm
  have hf : F.vacuumKeepsReachable = true := rfl
  unfold deleteSet at hm'
  rw [hf] at hm'
  simp only [if_true, List.mem_filter, Bool.not_eq_true', List.any_eq_false, List.contains_eq_mem,
    decide_eq_true_eq] at hm'
  exact hm'.2 v hv hh

/-- without the keep pass (the code before the F11 fix) vacuum is unsafe even with an exact link
    diff: version 0 and version 2 have the same content (insert, then delete again), the diff
    0 → 1 reports node 7 as no longer used by 1, and deleting it breaks the current version 2 -/
theorem without_keep_pass_vacuum_breaks_current :
    let F0 : Facts := { F with vacuumKeepsReachable := false }
    let s : Store := { nodes := [7, 8], reach := fun v => if v = 1 then [8] else [7] }
    ¬ Complete (afterDeletes s (deleteSet F0 s [7] [2])) 2 := by
  intro F0 s h
  have h7 : (7 : Nat) ∈ (afterDeletes s (deleteSet F0 s [7] [2])).reach 2 := by decide
  have := h 7 h7
  revert this
  decide

/-- **no listed version is left referring to a deleted object**: the historic versions are
    delisted from root/current/ *before* any node is deleted and from root/merged/ afterwards, so
    at every crash point inside the node deletions every version still listed as current — and,
    once vacuum is through, every version listed anywhere — has all of its nodes.  (Every listed
    version is historic or kept: `hl`.) -/
theorem vacuum_leaves_no_listed_version_dangling (s : Store) (l : Listing) (candidates : List Hash)
    (historic kept : List Nat)
    (hl : ∀ v, v ∈ l.current ++ l.merged → v ∈ historic ∨ v ∈ kept)
    (hc : ∀ v, v ∈ l.current ++ l.merged → Complete s v) (k : Nat) :
    (∀ v, v ∈ (delist F l historic).current →
      Complete (afterDeletes s ((deleteSet F s candidates kept).take k)) v) ∧
    (∀ v, v ∈ (delist F l historic).current ++ (delist F l historic).merged →
      Complete (afterDeletes s (deleteSet F s candidates kept)) v) := by
  have hF : F.vacuumFinishesRetire = true := rfl
  have key : ∀ v, v ∈ (delist F l historic).current ++ (delist F l historic).merged →
      v ∈ kept ∧ Complete s v := by
    intro v hv
    simp only [delist, hF, if_true, List.mem_append, List.mem_filter, Bool.not_eq_true',
      List.contains_eq_mem, decide_eq_false_iff_not] at hv
    have hmem : v ∈ l.current ++ l.merged := by
      rcases hv with h | h
      · exact List.mem_append.2 (Or.inl h.1)
      · exact List.mem_append.2 (Or.inr h.1)
    have hnot : v ∉ historic := by rcases hv with h | h <;> exact h.2
    rcases hl v hmem with h | h
    · exact absurd h hnot
    · exact ⟨h, hc v hmem⟩
  refine ⟨fun v hv => ?_, fun v hv => ?_⟩
  · have := key v (List.mem_append.2 (Or.inl hv))
    exact vacuum_safe s candidates kept v this.1 this.2 k
  · have := key v hv
    have h2 := vacuum_safe s candidates kept v this.1 this.2 (deleteSet F s candidates kept).length
    rwa [List.take_length] at h2

/-- without the retire-finishing pass (the code before the F38 fix): version 1 was superseded by
    version 2 but its retirement failed, so it is still listed as current; vacuum treats it as
    historic, deletes node 7 that only it uses, and leaves it listed -/
theorem without_retire_pass_current_dangles :
    let F0 : Facts := { F with vacuumFinishesRetire := false }
    let s : Store := { nodes := [7, 8], reach := fun v => if v = 1 then [7] else [8] }
    let l : Listing := { current := [1, 2], merged := [] }
    1 ∈ (delist F0 l [1]).current ∧ ¬ Complete (afterDeletes s (deleteSet F0 s [7] [2])) 1 := by
  intro F0 s l
  refine ⟨by decide, fun h => ?_⟩
  have h7 : (7 : Nat) ∈ (afterDeletes s (deleteSet F0 s [7] [2])).reach 1 := by decide
  have := h 7 h7
  revert this
  decide

/-- the premises of `vacuum_leaves_no_listed_version_dangling` are satisfiable -/
example : let l : Listing := { current := [1, 2], merged := [0] }
    (∀ v, v ∈ l.current ++ l.merged → v ∈ [0, 1] ∨ v ∈ [2]) := by decide

/-! ### an interrupted vacuum leaves nothing out of the next one's reach (F93) -/

/-- **the source's deletion order is closed wherever it is cut**: for every version graph without
    cycles (`rank`: a version's parents rank below it; names are hashes of contents that include
    the parents' names) and every set of chosen versions, the depth-first order `deletionOrder`
    (fact `vacuumDeletesSupersededFirst`) has deleted, at every point of the loop, all chosen
    versions superseded by anything it has deleted -/
theorem deletion_order_prefix_closed (g : VGraph) (chosen : List Nat) (rank : Nat → Nat)
    (hrank : ∀ c p, p ∈ g.parents c → rank p < rank c)
    (hfuel : ∀ v, v ∈ chosen → rank v ≤ g.versions.length) :
    PrefixClosed g chosen (deletionOrder F g chosen) := by
  have hF : F.vacuumDeletesSupersededFirst = true := by decide
  unfold deletionOrder
  rw [if_pos hF]
  exact prefixClosed_of_good g chosen
    (foldl_visit_good g chosen rank hrank g.versions.length chosen hfuel [] trivial)

/-- … and it deletes chosen versions only -/
theorem deletion_order_sub (g : VGraph) (chosen : List Nat) :
    ∀ v, v ∈ deletionOrder F g chosen → v ∈ chosen := by
  have hF : F.vacuumDeletesSupersededFirst = true := by decide
  intro v hv
  unfold deletionOrder at hv
  rw [if_pos hF] at hv
  exact foldl_visit_sub g chosen g.versions.length chosen (fun _ h => h) [] (fun _ h => nomatch h) v
    (List.mem_reverse.mp hv)

/-- **whatever is still there can still be found**: if the deletion order is closed wherever it is
    cut and the chosen versions are closed under "supersedes" (they are whenever creation times
    grow along the history), then after a crash at ANY point of the deletion loop (`done` deleted,
    `todo` not yet), a walk back from anywhere to a version object that still exists meets no
    deleted version — the next vacuum, walking back from the current version, reaches every chosen
    version that is left -/
theorem interrupted_delete_keeps_rest_reachable (g : VGraph) (chosen order done todo : List Nat)
    (hsplit : order = done ++ todo)
    (hord : PrefixClosed g chosen order) (hsub : ∀ v, v ∈ order → v ∈ chosen)
    (hclosed : ∀ c, c ∈ chosen → ∀ p, p ∈ g.parents c → p ∈ chosen)
    (walk : List Nat) (hw : Walk g walk) (v : Nat) (hlast : walk.getLast? = some v)
    (hv : v ∉ done) : ∀ u, u ∈ walk → u ∉ done := by
  induction walk with
  | nil => intro u hu; cases hu
  | cons a rest ih =>
    cases rest with
    | nil =>
      intro u hu
      have : a = v := by simpa using hlast
      rcases List.mem_singleton.mp hu with rfl
      rw [this]; exact hv
    | cons b rest' =>
      obtain ⟨hab, hw'⟩ := hw
      have hlast' : (b :: rest').getLast? = some v := by simpa [List.getLast?_cons_cons] using hlast
      have ih' := ih hw' hlast'
      intro u hu
      rcases List.mem_cons.mp hu with rfl | hu
      · intro hdel
        have huc : u ∈ chosen := hsub u (by rw [hsplit]; exact List.mem_append_left _ hdel)
        have hbc : b ∈ chosen := hclosed u huc b hab
        exact ih' b List.mem_cons_self (hord done todo hsplit u hdel b hab hbc)
      · exact ih' u hu

/-- the two together, for the order the source uses -/
theorem interrupted_vacuum_leaves_rest_reachable (g : VGraph) (chosen done todo : List Nat)
    (rank : Nat → Nat) (hrank : ∀ c p, p ∈ g.parents c → rank p < rank c)
    (hfuel : ∀ v, v ∈ chosen → rank v ≤ g.versions.length)
    (hsplit : deletionOrder F g chosen = done ++ todo)
    (hclosed : ∀ c, c ∈ chosen → ∀ p, p ∈ g.parents c → p ∈ chosen)
    (walk : List Nat) (hw : Walk g walk) (v : Nat) (hlast : walk.getLast? = some v)
    (hv : v ∉ done) : ∀ u, u ∈ walk → u ∉ done :=
  interrupted_delete_keeps_rest_reachable g chosen _ done todo hsplit
    (deletion_order_prefix_closed g chosen rank hrank hfuel) (deletion_order_sub g chosen) hclosed walk hw v hlast hv

/-- the source's order on a history with a fork and a merge: 0 ← 1 ← {2, 3} ← 4 (4 merges 2 and 3),
    all four old versions chosen, given in the worst order — emitted oldest first (non-vacuity:
    `rank := id` and fuel 5 meet the hypotheses above) -/
example :
    let g : VGraph := { versions := [0, 1, 2, 3, 4], created := fun _ => 0,
                        parents := fun c => if c = 4 then [2, 3] else if c = 3 then [1] else if c = 2 then [1] else if c = 1 then [0] else [] }
    deletionOrder F g [3, 2, 1, 0] = [0, 1, 3, 2] := by decide

/-- the order the versions came in is not closed: cut after one deletion it has removed 3 and
    left 1 and 0, which 3 superseded, behind it (F93 on the model without the rule) -/
theorem map_order_is_not_prefix_closed :
    let g : VGraph := { versions := [0, 1, 2, 3, 4], created := fun _ => 0,
                        parents := fun c => if c = 4 then [2, 3] else if c = 3 then [1] else if c = 2 then [1] else if c = 1 then [0] else [] }
    ¬ PrefixClosed g [3, 2, 1, 0] (deletionOrder { F with vacuumDeletesSupersededFirst := false } g [3, 2, 1, 0]) := by
  intro g h
  have := h [3] [2, 1, 0] (by decide) 3 (by decide) 1 (by decide) (by decide)
  revert this
  decide

theorem deletion_order_facts : F.vacuumDeletesSupersededFirst = true := by decide

/-- **a version created at or after the cutoff is never removed**, whatever the shape of the
    history (forks, merges, several writers) and whatever times its successors carry — a
    successor may well be dated before the version it supersedes (the merge version of an open is
    dated before the listing it merges; clocks differ): the version's own creation time is
    checked (`vacuumChecksOwnAge`, F70) -/
theorem created_at_or_after_cutoff_retained (g : VGraph) (cutoff : Int) (v : Nat)
    (hv : cutoff ≤ g.created v) : removed F g cutoff v = false := by
  have hF : F.vacuumChecksOwnAge = true := by decide
  unfold removed
  rw [hF]
  have : decide (g.created v ≥ cutoff) = true := by simpa using hv
  simp [this]

/-- without the check on the version's own age the guarantee needs creation times that grow
    along every edge, which they do not always: version 2 (created at 7, after the cutoff 5) is
    superseded by the merge version 3 that an open dated 4, before its listing -/
example :
    let F0 : Facts := { F with vacuumChecksOwnAge := false }
    let g : VGraph := { versions := [1, 2, 3], parents := fun c => if c = 3 then [2] else if c = 2 then [1] else [],
                        created := fun v => if v = 2 then 7 else if v = 3 then 4 else 1 }
    removed F0 g 5 2 = true := by decide

/-- the current version — any version without a successor — is never removed -/
theorem childless_version_retained (g : VGraph) (cutoff : Int) (v : Nat)
    (h : g.children v = []) : removed F g cutoff v = false := by
  simp [removed, h]

/-- with the connection's open time as creation time (F52) the guarantee fails: versions 1 and 2
    were committed by one connection opened at time 0, version 2 at (real) time 7 after the cutoff 5
    — both carry time 0, and version 1's only child is "older than the cutoff" -/
example :
    let g : VGraph := { versions := [1, 2, 3], parents := fun c => if c = 3 then [2] else if c = 2 then [1] else [],
                        created := fun _ => 0 }
    removed F g 5 2 = true := by decide

theorem vacuum_facts :
    F.vacuumKeepsReachable = true ∧ F.vacuumRefusesDirty = true ∧ F.vacuumFinishesRetire = true ∧
    F.vacuumKeepsListedCurrent = true ∧ F.vacuumWalksBypassCache = true ∧ F.versionsDatedAtCommit = true ∧ F.vacuumChecksOwnAge = true ∧
    F.vacuumSkipsUnreadableListed = true ∧ F.vacuumRepointsSnapshot = true ∧ F.deletedNodesLeaveCache = true ∧
    F.vacuumOrder = ["removeTombstones", "commit", "deleteHistoric"] ∧
    F.deleteOrder = ["current aws.String(s.root.Prefix + l)",
      "nodes aws.String(s.persist.(*persistEncryptor).Prefix + l)",
      "roots aws.String(s.merged.Prefix + l)"] ∧
    F.rowCutoff = "row.Deleted && rowTime.Add(row.DeleteUpdateOffset.AsDuration()).Before(beforeTime)" := by
  decide

end S3db.Props.C09
