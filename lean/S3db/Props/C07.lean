import S3db.Model.KeySpec
import S3db.Gen.Key
import S3db.Lemmas.F64
import S3db.Lemmas.KeyOrder
import S3db.Model.Table
import S3db.Lemmas.TableCells
import S3db.Model.Facts
import S3db.Gen.Facts
/-!
# C07 — key order is a total order that matches SQLite, and equal keys are one key

Property theorems only, about the **generated** `Gen.Key.keyOrder` (regenerated from key.go on
every run).  Helper lemmas live in `S3db/Lemmas/F64.lean` and `S3db/Lemmas/KeyOrder.lean`.
-/
namespace S3db.Props.C07
open S3db S3db.Gen.Key

/-- the comparison the tree uses between two keys -/
def ord (a b : Val) : Option Int := keyOrder a.toSQLite (some b.toSQLite)

/-- **the generated order is SQLite's order**, for every admissible pair (full int64 range,
    every non-NaN double incl. ±0, ±inf, subnormals, values beyond 2^53, every byte string) -/
theorem order_matches_sqlite (a b : Val) (ha : KeyOK a) (hb : KeyOK b) :
    ord a b = some (sqliteCmp a b) := by
  exact ordV_eq_sqliteCmp a b ha hb

theorem sqliteCmp_range (a b : Val) (ha : KeyOK a) (hb : KeyOK b) :
    sqliteCmp a b = -1 ∨ sqliteCmp a b = 0 ∨ sqliteCmp a b = 1 := by
  exact sqliteCmp_range' a b ha hb

theorem sqliteCmp_refl (a : Val) (ha : KeyOK a) : sqliteCmp a a = 0 := by
  exact sqliteCmp_refl' a ha

theorem sqliteCmp_antisymm (a b : Val) (ha : KeyOK a) (hb : KeyOK b) :
    sqliteCmp a b = - sqliteCmp b a := by
  exact sqliteCmp_antisymm' a b ha hb

/-- transitivity, in the form that covers `<`, `=` and `≤` at once -/
theorem sqliteCmp_trans (a b c : Val) (ha : KeyOK a) (hb : KeyOK b) (hc : KeyOK c)
    (h1 : sqliteCmp a b ≤ 0) (h2 : sqliteCmp b c ≤ 0) : sqliteCmp a c ≤ 0 ∧
      (sqliteCmp a c = 0 → sqliteCmp a b = 0 ∧ sqliteCmp b c = 0) := by
  exact sqliteCmp_trans' a b c ha hb hc h1 h2

/-- equal only for equal values: same storage class rank, and identical integers / bytes -/
theorem sqliteCmp_eq_zero (a b : Val) (ha : KeyOK a) (hb : KeyOK b) (h : sqliteCmp a b = 0) :
    a.rank = b.rank ∧
    (∀ i j, a = .int i → b = .int j → i = j) ∧
    (∀ s t, a = .text s → b = .text t → s = t) ∧
    (∀ s t, a = .blob s → b = .blob t → s = t) := by
  exact sqliteCmp_eq_zero' a b ha hb h

/-! corollaries for the order the code actually uses -/

theorem ord_total (a b : Val) (ha : KeyOK a) (hb : KeyOK b) :
    ∃ r, ord a b = some r ∧ ord b a = some (-r) ∧ (r = -1 ∨ r = 0 ∨ r = 1) := by
  exact ⟨sqliteCmp a b, order_matches_sqlite a b ha hb,
    by rw [order_matches_sqlite b a hb ha, sqliteCmp_antisymm b a hb ha],
    sqliteCmp_range a b ha hb⟩

theorem ord_refl (a : Val) (ha : KeyOK a) : ord a a = some 0 := by
  rw [order_matches_sqlite a a ha ha, sqliteCmp_refl a ha]

theorem ord_trans (a b c : Val) (ha : KeyOK a) (hb : KeyOK b) (hc : KeyOK c) (x y : Int)
    (h1 : ord a b = some x) (h2 : ord b c = some y) (hx : x ≤ 0) (hy : y ≤ 0) :
    ∃ z, ord a c = some z ∧ z ≤ 0 ∧ (z = 0 → x = 0 ∧ y = 0) := by
  rw [order_matches_sqlite a b ha hb] at h1
  rw [order_matches_sqlite b c hb hc] at h2
  cases h1; cases h2
  exact ⟨sqliteCmp a c, order_matches_sqlite a c ha hc, sqliteCmp_trans a b c ha hb hc hx hy⟩

/-- a NULL key cannot be ordered: the comparison panics (the callers must reject NULL first) -/
theorem null_key_panics (b : Val) : ord .null b = none ∧ ord b .null = none := by
  exact ⟨ordV_null_left b, ordV_null_right b⟩

/-- **a second INSERT of a key that addresses a live row is a constraint failure** and leaves the
    table as it was (the statement model of `Insert`; keys of the table model are the tree's keys,
    i.e. classes of the order above) -/
theorem second_insert_refused {K V : Type} [DecidableEq K] [DecidableEq V] (t : Table.Table K V)
    (when : Int) (k : K) (vals : AList String V) (e : Table.SEntry V)
    (he : AList.lookup k t = some e) (hl : e.row.deleted = false) :
    Table.insertRow t when k vals = .error .constraintPK :=
  (Table.insertRow_error_iff t when k vals).2 ⟨e, he, Or.inl hl⟩

/-- the source facts the refusal rests on: the lookup's error is returned (a failed lookup is never
    read as "key absent"), the refusal condition is the modelled one, a NULL key is rejected first -/
theorem insert_lookup_facts :
    Gen.facts.getRowReturnsLookupError = true ∧ Gen.facts.insertRejectsNullKey = true ∧
    Gen.facts.insertRefusedCond =
      "ok && (!old.Deleted || ot.Add(old.DeleteUpdateOffset.AsDuration()).After(t))" := by
  decide

/-- the F8 witness: beyond 2^53 the integer and the real are different keys -/
example : ord (.int (2^53 + 1)) (.real (F64.ofBits 0x4340000000000000)) = some 1 := by decide

end S3db.Props.C07
