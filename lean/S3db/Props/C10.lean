import S3db.Props.C09
import S3db.Props.C02
/-!
# C10 — vacuum reclaims exactly what the cutoff allows
-/
namespace S3db.Props.C10
open S3db S3db.AList S3db.Row S3db.Table S3db.Vacuum S3db.Props.C09 S3db.Props.C01

set_option linter.unusedSectionVars false
set_option linter.unusedSimpArgs false
variable {K V : Type} [DecidableEq K]

/-- **purged_iff**: after vacuum a key occupies the table iff it did before and it is not a
    delete marker older than the cutoff -/
theorem purged_iff (cutoff : Int) (t : Table K V) (ht : NodupKeys t) (k : K) :
    lookup k (vacuumRows F cutoff t) =
      match lookup k t with
      | some e => if e.row.deleted = true ∧ e.row.dut < cutoff then none else some e
      | none => none := by
  unfold vacuumRows
  rw [lookup_filter _ ht]
  cases hl : lookup k t with
  | none => rfl
  | some e =>
    simp only [rowPurged_eq]
    by_cases hd : e.row.deleted = true <;> by_cases hc : e.row.dut < cutoff <;> simp [hd, hc]

/-- **marker_kept**: a row deleted at or after the cutoff keeps its delete marker, unchanged -/
theorem marker_kept (cutoff : Int) (t : Table K V) (ht : NodupKeys t) (k : K) (e : SEntry V)
    (hl : lookup k t = some e) (hc : cutoff ≤ e.row.dut) :
    lookup k (vacuumRows F cutoff t) = some e := by
  rw [purged_iff cutoff t ht k, hl]
  have : ¬ (e.row.deleted = true ∧ e.row.dut < cutoff) := fun h => by omega
  simp [this]

/-- … so the delete still wins over any write that is older than it and is merged later:
    merging a row whose status is older leaves the kept marker's status in place -/
theorem late_older_write_loses (marker older : ARow V) (hm : marker.deleted = true)
    (hold : older.dut < marker.dut) :
    (mergeRows marker older).deleted = true ∧ (mergeRows older marker).deleted = true ∧
    (mergeRows marker older).dut = marker.dut ∧ (mergeRows older marker).dut = marker.dut := by
  have h1 := mergeRows_status marker older
  have h2 := mergeRows_status older marker
  simp only [ARow.status, selStatus, Status.mk.injEq] at h1 h2
  have c1 : ¬ (¬ (marker.dut > older.dut)) := by omega
  have c2 : ¬ (older.dut > marker.dut) := by omega
  simp only [c1, c2, if_false, if_true, not_false_eq_true] at h1 h2
  injection h1 with h1a h1b
  injection h2 with h2a h2b
  refine ⟨?_, ?_, h1a, h2a⟩
  · rw [h1b]; exact hm
  · rw [h2b]; exact hm

theorem nodup_vacuumRows (cutoff : Int) (t : Table K V) (ht : NodupKeys t) : NodupKeys (vacuumRows F cutoff t) :=
  nodupKeys_filter _ ht

/-- **vacuum_idem**: repeating the same vacuum changes nothing -/
theorem vacuum_idem (cutoff : Int) (t : Table K V) :
    vacuumRows F cutoff (vacuumRows F cutoff t) = vacuumRows F cutoff t := by
  unfold vacuumRows
  rw [List.filter_filter]
  congr 1
  funext p
  simp

/-- a later vacuum with an older cutoff purges nothing more -/
theorem vacuum_monotone (c1 c2 : Int) (h : c1 ≤ c2) (t : Table K V) :
    vacuumRows F c1 (vacuumRows F c2 t) = vacuumRows F c2 t := by
  unfold vacuumRows
  rw [List.filter_filter]
  apply List.filter_congr
  intro p _
  simp only [rowPurged_eq, Option.getD_some]
  by_cases hd : p.2.row.deleted = true <;> by_cases h2 : p.2.row.dut < c2 <;> by_cases h1 : p.2.row.dut < c1 <;>
    simp [hd, h1, h2] <;> omega

/-- only what no kept version needs is deleted: a deleted node is a candidate and is reached by
    no kept version -/
theorem only_unneeded_nodes_gone (s : Store) (candidates : List Hash) (kept : List Nat) (h : Hash)
    (hd : h ∈ deleteSet F s candidates kept) :
    h ∈ candidates ∧ ∀ v, v ∈ kept → h ∉ s.reach v := by
  have hf : F.vacuumKeepsReachable = true := rfl
  unfold deleteSet at hd
  rw [hf] at hd
  simp only [if_true, List.mem_filter, Bool.not_eq_true', List.any_eq_false, List.contains_eq_mem,
    decide_eq_true_eq] at hd
  exact ⟨hd.1, fun v hv hh => hd.2 v hv hh⟩

/-- the comparisons, as read from the source on this run: a marker whose time equals the cutoff
    is kept (strictly-before), a kv tombstone is kept iff its time is >= the cutoff, a version is
    superseded unless one of its children was created after the cutoff -/
theorem cutoff_facts :
    F.rowCutoff = "row.Deleted && rowTime.Add(row.DeleteUpdateOffset.AsDuration()).Before(beforeTime)" ∧
    F.tombCutoff = "ts == 0 || ts >= cutoff" ∧
    F.versionCutoff = "childRoot.Created == nil || childRoot.Created.After(olderThan)" ∧
    F.purgeCutoffClamped = true := by
  decide

/-- the boundary, on the model: cutoff 5 purges the marker of time 4 and keeps the one of time 5 -/
example :
    let d (t : Int) : SEntry Nat := { mod := t, row := { deleted := true, dut := t, cols := [] } }
    (vacuumRows F 5 ([(1, d 4), (2, d 5)] : Table Nat Nat)).map (·.1) = [2] := by
  decide

/-! ### where C10 and C02 pull in opposite directions (finding F78)

A DELETE is sticky: an UPDATE with a later write time that meets a deleted row leaves it absent,
but its column write stays in the marker, hidden, and a later INSERT loses that column against it
(C02: "the statement with the greatest write time among the statements since that INSERT").  A
vacuum whose cutoff lies between the delete and the hidden write purges the marker (C10: "rows
deleted before the cutoff no longer occupy the table") and the hidden write with it.  The two
theorems below run the same four statements on the model, with and without the vacuum. -/

private def ins (t : Table Nat String) (w : Int) (a b : String) : Table Nat String :=
  match insertRow t w 1 [("a", a), ("b", b)] with
  | .ok t' => t'
  | .error _ => t

private def hist (vac : Bool) : Table Nat String :=
  let t := ins [] 1 "a1" "b1"
  let t := updateRow t 10 1 [("b", "b10")]
  let t := deleteRow t 2 1
  let t := if vac then vacuumRows F 3 t else t
  ins t 4 "a4" "b4"

private def colB (t : Table Nat String) : Option String :=
  (visibleRow t 1).bind fun cols => (lookup "b" cols).map (·.v)

/-- without the vacuum the re-inserted row keeps the later write to `b` -/
theorem without_vacuum_later_write_wins : colB (hist false) = some "b10" := by decide

/-- with a vacuum at 3 — after the delete (2), before the hidden write (10) — the same statements
    give another table: C02 asks for `b10`, C10 for the marker to be gone at cutoff 3 -/
theorem vacuum_between_delete_and_hidden_write_changes_resolution :
    colB (hist true) = some "b4" := by decide

end S3db.Props.C10
