import S3db.Model.Kv
import S3db.Lemmas.KvMerge
/-!
# C17, history level — any sequence of `Set` / `Tombstone` calls refines a three-state cell

`Props/C17.lean` states the rules one call at a time.  Here they are lifted to **every history**:
for every list of operations (any length, any keys, any times after the epoch, in any order of
times) applied to any tree, what `Get` answers for a key is what a three-state abstract cell
(`absent`, `live w v`, `dead`) answers after the same operations — the documented rule, read as
a specification short enough to check by eye:

* a `Set` replaces a live value iff it is not older than it (ties go to the later call),
* a `Tombstone` kills the key, and nothing brings it back (no later `Set`, at any time).

The model functions are those of `Model/Kv.lean` (over the **generated** `lastWriteWins`).
-/
namespace S3db.Props.C17Hist
open S3db S3db.AList S3db.Gen.Crdt S3db.Kv

set_option linter.unusedSectionVars false
variable {K V : Type} [DecidableEq K] [DecidableEq V]

/-- one call on a `kv.DB` handle -/
inductive KOp (K V : Type) where
  | set (when : Int) (k : K) (v : V)
  | del (when : Int) (k : K)

def KOp.time : KOp K V → Int
  | .set w _ _ => w
  | .del w _ => w

def KOp.key : KOp K V → K
  | .set _ k _ => k
  | .del _ k => k

/-- the implementation side: `Tree.Set` / `Tree.Tombstone` of the model -/
def applyOp (src : Option String) (t : Tree K V) : KOp K V → Tree K V
  | .set w k v => Kv.set src t w k v
  | .del w k => Kv.tombstone src t w k

def runOps (src : Option String) (t : Tree K V) (ops : List (KOp K V)) : Tree K V :=
  ops.foldl (applyOp src) t

/-- the specification: what is known about one key -/
inductive Cell (V : Type) where
  | absent
  | live (w : Int) (v : V)
  | dead
deriving DecidableEq, Repr

/-- the documented rule, for the key `k` -/
def cellStep (k : K) (c : Cell V) : KOp K V → Cell V
  | .set w k' v =>
    if k' = k then
      match c with
      | .absent => .live w v
      | .live w0 v0 => if w0 ≤ w then .live w v else .live w0 v0
      | .dead => .dead
    else c
  | .del _ k' => if k' = k then .dead else c

def cellRun (k : K) (c : Cell V) (ops : List (KOp K V)) : Cell V := ops.foldl (cellStep k) c

/-- what a reader sees of a cell -/
def Cell.read : Cell V → Option (Int × V)
  | .live w v => some (w, v)
  | _ => none

/-- what `Get` shows of an entry: modification time and payload -/
def readGet (t : Tree K V) (k : K) : Option (Int × V) :=
  match Kv.get t k with
  | some e => match e.val with
    | some v => some (e.mod, v)
    | none => none
  | none => none

/-- the abstraction relation between a tree and the cell of `k` -/
def Refines (t : Tree K V) (k : K) : Cell V → Prop
  | .absent => lookup k t = none
  | .live w v => ∃ e, lookup k t = some e ∧ e.tomb = 0 ∧ e.mod = w ∧ e.val = some v
  | .dead => ∃ e, lookup k t = some e ∧ e.tomb > 0

theorem refines_read (t : Tree K V) (k : K) (c : Cell V) (h : Refines t k c) :
    readGet t k = c.read := by
  cases c with
  | absent => simp [Refines] at h; simp [readGet, Kv.get, h, Cell.read]
  | live w v =>
    obtain ⟨e, hl, ht, hm, hv⟩ := h
    simp [readGet, Kv.get, hl, ht, hm, hv, Cell.read]
  | dead =>
    obtain ⟨e, hl, ht⟩ := h
    simp [readGet, Kv.get, hl, ht, Cell.read]

theorem lookup_update_other (src : Option String) (t : Tree K V) (k k' : K) (cv : Entry V)
    (h : k' ≠ k) : lookup k (update src t k' cv) = lookup k t := by
  unfold update
  split <;> simp [lookup_insert, h]

/-- a call on another key leaves the entry of `k` alone -/
theorem lookup_applyOp_other (src : Option String) (t : Tree K V) (op : KOp K V) (k : K)
    (h : op.key ≠ k) : lookup k (applyOp src t op) = lookup k t := by
  cases op with
  | set w k' v => exact lookup_update_other src t k k' _ h
  | del w k' => exact lookup_update_other src t k k' _ h

/-- **one step**: the tree after a call refines the cell after the same call -/
theorem step_refines (src : Option String) (t : Tree K V) (k : K) (c : Cell V) (op : KOp K V)
    (hpos : 0 < op.time) (h : Refines t k c) :
    Refines (applyOp src t op) k (cellStep k c op) := by
  by_cases hk : op.key = k
  · cases op with
    | set w k' v =>
      simp only [KOp.key] at hk; subst hk
      simp only [KOp.time] at hpos
      cases c with
      | absent =>
        simp only [Refines] at h
        simp only [cellStep, if_true, Refines]
        refine ⟨{ mod := w, val := some v }, ?_, rfl, rfl, rfl⟩
        show lookup _ (update src t _ _) = _; unfold update
        simp [h, lookup_insert]
      | live w0 v0 =>
        obtain ⟨e, hl, ht, hm, hv⟩ := h
        simp only [cellStep, if_true]
        by_cases hle : w0 ≤ w
        · simp only [hle, if_true, Refines]
          refine ⟨{ mod := w, val := some v, prev := src.getD "" }, ?_, rfl, rfl, rfl⟩
          have hw : lastWriteWins ({ mod := w, val := some v } : Entry V) e = { mod := w, val := some v } := by
            unfold lastWriteWins firstTombstoneWins tombstoned; simp [ht]; intro; omega
          have hf : lastWriteWinsFst ({ mod := w, val := some v } : Entry V) e = true := by
            unfold lastWriteWinsFst firstTombstoneWinsFst tombstoned; simp [ht]; omega
          show lookup _ (update src t _ _) = _; unfold update
          simp [hl, hw, hf, lookup_insert]
        · simp only [hle, if_false, Refines]
          refine ⟨e, ?_, ht, hm, hv⟩
          have hw : lastWriteWins ({ mod := w, val := some v } : Entry V) e = e := by
            unfold lastWriteWins firstTombstoneWins tombstoned; simp [ht]; intro; omega
          have hf : lastWriteWinsFst ({ mod := w, val := some v } : Entry V) e = false := by
            unfold lastWriteWinsFst firstTombstoneWinsFst tombstoned; simp [ht]; omega
          show lookup _ (update src t _ _) = _; unfold update
          simp [hl, hw, hf, lookup_insert]
      | dead =>
        obtain ⟨e, hl, ht⟩ := h
        simp only [cellStep, if_true, Refines]
        refine ⟨e, ?_, ht⟩
        have hne : e.tomb ≠ 0 := by omega
        have hw : lastWriteWins ({ mod := w, val := some v } : Entry V) e = e := by
          unfold lastWriteWins firstTombstoneWins tombstoned; simp [hne]
        have hf : lastWriteWinsFst ({ mod := w, val := some v } : Entry V) e = false := by
          unfold lastWriteWinsFst firstTombstoneWinsFst tombstoned; simp [hne]
        show lookup _ (update src t _ _) = _; unfold update
        simp [hl, hw, hf, lookup_insert]
    | del w k' =>
      simp only [KOp.key] at hk; subst hk
      simp only [KOp.time] at hpos
      have hwne : w ≠ 0 := by omega
      simp only [cellStep, if_true, Refines]
      cases c with
      | absent =>
        simp only [Refines] at h
        refine ⟨{ mod := w, tomb := w, val := none }, ?_, hpos⟩
        show lookup _ (update src t _ _) = _; unfold update
        simp [h, lookup_insert]
      | live w0 v0 =>
        obtain ⟨e, hl, ht, _, _⟩ := h
        refine ⟨{ mod := w, tomb := w, val := none, prev := src.getD "" }, ?_, hpos⟩
        have hw : lastWriteWins ({ mod := w, tomb := w, val := none } : Entry V) e
            = { mod := w, tomb := w, val := none } := by
          unfold lastWriteWins firstTombstoneWins tombstoned; simp [ht, hwne]
        have hf : lastWriteWinsFst ({ mod := w, tomb := w, val := none } : Entry V) e = true := by
          unfold lastWriteWinsFst firstTombstoneWinsFst tombstoned; simp [ht, hwne]
        show lookup _ (update src t _ _) = _; unfold update
        simp [hl, hw, hf, lookup_insert]
      | dead =>
        obtain ⟨e, hl, ht⟩ := h
        have hne : e.tomb ≠ 0 := by omega
        by_cases hlt : w < e.tomb
        · refine ⟨{ mod := w, tomb := w, val := none, prev := src.getD "" }, ?_, hpos⟩
          have hw : lastWriteWins ({ mod := w, tomb := w, val := none } : Entry V) e
              = { mod := w, tomb := w, val := none } := by
            unfold lastWriteWins firstTombstoneWins tombstoned; simp [hne, hwne, hlt]
          have hf : lastWriteWinsFst ({ mod := w, tomb := w, val := none } : Entry V) e = true := by
            unfold lastWriteWinsFst firstTombstoneWinsFst tombstoned; simp [hne, hwne, hlt]
          show lookup _ (update src t _ _) = _; unfold update
          simp [hl, hw, hf, lookup_insert]
        · refine ⟨e, ?_, ht⟩
          have hw : lastWriteWins ({ mod := w, tomb := w, val := none } : Entry V) e = e := by
            unfold lastWriteWins firstTombstoneWins tombstoned; simp [hne, hwne, hlt]
          have hf : lastWriteWinsFst ({ mod := w, tomb := w, val := none } : Entry V) e = false := by
            unfold lastWriteWinsFst firstTombstoneWinsFst tombstoned; simp [hne, hwne, hlt]
          show lookup _ (update src t _ _) = _; unfold update
          simp [hl, hw, hf, lookup_insert]
  · have hc : cellStep k c op = c := by
      cases op with
      | set w k' v => simp only [KOp.key] at hk; simp [cellStep, hk]
      | del w k' => simp only [KOp.key] at hk; simp [cellStep, hk]
    rw [hc]
    have hl := lookup_applyOp_other src t op k hk
    cases c with
    | absent => simpa [Refines, hl] using h
    | live w v => simpa [Refines, hl] using h
    | dead => simpa [Refines, hl] using h

/-- **every history**: refinement is kept along any list of calls with times after the epoch -/
theorem run_refines (src : Option String) (k : K) (ops : List (KOp K V)) :
    ∀ (t : Tree K V) (c : Cell V), (∀ op ∈ ops, 0 < op.time) → Refines t k c →
      Refines (runOps src t ops) k (cellRun k c ops) := by
  induction ops with
  | nil => intro t c _ h; simpa [runOps, cellRun] using h
  | cons op ops ih =>
    intro t c hpos h
    have h1 := step_refines src t k c op (hpos op (by simp)) h
    have := ih (applyOp src t op) (cellStep k c op) (fun o ho => hpos o (by simp [ho])) h1
    simpa [runOps, cellRun] using this

/-- C17, history level: from the empty tree, `Get` answers what the specification answers, for
    every key and every history -/
theorem get_refines_spec (src : Option String) (ops : List (KOp K V))
    (hpos : ∀ op ∈ ops, 0 < op.time) (k : K) :
    readGet (runOps src ([] : Tree K V) ops) k = (cellRun k Cell.absent ops).read :=
  refines_read _ k _ (run_refines src k ops [] .absent hpos (by simp [Refines]))

/-! ### consequences read off the specification -/

theorem cellRun_dead (k : K) (ops : List (KOp K V)) : cellRun k (Cell.dead : Cell V) ops = .dead := by
  induction ops with
  | nil => rfl
  | cons op ops ih =>
    have : cellStep k (Cell.dead : Cell V) op = .dead := by
      cases op with
      | set w k' v => by_cases h : k' = k <;> simp [cellStep, h]
      | del w k' => by_cases h : k' = k <;> simp [cellStep, h]
    simpa [cellRun, this] using ih

/-- sticky deletes over whole histories: once a `Tombstone` of `k` occurs, `Get k` is absent
    after ANY continuation (any number of later `Set`s at any later or earlier time) -/
theorem tombstone_is_forever (src : Option String) (pre post : List (KOp K V)) (w : Int) (k : K)
    (hpos : ∀ op ∈ pre ++ KOp.del w k :: post, 0 < op.time) :
    readGet (runOps src ([] : Tree K V) (pre ++ KOp.del w k :: post)) k = none := by
  rw [get_refines_spec src _ hpos k]
  have : cellRun k (Cell.absent : Cell V) (pre ++ KOp.del w k :: post) = .dead := by
    simp only [cellRun, List.foldl_append, List.foldl_cons]
    have : cellStep k (List.foldl (cellStep k) (Cell.absent : Cell V) pre) (KOp.del w k) = .dead := by
      simp [cellStep]
    rw [this]; exact cellRun_dead k post
  rw [this]; rfl

/-- a live cell's time never decreases along a history without tombstones of `k` -/
theorem live_time_monotone (k : K) (ops : List (KOp K V)) :
    ∀ (w0 : Int) (v0 : V), (∀ op ∈ ops, ∀ w, op ≠ KOp.del w k) →
      ∃ w v, cellRun k (Cell.live w0 v0) ops = .live w v ∧ w0 ≤ w := by
  induction ops with
  | nil => intro w0 v0 _; exact ⟨w0, v0, rfl, Int.le_refl _⟩
  | cons op ops ih =>
    intro w0 v0 hnd
    have hnd' : ∀ o ∈ ops, ∀ w, o ≠ KOp.del w k := fun o ho => hnd o (by simp [ho])
    cases op with
    | set w k' v =>
      by_cases hk : k' = k
      · by_cases hle : w0 ≤ w
        · obtain ⟨w', v', h1, h2⟩ := ih w v hnd'
          refine ⟨w', v', ?_, by omega⟩
          simpa [cellRun, cellStep, hk, hle] using h1
        · obtain ⟨w', v', h1, h2⟩ := ih w0 v0 hnd'
          refine ⟨w', v', ?_, h2⟩
          simpa [cellRun, cellStep, hk, hle] using h1
      · obtain ⟨w', v', h1, h2⟩ := ih w0 v0 hnd'
        refine ⟨w', v', ?_, h2⟩
        simpa [cellRun, cellStep, hk] using h1
    | del w k' =>
      have hk : k' ≠ k := by
        intro he; exact hnd (KOp.del w k') (by simp) w (by rw [he])
      obtain ⟨w', v', h1, h2⟩ := ih w0 v0 hnd'
      refine ⟨w', v', ?_, h2⟩
      simpa [cellRun, cellStep, hk] using h1

/-- last write wins over whole histories: a `Set` that is not older than anything the key holds
    is what `Get` returns as long as only strictly older `Set`s (and calls on other keys) follow -/
theorem latest_set_is_read (src : Option String) (pre post : List (KOp K V)) (w : Int) (k : K) (v : V)
    (hpos : ∀ op ∈ pre ++ KOp.set w k v :: post, 0 < op.time)
    (hpre : ∀ w0 v0, cellRun k (Cell.absent : Cell V) pre = .live w0 v0 → w0 ≤ w)
    (hpre' : cellRun k (Cell.absent : Cell V) pre ≠ .dead)
    (hpost : ∀ op ∈ post, op.key = k → ∃ w' v', op = KOp.set w' k v' ∧ w' < w) :
    readGet (runOps src ([] : Tree K V) (pre ++ KOp.set w k v :: post)) k = some (w, v) := by
  rw [get_refines_spec src _ hpos k]
  have h1 : cellStep k (cellRun k (Cell.absent : Cell V) pre) (KOp.set w k v) = .live w v := by
    cases hc : cellRun k (Cell.absent : Cell V) pre with
    | absent => simp [cellStep]
    | live w0 v0 => simp [cellStep, hpre w0 v0 hc]
    | dead => exact absurd hc hpre'
  have h2 : ∀ (post : List (KOp K V)),
      (∀ op ∈ post, op.key = k → ∃ w' v', op = KOp.set w' k v' ∧ w' < w) →
      cellRun k (Cell.live w v) post = .live w v := by
    intro post
    induction post with
    | nil => intro _; rfl
    | cons op post ih =>
      intro hp
      have hs : cellStep k (Cell.live w v) op = .live w v := by
        by_cases hk : op.key = k
        · obtain ⟨w', v', he, hlt⟩ := hp op (by simp) hk
          subst he
          have : ¬ w ≤ w' := by omega
          simp [cellStep, this]
        · cases op with
          | set w' k' v' => simp only [KOp.key] at hk; simp [cellStep, hk]
          | del w' k' => simp only [KOp.key] at hk; simp [cellStep, hk]
      have := ih (fun o ho => hp o (by simp [ho]))
      simpa [cellRun, hs] using this
  have : cellRun k (Cell.absent : Cell V) (pre ++ KOp.set w k v :: post) = .live w v := by
    simp only [cellRun, List.foldl_append, List.foldl_cons]
    have h1' : cellStep k (List.foldl (cellStep k) (Cell.absent : Cell V) pre) (KOp.set w k v) = .live w v := h1
    rw [h1']; exact h2 post hpost
  rw [this]; rfl

/-! ### non-vacuity: concrete histories, both sides computed -/

example :
    let ops : List (KOp Nat Nat) :=
      [.set 5 1 10, .set 3 1 11, .set 5 1 12, .del 9 2, .set 20 2 7, .set 4 3 1, .del 2 3, .set 8 3 2]
    readGet (runOps (some "v0") [] ops) 1 = some (5, 12) ∧
    readGet (runOps (some "v0") [] ops) 2 = none ∧
    readGet (runOps (some "v0") [] ops) 3 = none ∧
    (cellRun 1 Cell.absent ops).read = some (5, 12) ∧
    (∀ op ∈ ops, 0 < op.time) := by decide

end S3db.Props.C17Hist
