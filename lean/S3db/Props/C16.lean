import S3db.Model.Codec
import S3db.Gen.Facts
/-!
# C16 — every committed version is complete and well-formed on its own (codec part)

Every stored node decodes to exactly what was encoded: keys, all four fields of every entry,
and the child links *including absent ones*.  Stated for the **generated** facts.  Completeness
of a version (all nodes stored before the version object) is `C04.nodes_before_root`; immutability
of stored objects is `C11.version_facts` (names are hashes of the bytes) plus the request-log
oracle; "a no-op commit writes nothing" is checked on the request log by the `sql` stream.
-/
namespace S3db.Props.C16
open S3db S3db.Codec

abbrev F : Facts := S3db.Gen.facts

variable {R : Type}

theorem entry_roundtrip (e : Entry R) : unmarshalEntry F (marshalEntry F e) = e := by
  cases e; rfl

theorem link_roundtrip (l : Option String) (h : l ≠ some "") : unmarshalLink F (marshalLink F l) = l := by
  cases l with
  | none => rfl
  | some s =>
    have hs : s ≠ "" := fun e => h (by rw [e])
    simp [marshalLink, unmarshalLink, hs]

/-- **codec_roundtrip**: decoding what was encoded gives back the node, absent links included -/
theorem codec_roundtrip (n : Node R) (h : NodeWF n) : unmarshal F (marshal F n) = n := by
  obtain ⟨keys, values, links⟩ := n
  have hk : F.codecKeysAndSizes = true := rfl
  simp only [unmarshal, marshal, hk, if_true, List.map_map, Node.mk.injEq, true_and]
  constructor
  · have : (unmarshalEntry F ∘ marshalEntry F) = (id : Entry R → Entry R) := funext entry_roundtrip
    rw [this, List.map_id]
  · have hl : ∀ l ∈ links, (unmarshalLink F ∘ marshalLink F) l = l := fun l hl => link_roundtrip l (h l hl)
    calc links.map (unmarshalLink F ∘ marshalLink F) = links.map id := List.map_congr_left hl
      _ = links := List.map_id links

/-- the number of keys, entries and links is preserved (sparse interior nodes keep their shape) -/
theorem codec_preserves_shape (n : Node R) :
    (unmarshal F (marshal F n)).values.length = n.values.length ∧
    (unmarshal F (marshal F n)).links.length = n.links.length := by
  simp [unmarshal, marshal]

theorem codec_facts :
    F.marshalNilLinkAs = "emptyString" ∧ F.unmarshalEmptyLinkAs = "nil" ∧ F.codecKeysAndSizes = true ∧
    F.marshalFields = ["ModEpochNanos<-ModEpochNanos", "PreviousRoot<-PreviousRoot", "TombstoneSinceEpochNanos<-TombstoneSinceEpochNanos", "Value<-row"] ∧
    F.unmarshalFields = ["ModEpochNanos<-ModEpochNanos", "PreviousRoot<-PreviousRoot", "TombstoneSinceEpochNanos<-TombstoneSinceEpochNanos", "Value<-Value"] := by
  decide

/-- **every object a version refers to exists**: the flush precedes the version PUT and both are
    error-checked (`C04.nodes_before_root` is the theorem over these facts); and a commit that
    fails keeps the snapshot taken at BEGIN, which the ROLLBACK that follows restores — otherwise
    the in-memory tree keeps nodes that were marked stored although their PUT failed, and the
    next acknowledged version links to objects that do not exist -/
theorem complete_version_facts :
    F.commitOrder = ["flushNodes", "putRoot", "retireParents"] ∧ F.commitChecksErrors = true ∧
    F.retireOrder = ["putMerged", "delCurrent"] ∧ F.retireStopsOnPutError = true ∧
    F.commitKeepsSnapshotOnError = true ∧ F.rollbackRestoresSnapshot = true ∧ F.beginClonesTree = true ∧
    F.nameIsHashOfStoredBytes = true := by
  decide

/-- the defect the F1 fix removed, on the model: copying the empty string back as a link makes a
    leaf's absent child the link `""`, which the tree then tries to load -/
theorem old_unmarshal_breaks_absent_links :
    let F0 : Facts := { F with unmarshalEmptyLinkAs := "emptyString" }
    let n : Node Nat := { keys := [], values := [], links := [none, some "h1"] }
    (unmarshal F0 (marshal F0 n)).links = [some "", some "h1"] := by
  decide

/-- non-vacuity: a sparse interior node with absent and present children is well-formed -/
example : NodeWF ({ keys := [], values := [⟨5, "v1", 0, some 7⟩], links := [none, some "abc", none] } : Node Nat) := by
  intro l hl; simp at hl; rcases hl with h | h | h <;> simp [h]

end S3db.Props.C16
