import S3db.Lemmas.RowMerge
import S3db.Lemmas.TableCells
import S3db.Gen.Facts
/-!
# C01 — multi-writer merge converges regardless of merge order, grouping and repetition

Property theorems only.  `evalTables` is the code's fold (`acc.Clone().Merge(graft)`, with
`mergeValues`/`MergeRows` as the custom merge) along an arbitrary merge plan.
-/
namespace S3db.Props.C01
open S3db S3db.AList S3db.Row S3db.Table

variable {K V : Type} [DecidableEq K] [DecidableEq V]

/-- executing a merge plan over the table versions `vs` -/
def evalTables (vs : Nat → Table K V) : Sel.Plan → Table K V
  | .leaf i => vs i
  | .node p q => mergeTables (evalTables vs p) (evalTables vs q)

def statusCell (e : Option (SEntry V)) : Option Status := e.map (·.row.status)
def colCell (c : String) (e : Option (SEntry V)) : Option (ACol V) := e.bind fun e => lookup c e.row.cols
def modCell (e : Option (SEntry V)) : Option Int := e.map (·.mod)

/-- hypotheses on the family of versions: well-formed, written through SQL (`RowInv`), and no
    two different statuses / column assignments of one key carry the same time -/
structure Family (S : List String) (vs : Nat → Table K V) : Prop where
  nodup : ∀ i, NodupKeys (vs i)
  inv   : ∀ i k e, lookup k (vs i) = some e → RowInv S e.row
  stat  : ∀ k i j e e', lookup k (vs i) = some e → lookup k (vs j) = some e' →
            StatusR e.row.status e'.row.status
  col   : ∀ k c i j e e' x y, lookup k (vs i) = some e → lookup k (vs j) = some e' →
            lookup c e.row.cols = some x → lookup c e'.row.cols = some y → ColR x y

theorem nodup_evalTables (vs : Nat → Table K V) (hn : ∀ i, NodupKeys (vs i)) :
    ∀ p, NodupKeys (evalTables vs p)
  | .leaf i => hn i
  | .node p _ => Kv.nodupKeys_mergeTrees _ _ (nodup_evalTables vs hn p)

omit [DecidableEq V] in
theorem Family.statR {S : List String} {vs : Nat → Table K V} (F : Family S vs) (k : K) :
    ∀ i j x y, statusCell (lookup k (vs i)) = some x → statusCell (lookup k (vs j)) = some y →
      StatusR x y := by
  intro i j x y hx hy
  cases hi : lookup k (vs i) with
  | none => rw [hi] at hx; cases hx
  | some e =>
    cases hj : lookup k (vs j) with
    | none => rw [hj] at hy; cases hy
    | some e' =>
      rw [hi] at hx; rw [hj] at hy
      simp only [statusCell, Option.map_some, Option.some.injEq] at hx hy
      subst hx; subst hy
      exact F.stat k i j e e' hi hj

omit [DecidableEq V] in
theorem Family.colR {S : List String} {vs : Nat → Table K V} (F : Family S vs) (k : K) (c : String) :
    ∀ i j x y, colCell c (lookup k (vs i)) = some x → colCell c (lookup k (vs j)) = some y →
      ColR x y := by
  intro i j x y hx hy
  cases hi : lookup k (vs i) with
  | none => rw [hi] at hx; cases hx
  | some e =>
    cases hj : lookup k (vs j) with
    | none => rw [hj] at hy; cases hy
    | some e' =>
      rw [hi] at hx; rw [hj] at hy
      exact F.col k c i j e e' x y hi hj hx hy

/-- every cell of every key after any plan is the cell-wise selection over the plan's leaves -/
theorem cells_of_plan (S : List String) (vs : Nat → Table K V) (F : Family S vs) (k : K) (p : Sel.Plan) :
    statusCell (lookup k (evalTables vs p)) = Sel.evalAt selStatus (fun i => statusCell (lookup k (vs i))) p ∧
    (∀ c, colCell c (lookup k (evalTables vs p)) = Sel.evalAt selCol (fun i => colCell c (lookup k (vs i))) p) ∧
    (∀ e, lookup k (evalTables vs p) = some e → RowInv S e.row) := by
  induction p with
  | leaf i => exact ⟨rfl, fun _ => rfl, fun e he => F.inv i k e he⟩
  | node p q ihp ihq =>
    obtain ⟨hsp, hcp, hip⟩ := ihp
    obtain ⟨hsq, hcq, hiq⟩ := ihq
    have hl : lookup k (evalTables vs (.node p q))
        = Kv.mergeOpt mergeEntry (lookup k (evalTables vs p)) (lookup k (evalTables vs q)) :=
      Kv.lookup_mergeTrees mergeEntry _ (nodup_evalTables vs F.nodup q) _ k
    rw [hl]
    refine ⟨?_, ?_, mergeOpt_inv S _ _ hip hiq⟩
    · show _ = Sel.selOpt selStatus _ _
      rw [← hsp, ← hsq]
      apply mergeOpt_status
      intro x y hx hy
      exact Sel.evalAt_rel statusLaws (F.statR k) p q
        (by rw [← hsp, hx]; rfl) (by rw [← hsq, hy]; rfl)
    · intro c
      show _ = Sel.selOpt selCol _ _
      rw [← hcp c, ← hcq c]
      apply mergeOpt_col S _ _ hip hiq
      intro x y a b hx hy ha hb
      exact Sel.evalAt_rel colLaws (F.colR k c) p q
        (by rw [← hcp c, hx]; exact ha) (by rw [← hcq c, hy]; exact hb)

/-- **C01 (rows)**: two readers that merged the same set of versions hold, for every key, the
    same status and the same value and time in every column — whatever the order, the grouping
    and the repetitions of their merges. -/
theorem C01_converges (S : List String) (vs : Nat → Table K V) (F : Family S vs)
    (p q : Sel.Plan) (hpq : ∀ i, i ∈ p.leaves ↔ i ∈ q.leaves) (k : K) :
    statusCell (lookup k (evalTables vs p)) = statusCell (lookup k (evalTables vs q)) ∧
    ∀ c, colCell c (lookup k (evalTables vs p)) = colCell c (lookup k (evalTables vs q)) := by
  obtain ⟨hsp, hcp, _⟩ := cells_of_plan S vs F k p
  obtain ⟨hsq, hcq, _⟩ := cells_of_plan S vs F k q
  refine ⟨?_, fun c => ?_⟩
  · rw [hsp, hsq]; exact Sel.evalAt_indep statusLaws (F.statR k) p q hpq
  · rw [hcp c, hcq c]; exact Sel.evalAt_indep colLaws (F.colR k c) p q hpq

/-- what SQL shows is the same: same keys visible, same value in every column -/
theorem C01_visible (S : List String) (vs : Nat → Table K V) (F : Family S vs)
    (p q : Sel.Plan) (hpq : ∀ i, i ∈ p.leaves ↔ i ∈ q.leaves) (k : K) :
    (visibleRow (evalTables vs p) k).isSome = (visibleRow (evalTables vs q) k).isSome ∧
    ∀ c, (visibleRow (evalTables vs p) k).bind (lookup c) = (visibleRow (evalTables vs q) k).bind (lookup c) := by
  obtain ⟨hs, hc⟩ := C01_converges S vs F p q hpq k
  rw [visibleRow_eq, visibleRow_eq]
  exact ⟨visible_isSome_of_status _ _ hs, fun c => visible_col_of_cells _ _ c hs (hc c)⟩

/-- **merging adds nothing when nothing new was committed**: merging again a version (or a merge of
    versions) that is already included leaves every cell unchanged -/
theorem C01_remerge_absorbs (S : List String) (vs : Nat → Table K V) (F : Family S vs)
    (p q : Sel.Plan) (hsub : ∀ i, i ∈ q.leaves → i ∈ p.leaves) (k : K) :
    statusCell (lookup k (evalTables vs (.node p q))) = statusCell (lookup k (evalTables vs p)) ∧
    ∀ c, colCell c (lookup k (evalTables vs (.node p q))) = colCell c (lookup k (evalTables vs p)) := by
  obtain ⟨hsp, hcp, _⟩ := cells_of_plan S vs F k p
  obtain ⟨hsn, hcn, _⟩ := cells_of_plan S vs F k (.node p q)
  refine ⟨?_, fun c => ?_⟩
  · rw [hsp, hsn]; exact Sel.evalAt_absorb statusLaws (F.statR k) p q hsub
  · rw [hcp c, hcn c]; exact Sel.evalAt_absorb colLaws (F.colR k c) p q hsub

/-- `MergeRows` is **not** a join on arbitrary hand-built rows (kept so that nobody mistakes it
    for one): the invariant `RowInv` is what SQL-written rows add -/
theorem merge_not_join_unreachable :
    ∃ x y z : ARow Nat, ∃ c : String,
      lookup c (mergeRows (mergeRows x y) z).cols ≠ lookup c (mergeRows x (mergeRows y z)).cols :=
  mergeRows_not_assoc_without_inv

/-- the decision points of `MergeRows` / `mergeValues` that `Model/Row.lean` and `Model/Table.lean`
    follow, as read from the source on this run (the models are also run against the real
    functions by the `rows` and `tbl` streams) -/
theorem merge_facts :
    S3db.Gen.facts.mergeStatusCond = "!t1.Add(r1.DeleteUpdateOffset.AsDuration()).After(t2.Add(r2.DeleteUpdateOffset.AsDuration()))" ∧
    S3db.Gen.facts.mergeStatusBranchesAsExpected = true ∧ S3db.Gen.facts.mergeColumnSwitchAsExpected = true ∧
    S3db.Gen.facts.deletedRowsKeepColumns = true ∧ S3db.Gen.facts.hideAndAdjAsExpected = true ∧
    S3db.Gen.facts.mergeValuesAsExpected = true := by
  decide

/-! ## the hypotheses are met by what SQL statements produce -/

/-- the table invariant: every stored row satisfies `RowInv` -/
def TableInv (S : List String) (t : Table K V) : Prop :=
  NodupKeys t ∧ ∀ k e, lookup k t = some e → RowInv S e.row

/-- an INSERT assigns exactly the declared non-key columns (SQLite passes every column) -/
def Covers (S : List String) (vals : AList String V) : Prop :=
  (∀ c, c ∈ S ↔ c ∈ keys vals)

theorem tableInv_insert (S : List String) (t t' : Table K V) (when : Int) (k : K) (vals : AList String V)
    (hc : Covers S vals) (ht : TableInv S t) (h : insertRow t when k vals = .ok t') : TableInv S t' := by
  rcases insertRow_ok h with ⟨_, rfl⟩ | ⟨e, he, _, _, rfl⟩
  · exact inv_insert S ht.1 ht.2 k _ (rowInv_insDelta S when vals hc)
  · exact inv_insert S ht.1 ht.2 k _
      (rowInv_mergeRows S _ _ (ht.2 k e he) (rowInv_insDelta S when vals hc))

theorem tableInv_update (S : List String) (t : Table K V) (when : Int) (k : K) (vals : AList String V)
    (hc : ∀ c, c ∈ keys vals → c ∈ S) (ht : TableInv S t) : TableInv S (updateRow t when k vals) := by
  by_cases h : ∀ e, lookup k t = some e → e.row.deleted = true
  · rw [updateRow_noop h]; exact ht
  · obtain ⟨e, he, hl⟩ := exists_live_of_not h
    rw [updateRow_live he hl]
    exact inv_insert S ht.1 ht.2 k _ (rowInv_updateMerge S _ (ht.2 k e he) hl when vals hc)

theorem tableInv_delete (S : List String) (t : Table K V) (when : Int) (k : K)
    (ht : TableInv S t) : TableInv S (deleteRow t when k) := by
  rw [deleteRow_eq]
  apply inv_insert S ht.1 ht.2
  cases he : lookup k t with
  | none => exact rowInv_delDelta S when
  | some e => exact rowInv_mergeRows S _ _ (ht.2 k e he) (rowInv_delDelta S when)

theorem tableInv_merge (S : List String) (a g : Table K V) (ha : TableInv S a) (hg : TableInv S g) :
    TableInv S (mergeTables a g) := by
  refine ⟨Kv.nodupKeys_mergeTrees _ _ ha.1, fun k e he => ?_⟩
  rw [mergeTables, Kv.lookup_mergeTrees mergeEntry g hg.1 a k] at he
  exact mergeOpt_inv S _ _ (ha.2 k) (hg.2 k) e he

/-- non-vacuity: a three-version family (delete / re-insert / concurrent update) satisfies the
    hypotheses, and two different groupings agree on it -/
example :
    let ins1 : ARow Nat := { deleted := false, dut := 1, cols := [("b", ⟨10, 1⟩), ("c", ⟨20, 1⟩)] }
    let x : ARow Nat := mergeRows ins1 { deleted := true, dut := 5, cols := [] }
    let y : ARow Nat := mergeRows x { deleted := false, dut := 10, cols := [("b", ⟨11, 10⟩), ("c", ⟨21, 10⟩)] }
    let z : ARow Nat := mergeRows ins1 { deleted := false, dut := 1, cols := [("c", ⟨22, 12⟩)] }
    RowInv ["b", "c"] x ∧ RowInv ["b", "c"] y ∧ RowInv ["b", "c"] z ∧
    lookup "c" (mergeRows (mergeRows x y) z).cols = lookup "c" (mergeRows x (mergeRows y z)).cols ∧
    lookup "c" (mergeRows (mergeRows x y) z).cols = some ⟨22, 12⟩ := by
  intro ins1 x y z
  exact ⟨rowInv_of_rowInvB (by decide), rowInv_of_rowInvB (by decide), rowInv_of_rowInvB (by decide),
    by decide, by decide⟩

end S3db.Props.C01
