import S3db.Lemmas.RowMerge
/-!
# C01 — multi-writer merge converges regardless of merge order, grouping and repetition

Property theorems only.  `evalTables` is the code's fold (`acc.Clone().Merge(graft)`, with
`mergeValues`/`MergeRows` as the custom merge) along an arbitrary merge plan.
-/
namespace S3db.Props.C01
open S3db S3db.AList S3db.Row S3db.Table

variable {K V : Type} [DecidableEq K] [DecidableEq V]

/-- executing a merge plan over the table versions `vs` -/
def evalTables (vs : Nat → Table K V) : Sel.Plan → Table K V
  | .leaf i => vs i
  | .node p q => mergeTables (evalTables vs p) (evalTables vs q)

def statusCell (e : Option (SEntry V)) : Option Status := e.map (·.row.status)
def colCell (c : String) (e : Option (SEntry V)) : Option (ACol V) := e.bind fun e => lookup c e.row.cols
def modCell (e : Option (SEntry V)) : Option Int := e.map (·.mod)

/-- hypotheses on the family of versions: well-formed, written through SQL (`RowInv`), and no
    two different statuses / column assignments of one key carry the same time -/
structure Family (S : List String) (vs : Nat → Table K V) : Prop where
  nodup : ∀ i, NodupKeys (vs i)
  inv   : ∀ i k e, lookup k (vs i) = some e → RowInv S e.row
  stat  : ∀ k i j e e', lookup k (vs i) = some e → lookup k (vs j) = some e' →
            StatusR e.row.status e'.row.status
  col   : ∀ k c i j e e' x y, lookup k (vs i) = some e → lookup k (vs j) = some e' →
            lookup c e.row.cols = some x → lookup c e'.row.cols = some y → ColR x y

/-- every cell of every key after any plan is the cell-wise selection over the plan's leaves -/
theorem cells_of_plan (S : List String) (vs : Nat → Table K V) (F : Family S vs) (k : K) (p : Sel.Plan) :
    statusCell (lookup k (evalTables vs p)) = Sel.evalAt selStatus (fun i => statusCell (lookup k (vs i))) p ∧
    (∀ c, colCell c (lookup k (evalTables vs p)) = Sel.evalAt selCol (fun i => colCell c (lookup k (vs i))) p) ∧
    (∀ e, lookup k (evalTables vs p) = some e → RowInv S e.row) := by
  sorry

/-- **C01 (rows)**: two readers that merged the same set of versions hold, for every key, the
    same status and the same value and time in every column — whatever the order, the grouping
    and the repetitions of their merges. -/
theorem C01_converges (S : List String) (vs : Nat → Table K V) (F : Family S vs)
    (p q : Sel.Plan) (hpq : ∀ i, i ∈ p.leaves ↔ i ∈ q.leaves) (k : K) :
    statusCell (lookup k (evalTables vs p)) = statusCell (lookup k (evalTables vs q)) ∧
    ∀ c, colCell c (lookup k (evalTables vs p)) = colCell c (lookup k (evalTables vs q)) := by
  sorry

/-- what SQL shows is the same: same keys visible, same value in every column -/
theorem C01_visible (S : List String) (vs : Nat → Table K V) (F : Family S vs)
    (p q : Sel.Plan) (hpq : ∀ i, i ∈ p.leaves ↔ i ∈ q.leaves) (k : K) :
    (visibleRow (evalTables vs p) k).isSome = (visibleRow (evalTables vs q) k).isSome ∧
    ∀ c, (visibleRow (evalTables vs p) k).bind (lookup c) = (visibleRow (evalTables vs q) k).bind (lookup c) := by
  sorry

/-- **merging adds nothing when nothing new was committed**: merging again a version (or a merge of
    versions) that is already included leaves every cell unchanged -/
theorem C01_remerge_absorbs (S : List String) (vs : Nat → Table K V) (F : Family S vs)
    (p q : Sel.Plan) (hsub : ∀ i, i ∈ q.leaves → i ∈ p.leaves) (k : K) :
    statusCell (lookup k (evalTables vs (.node p q))) = statusCell (lookup k (evalTables vs p)) ∧
    ∀ c, colCell c (lookup k (evalTables vs (.node p q))) = colCell c (lookup k (evalTables vs p)) := by
  sorry

/-- `MergeRows` is **not** a join on arbitrary hand-built rows (kept so that nobody mistakes it
    for one): the invariant `RowInv` is what SQL-written rows add -/
theorem merge_not_join_unreachable :
    ∃ x y z : ARow Nat, ∃ c : String,
      lookup c (mergeRows (mergeRows x y) z).cols ≠ lookup c (mergeRows x (mergeRows y z)).cols :=
  mergeRows_not_assoc_without_inv

/-! ## the hypotheses are met by what SQL statements produce -/

/-- the table invariant: every stored row satisfies `RowInv` -/
def TableInv (S : List String) (t : Table K V) : Prop :=
  NodupKeys t ∧ ∀ k e, lookup k t = some e → RowInv S e.row

/-- an INSERT assigns exactly the declared non-key columns (SQLite passes every column) -/
def Covers (S : List String) (vals : AList String V) : Prop :=
  (∀ c, c ∈ S ↔ c ∈ keys vals)

theorem tableInv_insert (S : List String) (t t' : Table K V) (when : Int) (k : K) (vals : AList String V)
    (hc : Covers S vals) (ht : TableInv S t) (h : insertRow t when k vals = .ok t') : TableInv S t' := by
  sorry

theorem tableInv_update (S : List String) (t : Table K V) (when : Int) (k : K) (vals : AList String V)
    (hc : ∀ c, c ∈ keys vals → c ∈ S) (ht : TableInv S t) : TableInv S (updateRow t when k vals) := by
  sorry

theorem tableInv_delete (S : List String) (t : Table K V) (when : Int) (k : K)
    (ht : TableInv S t) : TableInv S (deleteRow t when k) := by
  sorry

theorem tableInv_merge (S : List String) (a g : Table K V) (ha : TableInv S a) (hg : TableInv S g) :
    TableInv S (mergeTables a g) := by
  sorry

/-- non-vacuity: a three-version family (delete / re-insert / concurrent update) satisfies the
    hypotheses, and two different groupings agree on it -/
example :
    let ins1 : ARow Nat := { deleted := false, dut := 1, cols := [("b", ⟨10, 1⟩), ("c", ⟨20, 1⟩)] }
    let x : ARow Nat := mergeRows ins1 { deleted := true, dut := 5, cols := [] }
    let y : ARow Nat := mergeRows x { deleted := false, dut := 10, cols := [("b", ⟨11, 10⟩), ("c", ⟨21, 10⟩)] }
    let z : ARow Nat := mergeRows ins1 { deleted := false, dut := 1, cols := [("c", ⟨22, 12⟩)] }
    RowInv ["b", "c"] x ∧ RowInv ["b", "c"] y ∧ RowInv ["b", "c"] z ∧
    lookup "c" (mergeRows (mergeRows x y) z).cols = lookup "c" (mergeRows x (mergeRows y z)).cols ∧
    lookup "c" (mergeRows (mergeRows x y) z).cols = some ⟨22, 12⟩ := by
  sorry

end S3db.Props.C01
