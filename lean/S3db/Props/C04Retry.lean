import S3db.Model.CommitRetry
import S3db.Gen.Facts
/-!
# C04 (continued) — acknowledged means stored, also for a `Commit` retried after a failure

Property theorems about the handle-state model in `Model/CommitRetry.lean`; the two fields it
relies on are tied to kv/kv.go by the fact `commitRemembersFailure` (`C04.ack_facts`).
-/
namespace S3db.Props.C04Retry
open S3db S3db.CommitRetry

abbrev F : Facts := S3db.Gen.facts

/-! ### acknowledged means stored, also for a retried `Commit` (F39) -/

theorem commit_step_inv (h : H) (e : Ev) (hi : HInv h) : HInv (step F h e).1 := by
  have hF : F.commitRemembersFailure = true := by decide
  obtain ⟨p, c, u, q⟩ := h
  cases e with
  | set => intro _; exact Or.inl rfl
  | commit flushOK putOK =>
    simp only [step, looksDirty, hF]
    cases p <;> cases c <;> cases u <;> cases q <;> cases flushOK <;> cases putOK <;>
      simp_all [HInv]

/-- **an acknowledged `Commit` leaves nothing pending**, whatever failed before it: either this
    very call stored the version, or there was nothing to store -/
theorem ack_means_nothing_pending (h : H) (flushOK putOK : Bool) (hi : HInv h)
    (hack : (step F h (.commit flushOK putOK)).2 = .ack) :
    (step F h (.commit flushOK putOK)).1.pending = false := by
  have hF : F.commitRemembersFailure = true := by decide
  obtain ⟨p, c, u, q⟩ := h
  simp only [step, looksDirty, hF] at hack ⊢
  cases p <;> cases c <;> cases u <;> cases q <;> cases flushOK <;> cases putOK <;>
    simp_all [HInv]

/-- … along every history of a handle (every reachable state satisfies the invariant) -/
theorem commit_run_inv (es : List Ev) (h : H) (hi : HInv h) : HInv (run F h es).1 := by
  induction es generalizing h with
  | nil => simpa [run] using hi
  | cons e es ih =>
    simp only [run]
    exact ih _ (commit_step_inv h e hi)

/-- the defect F39, on the model without the two fields: Set; Commit (flush fails); Commit —
    the retry is acknowledged with the change still pending -/
theorem without_memory_retry_acks_unstored :
    let F0 : Facts := { F with commitRemembersFailure := false }
    run F0 {} [.set, .commit false true, .commit true true] =
      ({ pending := true, clean := true, unstored := false, poisoned := true }, [.na, .err, .ack]) := by
  decide

/-- the same history on the current source: the retry is refused -/
example : (run F {} [.set, .commit false true, .commit true true]).2 = [.na, .err, .err] := by decide
/-- … and after a failed version PUT the retry stores the version -/
example : run F {} [.set, .commit true false, .commit true true] = ({}, [.na, .err, .ack]) := by decide

/-! ### … and for the connection that carries on after a failed COMMIT (F76) -/

theorem table_step_inv (t : T) (e : TEv) (hi : TInv t) : TInv (tstep F t e).1 := by
  have hF : F.failedCommitReopens = true := by decide
  have hV : F.vacuumRemembersFailedCommit = true := by decide
  obtain ⟨a, b, c, d⟩ := t
  cases e with
  | vacuum reopenOK commitOK =>
    simp only [tstep, hF, hV]
    cases a <;> cases b <;> cases c <;> cases d <;> cases reopenOK <;> cases commitOK <;> simp_all [TInv]
  | begin reopenOK =>
    simp only [tstep, hF]
    cases a <;> cases b <;> cases c <;> cases d <;> cases reopenOK <;> simp_all [TInv]
  | commit flushOK putOK =>
    simp only [tstep]
    cases a <;> cases b <;> cases c <;> cases d <;> cases flushOK <;> cases putOK <;> simp_all [TInv]
  | rollback =>
    simp only [tstep]
    cases a <;> cases b <;> cases c <;> cases d <;> simp_all [TInv]

theorem table_run_inv (es : List TEv) (t : T) (hi : TInv t) : TInv (trun F t es).1 := by
  induction es generalizing t with
  | nil => simpa [trun] using hi
  | cons e es ih =>
    simp only [trun]
    exact ih _ (table_step_inv t e hi)

/-- **no acknowledged COMMIT publishes a version with a link to a node that was never stored**,
    whatever failed on the connection before and however often -/
theorem no_dangling_ack_step (t : T) (e : TEv) (hi : TInv t) : (tstep F t e).2 ≠ .ackDangling := by
  have hF : F.failedCommitReopens = true := by decide
  have hV : F.vacuumRemembersFailedCommit = true := by decide
  obtain ⟨a, b, c, d⟩ := t
  cases e with
  | vacuum reopenOK commitOK =>
    simp only [tstep, hF, hV]
    cases a <;> cases b <;> cases c <;> cases d <;> cases reopenOK <;> cases commitOK <;> simp_all [TInv]
  | begin reopenOK =>
    simp only [tstep, hF]
    cases a <;> cases b <;> cases c <;> cases d <;> cases reopenOK <;> simp_all [TInv]
  | commit flushOK putOK =>
    simp only [tstep]
    cases a <;> cases b <;> cases c <;> cases d <;> cases flushOK <;> cases putOK <;> simp_all [TInv]
  | rollback => simp [tstep]

theorem no_dangling_ack (es : List TEv) (t : T) (hi : TInv t) : .ackDangling ∉ (trun F t es).2 := by
  induction es generalizing t with
  | nil => simp [trun]
  | cons e es ih =>
    simp only [trun, List.mem_cons, not_or]
    exact ⟨fun h => no_dangling_ack_step t e hi h.symm, ih _ (table_step_inv t e hi)⟩

/-- the defect F76 on the model without the field: a COMMIT whose flush fails, SQLite's rollback,
    and the next transaction's COMMIT is acknowledged with a dangling link -/
theorem without_reopen_next_commit_dangles :
    let F0 : Facts := { F with failedCommitReopens := false }
    (trun F0 {} [.begin true, .commit false true, .rollback, .begin true, .commit true true]).2 =
      [.ok, .err, .ok, .ok, .ackDangling] := by
  decide

/-- the defect F94 on the model that forgets a failed vacuum commit: the next transaction's COMMIT
    is acknowledged from the tainted tree -/
theorem without_vacuum_memory_next_commit_dangles :
    let F0 : Facts := { F with vacuumRemembersFailedCommit := false }
    (trun F0 {} [.vacuum true false, .begin true, .commit true true]).2 = [.err, .ok, .ackDangling] ∧
    (trun F {} [.vacuum true false, .begin true, .commit true true]).2 = [.err, .ok, .ack] := by
  decide

/-- the same history on the current source: the second transaction starts from the bucket -/
example : (trun F {} [.begin true, .commit false true, .rollback, .begin true, .commit true true]).2 =
    [.ok, .err, .ok, .ok, .ack] := by decide
/-- … and while the bucket is still unreachable the transaction is refused, not started on the tainted tree -/
example : (trun F {} [.begin true, .commit false true, .rollback, .begin false, .begin true, .commit true true]).2 =
    [.ok, .err, .ok, .err, .ok, .ack] := by decide
example : TInv {} := by simp [TInv]

end S3db.Props.C04Retry
