import S3db.Lemmas.RowMerge
import S3db.Lemmas.TableCells
import S3db.Props.C01
/-!
# C02 — conflicts resolve as documented: per-column last-write-wins, sticky deletes

Every statement contributes *cells* for its key: INSERT a status `(t, live)` and every column
`@t`; DELETE a status `(t, deleted)`; UPDATE the assigned columns `@t` (and no new status: it
re-states the insert time of the row it saw).  The `local_*` theorems show that executing a
statement merges exactly those cells into the stored row; `C01.cells_of_plan` shows that
merging versions merges cells; so every cell of every version is the selection over the
statements it has seen, and `status_latest` / `column_latest` say which one that is.
-/
namespace S3db.Props.C02
open S3db S3db.AList S3db.Row S3db.Table S3db.Props.C01

variable {K V : Type} [DecidableEq K] [DecidableEq V]
set_option linter.unusedSectionVars false

/-! ### which cell wins: the latest -/

/-- each row's status is decided by the INSERT or DELETE with the greatest time -/
theorem status_latest (v : Nat → Option Status)
    (hR : ∀ i j x y, v i = some x → v j = some y → StatusR x y)
    (p : Sel.Plan) (s : Status) (h : Sel.evalAt selStatus v p = some s) :
    (∃ i ∈ p.leaves, v i = some s) ∧ ∀ i ∈ p.leaves, ∀ s', v i = some s' → s'.dut ≤ s.dut := by
  obtain ⟨hex, hd⟩ := Sel.evalAt_some statusLaws hR p s h
  exact ⟨hex, fun i hi s' hs' => selStatus_eq_left_le (hd i hi s' hs')⟩

/-- each column holds the assignment with the greatest time; an older write never overrides a
    newer one -/
theorem column_latest (v : Nat → Option (ACol V))
    (hR : ∀ i j x y, v i = some x → v j = some y → ColR x y)
    (p : Sel.Plan) (x : ACol V) (h : Sel.evalAt selCol v p = some x) :
    (∃ i ∈ p.leaves, v i = some x) ∧ ∀ i ∈ p.leaves, ∀ y, v i = some y → y.t ≤ x.t := by
  obtain ⟨hex, hd⟩ := Sel.evalAt_some colLaws hR p x h
  exact ⟨hex, fun i hi y hy => selCol_eq_left_le (hd i hi y hy)⟩

/-- a DELETE keeps the row absent whatever the columns hold — in particular against UPDATEs
    carrying a later write time — until an INSERT with a later time -/
theorem delete_sticky (t : Table K V) (k : K) (e : SEntry V) (h : lookup k t = some e)
    (hd : e.row.status.deleted = true) : visibleRow t k = none := by
  have hd' : e.row.deleted = true := hd
  rw [visibleRow_eq, h]
  simp [visible, hd']

/-! ### what a statement does to the cells of its key (and only of its key) -/

theorem local_insert (S : List String) (t t' : Table K V) (when : Int) (k : K) (vals : AList String V)
    (hc : Covers S vals) (ht : TableInv S t) (h : insertRow t when k vals = .ok t') :
    statusCell (lookup k t') = Sel.selOpt selStatus (statusCell (lookup k t)) (some ⟨when, false⟩) ∧
    (∀ c, colCell c (lookup k t') =
      Sel.selOpt selCol (colCell c (lookup k t)) ((lookup c vals).map fun v => ⟨v, when⟩)) ∧
    (∀ k', k' ≠ k → lookup k' t' = lookup k' t) :=
  cells_insert S t t' when k vals hc (ht.2 k) h

/-- an INSERT is refused exactly when the key is live, or deleted later than the insert's time -/
theorem insert_refused_iff (t : Table K V) (when : Int) (k : K) (vals : AList String V) :
    insertRow t when k vals = .error .constraintPK ↔
      ∃ e, lookup k t = some e ∧ (e.row.deleted = false ∨ e.row.dut > when) :=
  insertRow_error_iff t when k vals

set_option linter.unusedVariables false in
theorem local_update (S : List String) (t : Table K V) (when : Int) (k : K) (vals : AList String V)
    (ht : TableInv S t) (e : SEntry V) (he : lookup k t = some e) (hl : e.row.deleted = false) :
    statusCell (lookup k (updateRow t when k vals)) = statusCell (lookup k t) ∧
    (∀ c, colCell c (lookup k (updateRow t when k vals)) =
      Sel.selOpt selCol (colCell c (lookup k t)) ((lookup c vals).map fun v => ⟨v, when⟩)) ∧
    (∀ k', k' ≠ k → lookup k' (updateRow t when k vals) = lookup k' t) :=
  cells_update t when k vals e he hl

/-- an UPDATE of a key that is absent or deleted changes nothing -/
theorem update_absent_noop (t : Table K V) (when : Int) (k : K) (vals : AList String V)
    (h : visibleRow t k = none) : updateRow t when k vals = t := by
  apply updateRow_noop
  intro e he
  rw [visibleRow_eq, he] at h
  cases hd : e.row.deleted with
  | true => rfl
  | false => simp [visible, hd] at h

theorem local_delete (S : List String) (t : Table K V) (when : Int) (k : K) (ht : TableInv S t) :
    statusCell (lookup k (deleteRow t when k)) = Sel.selOpt selStatus (statusCell (lookup k t)) (some ⟨when, true⟩) ∧
    (∀ c, colCell c (lookup k (deleteRow t when k)) = colCell c (lookup k t)) ∧
    (∀ k', k' ≠ k → lookup k' (deleteRow t when k) = lookup k' t) :=
  cells_delete S t when k (ht.2 k)

/-- the statement functions as the model follows them, read from the source on this run: the
    refusal condition of INSERT, the UPDATE delta keeping the row's insert time, the merged row
    stored under the later of the two times, and the glue that passes only assigned columns -/
theorem statement_facts :
    S3db.Gen.facts.insertRefusedCond = "ok && (!old.Deleted || ot.Add(old.DeleteUpdateOffset.AsDuration()).After(t))" ∧
    S3db.Gen.facts.statementsMergeAndStoreAsExpected = true ∧
    S3db.Gen.facts.columnHonoursNoChange = true ∧ S3db.Gen.facts.valuesSkipNoChange = true := by
  decide

end S3db.Props.C02
