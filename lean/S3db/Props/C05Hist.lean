import S3db.Model.Txn
import S3db.Gen.Facts
/-!
# C05, history level — any sequence of transactions publishes exactly the committed ones

`Props/C05.lean` states atomicity for one transaction.  Here it is lifted to **every history** of
the table-side callbacks SQLite issues (`xBegin`, statements, `xSync/xCommit` that succeed or
fail, `xRollback`), of any length: the rows a connection sees outside a transaction, and the rows
it has published, are those of an abstract machine that keeps one committed table and at most one
pending copy — i.e. the effects of exactly the transactions whose COMMIT was acknowledged, in
order, and nothing of the others.  The decision points (`Begin` clones, `Rollback` restores, a
failed `Commit` keeps the snapshot) are the generated facts.
-/
namespace S3db.Props.C05Hist
open S3db S3db.AList S3db.Table S3db.Txn

abbrev F : Facts := S3db.Gen.facts

variable {K V : Type}

/-- what SQLite asks of the table; a statement is any function on the table's contents -/
inductive Ev (K V : Type) where
  | begin
  | stmt (f : Table K V → Table K V)
  | commit (ok : Bool)
  | rollback

/-- implementation side: the `Tx` of `Model/Txn.lean` plus what has reached the bucket -/
structure St (K V : Type) where
  tx : Tx K V
  pub : Table K V

def stepEv (s : St K V) : Ev K V → St K V
  | .begin => match s.tx.begin F with
    | some t => { s with tx := t }
    | none => s
  | .stmt f => { s with tx := { s.tx with live := f s.tx.live } }
  | .commit ok => { tx := s.tx.commit F ok, pub := if ok then s.tx.live else s.pub }
  | .rollback => { s with tx := s.tx.rollback F }

def runEv (s : St K V) (evs : List (Ev K V)) : St K V := evs.foldl stepEv s

/-- specification: one committed table, at most one pending copy -/
structure Spec (K V : Type) where
  committed : Table K V
  pending : Option (Table K V) := none

def specStep (a : Spec K V) : Ev K V → Spec K V
  | .begin => match a.pending with
    | none => { a with pending := some a.committed }
    | some _ => a
  | .stmt f => { a with pending := a.pending.map f }
  | .commit ok => match a.pending with
    | some p => if ok then { committed := p, pending := none } else a
    | none => a
  | .rollback => { a with pending := none }

def specRun (a : Spec K V) (evs : List (Ev K V)) : Spec K V := evs.foldl specStep a

/-- SQLite's protocol: statements and commits only inside a transaction (autocommit statements
    are wrapped in `xBegin … xCommit` by SQLite itself) -/
def wfFrom : Bool → List (Ev K V) → Prop
  | _, [] => True
  | false, .begin :: evs => wfFrom true evs
  | true, .begin :: _ => False
  | true, .stmt _ :: evs => wfFrom true evs
  | false, .stmt _ :: _ => False
  | true, .commit true :: evs => wfFrom false evs
  | true, .commit false :: evs => wfFrom true evs
  | false, .commit _ :: _ => False
  | _, .rollback :: evs => wfFrom false evs

/-- the abstraction relation -/
def Abs (s : St K V) (a : Spec K V) : Prop :=
  s.pub = a.committed ∧
  match a.pending with
  | none => s.tx.snapshot = none ∧ s.tx.live = a.committed
  | some p => s.tx.snapshot = some a.committed ∧ s.tx.live = p

theorem step_abs (s : St K V) (a : Spec K V) (ev : Ev K V) (h : Abs s a)
    (hw : wfFrom a.pending.isSome [ev]) : Abs (stepEv s ev) (specStep a ev) := by
  have hf : F.beginClonesTree = true := rfl
  have hr : F.rollbackRestoresSnapshot = true := rfl
  have hc : F.commitKeepsSnapshotOnError = true := rfl
  obtain ⟨hp, hm⟩ := h
  cases hpend : a.pending with
  | none =>
    simp only [hpend] at hm
    obtain ⟨hs, hl⟩ := hm
    cases ev with
    | begin =>
      simp [stepEv, specStep, hpend, Tx.begin, hf, hs, Abs, hp, hl]
    | stmt f => simp [hpend, wfFrom] at hw
    | commit ok => simp [hpend, wfFrom] at hw
    | rollback =>
      simp [stepEv, specStep, Tx.rollback, hs, Abs, hp, hl]
  | some p =>
    simp only [hpend] at hm
    obtain ⟨hs, hl⟩ := hm
    cases ev with
    | begin => simp [hpend, wfFrom] at hw
    | stmt f =>
      simp [stepEv, specStep, hpend, Abs, hp, hs, hl]
    | commit ok =>
      cases ok with
      | true => simp [stepEv, specStep, hpend, Tx.commit, Abs, hl]
      | false => simp [stepEv, specStep, hpend, Tx.commit, hc, Abs, hp, hs, hl]
    | rollback =>
      simp [stepEv, specStep, Tx.rollback, hs, hr, Abs, hp]

/-- whether a transaction is open after an event, as SQLite tracks it -/
theorem wf_tail (b : Bool) (ev : Ev K V) (evs : List (Ev K V)) (a : Spec K V)
    (hb : a.pending.isSome = b) (hw : wfFrom b (ev :: evs)) :
    wfFrom b [ev] ∧ wfFrom (specStep a ev).pending.isSome evs := by
  cases hpend : a.pending with
  | none =>
    simp [hpend] at hb; subst hb
    cases ev with
    | begin => simpa [wfFrom, specStep, hpend] using hw
    | stmt f => simp [wfFrom] at hw
    | commit ok => simp [wfFrom] at hw
    | rollback => simpa [wfFrom, specStep, hpend] using hw
  | some p =>
    simp [hpend] at hb; subst hb
    cases ev with
    | begin => simp [wfFrom] at hw
    | stmt f => simpa [wfFrom, specStep, hpend] using hw
    | commit ok =>
      cases ok with
      | true => simpa [wfFrom, specStep, hpend] using hw
      | false => simpa [wfFrom, specStep, hpend] using hw
    | rollback => simpa [wfFrom, specStep, hpend] using hw

/-- **every history**: the table refines the specification along any protocol-conforming list -/
theorem run_abs (evs : List (Ev K V)) :
    ∀ (s : St K V) (a : Spec K V), Abs s a → wfFrom a.pending.isSome evs →
      Abs (runEv s evs) (specRun a evs) := by
  induction evs with
  | nil => intro s a h _; simpa [runEv, specRun] using h
  | cons ev evs ih =>
    intro s a h hw
    obtain ⟨h1, h2⟩ := wf_tail _ ev evs a rfl hw
    have := ih (stepEv s ev) (specStep a ev) (step_abs s a ev h h1) h2
    simpa [runEv, specRun] using this

/-- C05 over histories, from a table opened on contents `t0`: what has been published is the
    specification's committed table, and outside a transaction the connection reads exactly that -/
theorem published_is_committed (t0 : Table K V) (evs : List (Ev K V)) (hw : wfFrom false evs) :
    let s := runEv { tx := { live := t0 }, pub := t0 } evs
    let a := specRun { committed := t0 } evs
    s.pub = a.committed ∧ (a.pending = none → s.tx.live = a.committed ∧ s.tx.snapshot = none) := by
  have h := run_abs evs { tx := { live := t0 }, pub := t0 } { committed := t0 }
    (by simp [Abs]) (by simpa using hw)
  obtain ⟨hp, hm⟩ := h
  refine ⟨hp, fun hn => ?_⟩
  simp only [hn] at hm
  exact ⟨hm.2, hm.1⟩

/-! ### consequences read off the specification -/

/-- a transaction that ends in ROLLBACK (with or without a failed COMMIT before it) leaves the
    specification — hence the table and the bucket — exactly where BEGIN found it -/
theorem spec_rolled_back_txn_is_noop (c : Table K V) (stmts : List (Table K V → Table K V))
    (failedCommit : Bool) :
    specRun ({ committed := c } : Spec K V)
      (.begin :: stmts.map .stmt ++ (if failedCommit then [.commit false, .rollback] else [.rollback]))
      = { committed := c } := by
  have hs : ∀ (p : Table K V), ∃ q, List.foldl specStep ({ committed := c, pending := some p } : Spec K V)
      (stmts.map .stmt) = { committed := c, pending := some q } := by
    induction stmts with
    | nil => intro p; exact ⟨p, rfl⟩
    | cons f fs ih => intro p; simpa [specStep] using ih (f p)
  obtain ⟨q, hq⟩ := hs c
  cases failedCommit <;> simp [specRun, specStep, List.foldl_append, hq]

/-- a transaction whose COMMIT is acknowledged publishes the composition of its statements applied
    to what was committed before — all of them or (above) none -/
theorem spec_committed_txn_applies_all (c : Table K V) (stmts : List (Table K V → Table K V)) :
    specRun ({ committed := c } : Spec K V) (.begin :: stmts.map .stmt ++ [.commit true])
      = { committed := stmts.foldl (fun t f => f t) c } := by
  have hs : ∀ (p : Table K V), List.foldl specStep ({ committed := c, pending := some p } : Spec K V)
      (stmts.map .stmt) = { committed := c, pending := some (stmts.foldl (fun t f => f t) p) } := by
    induction stmts with
    | nil => intro p; rfl
    | cons f fs ih => intro p; simpa [specStep] using ih (f p)
  simp [specRun, specStep, List.foldl_append, hs c]

/-- non-vacuity: a concrete history with a rolled-back, a failed and a committed transaction -/
example :
    let ins (k : Nat) : Table Nat Nat → Table Nat Nat :=
      fun t => insert k { mod := 1, row := { deleted := false, dut := 1, cols := [] } } t
    let evs : List (Ev Nat Nat) :=
      [.begin, .stmt (ins 1), .rollback,
       .begin, .stmt (ins 2), .commit false, .rollback,
       .begin, .stmt (ins 3), .stmt (ins 4), .commit true]
    let s := runEv { tx := { live := [] }, pub := [] } evs
    keys s.pub = [3, 4] ∧ keys s.tx.live = [3, 4] ∧ s.tx.snapshot.isNone = true := by decide

end S3db.Props.C05Hist
