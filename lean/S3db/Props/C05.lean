import S3db.Model.Txn
import S3db.Props.C02
import S3db.Lemmas.ProtoInv
/-!
# C05 — transactions are atomic and isolated: rollback restores, nothing leaks early
-/
namespace S3db.Props.C05
open S3db S3db.AList S3db.Table S3db.Txn S3db.Proto

abbrev F : Facts := S3db.Gen.facts

variable {K V : Type} [DecidableEq K] [DecidableEq V]

/-- **ROLLBACK restores exactly the rows visible before BEGIN**, whatever ran in between -/
theorem rollback_restores (t : Tx K V) (h : t.snapshot = none) (t1 : Tx K V) (hb : t.begin F = some t1)
    (stmts : Table K V → Table K V) :
    (({ t1 with live := stmts t1.live } : Tx K V).rollback F).live = t.live := by
  have hf : F.beginClonesTree = true := rfl
  have hr : F.rollbackRestoresSnapshot = true := rfl
  simp only [Tx.begin, hf, if_true, h, Option.isSome_none] at hb
  cases hb
  simp [Tx.rollback, hr]

/-- a failing commit keeps the snapshot, so the ROLLBACK SQLite then issues restores it too -/
theorem failed_commit_then_rollback_restores (t : Tx K V) (h : t.snapshot = none) (t1 : Tx K V)
    (hb : t.begin F = some t1) (stmts : Table K V → Table K V) :
    ((({ t1 with live := stmts t1.live } : Tx K V).commit F false).rollback F).live = t.live := by
  have hf : F.beginClonesTree = true := rfl
  have hr : F.rollbackRestoresSnapshot = true := rfl
  have hc : F.commitKeepsSnapshotOnError = true := rfl
  simp only [Tx.begin, hf, if_true, h, Option.isSome_none] at hb
  cases hb
  simp [Tx.rollback, Tx.commit, hr, hc]

/-- **a connection reads its own writes**: right after an accepted INSERT the row is visible -/
theorem reads_own_insert (t t' : Table K V) (when : Int) (k : K) (vals : AList String V)
    (h : insertRow t when k vals = .ok t') : (visibleRow t' k).isSome = true := by
  unfold insertRow at h
  cases hl : lookup k t with
  | none =>
    simp only [hl] at h
    cases h
    simp [visibleRow, lookup_insert, Row.visible]
  | some e =>
    simp only [hl] at h
    split at h
    · cases h
    · rename_i hc
      cases h
      have hd : e.row.deleted = true ∧ ¬ e.row.dut > when := by
        simp only [Bool.or_eq_true, Bool.not_eq_true', decide_eq_true_eq, not_or, Bool.not_eq_false] at hc
        exact hc
      have hs := Row.mergeRows_status e.row { deleted := false, dut := when, cols := stamp when vals }
      simp only [Row.ARow.status, Row.selStatus, hd.2, not_false_eq_true, if_true] at hs
      injection hs with _ hdel
      simp [visibleRow, lookup_insert, Row.visible, hdel]

/-- … and right after a DELETE it is not -/
theorem reads_own_delete (t : Table K V) (when : Int) (k : K) (e : SEntry V)
    (hl : lookup k t = some e) (hnew : e.row.dut ≤ when) : visibleRow (deleteRow t when k) k = none := by
  unfold deleteRow
  simp only [hl]
  have hs := Row.mergeRows_status e.row ({ deleted := true, dut := when, cols := [] } : Row.ARow V)
  have hc : ¬ e.row.dut > when := by omega
  simp only [Row.ARow.status, Row.selStatus, hc, not_false_eq_true, if_true] at hs
  injection hs with _ hdel
  simp [visibleRow, lookup_insert, Row.visible, hdel]

/-- **COMMIT publishes one version**: the requests of a commit contain exactly one version PUT,
    preceded by the node flush — other openers see the whole transaction or nothing -/
theorem commit_one_version (n : Vid) (ps : List Vid) :
    (commitReqs F n ps).filter (fun r => match r with | .putCur _ => true | _ => false) = [.putCur n] ∧
    (commitReqs F n ps).take 2 = [.putNodes n, .putCur n] := by
  rw [ProtoInv.commitReqs_eq]
  simp only [JoinList.reqs]
  constructor
  · have : ∀ l : List Vid, (l.flatMap (JoinList.retire n)).filter (fun r => match r with | .putCur _ => true | _ => false) = [] := by
      intro l
      induction l with
      | nil => rfl
      | cons p l ih =>
        simp only [List.flatMap_cons, List.filter_append, ih, List.append_nil]
        unfold JoinList.retire
        split <;> simp
    simp [this]
  · simp

/-- **one write time per transaction**: from BEGIN until the transaction ends, and as long as the
    connection does not set the attribute itself, every statement carries the same write time —
    the explicit one if set, else the clock *at BEGIN* — whatever the clock says later -/
theorem one_write_time (c : Conn) (now0 now1 now2 : Int) :
    (c.begin F now0).stmtTime F now1 = (c.begin F now0).stmtTime F now2 ∧
    (c.begin F now0).stmtTime F now1 = c.writeTime.getD now0 := by
  have h1 : F.beginFixesWriteTime = true := rfl
  have h2 : F.updateTimePrefersContext = true := rfl
  have h3 : F.resetContextAsExpected = true := rfl
  cases hw : c.writeTime <;> simp [Conn.begin, Conn.stmtTime, h1, h2, h3, hw]

/-- after the transaction the default returns: statements are stamped with the clock again
    (unless the connection had set the attribute explicitly, which is kept) -/
theorem write_time_released (c : Conn) (hfix : c.txFixed = false) (now0 now : Int) :
    ((c.begin F now0).endTx F).writeTime = c.writeTime ∧ ((c.begin F now0).endTx F).txFixed = false := by
  have h1 : F.beginFixesWriteTime = true := rfl
  have h2 : F.endOfTxReleasesWriteTime = true := rfl
  cases hw : c.writeTime <;> simp [Conn.begin, Conn.endTx, h1, h2, hw, hfix]

/-- **ROLLBACK after a vacuum returns to the vacuumed tree** (F44): a transaction that has
    written to the table without changing it is open (`live = snapshot`), vacuum runs, the
    transaction is rolled back — the connection is on the vacuumed tree, never on the tree from
    before the vacuum, whose storage is gone -/
theorem rollback_after_vacuum (vac : Table K V → Table K V) (t : Table K V) :
    let t1 : Tx K V := { live := t, snapshot := some t }
    ((t1.vacuum F vac).rollback F).live = vac t ∧ ((t1.vacuum F vac).rollback F).snapshot = none := by
  have h1 : F.vacuumRepointsSnapshot = true := by decide
  have h2 : F.rollbackRestoresSnapshot = true := by decide
  simp [Tx.vacuum, Tx.rollback, h1, h2]

/-- without the repair the rollback lands on the pre-vacuum tree -/
example :
    let F0 : Facts := { F with vacuumRepointsSnapshot := false }
    let t1 : Tx Nat Nat := { live := [(1, { mod := 1, row := { deleted := true, dut := 1, cols := [] } })],
                             snapshot := some [(1, { mod := 1, row := { deleted := true, dut := 1, cols := [] } })] }
    ((t1.vacuum F0 (fun _ => [])).rollback F0).live ≠ [] := by decide

theorem txn_facts :
    F.beginClonesTree = true ∧ F.rollbackRestoresSnapshot = true ∧ F.commitKeepsSnapshotOnError = true ∧
    F.beginFixesWriteTime = true ∧ F.endOfTxReleasesWriteTime = true ∧
    F.refreshRefusesDirty = true ∧ F.vacuumRefusesDirty = true ∧ F.syncSkipsRO = true ∧
    F.vacuumRepointsSnapshot = true := by
  decide

/-- the rollback that "optimises" clean trees away (seeded change): a failed commit leaves the
    transaction's rows in place — shown on the model with the fact switched off -/
theorem conditional_rollback_keeps_failed_transaction :
    let F0 : Facts := { F with rollbackRestoresSnapshot := false }
    let t : Tx Nat Nat := { live := [], snapshot := some [] }
    let wrote : Tx Nat Nat := { t with live := [(1, { mod := 5, row := { deleted := false, dut := 5, cols := [] } })] }
    ((wrote.commit F0 false).rollback F0).live.length = 1 ∧ ((wrote.commit F false).rollback F).live.length = 0 := by
  decide

end S3db.Props.C05
