import S3db.Model.Scan
import S3db.Gen.Facts
import S3db.Lemmas.ScanLemmas
/-!
# C06 — a single-writer table behaves like the same table in plain SQLite (scan part)

What SQLite finally returns for a key-constrained scan of the virtual table is exactly the live
rows that satisfy every constraint, in key order (ascending or descending) — for every set of
usable constraints on the key (`=`, `<`, `<=`, `>=`, `>`, any number of them, contradictory ones
included), every tree content, both directions.  Stated for the **generated** facts (`Gen.facts`).
The statement outcomes (uniqueness, NOT NULL, absent-row no-ops) are in `Props/C02.lean`
(`insert_refused_iff`, `update_absent_noop`) and the mast cursor contract is assumed (`MastSpec`).
-/
namespace S3db.Props.C06
open S3db S3db.Scan

abbrev F : Facts := S3db.Gen.facts

variable {K : Type}

/-- the generated fact the descending scan depends on -/
theorem fallback_fact : F.descSeekFallsBackToMax = true := rfl

-- (holds for any `cmp`: the order laws are not needed for this direction, so `L` is unused)
set_option linter.unusedVariables false in
/-- the window never excludes a key that satisfies all constraints -/
theorem window_sound (cmp : K → K → Int) (L : OrderLaws cmp) (cs : List (Con K)) (k : K)
    (h : sat cmp cs k = true) :
    (∀ m, (window cmp cs).min = some m → cmp k m ≥ 0 ∧ ((window cmp cs).gtMin = true → cmp k m > 0)) ∧
    (∀ m, (window cmp cs).max = some m → cmp k m ≤ 0 ∧ ((window cmp cs).ltMax = true → cmp k m < 0)) :=
  window_soundFor cmp cs k h

/-- **scan_complete**: after SQLite's re-check, an ascending scan returns exactly the live keys
    satisfying the constraints, in ascending order -/
theorem scan_complete_asc (cmp : K → K → Int) (L : OrderLaws cmp) (cs : List (Con K)) (es : List (Ent K))
    (hs : Sorted cmp es) :
    recheck cmp cs (scan F cmp false cs es) = expected cmp false cs es :=
  recheck_scan_asc F L cs hs

/-- … and a descending scan returns them in descending order (the scan itself may start one key
    above an upper bound that is not stored; the re-check removes it) -/
theorem scan_complete_desc (cmp : K → K → Int) (L : OrderLaws cmp) (cs : List (Con K)) (es : List (Ent K))
    (hs : Sorted cmp es) :
    recheck cmp cs (scan F cmp true cs es) = expected cmp true cs es :=
  recheck_scan_desc F fallback_fact L cs hs

/-- the re-check really happens: the module never asks SQLite to omit it, a NULL operand yields
    an empty scan instead of a panic, and the decision points of `Filter`/`Next` read as modelled -/
theorem scan_facts :
    F.bestIndexNeverOmits = true ∧ F.filterNullOperandEmpty = true ∧ F.descSeekFallsBackToMax = true ∧
    F.filterWindowAsExpected = true ∧ F.nextAsExpected = true ∧
    F.filterMaxOps = ["OpLT", "OpLE", "OpEQ"] ∧ F.filterMinOps = ["OpGT", "OpGE", "OpEQ"] := by
  decide

/-- without the fall-back to `Max` (the code before the F2 fix) a descending scan whose upper
    bound lies above the last key returns nothing: keys {1,3}, `k <= 5 ORDER BY k DESC` -/
theorem without_fallback_desc_scan_is_empty :
    let F0 : Facts := { F with descSeekFallsBackToMax := false }
    let cmp : Int → Int → Int := fun a b => if a < b then -1 else if b < a then 1 else 0
    recheck cmp [(.le, 5)] (scan F0 cmp true [(.le, 5)] [(1, false), (3, false)]) = [] ∧
    expected cmp true [(.le, 5)] [(1, false), (3, false)] = [3, 1] := by
  decide

/-- the over-approximation is real (so `Omit` must stay off): keys {1,3,7}, `k = 5 … DESC`
    makes the module return 7, which only the re-check removes -/
theorem desc_scan_overshoots_before_recheck :
    let cmp : Int → Int → Int := fun a b => if a < b then -1 else if b < a then 1 else 0
    scan F cmp true [(.eq, 5)] [(1, false), (3, false), (7, false)] = [7] ∧
    recheck cmp [(.eq, 5)] (scan F cmp true [(.eq, 5)] [(1, false), (3, false), (7, false)]) = [] := by
  decide

/-! ### comparisons under another collation (F62) -/

theorem collation_fact : F.bestIndexSkipsOtherCollations = true := rfl

private theorem all_split (cs : List (CCon K)) (cmp : K → K → Int) (sat' : K → Con K → Bool) (k : K) :
    cs.all (satC cmp sat' k) =
      (sat cmp (pushed F cs) k && (cs.filter fun c => !c.binary).all (fun c => sat' k c.con)) := by
  induction cs with
  | nil => simp [pushed, sat]
  | cons c cs ih =>
    have hF : F.bestIndexSkipsOtherCollations = true := rfl
    simp only [pushed, sat, hF] at ih ⊢
    cases hb : c.binary <;>
      simp [List.all_cons, satC, hb, ih, Bool.and_assoc, Bool.and_left_comm, Bool.and_comm]

private theorem filter_split (cs : List (CCon K)) (cmp : K → K → Int) (sat' : K → Con K → Bool) (ks : List K) :
    ks.filter (fun k => cs.all (satC cmp sat' k)) =
      (ks.filter (sat cmp (pushed F cs))).filter
        (fun k => (cs.filter fun c => !c.binary).all (fun c => sat' k c.con)) := by
  rw [List.filter_filter]
  congr 1
  funext k
  rw [all_split, Bool.and_comm]

/-- **scan_complete under any collation**: whatever relation SQLite uses for the constraints that
    are not BINARY, after its re-check the scan returns exactly the live keys satisfying ALL
    constraints, in order — because those constraints never narrow the scan -/
theorem scan_complete_collated (cmp : K → K → Int) (L : OrderLaws cmp) (sat' : K → Con K → Bool)
    (desc : Bool) (cs : List (CCon K)) (es : List (Ent K)) (hs : Sorted cmp es) :
    recheckC cmp sat' cs (scan F cmp desc (pushed F cs) es) = expectedC cmp sat' desc cs es := by
  have hbase : recheck cmp (pushed F cs) (scan F cmp desc (pushed F cs) es) = expected cmp desc (pushed F cs) es := by
    cases desc
    · exact scan_complete_asc cmp L _ es hs
    · exact scan_complete_desc cmp L _ es hs
  unfold recheckC expectedC
  dsimp only
  rw [filter_split, filter_split]
  unfold recheck at hbase
  rw [hbase]
  unfold expected
  cases desc <;> simp [List.filter_reverse]

/-- the defect F62 on the model without the rule: keys 3 and 103 are equal under a collation that
    compares modulo 100; `k = 3` under it must return both, the bytewise window returns one -/
theorem pushed_collated_eq_loses_rows :
    let F0 : Facts := { F with bestIndexSkipsOtherCollations := false }
    let cmp : Int → Int → Int := fun a b => if a < b then -1 else if b < a then 1 else 0
    let sat' : Int → Con Int → Bool := fun k c => k % 100 == c.2 % 100
    let cs : List (CCon Int) := [{ con := (.eq, 3), binary := false }]
    let es : List (Ent Int) := [(3, false), (50, false), (103, false)]
    recheckC cmp sat' cs (scan F0 cmp false (pushed F0 cs) es) = [3] ∧
    expectedC cmp sat' false cs es = [3, 103] ∧
    recheckC cmp sat' cs (scan F cmp false (pushed F cs) es) = [3, 103] := by
  decide

end S3db.Props.C06
