import S3db.Model.Kv
import S3db.Lemmas.KvMerge
/-!
# C17 — the key-value layer keeps its documented last-write and tombstone rules

Property theorems only.  They are stated about the **generated** `Gen.Crdt.lastWriteWins`
(regenerated from `kv/crdt/value.go` on every run) and about the tree model of `Model/Kv.lean`.
-/
namespace S3db.Props.C17
open S3db S3db.AList S3db.Gen.Crdt S3db.Kv

set_option linter.unusedSectionVars false
variable {K V : Type} [DecidableEq K] [DecidableEq V]

/-- "distinct times": two different entries never tie (same tombstone time, or both live
    with the same modification time) -/
def Compat (a b : Entry V) : Prop :=
  (a.tomb ≠ 0 → b.tomb ≠ 0 → a.tomb = b.tomb → a = b) ∧
  (a.tomb = 0 → b.tomb = 0 → a.mod = b.mod → a = b)

theorem lww_pick (a b : Entry V) : lastWriteWins a b = a ∨ lastWriteWins a b = b := by
  unfold lastWriteWins firstTombstoneWins
  repeat (first | split | simp)

theorem lww_idem (a : Entry V) : lastWriteWins a a = a := by
  rcases lww_pick a a with h | h <;> exact h

theorem lww_comm (a b : Entry V) (h : Compat a b) : lastWriteWins a b = lastWriteWins b a := by
  obtain ⟨h1, h2⟩ := h
  unfold lastWriteWins firstTombstoneWins tombstoned
  by_cases ha : a.tomb = 0 <;> by_cases hb : b.tomb = 0 <;> simp [ha, hb]
  · by_cases hm : a.mod = b.mod
    · have := h2 ha hb hm; subst this; simp
    · by_cases h3 : b.mod ≤ a.mod <;> by_cases h4 : a.mod ≤ b.mod <;> simp_all <;> omega
  · by_cases hm : a.tomb = b.tomb
    · have := h1 ha hb hm; subst this; simp
    · by_cases h3 : a.tomb < b.tomb <;> by_cases h4 : b.tomb < a.tomb <;> simp_all <;> omega

theorem lww_assoc (a b c : Entry V) (hab : Compat a b) (hbc : Compat b c) (hac : Compat a c) :
    lastWriteWins (lastWriteWins a b) c = lastWriteWins a (lastWriteWins b c) := by
  obtain ⟨h1, h2⟩ := hab
  obtain ⟨h3, h4⟩ := hbc
  obtain ⟨h5, h6⟩ := hac
  unfold lastWriteWins firstTombstoneWins tombstoned
  by_cases ha : a.tomb = 0 <;> by_cases hb : b.tomb = 0 <;> by_cases hc : c.tomb = 0 <;>
    simp [ha, hb, hc] <;> (repeat' split) <;> simp_all <;> omega

/-- the kv merge function satisfies the selection laws on entries with distinct times -/
theorem lww_laws : Sel.Laws (lww (V := V)) Compat :=
  { pick := lww_pick, comm := lww_comm, assoc := lww_assoc }

/-- for every key the merged value is the one set with the latest time -/
theorem latest_wins (a b : Entry V) (ha : a.tomb = 0) (hb : b.tomb = 0) (h : b.mod < a.mod) :
    lastWriteWins a b = a ∧ lastWriteWins b a = a := by
  unfold lastWriteWins firstTombstoneWins tombstoned
  simp [ha, hb]; constructor <;> (intro; omega)

/-- a tombstone beats every value regardless of time -/
theorem tombstone_beats_value (a b : Entry V) (ha : a.tomb ≠ 0) (hb : b.tomb = 0) :
    lastWriteWins a b = a ∧ lastWriteWins b a = a := by
  unfold lastWriteWins firstTombstoneWins tombstoned
  simp [ha, hb]

/-- among tombstones the earliest is kept -/
theorem earliest_tombstone (a b : Entry V) (ha : a.tomb ≠ 0) (hb : b.tomb ≠ 0) (h : a.tomb < b.tomb) :
    lastWriteWins a b = a ∧ lastWriteWins b a = a := by
  unfold lastWriteWins firstTombstoneWins tombstoned
  simp [ha, hb, h]; intro h'; omega

/-- the entry gate of `Tree.update`: a write that ties with the stored live entry wins -/
theorem tie_goes_to_new (n o : Entry V) (hn : n.tomb = 0) (ho : o.tomb = 0) (h : n.mod = o.mod) :
    lastWriteWins n o = n := by
  unfold lastWriteWins firstTombstoneWins tombstoned; simp [hn, ho, h]

/-- the pointer companion agrees with the value-level function -/
theorem lww_fst (a b : Entry V) : lastWriteWins a b = if lastWriteWinsFst a b then a else b := by
  unfold lastWriteWins lastWriteWinsFst firstTombstoneWins firstTombstoneWinsFst
  repeat (first | split | simp_all)

/-! ## trees -/

/-- the code's fold: `acc.Clone().Merge(graft)` along a plan over the versions `vs` -/
def evalPlan (vs : Nat → Tree K V) : Sel.Plan → Tree K V
  | .leaf i => vs i
  | .node p q => mergeTrees lww (evalPlan vs p) (evalPlan vs q)

theorem nodup_evalPlan (vs : Nat → Tree K V) (hn : ∀ i, NodupKeys (vs i)) :
    ∀ p, NodupKeys (evalPlan vs p)
  | .leaf i => hn i
  | .node p _ => nodupKeys_mergeTrees lww _ (nodup_evalPlan vs hn p)

theorem lookup_evalPlan (vs : Nat → Tree K V) (hn : ∀ i, NodupKeys (vs i)) (k : K) :
    ∀ p, lookup k (evalPlan vs p) = Sel.evalAt lww (fun i => lookup k (vs i)) p
  | .leaf i => rfl
  | .node p q => by
    simp only [evalPlan, Sel.evalAt]
    rw [lookup_mergeTrees lww _ (nodup_evalPlan vs hn q), mergeOpt_eq_selOpt lww_laws,
      lookup_evalPlan vs hn k p, lookup_evalPlan vs hn k q]

/-- **kv_converges**: any two merge plans over the same set of versions hold the same entry for
    every key — whatever the order, the grouping and the repetitions — provided no two
    different entries of one key tie. -/
theorem kv_converges (vs : Nat → Tree K V) (hn : ∀ i, NodupKeys (vs i))
    (hc : ∀ k i j x y, lookup k (vs i) = some x → lookup k (vs j) = some y → Compat x y)
    (p q : Sel.Plan) (hpq : ∀ i, i ∈ p.leaves ↔ i ∈ q.leaves) (k : K) :
    lookup k (evalPlan vs p) = lookup k (evalPlan vs q) := by
  rw [lookup_evalPlan vs hn k p, lookup_evalPlan vs hn k q]
  exact Sel.evalAt_indep lww_laws (hc k) p q hpq

/-- the premises of `kv_converges` are satisfiable by a non-trivial family -/
example :
    let v0 : Tree Nat Nat := [(1, { mod := 5, val := some 10 }), (2, { mod := 3, tomb := 3, val := none })]
    let v1 : Tree Nat Nat := [(1, { mod := 7, val := some 11 }), (2, { mod := 9, val := some 4 })]
    (lookup 1 (mergeTrees lww v0 v1) = lookup 1 (mergeTrees lww v1 v0)) ∧
    (lookup 2 (mergeTrees lww v0 v1) = some { mod := 3, tomb := 3, val := none }) := by decide

/-! ## the entry gate -/

theorem get_update_other (src : Option String) (t : Tree K V) (k k' : K) (cv : Entry V) (h : k ≠ k') :
    get (update src t k cv) k' = get t k' := by
  unfold Kv.get update
  cases lookup k t <;> simp [lookup_insert, h]

/-- a `Set` older than the stored live entry changes nothing -/
theorem set_older_ignored (src : Option String) (t : Tree K V) (k : K) (when : Int) (v : V) (ex : Entry V)
    (hl : lookup k t = some ex) (hlive : ex.tomb = 0) (hold : when < ex.mod) :
    lookup k (set src t when k v) = some ex := by
  unfold Kv.set update
  have hw : lastWriteWins ({ mod := when, val := some v } : Entry V) ex = ex := by
    unfold lastWriteWins firstTombstoneWins tombstoned; simp [hlive]; intro; omega
  have hf : lastWriteWinsFst ({ mod := when, val := some v } : Entry V) ex = false := by
    unfold lastWriteWinsFst firstTombstoneWinsFst tombstoned; simp [hlive]; omega
  simp [hl, hw, hf, lookup_insert]

/-- a `Set` at or after the stored live entry replaces it and records where it came from -/
theorem set_newer_wins (src : Option String) (t : Tree K V) (k : K) (when : Int) (v : V) (ex : Entry V)
    (hl : lookup k t = some ex) (hlive : ex.tomb = 0) (hnew : ex.mod ≤ when) :
    lookup k (set src t when k v) = some { mod := when, val := some v, prev := src.getD "" } := by
  unfold Kv.set update
  have hw : lastWriteWins ({ mod := when, val := some v } : Entry V) ex = { mod := when, val := some v } := by
    unfold lastWriteWins firstTombstoneWins tombstoned; simp [hlive]; intro; omega
  have hf : lastWriteWinsFst ({ mod := when, val := some v } : Entry V) ex = true := by
    unfold lastWriteWinsFst firstTombstoneWinsFst tombstoned; simp [hlive]; omega
  simp [hl, hw, hf, lookup_insert]

/-- once tombstoned, a key stays absent whatever is `Set` afterwards, at any time -/
theorem tombstone_blocks_set (src : Option String) (t : Tree K V) (k : K) (when : Int) (v : V) (ex : Entry V)
    (hl : lookup k t = some ex) (htomb : ex.tomb > 0) :
    get (set src t when k v) k = none := by
  unfold Kv.set update Kv.get
  have hne : ex.tomb ≠ 0 := by omega
  have hw : lastWriteWins ({ mod := when, val := some v } : Entry V) ex = ex := by
    unfold lastWriteWins firstTombstoneWins tombstoned; simp [hne]
  have hf : lastWriteWinsFst ({ mod := when, val := some v } : Entry V) ex = false := by
    unfold lastWriteWinsFst firstTombstoneWinsFst tombstoned; simp [hne]
  simp [hl, hw, hf, lookup_insert, htomb]

/-! ## RemoveTombstones, Diff -/

theorem removeTombstones_spec (t : Tree K V) (hn : NodupKeys t) (cutoff : Int) (k : K) :
    lookup k (removeTombstones t cutoff) =
      match lookup k t with
      | some e => if e.tomb ≠ 0 ∧ e.tomb < cutoff then none else some e
      | none => none := by
  unfold removeTombstones
  rw [lookup_filter _ hn]
  cases lookup k t with
  | none => rfl
  | some e => by_cases h1 : e.tomb = 0 <;> by_cases h2 : e.tomb < cutoff <;> simp [h1, h2]

theorem mem_dedup {k : K} : ∀ {ks : List K}, k ∈ dedup ks ↔ k ∈ ks
  | [] => by simp [dedup]
  | a :: ks => by
    unfold dedup
    by_cases h : a ∈ ks
    · simp only [h, if_true, List.mem_cons]
      rw [mem_dedup]
      constructor
      · intro h1; exact Or.inr h1
      · rintro (h1 | h1)
        · subst h1; exact h
        · exact h1
    · simp only [h, if_false, List.mem_cons]
      rw [mem_dedup]

/-- **diff_exact**: `Diff` reports exactly the keys whose visible value differs -/
theorem diff_exact (s frm : Tree K V) (k : K) :
    k ∈ (diff s frm).map (·.1) ↔ inner (lookup k s) ≠ inner (lookup k frm) := by
  unfold diff
  simp only [List.mem_map, List.mem_filterMap]
  constructor
  · rintro ⟨⟨k', a, b⟩, ⟨k'', _, h2⟩, h3⟩
    simp only at h3; subst h3
    by_cases h : inner (lookup k'' s) = inner (lookup k'' frm)
    · simp [h] at h2
    · simp only [h, if_false, Option.some.injEq, Prod.mk.injEq] at h2
      obtain ⟨h4, _, _⟩ := h2
      subst h4; exact h
  · intro h
    refine ⟨(k, inner (lookup k s), inner (lookup k frm)), ⟨k, ?_, by simp [h]⟩, rfl⟩
    rw [mem_dedup, List.mem_append]
    by_cases h1 : lookup k s = none
    · by_cases h2 : lookup k frm = none
      · rw [h1, h2] at h; exact absurd rfl h
      · right; exact Classical.byContradiction fun hc => h2 (lookup_eq_none_iff.2 hc)
    · left; exact Classical.byContradiction fun hc => h1 (lookup_eq_none_iff.2 hc)

/-! ## TraceHistory -/

/-- the shape of one step of the walk -/
theorem trace_succ (store : String → Option (Tree K V)) (after : Int) (k : K) (n : Nat)
    (t : Tree K V) (c : Option Int) (e : Entry V) (hl : lookup k t = some e)
    (h1 : atOrAbove c e.mod = false) (h2 : ¬ e.mod < after) :
    trace store after k (n + 1) t c = (e.mod, e.val) ::
      (if e.prev = "" then [] else match store e.prev with
        | none => []
        | some t' => trace store after k n t' (some e.mod)) := by
  rw [trace]
  simp only [hl, h1, h2, Bool.false_eq_true, if_false]
  split <;> rfl

theorem trace_stop (store : String → Option (Tree K V)) (after : Int) (k : K) (n : Nat)
    (t : Tree K V) (c : Option Int)
    (h : lookup k t = none ∨ ∃ e, lookup k t = some e ∧ (atOrAbove c e.mod = true ∨ e.mod < after)) :
    trace store after k (n + 1) t c = [] := by
  rw [trace]
  rcases h with h | ⟨e, he, h | h⟩
  · simp [h]
  · simp [he, h]
  · simp only [he]; split
    · rfl
    · simp

/-- case analysis used by all four theorems -/
theorem trace_cases (store : String → Option (Tree K V)) (after : Int) (k : K) (n : Nat)
    (t : Tree K V) (c : Option Int) :
    trace store after k (n + 1) t c = [] ∨
    ∃ e, lookup k t = some e ∧ atOrAbove c e.mod = false ∧ ¬ e.mod < after ∧
      trace store after k (n + 1) t c = (e.mod, e.val) ::
        (if e.prev = "" then [] else match store e.prev with
          | none => []
          | some t' => trace store after k n t' (some e.mod)) := by
  cases hl : lookup k t with
  | none => exact Or.inl (trace_stop store after k n t c (Or.inl hl))
  | some e =>
    cases h1 : atOrAbove c e.mod with
    | true => exact Or.inl (trace_stop store after k n t c (Or.inr ⟨e, hl, Or.inl h1⟩))
    | false =>
      by_cases h2 : e.mod < after
      · exact Or.inl (trace_stop store after k n t c (Or.inr ⟨e, hl, Or.inr h2⟩))
      · exact Or.inr ⟨e, rfl, h1, h2, trace_succ store after k n t c e hl h1 h2⟩

/-- what the rest of the walk is, after the first report -/
theorem mem_trace_tail (store : String → Option (Tree K V)) (after : Int) (k : K) (n : Nat)
    (e : Entry V) (x : Int × Option V)
    (hx : x ∈ (if e.prev = "" then [] else match store e.prev with
        | none => []
        | some t' => trace store after k n t' (some e.mod))) :
    ∃ t', store e.prev = some t' ∧ x ∈ trace store after k n t' (some e.mod) := by
  by_cases h3 : e.prev = ""
  · simp [h3] at hx
  · simp only [h3, if_false] at hx
    cases hs : store e.prev with
    | none => simp [hs] at hx
    | some t' => simp only [hs] at hx; exact ⟨t', rfl, hx⟩

/-- every time reported is below the cutoff the walk started with -/
theorem trace_below_cutoff (store : String → Option (Tree K V)) (after : Int) (k : K) :
    ∀ (fuel : Nat) (t : Tree K V) (c : Int) (x : Int × Option V),
      x ∈ trace store after k fuel t (some c) → x.1 < c := by
  intro fuel
  induction fuel with
  | zero => intro t c x hx; simp [trace] at hx
  | succ n ih =>
    intro t c x hx
    rcases trace_cases store after k n t (some c) with h | ⟨e, _, h1, _, h⟩
    · rw [h] at hx; simp at hx
    · rw [h] at hx
      have hlt : e.mod < c := by
        simp only [atOrAbove, decide_eq_false_iff_not] at h1; omega
      rcases List.mem_cons.1 hx with hx | hx
      · rw [hx]; exact hlt
      · obtain ⟨t', _, hx'⟩ := mem_trace_tail store after k n e x hx
        have := ih t' e.mod x hx'
        omega

/-- **TraceHistory reports strictly decreasing times**, for every store of versions, every tree,
    every key, every `after` and however many versions it walks through -/
theorem trace_strictly_decreasing (store : String → Option (Tree K V)) (after : Int) (k : K) :
    ∀ (fuel : Nat) (t : Tree K V) (c : Option Int),
      (trace store after k fuel t c).Pairwise (fun a b => b.1 < a.1) := by
  intro fuel
  induction fuel with
  | zero => intro t c; simp [trace]
  | succ n ih =>
    intro t c
    rcases trace_cases store after k n t c with h | ⟨e, _, _, _, h⟩
    · rw [h]; exact List.Pairwise.nil
    · rw [h]
      refine List.Pairwise.cons ?_ ?_
      · intro x hx
        obtain ⟨t', _, hx'⟩ := mem_trace_tail store after k n e x hx
        exact trace_below_cutoff store after k n t' e.mod x hx'
      · by_cases h3 : e.prev = ""
        · simp [h3]
        · simp only [h3, if_false]
          cases hs : store e.prev with
          | none => exact List.Pairwise.nil
          | some t' => exact ih t' (some e.mod)

/-- **it starts at the current value**: whatever is reported first is the handle's own entry -/
theorem trace_starts_at_current (store : String → Option (Tree K V)) (after : Int) (k : K)
    (fuel : Nat) (t : Tree K V) (x : Int × Option V) (rest : List (Int × Option V))
    (h : trace store after k fuel t none = x :: rest) :
    ∃ e, lookup k t = some e ∧ x = (e.mod, e.val) := by
  cases fuel with
  | zero => simp [trace] at h
  | succ n =>
    rcases trace_cases store after k n t none with h0 | ⟨e, hl, _, _, h1⟩
    · rw [h0] at h; cases h
    · rw [h1] at h
      exact ⟨e, hl, (List.cons.inj h).1.symm⟩

/-- **only committed values**: everything reported is the entry of `k` in the handle's own tree
    or in a stored version -/
theorem trace_reports_stored_entries (store : String → Option (Tree K V)) (after : Int) (k : K) :
    ∀ (fuel : Nat) (t : Tree K V) (c : Option Int) (x : Int × Option V),
      x ∈ trace store after k fuel t c →
      (∃ e, lookup k t = some e ∧ x = (e.mod, e.val)) ∨
      (∃ name t' e, store name = some t' ∧ lookup k t' = some e ∧ x = (e.mod, e.val)) := by
  intro fuel
  induction fuel with
  | zero => intro t c x hx; simp [trace] at hx
  | succ n ih =>
    intro t c x hx
    rcases trace_cases store after k n t c with h | ⟨e, hl, _, _, h⟩
    · rw [h] at hx; simp at hx
    · rw [h] at hx
      rcases List.mem_cons.1 hx with hx | hx
      · exact Or.inl ⟨e, hl, hx⟩
      · obtain ⟨t', hs, hx'⟩ := mem_trace_tail store after k n e x hx
        rcases ih t' (some e.mod) x hx' with ⟨e', he', hx''⟩ | h'
        · exact Or.inr ⟨e.prev, t', e', hs, he', hx''⟩
        · exact Or.inr h'

/-- non-vacuity: a three-step history is reported newest first -/
example :
    let v1 : Tree String String := [("a", { mod := 1, val := some "x" })]
    let v2 : Tree String String := [("a", { mod := 5, val := some "y", prev := "v1" })]
    let cur : Tree String String := [("a", { mod := 9, val := some "z", prev := "v2" })]
    trace (fun n => if n = "v1" then some v1 else if n = "v2" then some v2 else none) 0 "a" 10 cur none =
      [(9, some "z"), (5, some "y"), (1, some "x")] := by
  decide

end S3db.Props.C17
