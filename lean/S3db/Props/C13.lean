import S3db.Props.C03
/-!
# C13 — a read-only table never modifies the bucket

In the request-level model a read-only client can start opens and (attempt) commits in any
interleaving with other clients; the theorem says that no request it ever gets served is a PUT or
a DELETE.  What makes this true is read from the source on every run: the `ErrReadOnly` guards
(`roGuards`, `commitGuardBeforeFlush`), `Open` committing only `if !opts.ReadOnly`, and `Sync`
returning early for read-only tables.
-/
namespace S3db.Props.C13
open S3db S3db.Proto S3db.Props.C03

/-- the read-only flag of a client never changes -/
theorem ro_constant (s : Sys) (i : Nat) (a : Act) (j : Nat) (c : Client)
    (hc : s.clients[j]? = some c) :
    ∃ c', (step F s i a).clients[j]? = some c' ∧ c'.ro = c.ro := by
  exact (ProtoInv.step_later s i a).client hc

/-- **no PUT, no DELETE**, under any schedule, for any number of clients -/
theorem ro_no_mutation (s : Sys) (h : Reachable s) (i : Nat) (r : Req) (c : Client)
    (ht : (i, r) ∈ s.trace) (hc : s.clients[i]? = some c) (hro : c.ro = true) :
    r.mutation = false := by
  obtain ⟨ros, sched, rfl⟩ := h
  exact (ProtoInv.inv_reachable ros sched).ro_no_mutation ht hc hro

/-- the guards, as found in the source on this run -/
theorem ro_guards :
    F.roGuards = ["Commit", "DeleteHistoricVersions", "Set", "Tombstone"] ∧
    F.commitGuardBeforeFlush = true ∧ F.openCommitsOnlyIfRW = true ∧
    F.syncSkipsRO = true ∧ F.onlyVersionsRequiresRO = true := by
  decide

/-- without the guard on `Commit` a read-only handle does write: the model exhibits it -/
theorem without_commit_guard_ro_writes :
    let F0 : Facts := { F with roGuards := ["DeleteHistoricVersions", "Set", "Tombstone"] }
    let s0 := run F0 (init [true]) [(0, .startCommit), (0, .step), (0, .step)]
    s0.trace.any (fun p => p.2.mutation) = true := by
  decide

end S3db.Props.C13
