import S3db.Props.C03
import S3db.Model.Txn
/-!
# C13 — a read-only table never modifies the bucket

In the request-level model a read-only client can start opens and (attempt) commits in any
interleaving with other clients; the theorem says that no request it ever gets served is a PUT or
a DELETE.  What makes this true is read from the source on every run: the `ErrReadOnly` guards
(`roGuards`, `commitGuardBeforeFlush`), `Open` committing only `if !opts.ReadOnly`, and `Sync`
returning early for read-only tables.
-/
namespace S3db.Props.C13
open S3db S3db.Proto S3db.Props.C03

/-- the read-only flag of a client never changes -/
theorem ro_constant (s : Sys) (i : Nat) (a : Act) (j : Nat) (c : Client)
    (hc : s.clients[j]? = some c) :
    ∃ c', (step F s i a).clients[j]? = some c' ∧ c'.ro = c.ro := by
  exact (ProtoInv.step_later s i a).client hc

/-- **no PUT, no DELETE**, under any schedule, for any number of clients -/
theorem ro_no_mutation (s : Sys) (h : Reachable s) (i : Nat) (r : Req) (c : Client)
    (ht : (i, r) ∈ s.trace) (hc : s.clients[i]? = some c) (hro : c.ro = true) :
    r.mutation = false := by
  obtain ⟨ros, sched, rfl⟩ := h
  exact (ProtoInv.inv_reachable ros sched).ro_no_mutation ht hc hro

/-- the guards, as found in the source on this run -/
theorem ro_guards :
    F.roGuards = ["Commit", "DeleteHistoricVersions", "Set", "Tombstone"] ∧
    F.commitGuardBeforeFlush = true ∧ F.openCommitsOnlyIfRW = true ∧
    F.syncSkipsRO = true ∧ F.onlyVersionsRequiresRO = true := by
  decide

/-- without the guard on `Commit` a read-only handle does write: the model exhibits it -/
theorem without_commit_guard_ro_writes :
    let F0 : Facts := { F with roGuards := ["DeleteHistoricVersions", "Set", "Tombstone"] }
    let s0 := run F0 (init [true]) [(0, .startCommit), (0, .step), (0, .step)]
    s0.trace.any (fun p => p.2.mutation) = true := by
  decide

/-! ### the table side: a refused write leaves a read-only table as it was (F57)

A write statement against a read-only table gets as far as xBegin (which takes the snapshot) and
is refused in xUpdate; SQLite then ends the transaction through xSync/xCommit.  The rows never
change, and the table must be ready for the next statement. -/

open S3db.Txn in
/-- after any number of refused write attempts a read-only table shows the rows it showed, and
    has no transaction left open: every attempt is refused for being a write, none for a
    "transaction already in progress" -/
theorem ro_write_attempts_leave_table (K V : Type) (t : Tx K V) (hs : t.snapshot = none) (n : Nat) :
    ∃ t', (Nat.repeat (fun (o : Option (Tx K V)) => o.bind fun t => (t.begin F).map (·.syncRO F)) n (some t)) = some t' ∧
      t'.live = t.live ∧ t'.snapshot = none := by
  have h1 : F.roSyncEndsTransaction = true := by decide
  have h2 : F.beginClonesTree = true := by decide
  have h3 : F.rollbackRestoresSnapshot = true := by decide
  induction n with
  | zero => exact ⟨t, rfl, rfl, hs⟩
  | succ n ih =>
    obtain ⟨t', ht', hl, hsn⟩ := ih
    refine ⟨{ live := t'.live, snapshot := none }, ?_, hl, rfl⟩
    simp only [Nat.repeat, ht', Option.bind_some]
    simp [Tx.begin, Tx.syncRO, Tx.rollback, h1, h2, h3, hsn]

open S3db.Txn in
/-- the defect F57 on the model with the early return: the second write attempt is refused by
    `Begin` itself ("transaction already in progress") -/
theorem without_ro_sync_rollback_second_begin_fails :
    let F0 : Facts := { F with roSyncEndsTransaction := false }
    let t : Tx Nat Nat := { live := [] }
    ((t.begin F0).map (·.syncRO F0)).bind (·.begin F0) = none := by
  decide

theorem ro_sync_facts : F.roSyncEndsTransaction = true ∧ F.syncSkipsRO = true := by decide

end S3db.Props.C13
