import S3db.Model.Txn
import S3db.Gen.Facts
/-!
# C15 (connection part) — write_time and deadline apply to exactly the statements issued while
they are set, read back from s3db_conn, and clearing them restores the defaults
-/
namespace S3db.Props.C15Conn
open S3db S3db.Txn

abbrev F : Facts := S3db.Gen.facts

/-- what is set is what is read back and what stamps the next statements -/
theorem conn_set_read (c : Conn) (d w : Int) (now : Int) :
    ∃ c', c.update F (.set d) (.set w) = some c' ∧ c'.read = (some d, some w) ∧ c'.stmtTime F now = w := by
  refine ⟨{ deadline := some d, writeTime := some w, txFixed := false }, rfl, rfl, ?_⟩
  have h2 : F.updateTimePrefersContext = true := rfl
  have h3 : F.resetContextAsExpected = true := rfl
  simp [Conn.stmtTime, h2, h3]

/-- clearing restores the defaults: no deadline, statements stamped with the clock -/
theorem conn_clear_default (c : Conn) (now : Int) :
    ∃ c', c.update F .clear .clear = some c' ∧ c'.read = (none, none) ∧ c'.stmtTime F now = now := by
  refine ⟨{ deadline := none, writeTime := none, txFixed := false }, rfl, rfl, ?_⟩
  have h2 : F.updateTimePrefersContext = true := rfl
  have h3 : F.resetContextAsExpected = true := rfl
  simp [Conn.stmtTime, h2, h3]

/-- an attribute that is not mentioned keeps its value -/
theorem conn_nochange_keeps (c : Conn) (w : Int) :
    ∃ c', c.update F .noChange (.set w) = some c' ∧ c'.deadline = c.deadline ∧ c'.writeTime = some w := by
  exact ⟨{ deadline := c.deadline, writeTime := some w, txFixed := false }, rfl, rfl, rfl⟩

/-- a rejected statement changes neither attribute (both values are parsed before any is assigned) -/
theorem conn_rejected_unchanged (c : Conn) (d w : Assign) (h : d = .malformed ∨ w = .malformed) :
    c.update F d w = none := by
  have hf : F.connUpdateParsesBeforeAssigning = true := rfl
  rcases h with h | h <;> subst h
  · simp [Conn.update, Assign.apply]
  · cases d <;> simp [Conn.update, Assign.apply, hf]

/-- **scope**: a statement observes exactly the attribute in force when it is issued — setting
    it afterwards (or clearing it) does not reach back, and a statement issued before any
    setting is stamped with the clock -/
theorem conn_scope (c : Conn) (w : Int) (now1 now2 : Int) (hc : c.writeTime = none) :
    c.stmtTime F now1 = now1 ∧
    (∀ c', c.update F .noChange (.set w) = some c' → c'.stmtTime F now2 = w ∧
      ∀ c'', c'.update F .noChange .clear = some c'' → c''.stmtTime F now2 = now2) := by
  have h2 : F.updateTimePrefersContext = true := rfl
  have h3 : F.resetContextAsExpected = true := rfl
  refine ⟨by simp [Conn.stmtTime, h2, h3, hc], ?_⟩
  intro c' h'
  simp only [Conn.update, Assign.apply, Option.some.injEq] at h'
  subst h'
  refine ⟨by simp [Conn.stmtTime, h2, h3], ?_⟩
  intro c'' h''
  simp only [Conn.update, Assign.apply, Option.some.injEq] at h''
  subst h''
  simp [Conn.stmtTime, h2, h3]

/-- setting the attribute inside a transaction takes over from the time fixed at BEGIN, and the
    end of the transaction then leaves the explicit value in place -/
theorem conn_update_inside_transaction (c : Conn) (now0 w : Int) :
    ∃ c', (c.begin F now0).update F .noChange (.set w) = some c' ∧ c'.writeTime = some w ∧
      (c'.endTx F).writeTime = some w := by
  refine ⟨{ deadline := (c.begin F now0).deadline, writeTime := some w, txFixed := false }, rfl, rfl, ?_⟩
  simp [Conn.endTx]

theorem conn_facts :
    F.connUpdateParsesBeforeAssigning = true ∧ F.resetContextAsExpected = true ∧
    F.updateTimePrefersContext = true ∧ F.beginFixesWriteTime = true ∧ F.endOfTxReleasesWriteTime = true := by
  decide

/-! ### a refused transaction leaves nothing behind; no refresh under a fixed time (F57, F58) -/

/-- a transaction the table refuses leaves both attributes and the flag as they were -/
theorem refused_begin_leaves_conn (c : Conn) (now : Int) : (c.beginOn F now false) = (c, false) := by
  have h : F.beginAsksTableFirst = true := by decide
  simp [Conn.beginOn, h]

/-- … so a statement issued later is stamped with its own time, not with the refused one's -/
theorem after_refused_begin_clock_time (c : Conn) (hw : c.writeTime = none) (now later : Int) :
    ((c.beginOn F now false).1).stmtTime F later = later := by
  have h2 : F.updateTimePrefersContext = true := by decide
  have h3 : F.resetContextAsExpected = true := by decide
  rw [refused_begin_leaves_conn]
  simp [Conn.stmtTime, h2, h3, hw]

/-- the defect F57 on the model that pins the time first: the refused transaction's time sticks,
    and a statement issued at 500 is dated 100 -/
theorem without_table_first_refused_time_sticks :
    let F0 : Facts := { F with beginAsksTableFirst := false }
    (((({} : Conn).beginOn F0 100 false).1).stmtTime F0 500) = 100 := by
  decide

/-- inside a transaction whose time was fixed at BEGIN a refresh is refused (rows another writer
    committed after that time would lose the transaction's own later UPDATE silently); with an
    explicit write_time the caller owns the clock and the refresh is allowed -/
theorem refresh_refused_under_fixed_time (c : Conn) (hw : c.writeTime = none) (now : Int) :
    (c.begin F now).refreshAllowed F = false := by
  have h1 : F.beginFixesWriteTime = true := by decide
  have h2 : F.refreshRefusedAfterWrite = true := by decide
  simp [Conn.begin, Conn.refreshAllowed, h1, h2, hw]

theorem refresh_allowed_outside (c : Conn) (h : c.txFixed = false) : c.refreshAllowed F = true := by
  simp [Conn.refreshAllowed, h]

theorem begin_refresh_facts :
    F.beginAsksTableFirst = true ∧ F.refreshRefusedAfterWrite = true ∧ F.connFilterResetsEof = true := by decide

/-! ### a write time is stored as 64-bit nanoseconds (F74)

`ConnModule.Update` refuses a `write_time` before `time.Unix(0, MinInt64)` or after
`time.Unix(0, MaxInt64)` (part of `connUpdateParsesBeforeAssigning`).  `wrap64` is what
`Time.UnixNano()` does outside that range; times are nanoseconds since 1970. -/

def wrap64 (n : Int) : Int := (n + 2 ^ 63) % 2 ^ 64 - 2 ^ 63

/-- the guard of `ConnModule.Update`, negated: the time is accepted -/
def timeAccepted (ns : Int) : Bool := decide (-(2 ^ 63) ≤ ns) && decide (ns ≤ 2 ^ 63 - 1)

/-- an accepted write time is stored exactly -/
theorem accepted_time_stored_exactly (ns : Int) (h : timeAccepted ns = true) : wrap64 ns = ns := by
  simp only [timeAccepted, Bool.and_eq_true, decide_eq_true_eq] at h
  unfold wrap64
  omega

/-- … so accepted write times keep their order in storage: a later one never loses against an
    earlier one because of the representation -/
theorem accepted_times_keep_order (a b : Int) (ha : timeAccepted a = true) (hb : timeAccepted b = true)
    (h : a < b) : wrap64 a < wrap64 b := by
  rw [accepted_time_stored_exactly a ha, accepted_time_stored_exactly b hb]; exact h

/-- the defect F74, were the guard missing: 9999-12-31 23:59:59 wraps to a time before 2020-09-13
    (1 600 000 000 s), so the later statement would lose -/
theorem year_9999_would_wrap_below_2020 :
    timeAccepted (253402300799 * 10 ^ 9) = false ∧
    wrap64 (253402300799 * 10 ^ 9) < wrap64 (1600000000 * 10 ^ 9) := by
  decide

/-- the boundary: the last accepted second is 2262-04-11 23:47:16 -/
example : timeAccepted (9223372036 * 10 ^ 9) = true ∧ timeAccepted (9223372037 * 10 ^ 9) = false := by decide

end S3db.Props.C15Conn
