import S3db.Model.Txn
import S3db.Gen.Facts
/-!
# C15 (connection part) — write_time and deadline apply to exactly the statements issued while
they are set, read back from s3db_conn, and clearing them restores the defaults
-/
namespace S3db.Props.C15Conn
open S3db S3db.Txn

abbrev F : Facts := S3db.Gen.facts

/-- what is set is what is read back and what stamps the next statements -/
theorem conn_set_read (c : Conn) (d w : Int) (now : Int) :
    ∃ c', c.update F (.set d) (.set w) = some c' ∧ c'.read = (some d, some w) ∧ c'.stmtTime F now = w := by
  refine ⟨{ deadline := some d, writeTime := some w, txFixed := false }, rfl, rfl, ?_⟩
  have h2 : F.updateTimePrefersContext = true := rfl
  have h3 : F.resetContextAsExpected = true := rfl
  simp [Conn.stmtTime, h2, h3]

/-- clearing restores the defaults: no deadline, statements stamped with the clock -/
theorem conn_clear_default (c : Conn) (now : Int) :
    ∃ c', c.update F .clear .clear = some c' ∧ c'.read = (none, none) ∧ c'.stmtTime F now = now := by
  refine ⟨{ deadline := none, writeTime := none, txFixed := false }, rfl, rfl, ?_⟩
  have h2 : F.updateTimePrefersContext = true := rfl
  have h3 : F.resetContextAsExpected = true := rfl
  simp [Conn.stmtTime, h2, h3]

/-- an attribute that is not mentioned keeps its value -/
theorem conn_nochange_keeps (c : Conn) (w : Int) :
    ∃ c', c.update F .noChange (.set w) = some c' ∧ c'.deadline = c.deadline ∧ c'.writeTime = some w := by
  exact ⟨{ deadline := c.deadline, writeTime := some w, txFixed := false }, rfl, rfl, rfl⟩

/-- a rejected statement changes neither attribute (both values are parsed before any is assigned) -/
theorem conn_rejected_unchanged (c : Conn) (d w : Assign) (h : d = .malformed ∨ w = .malformed) :
    c.update F d w = none := by
  have hf : F.connUpdateParsesBeforeAssigning = true := rfl
  rcases h with h | h <;> subst h
  · simp [Conn.update, Assign.apply]
  · cases d <;> simp [Conn.update, Assign.apply, hf]

/-- **scope**: a statement observes exactly the attribute in force when it is issued — setting
    it afterwards (or clearing it) does not reach back, and a statement issued before any
    setting is stamped with the clock -/
theorem conn_scope (c : Conn) (w : Int) (now1 now2 : Int) (hc : c.writeTime = none) :
    c.stmtTime F now1 = now1 ∧
    (∀ c', c.update F .noChange (.set w) = some c' → c'.stmtTime F now2 = w ∧
      ∀ c'', c'.update F .noChange .clear = some c'' → c''.stmtTime F now2 = now2) := by
  have h2 : F.updateTimePrefersContext = true := rfl
  have h3 : F.resetContextAsExpected = true := rfl
  refine ⟨by simp [Conn.stmtTime, h2, h3, hc], ?_⟩
  intro c' h'
  simp only [Conn.update, Assign.apply, Option.some.injEq] at h'
  subst h'
  refine ⟨by simp [Conn.stmtTime, h2, h3], ?_⟩
  intro c'' h''
  simp only [Conn.update, Assign.apply, Option.some.injEq] at h''
  subst h''
  simp [Conn.stmtTime, h2, h3]

/-- setting the attribute inside a transaction takes over from the time fixed at BEGIN, and the
    end of the transaction then leaves the explicit value in place -/
theorem conn_update_inside_transaction (c : Conn) (now0 w : Int) :
    ∃ c', (c.begin F now0).update F .noChange (.set w) = some c' ∧ c'.writeTime = some w ∧
      (c'.endTx F).writeTime = some w := by
  refine ⟨{ deadline := (c.begin F now0).deadline, writeTime := some w, txFixed := false }, rfl, rfl, ?_⟩
  simp [Conn.endTx]

theorem conn_facts :
    F.connUpdateParsesBeforeAssigning = true ∧ F.resetContextAsExpected = true ∧
    F.updateTimePrefersContext = true ∧ F.beginFixesWriteTime = true ∧ F.endOfTxReleasesWriteTime = true := by
  decide

end S3db.Props.C15Conn
