import S3db.Model.World
import S3db.Gen.Facts
/-!
# C19 — independent connections can be used from different threads (logic part)

`step_frame`: a statement of one connection leaves the attributes of every other connection and
every table it does not name untouched.  `steps_commute`: statements of different connections on
different tables and prefixes commute — so any interleaving of independent streams is equivalent
to running the connections one after another.  That the shared parts are only touched under
their mutex is the fact `sharedGlobalsLocked` (re-extracted on every run); data races proper are
for the race detector (`race` stream).
-/
namespace S3db.Props.C19
open S3db S3db.AList S3db.World

abbrev F : Facts := S3db.Gen.facts

/-- a connection's deadline and write_time are changed only by its own statements -/
theorem attrs_frame (w : W) (c : Nat) (s : Stmt) (c' : Nat) (h : c' ≠ c) :
    lookup c' (step w c s).1.attrs = lookup c' w.attrs := by
  cases s <;> simp only [step] <;> (try split) <;> (try split) <;> simp [lookup_insert, h.symm]

/-- a statement changes no table other than the one it names -/
theorem table_frame (w : W) (c : Nat) (s : Stmt) (n : String) (h : s.table ≠ some n) :
    lookup n (step w c s).1.registry = lookup n w.registry := by
  cases s <;> simp only [step, Stmt.table, ne_eq, Option.some.injEq] at h ⊢ <;>
    (try split) <;> (try split) <;> simp [lookup_insert, lookup_erase, h]

/-- a statement of a connection that does not own the table fails and changes nothing -/
theorem foreign_table_untouched (w : W) (c : Nat) (s : Stmt) (n : String) (t : TableSt)
    (hs : s.table = some n) (hc : ∀ p, s ≠ .create n p) (ht : lookup n w.registry = some t) (ho : t.owner ≠ c) :
    step w c s = (w, .err) := by
  cases s <;> simp only [Stmt.table, Option.some.injEq] at hs <;> try subst hs
  · exact absurd rfl (hc _)
  all_goals simp [step, ht, ho]
  · cases hs

/-- **steps_commute**: two statements of different connections that name different tables on
    different prefixes commute (same resulting world, same outcomes) -/
theorem steps_commute (w : W) (c1 c2 : Nat) (n1 n2 : String) (k1 v1 k2 v2 : Nat)
    (hn : n1 ≠ n2)
    (t1 t2 : TableSt) (h1 : lookup n1 w.registry = some t1) (h2 : lookup n2 w.registry = some t2)
    (o1 : t1.owner = c1) (o2 : t2.owner = c2) :
    Same (step (step w c1 (.insert n1 k1 v1)).1 c2 (.insert n2 k2 v2)).1
         (step (step w c2 (.insert n2 k2 v2)).1 c1 (.insert n1 k1 v1)).1 := by
  simp only [step, h1, h2, o1, o2, if_true, lookup_insert, hn, hn.symm, if_false]
  refine ⟨?_, fun _ => rfl, fun _ => rfl⟩
  intro n
  by_cases a : n1 = n <;> by_cases b : n2 = n <;> simp [lookup_insert, a, b]
  · exact absurd (a.trans b.symm) hn

/-- commits of different connections to different prefixes commute as well -/
theorem commits_commute (w : W) (c1 c2 : Nat) (n1 n2 : String)
    (t1 t2 : TableSt) (h1 : lookup n1 w.registry = some t1) (h2 : lookup n2 w.registry = some t2)
    (o1 : t1.owner = c1) (o2 : t2.owner = c2) (hp : t1.prefix_ ≠ t2.prefix_) :
    Same (step (step w c1 (.commit n1)).1 c2 (.commit n2)).1
         (step (step w c2 (.commit n2)).1 c1 (.commit n1)).1 := by
  simp only [step, h1, h2, o1, o2, if_true]
  refine ⟨fun _ => rfl, fun _ => rfl, ?_⟩
  intro p
  by_cases a : t1.prefix_ = p <;> by_cases b : t2.prefix_ = p <;> simp [lookup_insert, a, b]
  · exact absurd (a.trans b.symm) hp

/-- **a table name is registered once**: whatever else the connections do in between (any
    statements that do not drop it), after one connection's CREATE of a name succeeded every other
    CREATE of that name is refused — check and registration are one atomic step (`registerAtomic`),
    so no interleaving lets two connections both own the name -/
theorem create_same_name_once (w : W) (c1 : Nat) (n p1 : String)
    (h1 : (step w c1 (.create n p1)).2 = .ok)
    (mid : List (Nat × Stmt)) (hmid : ∀ x ∈ mid, x.2 ≠ .drop n)
    (c2 : Nat) (p2 : String) :
    (step (mid.foldl (fun w x => (step w x.1 x.2).1) (step w c1 (.create n p1)).1) c2 (.create n p2)).2 = .err := by
  have reg : ∀ (w : W), (lookup n w.registry).isSome →
      ∀ (c : Nat) (s : Stmt), s ≠ .drop n → (lookup n (step w c s).1.registry).isSome := by
    intro w hw c s hs
    cases s with
    | create name pfx =>
      simp only [step]
      cases hl : lookup name w.registry with
      | some t => simpa using hw
      | none =>
        by_cases hn : name = n
        · subst hn; simp [lookup_insert]
        · simp only [lookup_insert]; simp [hn, hw]
    | insert name k v =>
      simp only [step]
      cases hl : lookup name w.registry with
      | none => simpa using hw
      | some t =>
        by_cases ho : t.owner = c
        · by_cases hn : name = n
          · subst hn; simp [ho, lookup_insert]
          · simp only [ho, if_true, lookup_insert]; simp [hn, hw]
        · simpa [ho] using hw
    | commit name =>
      simp only [step]
      cases hl : lookup name w.registry with
      | none => simpa using hw
      | some t => by_cases ho : t.owner = c <;> simpa [ho] using hw
    | refresh name =>
      simp only [step]
      cases hl : lookup name w.registry with
      | none => simpa using hw
      | some t =>
        by_cases ho : t.owner = c
        · by_cases hn : name = n
          · subst hn; simp [ho, lookup_insert]
          · simp only [ho, if_true, lookup_insert]; simp [hn, hw]
        · simpa [ho] using hw
    | setWriteTime wt => simpa [step] using hw
    | drop name =>
      have hn : name ≠ n := fun e => hs (by rw [e])
      simp only [step]
      cases hl : lookup name w.registry with
      | none => simpa using hw
      | some t =>
        by_cases ho : t.owner = c
        · simp only [ho, if_true, lookup_erase]; simp [hn, hw]
        · simpa [ho] using hw
  have h0 : (lookup n (step w c1 (.create n p1)).1.registry).isSome := by
    simp only [step] at h1 ⊢
    cases hl : lookup n w.registry with
    | some t => rw [hl] at h1; simp at h1
    | none => simp [lookup_insert]
  have hfold : ∀ (l : List (Nat × Stmt)) (w : W), (∀ x ∈ l, x.2 ≠ .drop n) → (lookup n w.registry).isSome →
      (lookup n (l.foldl (fun w x => (step w x.1 x.2).1) w).registry).isSome := by
    intro l
    induction l with
    | nil => intro w _ hw; simpa using hw
    | cons x xs ih =>
      intro w hx hw
      simp only [List.foldl_cons]
      exact ih _ (fun y hy => hx y (List.mem_cons_of_mem _ hy)) (reg w hw x.1 x.2 (hx x List.mem_cons_self))
  have := hfold mid _ hmid h0
  generalize mid.foldl (fun w x => (step w x.1 x.2).1) (step w c1 (.create n p1)).1 = w' at this ⊢
  cases hl : lookup n w'.registry with
  | none => rw [hl] at this; simp at this
  | some t => simp [step, hl]

/-- the shared state of the process, as found in the source on this run, and that every access
    to it is under its mutex -/
theorem shared_state_facts :
    F.sharedGlobals = ["open.go:inMemoryBucket", "open.go:inMemoryS3", "vtable_common.go:tables",
      "writetime/context.go:i", "writetime/context.go:key"] ∧ F.sharedGlobalsLocked = true ∧
    F.registerAtomic = true := by
  decide

end S3db.Props.C19
