import S3db.Model.Schema
import S3db.Gen.Facts
import S3db.Lemmas.SchemaLemmas
/-!
# C20 — table definitions are accepted, declared and rejected consistently

Theorems about the decision logic of `Model/Schema.lean` (the actions of `sql.Schema`,
`convertSchema`, the option loop of `New`), for every list of column items and options.
How a definition is *spelt* (quoting, case, white space) is validated differentially by the
`schema` stream, which renders every structure in many spellings.
-/
namespace S3db.Props.C20
open S3db S3db.Schema

abbrev F : Facts := S3db.Gen.facts

/-- the names of the column items, in order -/
def colNames : List Item → List String
  | [] => []
  | .col n _ _ :: rest => n :: colNames rest
  | .tablePK _ :: rest => colNames rest

def colNotNull : List Item → List (String × Bool)
  | [] => []
  | .col n _ cs :: rest => (n, cs.contains .notNull) :: colNotNull rest
  | .tablePK _ :: rest => colNotNull rest

theorem colNotNull_eq (items : List Item) : colNotNull items = specCols items := by
  induction items with
  | nil => rfl
  | cons it rest ih => cases it <;> simp [colNotNull, specCols, ih]

theorem colNames_eq (items : List Item) : colNames items = specNames items := by
  induction items with
  | nil => rfl
  | cons it rest ih => cases it <;> simp [colNames, specNames, ih]

theorem F_unknownOptionRejected : F.unknownOptionRejected = true := rfl

/-- **declared_matches**: an accepted definition declares exactly the specified columns, in the
    specified order, with NOT NULL where (and only where) it was specified -/
theorem declared_matches (items : List Item) (d : Declared) (h : convert items = some d) :
    d.cols = colNotNull items := by
  rw [(convert_some h).1, parse_cols, colNotNull_eq]

/-- … and its key is the single column named by the one PRIMARY KEY clause, which is a declared column -/
theorem declared_key (items : List Item) (d : Declared) (k : String) (h : convert items = some d)
    (hk : d.key = some k) : k ∈ colNames items := by
  rw [colNames_eq, ← parse_names]
  exact ((convert_some h).2 k hk).2

/-- … found whatever the case the PRIMARY KEY clause is written in, and declared in the column's
    own spelling (F96; fact `keyColumnFoldedLookup`) -/
theorem declared_key_named_by_clause (items : List Item) (d : Declared) (k : String)
    (h : convert items = some d) (hk : d.key = some k) :
    ∃ k0, (parse items).pk = [k0] ∧ lower k = lower k0 :=
  ((convert_some h).2 k hk).1

/-- `id, name, PRIMARY KEY(ID)` is accepted with the key `id` -/
example :
    convert [.col "id" true [], .col "name" true [], .tablePK ["ID"]] =
      some { cols := [("id", false), ("name", false)], key := some "id" } := by
  simp only [convert, Function.comp_def, lower_eq]
  decide

/-- UNIQUE anywhere is rejected -/
theorem rejects_unique (pre post : List Item) (n : String) (t : Bool) (cs : List Cons) (h : Cons.unique ∈ cs) :
    convert (pre ++ .col n t cs :: post) = none :=
  convert_none_of_bad _ (parse_bad_of_item pre post _ fun q => parseItem_unique_bad q n t cs h)

/-- DEFAULT / CHECK / REFERENCES / COLLATE … (anything the grammar does not know) is rejected -/
theorem rejects_default (pre post : List Item) (n : String) (t : Bool) (cs : List Cons) (h : Cons.other ∈ cs) :
    convert (pre ++ .col n t cs :: post) = none :=
  convert_none_of_bad _ (parse_bad_of_item pre post _ fun q => parseItem_other_bad q n t cs h)

/-- an unknown type word is rejected -/
theorem rejects_unknown_type (pre post : List Item) (n : String) (cs : List Cons) :
    convert (pre ++ .col n false cs :: post) = none :=
  convert_none_of_bad _ (parse_bad_of_item pre post _ fun q => parseItem_unknownType_bad q n cs)

/-- a composite key is rejected -/
theorem rejects_composite (pre post : List Item) (ns : List String) (h : ns.length ≥ 2) :
    convert (pre ++ .tablePK ns :: post) = none :=
  convert_none_of_bad _ (parse_bad_of_item pre post _ fun q => parseItem_composite_bad q ns h)

/-- two columns with the same name (in any case) are rejected -/
theorem rejects_duplicate_column (items : List Item) (h : hasDup ((colNames items).map lower) = true) :
    convert items = none := by
  apply convert_none_of_dup
  rwa [← List.map_map, parse_names, ← colNames_eq]

/-- an empty column list is rejected -/
theorem rejects_empty : convert [] = none := by
  decide

/-! ### options -/

theorem rejects_unknown_option (o : Opts) (name : String) (v : OptVal)
    (h : name ∉ ["readonly", "entries_per_node", "node_cache_entries", "s3_bucket", "s3_endpoint", "s3_prefix", "columns"]) :
    applyOpt o name v = none := by
  simp only [List.mem_cons, List.not_mem_nil, or_false, not_or] at h
  obtain ⟨h1, h2, h3, h4, h5, h6, h7⟩ := h
  simp [applyOpt, h1, h2, h3, h4, h5, h6, h7]

theorem rejects_missing_value (o : Opts) (name : String) (h : name ≠ "readonly") :
    applyOpt o name .none = none := by
  simp [applyOpt, h]

theorem rejects_readonly_value (o : Opts) (v : OptVal) (h : v ≠ .none) : applyOpt o "readonly" v = none := by
  simp [applyOpt, h]

theorem rejects_malformed_number (o : Opts) (name : String)
    (h : name = "entries_per_node" ∨ name = "node_cache_entries") : applyOpt o name .text = none := by
  rcases h with rfl | rfl <;> simp [applyOpt]

theorem rejects_negative_or_huge (o : Opts) (name : String) (n : Int)
    (h : name = "entries_per_node" ∨ name = "node_cache_entries") (hn : n < 0 ∨ n ≥ (2:Int)^31) :
    applyOpt o name (.number n) = none := by
  have hb : (int32 n && decide (0 ≤ n)) = false := by
    simp only [int32, Bool.and_eq_false_iff, decide_eq_false_iff_not]; omega
  rcases h with rfl | rfl <;> simp [applyOpt, hb]

/-- a well-formed size is stored as given -/
theorem accepts_size (o : Opts) (n : Int) (h0 : 0 ≤ n) (h1 : n < (2:Int)^31) :
    applyOpt o "entries_per_node" (.number n) = some { o with entriesPerNode := n } ∧
    applyOpt o "node_cache_entries" (.number n) = some { o with nodeCache := n } := by
  have hb : (int32 n && decide (0 ≤ n)) = true := by
    simp only [int32, Bool.and_eq_true, decide_eq_true_eq]; omega
  constructor <;> simp [applyOpt, hb]

/-- a duplicated option is rejected, wherever the two occurrences are -/
theorem rejects_duplicated_option (o : Opts) (seen : List String) (pre post : List (String × OptVal))
    (name : String) (v1 v2 : OptVal) (mid : List (String × OptVal)) :
    applyOpts o seen (pre ++ (name, v1) :: mid ++ (name, v2) :: post) = none := by
  rw [List.append_assoc, List.cons_append]
  exact applyOpts_dup pre mid post name v1 v2 o seen

/-- one bad option rejects the whole definition, whatever the columns are -/
theorem bad_option_rejects_create (items : Option (List Item)) (opts : List (String × OptVal))
    (h : applyOpts {} [] opts = none) : create F items opts = none := by
  simp [create, F_unknownOptionRejected, h]

/-- **reject_no_effect**: every argument is parsed and checked before the bucket is opened, the
    table is registered only after that, and a declaration SQLite refuses unregisters it -/
theorem reject_no_effect_facts :
    F.argsBeforeOpen = true ∧ F.registerAfterOpen = true ∧ F.declareFailureUnregisters = true ∧
    F.unknownOptionRejected = true := by
  decide

/-- **a rejected definition leaves no table registered**, at whichever step it is rejected: by
    the arguments, by the storage that cannot be opened, or by SQLite refusing the declaration -/
theorem reject_no_effect (dec opens declOK : Bool) (h : (createEff F dec opens declOK).1 = false) :
    (createEff F dec opens declOK).2 = false := by
  have h1 : F.argsBeforeOpen = true := by decide
  have h2 : F.registerAfterOpen = true := by decide
  have h3 : F.declareFailureUnregisters = true := by decide
  unfold createEff at *
  cases dec <;> cases opens <;> cases declOK <;> simp_all

/-- with the registration in front of the storage open (a seeded variant) a definition rejected
    by the storage stays registered -/
theorem register_before_open_leaks :
    (createEff { F with registerAfterOpen := false } true false true) = (false, true) := by
  decide

/-- **a rejected definition leaves the bucket as it was**, also where an open would have stored
    the merge of several unmerged versions (F61) -/
theorem rejected_definition_writes_nothing (dec namesOK opens multi : Bool)
    (h : (createWrites F dec namesOK opens multi).1 = false) :
    (createWrites F dec namesOK opens multi).2 = false := by
  have h1 : F.declarableCheckedBeforeOpen = true := by decide
  unfold createWrites at *
  cases dec <;> cases namesOK <;> cases opens <;> cases multi <;> simp_all

/-- with the names checked by SQLite's declare only (after the open): two unmerged versions, a
    definition with columns `a, A` — rejected, and a merge version written -/
theorem late_name_check_writes_a_merge :
    createWrites { F with declarableCheckedBeforeOpen := false } true false true true = (false, true) := by
  decide

/-- the text level of the definition, which the structural model does not see: the grammar takes
    no dangling comma and no keywords run together, an untyped column gets no type, and option
    values are used as written (only string literals lose their quotes) -/
theorem grammar_facts : F.schemaGrammarStrict = true ∧ F.unquoteOnlyStrings = true := by decide

/-- … option values are taken as written (no stray blank, no octal), and what SQLite would refuse
    to declare is refused before the storage is opened, so a rejected definition writes nothing
    even where an open would have stored a merge (F59, F61) -/
theorem option_facts :
    F.optionValuesAsWritten = true ∧ F.declarableCheckedBeforeOpen = true ∧ F.keyColumnFoldedLookup = true := by decide

/-- non-vacuity: the README's own example is accepted as specified -/
example :
    create F (some [.col "id" true [.primaryKey], .col "name" true [], .col "email" true [.notNull]])
      [("node_cache_entries", .number 1000)] =
    some ({ cols := [("id", false), ("name", false), ("email", true)], key := some "id" }, { nodeCache := 1000 }) := by
  simp only [create, convert, Function.comp_def, lower_eq]
  decide

end S3db.Props.C20
