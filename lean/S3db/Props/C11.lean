import S3db.Props.C03
/-!
# C11 — a version name denotes an immutable snapshot

Version objects are write-once (their name is a hash of their bytes) and only ever move from
`root/current/` to `root/merged/`; an open restricted to given versions (`OnlyVersions`) looks in
both places and fails if one is missing.  Hence such an open returns the same versions — with
the same immutable contents — whatever other clients did in between (vacuum excluded: C09/C10).
-/
namespace S3db.Props.C11
open S3db S3db.Proto S3db.Props.C03

/-- the registry of version objects only grows: an existing version never changes -/
theorem version_objects_immutable (s : Sys) (sched : List (Nat × Act)) (v : Vid) (ps : List Vid)
    (h : s.vers[v]? = some ps) : (run F s sched).vers[v]? = some ps := by
  exact (ProtoInv.run_later s sched).vers_get h

/-- **re-reading a version later gives the same version**: any versions that were stored when the
    name was taken can be opened by name after any further schedule of any clients -/
theorem historic_open_stable (s : Sys) (h : Reachable s) (sched : List (Nat × Act)) (vs : List Vid)
    (hvs : ∀ v, v ∈ vs → v ∈ s.stored) :
    openOnly F (run F s sched).bucket vs = some vs := by
  obtain ⟨ros, sched0, rfl⟩ := h
  apply ProtoInv.openOnly_of_mem
  intro v hv
  have hI := ProtoInv.inv_run (ProtoInv.inv_reachable ros sched0) sched
  exact hI.g.stored_sub v ((ProtoInv.run_later _ sched).stored v (hvs v hv))

/-- a restricted open never substitutes something else for a missing version: it fails -/
theorem historic_open_fails_on_missing (b : Bucket) (vs : List Vid) (v : Vid) (hv : v ∈ vs)
    (h1 : v ∉ b.current) (h2 : v ∉ b.merged) : openOnly F b vs = none := by
  exact ProtoInv.openOnly_missing b vs v hv h1 h2

/-- the empty version list names the empty snapshot, at any later time -/
theorem empty_version_is_empty (b : Bucket) : openOnly F b [] = some [] := by
  exact ProtoInv.openOnly_of_mem b [] (fun _ h => nomatch h)

theorem version_facts :
    F.nameIsHashOfStoredBytes = true ∧ F.historicCond = "opts.OnlyVersions != nil" ∧
    F.historicFailsOnMissing = true ∧ F.historicLoadsFrom = ["current", "merged"] ∧
    F.loadErrorSkipCond = "errors.As(err, &ae) && ae.Code() == s3.ErrCodeNoSuchKey && skipUnreadable" ∧
    F.emptyVersionForgotten = true := by
  decide

end S3db.Props.C11
