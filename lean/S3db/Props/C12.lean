import S3db.Model.Changes
import S3db.Gen.Facts
/-!
# C12 — s3db_changes reports exactly the rows that differ between two versions
-/
namespace S3db.Props.C12
open S3db S3db.AList S3db.Row S3db.Table S3db.Changes

variable {K V : Type} [DecidableEq K] [DecidableEq V]

theorem mem_dedupK {k : K} : ∀ {ks : List K}, k ∈ dedupK ks ↔ k ∈ ks
  | [] => by simp [dedupK]
  | a :: ks => by
    unfold dedupK
    by_cases h : a ∈ ks
    · simp only [h, if_true, List.mem_cons]
      rw [mem_dedupK]
      constructor
      · intro h1; exact Or.inr h1
      · rintro (h1 | h1)
        · subst h1; exact h
        · exact h1
    · simp only [h, if_false, List.mem_cons]
      rw [mem_dedupK]

theorem mem_diffKeys (frm to : Table K V) (k : K) :
    k ∈ diffKeys frm to ↔ lookup k to ≠ lookup k frm := by
  unfold diffKeys
  simp only [List.mem_filter, decide_eq_true_eq, mem_dedupK, List.mem_append]
  constructor
  · intro h; exact h.2
  · intro h
    refine ⟨?_, h⟩
    by_cases h1 : lookup k to = none
    · by_cases h2 : lookup k frm = none
      · rw [h1, h2] at h; exact absurd rfl h
      · right; exact Classical.byContradiction fun hc => h2 (lookup_eq_none_iff.2 hc)
    · left; exact Classical.byContradiction fun hc => h1 (lookup_eq_none_iff.2 hc)

/-- **sound**: every returned row is a row visible in `to`, exactly as stored there -/
theorem changes_sound (frm to : Table K V) (k : K) (cols : AList String (ACol V))
    (h : (k, cols) ∈ changes frm to) : visibleRow to k = some cols := by
  unfold changes at h
  rcases List.mem_filterMap.1 h with ⟨k', _, hk⟩
  unfold visibleRow visible
  cases hl : lookup k' to with
  | none => rw [hl] at hk; cases hk
  | some e =>
    rw [hl] at hk
    by_cases hd : e.row.deleted = true
    · simp [hd] at hk
    · simp only [hd] at hk
      simp at hk
      obtain ⟨h1, h2⟩ := hk
      subst h1; subst h2
      simp [hl, hd]

/-- **complete**: every row visible in `to` that is absent from `from` or differs from it in any
    way (any column value, any time, status) is returned -/
theorem changes_complete (frm to : Table K V) (k : K) (cols : AList String (ACol V))
    (hv : visibleRow to k = some cols) (hd : lookup k to ≠ lookup k frm) :
    (k, cols) ∈ changes frm to := by
  unfold changes
  refine List.mem_filterMap.2 ⟨k, (mem_diffKeys frm to k).2 hd, ?_⟩
  unfold visibleRow visible at hv
  cases hl : lookup k to with
  | none => rw [hl] at hv; cases hv
  | some e =>
    rw [hl] at hv
    by_cases hdel : e.row.deleted = true
    · simp [hdel] at hv
    · simp only [hdel] at hv ⊢
      simp at hv
      simp [hv]

/-- in particular a row that is visible in `to` and not visible in `from` is returned -/
theorem changes_complete_new (frm to : Table K V) (k : K) (cols : AList String (ACol V))
    (hv : visibleRow to k = some cols) (hf : visibleRow frm k = none) :
    (k, cols) ∈ changes frm to := by
  apply changes_complete frm to k cols hv
  intro heq
  unfold visibleRow at hv hf
  rw [heq] at hv
  rw [hv] at hf
  cases hf

/-- **deleted rows are silent**: a key whose row in `to` is a delete marker (or absent) is not
    returned, and the query does not fail because of it -/
theorem changes_deleted_silent (frm to : Table K V) (k : K) (h : visibleRow to k = none) :
    ∀ cols, (k, cols) ∉ changes frm to := by
  intro cols hm
  have := changes_sound frm to k cols hm
  rw [h] at this; cases this

/-- **a failing read fails the query**: never a shorter list -/
theorem changes_fault (errs : K → Bool) (frm to : Table K V) :
    changesWithFaults errs frm to = none ∨ changesWithFaults errs frm to = some (changes frm to) := by
  unfold changesWithFaults
  split
  · left; rfl
  · right; rfl

/-- the named versions must be readable: a version that cannot be loaded is an error, never an
    empty table (`loadErrorSkipCond` keeps the `skipUnreadable` guard; historic opens pass `false`) -/
theorem changes_facts :
    S3db.Gen.facts.historicFailsOnMissing = true ∧ S3db.Gen.facts.missingSkippedOnlyIfSkipUnreadable = true ∧
    S3db.Gen.facts.mergeErrorsReturned = true ∧
    S3db.Gen.facts.loadErrorSkipCond = "errors.As(err, &ae) && ae.Code() == s3.ErrCodeNoSuchKey && skipUnreadable" := by
  decide

/-- non-vacuity: v1 = {1,2}, v2 = {1 (changed), 3}, key 2 deleted in between -/
example :
    let r (v : Nat) (t : Int) : SEntry Nat := { mod := t, row := { deleted := false, dut := t, cols := [("a", ⟨v, t⟩)] } }
    let v1 : Table Nat Nat := [(1, r 10 1), (2, r 20 2)]
    let v2 : Table Nat Nat := [(1, r 11 5), (2, { mod := 6, row := { deleted := true, dut := 6, cols := [("a", ⟨20, 2⟩)] } }), (3, r 30 7)]
    (changes v1 v2).map (·.1) = [3, 1] ∧ (changes v2 v1).map (·.1) = [1, 2] := by
  decide

end S3db.Props.C12
