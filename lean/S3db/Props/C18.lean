import S3db.Model.Box
import S3db.Lemmas.BoxLemmas
import S3db.Model.Facts
import S3db.Gen.Facts
/-!
# C18 — node encryption: what is written can be read back, and only what verifies is accepted

Theorems about the executable model of `kv/crypto.go` in `Model/Box.lean` (validated byte for byte
against the Go code), for ALL keys, nonces and messages of ALL lengths.  Salsa20 and Poly1305 are
never evaluated: the keystream enters only as the function `K key nonce : Nat → Nat`
(`ks_lt_256` is the one fact about it that is ever needed) and the MAC as an uninterpreted
function of (MAC key, ciphertext).  The unforgeability of Poly1305 is an ASSUMPTION outside these
theorems: `open_checks_tag` says that acceptance is exactly the tag comparison.

The round-trip theorems need no length or range hypotheses at all (XOR with the same value twice
is the identity on every natural); `nonce.length = 24` is needed wherever `decrypt` has to split
the nonce off again.

Findings recorded as theorems:
* `fallback_unreachable`: the legacy fallback in `decrypt` can never succeed — it recomputes the
  SAME tag check (same MAC key, same bytes) that `secretbox.Open` has just failed;
* `decrypt_legacy`, `legacy_long_readable_iff`: data written by the legacy format is "decrypted
  successfully" by the current path, to `m.take 32 ++ garbage`; it is `m` only if keystream blocks
  0 and 1 agree on the first `m.length - 32` bytes.
-/
namespace S3db.Props.C18
open S3db S3db.Box

/-- the XSalsa20 keystream of (key, 24-byte nonce) as a function of the byte position -/
abbrev K (key nonce : Bytes) : Nat → Nat := ks (subkey key nonce) (nonce8 nonce)

/-- the Poly1305 tag both formats put on / expect for ciphertext `c` -/
abbrev tagOf (key nonce c : Bytes) : Bytes := poly1305 (macKey key nonce) c

/-- every keystream byte is a byte (the only fact about Salsa20 used anywhere) -/
theorem K_lt_256 (key nonce : Bytes) (i : Nat) : K key nonce i < 256 := ks_lt_256 _ _ i

/-! ## the definitions over the abstract keystream -/

theorem take_tag (k c : Bytes) : (poly1305 k c ++ c).take 16 = poly1305 k c := by
  rw [List.take_append_of_le_length (by rw [poly1305_length]; omega),
    List.take_of_length_le (by rw [poly1305_length]; omega)]

theorem drop_tag (k c : Bytes) : (poly1305 k c ++ c).drop 16 = c := by
  rw [List.drop_append_of_le_length (by rw [poly1305_length]; omega),
    List.drop_of_length_le (by rw [poly1305_length]; omega)]
  rfl

theorem secretboxSeal_eq (key nonce m : Bytes) :
    secretboxSeal key nonce m = tagOf key nonce (xorAt (K key nonce) 32 m) ++ xorAt (K key nonce) 32 m := by
  simp [secretboxSeal, xorKeyStream_eq]

theorem legacySeal_eq (key nonce m : Bytes) :
    legacySeal key nonce m = tagOf key nonce (legacyXorAt (K key nonce) m) ++ legacyXorAt (K key nonce) m := by
  simp [legacySeal, legacyXor_eq]

theorem secretboxOpen_eq (key nonce box : Bytes) :
    secretboxOpen key nonce box =
      if 16 ≤ box.length ∧ box.take 16 = tagOf key nonce (box.drop 16)
      then some (xorAt (K key nonce) 32 (box.drop 16)) else none := by
  unfold secretboxOpen
  by_cases h : box.length < 16
  · simp [h]; intro h'; omega
  · by_cases h2 : box.take 16 = poly1305 (macKey key nonce) (box.drop 16)
    · simp [h, h2, xorKeyStream_eq]
    · simp [h, h2]

theorem legacyOpen_eq (key nonce box : Bytes) :
    legacyOpen key nonce box =
      if 16 ≤ box.length ∧ box.take 16 = tagOf key nonce (box.drop 16)
      then some (legacyXorAt (K key nonce) (box.drop 16)) else none := by
  unfold legacyOpen
  by_cases h : box.length < 16
  · simp [h]; intro h'; omega
  · by_cases h2 : box.take 16 = poly1305 (macKey key nonce) (box.drop 16)
    · simp [h, h2, legacyXor_eq]
    · simp [h, h2]

theorem secretboxSeal_length (key nonce m : Bytes) : (secretboxSeal key nonce m).length = 16 + m.length := by
  simp [secretboxSeal_eq, poly1305_length, xorAt_length]

theorem legacySeal_length (key nonce m : Bytes) : (legacySeal key nonce m).length = 16 + m.length := by
  simp [legacySeal_eq, poly1305_length, legacyXorAt_length]

/-- a box `tag ‖ c` with the right tag opens to `c` XOR keystream -/
theorem secretboxOpen_tagged (key nonce c : Bytes) :
    secretboxOpen key nonce (tagOf key nonce c ++ c) = some (xorAt (K key nonce) 32 c) := by
  rw [secretboxOpen_eq, take_tag, drop_tag]
  simp [poly1305_length]

theorem legacyOpen_tagged (key nonce c : Bytes) :
    legacyOpen key nonce (tagOf key nonce c ++ c) = some (legacyXorAt (K key nonce) c) := by
  rw [legacyOpen_eq, take_tag, drop_tag]
  simp [poly1305_length]

theorem decrypt_append (key nonce box : Bytes) (hn : nonce.length = 24) :
    decrypt key (nonce ++ box) =
      match secretboxOpen key nonce box with
      | some m => some m
      | none => legacyOpen key nonce box := by
  unfold decrypt
  have h1 : (nonce ++ box).take 24 = nonce := by
    rw [List.take_append_of_le_length (by omega), List.take_of_length_le (by omega)]
  have h2 : (nonce ++ box).drop 24 = box := by
    rw [List.drop_append_of_le_length (by omega), List.drop_of_length_le (by omega)]; rfl
  have h3 : ¬ (nonce ++ box).length < 24 := by simp; omega
  rw [if_neg h3, h1, h2]
  cases secretboxOpen key nonce box <;> rfl

/-! ## 1–3: round trips -/

/-- 1. what `secretbox.Seal` produces, `secretbox.Open` returns — every key, nonce, message -/
theorem secretbox_open_seal (key nonce m : Bytes) :
    secretboxOpen key nonce (secretboxSeal key nonce m) = some m := by
  rw [secretboxSeal_eq, secretboxOpen_tagged, xorAt_xorAt]

/-- 2. `decrypt` inverts `encrypt` (for whatever 24-byte nonce `encrypt` derived) -/
theorem decrypt_encrypt (key nonce m : Bytes) (hn : nonce.length = 24) :
    decrypt key (encryptWith key nonce m) = some m := by
  unfold encryptWith
  rw [decrypt_append key nonce _ hn, secretbox_open_seal]

/-- 3. the legacy pair round-trips, across the 32-byte boundary, every length -/
theorem legacy_open_seal (key nonce m : Bytes) :
    legacyOpen key nonce (legacySeal key nonce m) = some m := by
  rw [legacySeal_eq, legacyOpen_tagged, legacyXorAt_involutive]

/-! ## 4: determinism, injectivity, length -/

/-- 4a. the ciphertext is a function of (key, nonce, message): there is no other input -/
theorem encrypt_deterministic (key key' nonce nonce' m m' : Bytes)
    (hk : key = key') (hn : nonce = nonce') (hm : m = m') :
    encryptWith key nonce m = encryptWith key' nonce' m' := by
  subst hk hn hm; rfl

/-- 4b. … and under one (key, nonce) it determines the message -/
theorem encryptWith_eq_iff (key nonce m m' : Bytes) :
    encryptWith key nonce m = encryptWith key nonce m' ↔ m = m' := by
  constructor
  · intro h
    have h' := List.append_cancel_left h
    have h1 := secretbox_open_seal key nonce m
    rw [h', secretbox_open_seal] at h1
    exact (Option.some.inj h1).symm
  · intro h; rw [h]

/-- 4c. nonce ‖ tag ‖ ciphertext -/
theorem encryptWith_length (key nonce m : Bytes) (hn : nonce.length = 24) :
    (encryptWith key nonce m).length = 24 + 16 + m.length := by
  simp [encryptWith, secretboxSeal_length, hn]; omega

/-- the output consists of bytes -/
theorem secretboxSeal_bytes (key nonce m : Bytes) (hm : ∀ b ∈ m, b < 256) :
    ∀ b ∈ secretboxSeal key nonce m, b < 256 := by
  intro b hb
  rw [secretboxSeal_eq, List.mem_append] at hb
  rcases hb with h | h
  · exact poly1305_lt _ _ b h
  · exact xorAt_lt _ (K_lt_256 key nonce) m 32 hm b h

theorem legacySeal_bytes (key nonce m : Bytes) (hm : ∀ b ∈ m, b < 256) :
    ∀ b ∈ legacySeal key nonce m, b < 256 := by
  intro b hb
  rw [legacySeal_eq, List.mem_append] at hb
  rcases hb with h | h
  · exact poly1305_lt _ _ b h
  · exact legacyXorAt_lt _ (K_lt_256 key nonce) m hm b h

theorem encryptWith_bytes (key nonce m : Bytes) (hn : ∀ b ∈ nonce, b < 256) (hm : ∀ b ∈ m, b < 256) :
    ∀ b ∈ encryptWith key nonce m, b < 256 := by
  intro b hb
  unfold encryptWith at hb
  rw [List.mem_append] at hb
  rcases hb with h | h
  · exact hn b h
  · exact secretboxSeal_bytes key nonce m hm b h

/-! ## 5: short inputs -/

/-- 5a. no room for a nonce -/
theorem short_input_rejected (key c : Bytes) (h : c.length < 24) : decrypt key c = none := by
  simp [decrypt, h]

/-- 5b. no room for a tag after the nonce: rejected by BOTH formats -/
theorem short_box_rejected (key c : Bytes) (h : c.length < 40) : decrypt key c = none := by
  unfold decrypt
  by_cases h1 : c.length < 24
  · simp [h1]
  · have h2 : c.length - 24 < 16 := by omega
    simp [h1, secretboxOpen, legacyOpen, h2]

/-! ## 6: acceptance is exactly the tag comparison -/

/-- 6a. `secretbox.Open` succeeds exactly when the first 16 bytes are the Poly1305 tag of the rest
    under the MAC key, and then returns the rest XOR keystream from position 32 -/
theorem secretboxOpen_some_iff (key nonce box m : Bytes) :
    secretboxOpen key nonce box = some m ↔
      16 ≤ box.length ∧ box.take 16 = poly1305 (macKey key nonce) (box.drop 16) ∧
        m = xorAt (K key nonce) 32 (box.drop 16) := by
  rw [secretboxOpen_eq]
  by_cases h : 16 ≤ box.length ∧ box.take 16 = tagOf key nonce (box.drop 16)
  · rw [if_pos h]
    constructor
    · intro e; exact ⟨h.1, h.2, (Option.some.inj e).symm⟩
    · intro e; rw [e.2.2]
  · rw [if_neg h]
    constructor
    · intro e; cases e
    · intro e; exact absurd ⟨e.1, e.2.1⟩ h

theorem legacyOpen_some_iff (key nonce box m : Bytes) :
    legacyOpen key nonce box = some m ↔
      16 ≤ box.length ∧ box.take 16 = poly1305 (macKey key nonce) (box.drop 16) ∧
        m = legacyXorAt (K key nonce) (box.drop 16) := by
  rw [legacyOpen_eq]
  by_cases h : 16 ≤ box.length ∧ box.take 16 = tagOf key nonce (box.drop 16)
  · rw [if_pos h]
    constructor
    · intro e; exact ⟨h.1, h.2, (Option.some.inj e).symm⟩
    · intro e; rw [e.2.2]
  · rw [if_neg h]
    constructor
    · intro e; cases e
    · intro e; exact absurd ⟨e.1, e.2.1⟩ h

/-- 6. whatever `secretbox.Open` accepts carries the right tag -/
theorem open_checks_tag (key nonce box m : Bytes) (h : secretboxOpen key nonce box = some m) :
    box.take 16 = poly1305 (macKey key nonce) (box.drop 16) :=
  ((secretboxOpen_some_iff key nonce box m).1 h).2.1

/-- 6'. … and so does whatever the legacy open accepts — the SAME check -/
theorem legacy_open_checks_tag (key nonce box m : Bytes) (h : legacyOpen key nonce box = some m) :
    box.take 16 = poly1305 (macKey key nonce) (box.drop 16) :=
  ((legacyOpen_some_iff key nonce box m).1 h).2.1

/-- the MAC key is keystream bytes 0 … 31, disjoint from the positions (32 …) that encrypt the
    current format — but NOT from the positions (0 …) the legacy format reuses for the tail -/
theorem macKey_is_keystream (key nonce : Bytes) : macKey key nonce = (List.range 32).map (K key nonce) :=
  macKey_eq key nonce

/-- whatever `decrypt` returns passed the tag check on the bytes after the nonce -/
theorem decrypt_checks_tag (key c m : Bytes) (h : decrypt key c = some m) :
    24 + 16 ≤ c.length ∧
      (c.drop 24).take 16 = poly1305 (macKey key (c.take 24)) ((c.drop 24).drop 16) := by
  unfold decrypt at h
  by_cases h1 : c.length < 24
  · simp [h1] at h
  · rw [if_neg h1] at h
    cases h2 : secretboxOpen key (c.take 24) (c.drop 24) with
    | some m' =>
      have := (secretboxOpen_some_iff _ _ _ _).1 h2
      refine ⟨?_, this.2.1⟩
      have := this.1; simp at this; omega
    | none =>
      rw [h2] at h
      have := (legacyOpen_some_iff _ _ _ _).1 h
      refine ⟨?_, this.2.1⟩
      have := this.1; simp at this; omega

/-! ## 7: the fallback -/

/-- 7. when the current format verifies, its result is returned; the legacy path is not consulted.
    (The nonce `decrypt` uses is `c.take 24`; for `c` shorter than 24 the hypothesis is false.) -/
theorem fallback_only_after_failure (key c m : Bytes)
    (h : secretboxOpen key (c.take 24) (c.drop 24) = some m) : decrypt key c = some m := by
  unfold decrypt
  by_cases h1 : c.length < 24
  · have : c.drop 24 = [] := List.drop_eq_nil_of_le (by omega)
    rw [this] at h
    simp [secretboxOpen] at h
  · rw [if_neg h1, h]

/-- 7'. the same with the nonce split off -/
theorem fallback_only_after_failure' (key nonce box m : Bytes) (hn : nonce.length = 24)
    (h : secretboxOpen key nonce box = some m) : decrypt key (nonce ++ box) = some m := by
  rw [decrypt_append key nonce box hn, h]

/-- FINDING: the two open functions accept exactly the same boxes (same length test, same MAC key,
    same tag comparison) … -/
theorem legacyOpen_isSome_iff (key nonce box : Bytes) :
    (legacyOpen key nonce box).isSome = (secretboxOpen key nonce box).isSome := by
  rw [legacyOpen_eq, secretboxOpen_eq]
  by_cases h : 16 ≤ box.length ∧ box.take 16 = tagOf key nonce (box.drop 16)
  · rw [if_pos h, if_pos h]; rfl
  · rw [if_neg h, if_neg h]

/-- … so whenever the fallback is reached it fails: it is dead code -/
theorem fallback_unreachable (key nonce box : Bytes) (h : secretboxOpen key nonce box = none) :
    legacyOpen key nonce box = none := by
  have := legacyOpen_isSome_iff key nonce box
  rw [h] at this
  simpa using this

/-- `decrypt` IS the current-format open; the legacy format contributes nothing -/
theorem decrypt_eq_secretboxOpen (key c : Bytes) :
    decrypt key c = if c.length < 24 then none else secretboxOpen key (c.take 24) (c.drop 24) := by
  unfold decrypt
  by_cases h1 : c.length < 24
  · simp [h1]
  · rw [if_neg h1, if_neg h1]
    cases h2 : secretboxOpen key (c.take 24) (c.drop 24) with
    | some m => rfl
    | none => exact fallback_unreachable _ _ _ h2

/-! ## 8: legacy data under the current `decrypt` -/

/-- 8a. the legacy tag is the tag the current format puts on the same ciphertext bytes -/
theorem legacy_same_mac (key nonce m : Bytes) :
    (legacySeal key nonce m).take 16 = poly1305 (macKey key nonce) ((legacySeal key nonce m).drop 16) := by
  rw [legacySeal_eq, take_tag, drop_tag]

/-- 8b. every legacy box IS a well-formed current-format box — of another message -/
theorem legacy_box_is_secretbox (key nonce m : Bytes) :
    legacySeal key nonce m = secretboxSeal key nonce (xorAt (K key nonce) 32 (legacyXorAt (K key nonce) m)) := by
  rw [legacySeal_eq, secretboxSeal_eq, xorAt_xorAt]

/-- what the current open makes of a legacy ciphertext: the first 32 bytes are right, byte `32+j`
    comes out as `m[32+j] ^ K j ^ K (64+j)` -/
theorem xorAt_legacyXorAt (k : Nat → Nat) (m : Bytes) :
    xorAt k 32 (legacyXorAt k m) = m.take 32 ++ xorAt k 64 (xorAt k 0 (m.drop 32)) := by
  unfold legacyXorAt
  rw [xorAt_append, xorAt_xorAt, xorAt_length]
  by_cases h : 32 ≤ m.length
  · rw [show 32 + (m.take 32).length = 64 by simp; omega]
  · rw [List.drop_eq_nil_of_le (by omega)]
    simp [xorAt]

/-- 8c. the current open ACCEPTS a legacy box (so the fallback is not taken) -/
theorem secretboxOpen_legacySeal (key nonce m : Bytes) :
    secretboxOpen key nonce (legacySeal key nonce m) =
      some (m.take 32 ++ xorAt (K key nonce) 64 (xorAt (K key nonce) 0 (m.drop 32))) := by
  rw [legacySeal_eq, secretboxOpen_tagged, xorAt_legacyXorAt]

theorem legacy_not_rejected (key nonce m : Bytes) : secretboxOpen key nonce (legacySeal key nonce m) ≠ none := by
  rw [secretboxOpen_legacySeal]; simp

/-- 8d. FINDING: `decrypt` of legacy-format data "succeeds" with the first 32 bytes of the message
    followed by the rest XORed with keystream block 0 XOR block 1 -/
theorem decrypt_legacy (key nonce m : Bytes) (hn : nonce.length = 24) :
    decrypt key (nonce ++ legacySeal key nonce m) =
      some (m.take 32 ++ xorAt (K key nonce) 64 (xorAt (K key nonce) 0 (m.drop 32))) := by
  rw [decrypt_append key nonce _ hn, secretboxOpen_legacySeal]

/-- 8e. up to 32 bytes the two formats coincide … -/
theorem legacySeal_short (key nonce m : Bytes) (h : m.length ≤ 32) :
    legacySeal key nonce m = secretboxSeal key nonce m := by
  rw [legacySeal_eq, secretboxSeal_eq, legacyXorAt_short _ m h]

/-- … so short legacy data is readable -/
theorem legacy_short_readable (key nonce m : Bytes) (hn : nonce.length = 24) (h : m.length ≤ 32) :
    decrypt key (nonce ++ legacySeal key nonce m) = some m := by
  rw [legacySeal_short key nonce m h]
  exact decrypt_encrypt key nonce m hn

theorem xor_xor_eq_self_iff (b x y : Nat) : b ^^^ x ^^^ y = b ↔ x = y := by
  constructor
  · intro h
    have h1 : b ^^^ (b ^^^ x ^^^ y) = b ^^^ b := by rw [h]
    rw [Nat.xor_assoc, ← Nat.xor_assoc b b, Nat.xor_self, Nat.zero_xor] at h1
    exact eq_of_xor_eq_zero x y h1
  · intro h; rw [h, Nat.xor_assoc, Nat.xor_self, Nat.xor_zero]

theorem xorAt_twice_eq_self_iff (k : Nat → Nat) : ∀ (m : Bytes) (a b : Nat),
    xorAt k b (xorAt k a m) = m ↔ ∀ j, j < m.length → k (a + j) = k (b + j)
  | [], _, _ => by simp [xorAt]
  | x :: xs, a, b => by
    simp only [xorAt, List.cons.injEq, xor_xor_eq_self_iff, xorAt_twice_eq_self_iff k xs, List.length_cons]
    constructor
    · rintro ⟨h0, h⟩ j hj
      cases j with
      | zero => simpa using h0
      | succ j =>
        have := h j (by omega)
        rw [show a + (j + 1) = a + 1 + j by omega, show b + (j + 1) = b + 1 + j by omega]
        exact this
    · intro h
      refine ⟨by simpa using h 0 (by omega), fun j hj => ?_⟩
      have := h (j + 1) (by omega)
      rw [show a + (j + 1) = a + 1 + j by omega, show b + (j + 1) = b + 1 + j by omega] at this
      exact this

/-- 8f. the exact condition under which legacy data of ANY length is read back correctly: keystream
    blocks 0 and 1 agree on the first `m.length - 32` bytes.  For `m.length ≤ 32` it is vacuous;
    beyond, it fails for (all but a negligible fraction of) keys and nonces — see the witness in the
    correspondence vectors, where the Go `decrypt` returns different bytes -/
theorem legacy_long_readable_iff (key nonce m : Bytes) (hn : nonce.length = 24) :
    decrypt key (nonce ++ legacySeal key nonce m) = some m ↔
      ∀ j, 32 + j < m.length → K key nonce j = K key nonce (64 + j) := by
  rw [decrypt_legacy key nonce m hn]
  constructor
  · intro h
    have h1 := Option.some.inj h
    have h2 : xorAt (K key nonce) 64 (xorAt (K key nonce) 0 (m.drop 32)) = m.drop 32 := by
      have h3 : m.take 32 ++ xorAt (K key nonce) 64 (xorAt (K key nonce) 0 (m.drop 32))
          = m.take 32 ++ m.drop 32 := by rw [h1, List.take_append_drop]
      exact List.append_cancel_left h3
    intro j hj
    have := (xorAt_twice_eq_self_iff _ _ _ _).1 h2 j (by simp; omega)
    simpa using this
  · intro h
    have h2 : xorAt (K key nonce) 64 (xorAt (K key nonce) 0 (m.drop 32)) = m.drop 32 := by
      apply (xorAt_twice_eq_self_iff _ _ _ _).2
      intro j hj
      have := h j (by simp at hj; omega)
      simpa using this
    rw [h2, List.take_append_drop]

/-! ## a concrete witness (correspondence vector `box.ops` lines 6069–6071)

The only place where Salsa20 is evaluated (by the kernel, two blocks): key, nonce and the 33-byte
message of a vector on which the Go `decrypt` returns `…c03311` for legacy data that was `…c0338d`. -/

def wKey : Bytes := [0x17, 0x97, 0xe6, 0x6d, 0x42, 0xc3, 0x02, 0xec, 0xee, 0x09, 0xf4, 0xc3, 0x7c, 0xb0, 0x9e, 0x04,
  0x83, 0x7e, 0xc3, 0x66, 0x54, 0x81, 0xfe, 0xdc, 0xb1, 0x48, 0x6a, 0x6c, 0x1b, 0x2d, 0x75, 0xe5]
def wNonce : Bytes := [0x8a, 0x50, 0xe0, 0xa1, 0xef, 0x10, 0xac, 0xe9, 0x79, 0x25, 0x1b, 0x4f, 0x36, 0xb2, 0x25, 0x0f,
  0x53, 0x2f, 0xdb, 0x77, 0x7e, 0x7d, 0x88, 0x98]
def wMsg : Bytes := [0xa9, 0xfe, 0x40, 0x55, 0xce, 0x9f, 0xb8, 0x5a, 0x86, 0xe8, 0xd9, 0x07, 0xf4, 0xf0, 0xdb, 0xe1,
  0xb8, 0xfe, 0xb1, 0x63, 0xfd, 0xc1, 0xb6, 0x28, 0x11, 0x39, 0x9e, 0x3c, 0xcd, 0x4d, 0xc0, 0x33, 0x8d]

set_option maxRecDepth 100000 in
theorem witness_blocks_differ : K wKey wNonce 0 ≠ K wKey wNonce 64 := by decide +kernel

set_option maxRecDepth 100000 in
theorem witness_tail : xorAt (K wKey wNonce) 64 (xorAt (K wKey wNonce) 0 (wMsg.drop 32)) = [0x11] := by
  decide +kernel

/-- 8g. COUNTER-EXAMPLE to "legacy data is recovered": the 33-byte message comes back with its last
    byte `0x8d` replaced by `0x11`, without an error — exactly what the Go code returns -/
theorem legacy_long_garbled_witness :
    decrypt wKey (wNonce ++ legacySeal wKey wNonce wMsg) = some (wMsg.take 32 ++ [0x11]) ∧
      some (wMsg.take 32 ++ [0x11]) ≠ some wMsg := by
  constructor
  · rw [decrypt_legacy wKey wNonce wMsg rfl, witness_tail]
  · decide

/-- 8h. under this key and nonce NO legacy message longer than 32 bytes is read back correctly -/
theorem legacy_long_unreadable_witness :
    wKey.length = 32 ∧ wNonce.length = 24 ∧
      ∀ m : Bytes, 32 < m.length → decrypt wKey (wNonce ++ legacySeal wKey wNonce m) ≠ some m := by
  refine ⟨rfl, rfl, fun m hm h => ?_⟩
  have := (legacy_long_readable_iff wKey wNonce m rfl).1 h 0 (by omega)
  exact witness_blocks_differ this

/-! ## 9: the passphrase path

`V1NodeEncryptor(passphrase)` is `encrypt`/`decrypt` under the key `deriveKey(passphrase, nil)`;
`deriveKey` is argon2id over the base64 of its arguments with a salt hashed from them — a function
of its arguments that keeps no state and leaves them alone (`passphrase_facts`: the source text
of the three functions is the known one).  The key derivation itself is not modelled: it enters
as an arbitrary function `kdf`.  That different passphrases give keys that do not open each
other's data is a cryptographic ASSUMPTION (collision resistance of argon2id, unforgeability of
Poly1305); the box stream tries five different passphrases on every third message. -/

/-- 9a. every encryptor built from the same passphrase reads what any of them wrote -/
theorem same_passphrase_reads (kdf : Bytes → Bytes) (pass pass' nonce m : Bytes)
    (hp : pass = pass') (hn : nonce.length = 24) :
    decrypt (kdf pass') (encryptWith (kdf pass) nonce m) = some m := by
  subst hp; exact decrypt_encrypt _ _ _ hn

/-- 9b. … and writes the same bytes (so an unchanged node is not stored twice) -/
theorem same_passphrase_same_ciphertext (kdf : Bytes → Bytes) (pass pass' nonce m : Bytes)
    (hp : pass = pass') : encryptWith (kdf pass) nonce m = encryptWith (kdf pass') nonce m := by
  subst hp; rfl

theorem passphrase_facts : S3db.Gen.facts.deriveKeyAsExpected = true := by decide

/-- a stored node object is only accepted under the name its content hashes to: the MAC says
    "sealed with this key", the name check says "belongs here" (F64: a node overwritten with
    another node's valid ciphertext) -/
theorem node_name_facts : S3db.Gen.facts.nodeContentChecked = true := by decide

/-! ### the node store above the box (F64)

`persistEncryptor.Store` puts `encrypt(plain)` under the name `hash(plain)`; `Load` decrypts what it
finds under a name and — `nodeContentChecked` — accepts it only if it hashes to that name.  `hash`
(BLAKE2b-256, base64) enters as an arbitrary function; nothing is assumed about it except, in
`swapped_node_refused`, that the two contents at hand do not collide. -/

/-- `persistEncryptor.Load` on the bytes `obj` found under `name` -/
def loadNode (F : Facts) (hash : Bytes → Bytes) (key : Bytes) (name : Bytes) (obj : Bytes) : Option Bytes :=
  match decrypt key obj with
  | none => none
  | some plain => if F.nodeContentChecked && hash plain != name then none else some plain

/-- what was stored under its own name is read back -/
theorem stored_node_loads (hash : Bytes → Bytes) (key nonce m : Bytes) (hn : nonce.length = 24) :
    loadNode S3db.Gen.facts hash key (hash m) (encryptWith key nonce m) = some m := by
  simp [loadNode, decrypt_encrypt key nonce m hn]

/-- **another node's object under this name is refused**, although it is authentic under the
    same key: an attacker (or a stray copy) cannot swap nodes, e.g. put an older node back -/
theorem swapped_node_refused (hash : Bytes → Bytes) (key nonce m m' : Bytes) (hn : nonce.length = 24)
    (hne : hash m' ≠ hash m) :
    loadNode S3db.Gen.facts hash key (hash m) (encryptWith key nonce m') = none := by
  have hF : S3db.Gen.facts.nodeContentChecked = true := by decide
  simp [loadNode, decrypt_encrypt key nonce m' hn, hF, hne]

/-- whatever `Load` returns hashes to the name it was asked for -/
theorem loaded_node_matches_name (hash : Bytes → Bytes) (key name obj plain : Bytes)
    (h : loadNode S3db.Gen.facts hash key name obj = some plain) : hash plain = name := by
  have hF : S3db.Gen.facts.nodeContentChecked = true := by decide
  unfold loadNode at h
  split at h
  · exact absurd h (by simp)
  · rename_i p _
    simp only [hF, Bool.true_and] at h
    split at h
    · exact absurd h (by simp)
    · rename_i hne
      have : p = plain := by simpa using h
      subst this
      simpa using hne

/-- the defect F64 on the model without the check: the swapped object is accepted -/
theorem without_name_check_swap_accepted (hash : Bytes → Bytes) (key nonce m m' : Bytes) (hn : nonce.length = 24) :
    let F0 : Facts := { S3db.Gen.facts with nodeContentChecked := false }
    loadNode F0 hash key (hash m) (encryptWith key nonce m') = some m' := by
  simp [loadNode, decrypt_encrypt key nonce m' hn]

end S3db.Props.C18
