import S3db.Props.C02
/-!
# C15 — write_time makes retries idempotent and cannot reorder history (row part)

The connection-attribute part (`s3db_conn`, `ResetContext`) is in `Props/C15Conn.lean`.
-/
namespace S3db.Props.C15
open S3db S3db.AList S3db.Row S3db.Table S3db.Props.C01 S3db.Props.C02

variable {K V : Type} [DecidableEq K] [DecidableEq V]

/-- re-executing an UPDATE with the same write time and values leaves every cell unchanged -/
theorem retry_update (S : List String) (t : Table K V) (when : Int) (k : K) (vals : AList String V)
    (hv : ∀ c, c ∈ keys vals → c ∈ S) (ht : TableInv S t) (k' : K) :
    statusCell (lookup k' (updateRow (updateRow t when k vals) when k vals)) = statusCell (lookup k' (updateRow t when k vals)) ∧
    ∀ c, colCell c (lookup k' (updateRow (updateRow t when k vals) when k vals)) = colCell c (lookup k' (updateRow t when k vals)) := by
  sorry

/-- re-executing a DELETE with the same write time leaves every cell unchanged -/
theorem retry_delete (S : List String) (t : Table K V) (when : Int) (k : K) (ht : TableInv S t) (k' : K) :
    statusCell (lookup k' (deleteRow (deleteRow t when k) when k)) = statusCell (lookup k' (deleteRow t when k)) ∧
    ∀ c, colCell c (lookup k' (deleteRow (deleteRow t when k) when k)) = colCell c (lookup k' (deleteRow t when k)) := by
  sorry

/-- re-executing an accepted INSERT is refused (primary key), so it changes nothing -/
theorem retry_insert_refused (t t' : Table K V) (when : Int) (k : K) (vals : AList String V)
    (h : insertRow t when k vals = .ok t') : insertRow t' when k vals = .error .constraintPK := by
  sorry

/-- a retry merged from another writer: a version that is already included is absorbed
    (this is `Sel.evalAt_absorb` at every cell) -/
theorem retry_merged_absorbed (S : List String) (vs : Nat → Table K V) (F : Family S vs)
    (p : Sel.Plan) (i : Nat) (hi : i ∈ p.leaves) (k : K) :
    statusCell (lookup k (evalTables vs (.node p (.leaf i)))) = statusCell (lookup k (evalTables vs p)) ∧
    ∀ c, colCell c (lookup k (evalTables vs (.node p (.leaf i)))) = colCell c (lookup k (evalTables vs p)) := by
  sorry

/-- an UPDATE whose write time is older than the column's latest assignment cannot undo it -/
theorem older_update_cannot_undo (S : List String) (t : Table K V) (when : Int) (k : K) (vals : AList String V)
    (ht : TableInv S t) (c : String) (x : ACol V) (hx : colCell c (lookup k t) = some x) (hold : when < x.t) :
    colCell c (lookup k (updateRow t when k vals)) = some x := by
  sorry

/-- a DELETE older than the row's latest INSERT/DELETE cannot undo it -/
theorem older_delete_cannot_undo (S : List String) (t : Table K V) (when : Int) (k : K)
    (ht : TableInv S t) (s : Status) (hs : statusCell (lookup k t) = some s) (hold : when < s.dut) :
    statusCell (lookup k (deleteRow t when k)) = some s := by
  sorry

/-- an INSERT older than the row's DELETE is refused -/
theorem older_insert_refused (t : Table K V) (when : Int) (k : K) (vals : AList String V) (e : SEntry V)
    (he : lookup k t = some e) (hold : when < e.row.dut) :
    insertRow t when k vals = .error .constraintPK := by
  sorry

end S3db.Props.C15
