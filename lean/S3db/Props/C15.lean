import S3db.Props.C02
/-!
# C15 — write_time makes retries idempotent and cannot reorder history (row part)

The connection-attribute part (`s3db_conn`, `ResetContext`) is in `Props/C15Conn.lean`.
-/
namespace S3db.Props.C15
open S3db S3db.AList S3db.Row S3db.Table S3db.Props.C01 S3db.Props.C02

variable {K V : Type} [DecidableEq K] [DecidableEq V]

/-- re-executing an UPDATE with the same write time and values leaves every cell unchanged -/
theorem retry_update (S : List String) (t : Table K V) (when : Int) (k : K) (vals : AList String V)
    (hv : ∀ c, c ∈ keys vals → c ∈ S) (ht : TableInv S t) (k' : K) :
    statusCell (lookup k' (updateRow (updateRow t when k vals) when k vals)) = statusCell (lookup k' (updateRow t when k vals)) ∧
    ∀ c, colCell c (lookup k' (updateRow (updateRow t when k vals) when k vals)) = colCell c (lookup k' (updateRow t when k vals)) := by
  by_cases h : ∀ e, lookup k t = some e → e.row.deleted = true
  · rw [updateRow_noop h, updateRow_noop h]; exact ⟨rfl, fun _ => rfl⟩
  · obtain ⟨e, he, hl⟩ := exists_live_of_not h
    obtain ⟨e1, he1, hl1⟩ := updateRow_live_entry he hl when vals
    have h1 := local_update S t when k vals ht e he hl
    have h2 := local_update S _ when k vals (tableInv_update S t when k vals hv ht) e1 he1 hl1
    by_cases hk : k' = k
    · subst hk
      refine ⟨h2.1, fun c => ?_⟩
      rw [h2.2.1 c, h1.2.1 c]
      exact Sel.selOpt_absorb_right colLaws _ _
    · rw [h2.2.2 k' hk]; exact ⟨rfl, fun _ => rfl⟩

/-- re-executing a DELETE with the same write time leaves every cell unchanged -/
theorem retry_delete (S : List String) (t : Table K V) (when : Int) (k : K) (ht : TableInv S t) (k' : K) :
    statusCell (lookup k' (deleteRow (deleteRow t when k) when k)) = statusCell (lookup k' (deleteRow t when k)) ∧
    ∀ c, colCell c (lookup k' (deleteRow (deleteRow t when k) when k)) = colCell c (lookup k' (deleteRow t when k)) := by
  have h1 := local_delete S t when k ht
  have h2 := local_delete S _ when k (tableInv_delete S t when k ht)
  by_cases hk : k' = k
  · subst hk
    refine ⟨?_, fun c => h2.2.1 c⟩
    rw [h2.1, h1.1]
    exact Sel.selOpt_absorb_right statusLaws _ _
  · rw [h2.2.2 k' hk]; exact ⟨rfl, fun _ => rfl⟩

/-- re-executing an accepted INSERT is refused (primary key), so it changes nothing -/
theorem retry_insert_refused (t t' : Table K V) (when : Int) (k : K) (vals : AList String V)
    (h : insertRow t when k vals = .ok t') : insertRow t' when k vals = .error .constraintPK := by
  obtain ⟨e, he, hl⟩ := insertRow_ok_live h
  exact (insert_refused_iff t' when k vals).2 ⟨e, he, Or.inl hl⟩

/-- a retry merged from another writer: a version that is already included is absorbed
    (this is `Sel.evalAt_absorb` at every cell) -/
theorem retry_merged_absorbed (S : List String) (vs : Nat → Table K V) (F : Family S vs)
    (p : Sel.Plan) (i : Nat) (hi : i ∈ p.leaves) (k : K) :
    statusCell (lookup k (evalTables vs (.node p (.leaf i)))) = statusCell (lookup k (evalTables vs p)) ∧
    ∀ c, colCell c (lookup k (evalTables vs (.node p (.leaf i)))) = colCell c (lookup k (evalTables vs p)) := by
  apply C01_remerge_absorbs S vs F p (.leaf i) _ k
  intro j hj
  simp only [Sel.Plan.leaves, List.mem_singleton] at hj
  subst hj; exact hi

/-- an UPDATE whose write time is older than the column's latest assignment cannot undo it -/
theorem older_update_cannot_undo (S : List String) (t : Table K V) (when : Int) (k : K) (vals : AList String V)
    (ht : TableInv S t) (c : String) (x : ACol V) (hx : colCell c (lookup k t) = some x) (hold : when < x.t) :
    colCell c (lookup k (updateRow t when k vals)) = some x := by
  by_cases h : ∀ e, lookup k t = some e → e.row.deleted = true
  · rw [updateRow_noop h]; exact hx
  · obtain ⟨e, he, hl⟩ := exists_live_of_not h
    rw [(local_update S t when k vals ht e he hl).2.1 c, hx]
    cases lookup c vals with
    | none => rfl
    | some v =>
      simp only [Option.map_some, Sel.selOpt_some]
      rw [selCol_of_lt (show (ACol.mk v when).t < x.t from hold)]

/-- a DELETE older than the row's latest INSERT/DELETE cannot undo it -/
theorem older_delete_cannot_undo (S : List String) (t : Table K V) (when : Int) (k : K)
    (ht : TableInv S t) (s : Status) (hs : statusCell (lookup k t) = some s) (hold : when < s.dut) :
    statusCell (lookup k (deleteRow t when k)) = some s := by
  rw [(local_delete S t when k ht).1, hs]
  simp only [Sel.selOpt_some]
  rw [selStatus_of_lt (show (Status.mk when true).dut < s.dut from hold)]

/-- an INSERT older than the row's DELETE is refused -/
theorem older_insert_refused (t : Table K V) (when : Int) (k : K) (vals : AList String V) (e : SEntry V)
    (he : lookup k t = some e) (hold : when < e.row.dut) :
    insertRow t when k vals = .error .constraintPK :=
  (insert_refused_iff t when k vals).2 ⟨e, he, Or.inr hold⟩

end S3db.Props.C15
