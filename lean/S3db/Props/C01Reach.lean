import S3db.Props.C01
import S3db.Lemmas.TableCells
import S3db.Lemmas.ReachLemmas
/-!
# C01 (continued) — the hypotheses of `C01_converges` hold for everything SQL histories produce

`C01.Family` asks that the versions being merged satisfy `RowInv` and that no two different
statuses / column assignments of one key carry the same time.  Here this is *derived*: a history
is the set of cells its accepted statements introduce (`Hist`); "pairwise distinct write times
on conflicting rows, or byte-identical retries" is `Hist.Functional`; `Reach` is what writers
and readers can build from the empty table with INSERT / UPDATE / DELETE and merges in any order
and grouping.  Every reachable table draws all of its cells from the history (`reach_from`), so
any family of reachable versions is a `Family` (`reach_family`) and C01 holds for it outright
(`C01_holds`).
-/
namespace S3db.Props.C01
open S3db S3db.AList S3db.Row S3db.Table

variable {K V : Type} [DecidableEq K] [DecidableEq V]

/-- the cells the accepted statements of a history introduce -/
structure Hist (K V : Type) where
  statuses : K → List Status                 -- by INSERT (live) and DELETE (deleted) statements on the key
  assigns : K → String → List (ACol V)       -- by INSERT and UPDATE statements on (key, column)

/-- distinct write times on conflicting rows (byte-identical retries introduce the same cell) -/
def Hist.Functional (H : Hist K V) : Prop :=
  (∀ k s s', s ∈ H.statuses k → s' ∈ H.statuses k → s.dut = s'.dut → s = s') ∧
  (∀ k c x y, x ∈ H.assigns k c → y ∈ H.assigns k c → x.t = y.t → x = y)

/-- every cell of the table comes from the history, and its rows are SQL-shaped -/
def From (H : Hist K V) (S : List String) (t : Table K V) : Prop :=
  NodupKeys t ∧ ∀ k e, lookup k t = some e →
    RowInv S e.row ∧ e.row.status ∈ H.statuses k ∧ ∀ c x, lookup c e.row.cols = some x → x ∈ H.assigns k c

/-- what any number of writers and readers can build: statements of the history applied to
    reachable tables, and merges of reachable tables in any order and grouping -/
inductive Reach (H : Hist K V) (S : List String) : Table K V → Prop where
  | empty : Reach H S []
  | insert {t t' : Table K V} {when : Int} {k : K} {vals : AList String V} :
      Reach H S t → Covers S vals → (⟨when, false⟩ : Status) ∈ H.statuses k →
      (∀ c v, lookup c vals = some v → (⟨v, when⟩ : ACol V) ∈ H.assigns k c) →
      insertRow t when k vals = .ok t' → Reach H S t'
  | update {t : Table K V} {when : Int} {k : K} {vals : AList String V} :
      Reach H S t → (∀ c, c ∈ keys vals → c ∈ S) →
      (∀ c v, lookup c vals = some v → (⟨v, when⟩ : ACol V) ∈ H.assigns k c) →
      Reach H S (updateRow t when k vals)
  | delete {t : Table K V} {when : Int} {k : K} :
      Reach H S t → (⟨when, true⟩ : Status) ∈ H.statuses k → Reach H S (deleteRow t when k)
  | merge {a g : Table K V} : Reach H S a → Reach H S g → Reach H S (mergeTables a g)

/-- every reachable table draws all of its cells from the history -/
theorem reach_from (H : Hist K V) (S : List String) (t : Table K V) (h : Reach H S t) : From H S t := by
  -- `From H S` is `TableFrom` for the predicates "is a cell of the history"
  show TableFrom S (fun k s => s ∈ H.statuses k) (fun k c x => x ∈ H.assigns k c) t
  induction h with
  | empty => exact tableFrom_nil
  | insert _ hc hs hv hok ih => exact tableFrom_insert ih hc hs hv hok
  | update _ hc hv ih => exact tableFrom_update _ _ _ ih hc hv
  | delete _ hs ih => exact tableFrom_delete _ _ ih hs
  | merge _ _ iha ihg => exact tableFrom_merge iha ihg

/-- any family of reachable versions of a history with distinct times is a `Family` -/
theorem reach_family (H : Hist K V) (S : List String) (hf : H.Functional) (vs : Nat → Table K V)
    (hr : ∀ i, Reach H S (vs i)) : Family S vs := by
  have hfrom := fun i => reach_from H S (vs i) (hr i)
  refine ⟨fun i => (hfrom i).1, fun i k e he => ((hfrom i).2 k e he).1, ?_, ?_⟩
  · intro k i j e e' he he'
    exact hf.1 k _ _ ((hfrom i).2 k e he).2.1 ((hfrom j).2 k e' he').2.1
  · intro k c i j e e' x y he he' hx hy
    exact hf.2 k c x y (((hfrom i).2 k e he).2.2 c x hx) (((hfrom j).2 k e' he').2.2 c y hy)

/-- **C01, outright**: for every history with distinct write times on conflicting rows, any two
    readers that merged the same set of versions built from it — whatever the order, grouping and
    repetition — hold the same status and the same value and time in every column of every key -/
theorem C01_holds (H : Hist K V) (S : List String) (hf : H.Functional) (vs : Nat → Table K V)
    (hr : ∀ i, Reach H S (vs i)) (p q : Sel.Plan) (hpq : ∀ i, i ∈ p.leaves ↔ i ∈ q.leaves) (k : K) :
    statusCell (lookup k (evalTables vs p)) = statusCell (lookup k (evalTables vs q)) ∧
    ∀ c, colCell c (lookup k (evalTables vs p)) = colCell c (lookup k (evalTables vs q)) :=
  C01_converges S vs (reach_family H S hf vs hr) p q hpq k

/-- the result of any merge plan over reachable versions is itself reachable (intermediate merged
    versions committed by other readers are versions like any other) -/
theorem reach_evalTables (H : Hist K V) (S : List String) (vs : Nat → Table K V)
    (hr : ∀ i, Reach H S (vs i)) (p : Sel.Plan) : Reach H S (evalTables vs p) := by
  induction p with
  | leaf i => exact hr i
  | node p q ihp ihq => exact Reach.merge ihp ihq

end S3db.Props.C01
