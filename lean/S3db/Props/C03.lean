import S3db.Model.Proto
import S3db.Gen.Facts
import S3db.Lemmas.ProtoInv
/-!
# C03 — concurrent open and commit never hide or lose a committed version

Property theorems only, over the request-level transition system of `Model/Proto.lean`
instantiated with the **generated** facts (`Gen.facts`: order of the requests inside `Commit` and
`moveMergedRoots`, where `Open` looks for a listed version).  `Reachable` quantifies over every
number of clients, every schedule (interleaving at single-request granularity) and crashes
anywhere.  Vacuum is excluded here (C09/C10).
-/
namespace S3db.Props.C03
open S3db S3db.Proto

abbrev F : Facts := S3db.Gen.facts

def Reachable (s : Sys) : Prop := ∃ ros sched, s = run F (init ros) sched

/-- a version that was ever listed in `root/current/` stays loadable: it is retired to
    `root/merged/` *before* it is deleted from `root/current/` -/
theorem listed_stays_loadable (s : Sys) (h : Reachable s) (v : Vid) (hv : v ∈ s.stored) :
    v ∈ s.bucket.current ∨ v ∈ s.bucket.merged := by
  obtain ⟨ros, sched, rfl⟩ := h
  exact (ProtoInv.inv_reachable ros sched).g.stored_sub v hv

/-- every acknowledged commit has had its version PUT served -/
theorem acked_is_stored (s : Sys) (h : Reachable s) (v : Vid) (hv : v ∈ s.acked) : v ∈ s.stored := by
  obtain ⟨ros, sched, rfl⟩ := h
  exact (ProtoInv.inv_reachable ros sched).g.acked_sub v hv

/-- **no committed version is ever lost**: every version whose PUT was served is, at all later
    times and under every interleaving, an ancestor-or-equal of a version in `root/current/` -/
theorem acked_never_lost (s : Sys) (h : Reachable s) (v : Vid) (hv : v ∈ s.stored) :
    ∃ n, n ∈ s.bucket.current ∧ Anc s.vers v n := by
  obtain ⟨ros, sched, rfl⟩ := h
  exact (ProtoInv.inv_reachable ros sched).g.covered v hv

/-- **an open sees every version committed before it began**: from the moment its LIST is served
    until it completes, every version stored before the LIST (`seen`) is an ancestor-or-equal of a
    version the open has loaded or is still going to load, and nothing listed gets skipped;
    everything it loads is a stored (committed) version — never a state no history explains -/
theorem open_covers_acked (s : Sys) (h : Reachable s) (i : Nat) (c : Client)
    (hc : s.clients[i]? = some c) (ho : c.opening = true) (hq : c.queue = []) :
    (∀ v, v ∈ c.seen → ∃ n, n ∈ c.loaded ++ c.toLoad ∧ Anc s.vers v n) ∧
    (∀ n, n ∈ c.loaded ++ c.toLoad → n ∈ s.stored) := by
  obtain ⟨ros, sched, rfl⟩ := h
  have hci := (ProtoInv.inv_reachable ros sched).c i c hc
  refine ⟨(hci.opening ho hq).1, fun n hn => ?_⟩
  rcases List.mem_append.mp hn with hn | hn
  · exact hci.loaded_sub n hn
  · exact hci.toLoad_sub n hn

/-- the ghost field `seen` is what it claims: serving the LIST records every stored version -/
theorem list_records_stored (s : Sys) (i : Nat) (c : Client) (rest : List Req)
    (hc : s.clients[i]? = some c) (ha : c.alive = true) (hq : c.queue = .list :: rest) :
    ∃ c', (step F s i .step).clients[i]? = some c' ∧ c'.seen = s.stored ∧ c'.toLoad = s.bucket.current := by
  exact ProtoInv.step_list s i c rest hc ha hq

/-- the facts these proofs rest on, as extracted from the source on this run -/
theorem protocol_facts :
    F.commitOrder = ["flushNodes", "putRoot", "retireParents"] ∧
    F.retireOrder = ["putMerged", "delCurrent"] ∧
    F.openLoadsFrom = ["current", "merged"] ∧
    F.commitChecksErrors = true ∧ F.retireStopsOnPutError = true ∧
    F.missingSkippedOnlyIfSkipUnreadable = true ∧
    F.loadAnySkipCond = "errors.As(err, &ae) && ae.Code() == s3.ErrCodeNoSuchKey" ∧
    F.loadAnyReturnsOtherErrors = true := by
  decide

/-- the race the fix for F15 closed, replayed on the model with the old lookup order
    (`root/current/` only): the opener lists the parent, the writer commits and retires it, and
    the opener then finds nothing — an empty table that no committed history explains -/
theorem old_lookup_order_loses_everything :
    let F0 : Facts := { F with openLoadsFrom := ["current"] }
    let s0 : Sys := run F0 (init [false, false])
      [(0, .startCommit), (0, .step), (0, .step),                       -- writer 0 commits version 0
       (1, .startOpen), (1, .step),                                     -- opener 1 lists {0}
       (0, .startCommit), (0, .step), (0, .step), (0, .step), (0, .step), -- writer commits 1, retires 0
       (1, .step), (1, .step)]                                          -- opener: GET current/0 fails; skipped
    (s0.clients[1]?.map (·.loaded)) = some [] ∧ (s0.clients[1]?.map (·.toLoad)) = some [] ∧ s0.stored = [0, 1] := by
  decide

/-! ### what the theorems above do NOT cover: a vacuum inside the open (F81)

`step` has no action that removes a version from `root/merged/`; `listed_stays_loadable` is a
theorem about writers and openers only.  `s3db_vacuum` with a cutoff younger than a commit that
happened during the open does remove one.  Replayed on the model with that one extra mutation:
the opener has listed version 0, the writer commits version 1 (retiring 0) and vacuums 0 away,
and the opener, which finds 0 in neither place, skips it and completes with nothing — although
version 0 had been stored before it listed (`seen`).  C03's quantifier ("a committing writer")
and C09's ("any connection opened afterwards") both stop short of this schedule; it was recorded
first as finding F81; since repaired in `Open` (`relist_after_vacuum_recovers` below), while the
theorems above still speak of writers and openers only. -/

/-- `DeleteHistoricVersions` removing a retired version object -/
def vacuumDeletes (s : Sys) (v : Vid) : Sys :=
  { s with bucket := { s.bucket with merged := s.bucket.merged.filter (· ≠ v) } }

theorem open_racing_commit_and_vacuum_sees_nothing :
    let s1 : Sys := run F (init [false, true])
      [(0, .startCommit), (0, .step), (0, .step),                       -- writer 0 commits version 0
       (1, .startOpen), (1, .step),                                     -- opener 1 lists {0}
       (0, .startCommit), (0, .step), (0, .step), (0, .step), (0, .step)] -- writer commits 1, retires 0
    let s2 : Sys := run F (vacuumDeletes s1 0)
      [(1, .step), (1, .step), (1, .step), (1, .step)]                  -- GET current/0, GET merged/0, skip, complete
    (s1.clients[1]?.map (·.seen)) = some [0] ∧                          -- 0 was committed before the LIST
    (s2.clients[1]?.map (·.opening)) = some false ∧ (s2.clients[1]?.map (·.source)) = some [] ∧
    s2.bucket.current = [1] := by
  decide

/-- the repaired open (`openRelistsWhenSkipped`): something was skipped, so it lists again and,
    the listing having changed, starts over — which on the model is a second `startOpen`.  It
    finds version 1, which contains version 0: the opener sees what was committed before it began -/
theorem relist_after_vacuum_recovers :
    let s1 : Sys := run F (init [false, true])
      [(0, .startCommit), (0, .step), (0, .step), (1, .startOpen), (1, .step),
       (0, .startCommit), (0, .step), (0, .step), (0, .step), (0, .step)]
    let s2 : Sys := run F (vacuumDeletes s1 0) [(1, .step), (1, .step), (1, .step), (1, .step)]
    let s3 : Sys := run F s2 [(1, .startOpen), (1, .step), (1, .step), (1, .step)]   -- LIST {1}, GET current/1, complete
    (s3.clients[1]?.map (·.source)) = some [1] ∧ ancB s3.vers 2 0 1 = true ∧
    F.openRelistsWhenSkipped = true := by
  decide

/-- the same schedule without the vacuum: the opener finds version 0 under `root/merged/` -/
example :
    let s2 : Sys := run F (init [false, true])
      [(0, .startCommit), (0, .step), (0, .step), (1, .startOpen), (1, .step),
       (0, .startCommit), (0, .step), (0, .step), (0, .step), (0, .step),
       (1, .step), (1, .step), (1, .step)]
    (s2.clients[1]?.map (·.source)) = some [0] := by
  decide

/-! ### lock-step merging opens (finding F83, property C01's last clause)

Two openers that list the same two current versions before either has committed its merge each
write a merge version of their own and retire the old pair: two current versions again. -/

private def round (a b : Nat) : List (Nat × Act) :=
  [(a, .startOpen), (b, .startOpen), (a, .step), (b, .step)] ++      -- both LIST before anything else
  (List.replicate 12 (a, .step)) ++ (List.replicate 12 (b, .step))    -- GETs (the second opener finds the pair under merged/), complete, 6 commit requests

theorem lockstep_merging_opens_do_not_converge :
    let s0 : Sys := run F (init [false, false, false, false])
      [(0, .startCommit), (0, .step), (0, .step), (1, .startCommit), (1, .step), (1, .step)]
    let s1 := run F s0 (round 2 3)
    let s2 := run F s1 (round 2 3)
    s0.bucket.current = [0, 1] ∧ s1.bucket.current = [2, 3] ∧ s2.bucket.current = [4, 5] ∧
    s2.vers.getD 4 [] = [2, 3] ∧ s2.vers.getD 5 [] = [2, 3] := by
  decide

/-- one opener at a time converges: a single current version -/
example :
    let s0 : Sys := run F (init [false, false, false, false])
      [(0, .startCommit), (0, .step), (0, .step), (1, .startCommit), (1, .step), (1, .step)]
    let s1 := run F s0 ([(2, .startOpen)] ++ List.replicate 12 (2, .step) ++ [(3, .startOpen)] ++ List.replicate 12 (3, .step))
    s1.bucket.current = [2] := by
  decide

end S3db.Props.C03
