import S3db.Model.Proto
import S3db.Gen.Facts
import S3db.Lemmas.ProtoInv
/-!
# C03 — concurrent open and commit never hide or lose a committed version

Property theorems only, over the request-level transition system of `Model/Proto.lean`
instantiated with the **generated** facts (`Gen.facts`: order of the requests inside `Commit` and
`moveMergedRoots`, where `Open` looks for a listed version).  `Reachable` quantifies over every
number of clients, every schedule (interleaving at single-request granularity) and crashes
anywhere.  Vacuum is excluded here (C09/C10).
-/
namespace S3db.Props.C03
open S3db S3db.Proto

abbrev F : Facts := S3db.Gen.facts

def Reachable (s : Sys) : Prop := ∃ ros sched, s = run F (init ros) sched

/-- a version that was ever listed in `root/current/` stays loadable: it is retired to
    `root/merged/` *before* it is deleted from `root/current/` -/
theorem listed_stays_loadable (s : Sys) (h : Reachable s) (v : Vid) (hv : v ∈ s.stored) :
    v ∈ s.bucket.current ∨ v ∈ s.bucket.merged := by
  obtain ⟨ros, sched, rfl⟩ := h
  exact (ProtoInv.inv_reachable ros sched).g.stored_sub v hv

/-- every acknowledged commit has had its version PUT served -/
theorem acked_is_stored (s : Sys) (h : Reachable s) (v : Vid) (hv : v ∈ s.acked) : v ∈ s.stored := by
  obtain ⟨ros, sched, rfl⟩ := h
  exact (ProtoInv.inv_reachable ros sched).g.acked_sub v hv

/-- **no committed version is ever lost**: every version whose PUT was served is, at all later
    times and under every interleaving, an ancestor-or-equal of a version in `root/current/` -/
theorem acked_never_lost (s : Sys) (h : Reachable s) (v : Vid) (hv : v ∈ s.stored) :
    ∃ n, n ∈ s.bucket.current ∧ Anc s.vers v n := by
  obtain ⟨ros, sched, rfl⟩ := h
  exact (ProtoInv.inv_reachable ros sched).g.covered v hv

/-- **an open sees every version committed before it began**: from the moment its LIST is served
    until it completes, every version stored before the LIST (`seen`) is an ancestor-or-equal of a
    version the open has loaded or is still going to load, and nothing listed gets skipped;
    everything it loads is a stored (committed) version — never a state no history explains -/
theorem open_covers_acked (s : Sys) (h : Reachable s) (i : Nat) (c : Client)
    (hc : s.clients[i]? = some c) (ho : c.opening = true) (hq : c.queue = []) :
    (∀ v, v ∈ c.seen → ∃ n, n ∈ c.loaded ++ c.toLoad ∧ Anc s.vers v n) ∧
    (∀ n, n ∈ c.loaded ++ c.toLoad → n ∈ s.stored) := by
  obtain ⟨ros, sched, rfl⟩ := h
  have hci := (ProtoInv.inv_reachable ros sched).c i c hc
  refine ⟨(hci.opening ho hq).1, fun n hn => ?_⟩
  rcases List.mem_append.mp hn with hn | hn
  · exact hci.loaded_sub n hn
  · exact hci.toLoad_sub n hn

/-- the ghost field `seen` is what it claims: serving the LIST records every stored version -/
theorem list_records_stored (s : Sys) (i : Nat) (c : Client) (rest : List Req)
    (hc : s.clients[i]? = some c) (ha : c.alive = true) (hq : c.queue = .list :: rest) :
    ∃ c', (step F s i .step).clients[i]? = some c' ∧ c'.seen = s.stored ∧ c'.toLoad = s.bucket.current := by
  exact ProtoInv.step_list s i c rest hc ha hq

/-- the facts these proofs rest on, as extracted from the source on this run -/
theorem protocol_facts :
    F.commitOrder = ["flushNodes", "putRoot", "retireParents"] ∧
    F.retireOrder = ["putMerged", "delCurrent"] ∧
    F.openLoadsFrom = ["current", "merged"] ∧
    F.commitChecksErrors = true ∧ F.retireStopsOnPutError = true ∧
    F.missingSkippedOnlyIfSkipUnreadable = true ∧
    F.loadAnySkipCond = "errors.As(err, &ae) && ae.Code() == s3.ErrCodeNoSuchKey" ∧
    F.loadAnyReturnsOtherErrors = true := by
  decide

/-- the race the fix for F15 closed, replayed on the model with the old lookup order
    (`root/current/` only): the opener lists the parent, the writer commits and retires it, and
    the opener then finds nothing — an empty table that no committed history explains -/
theorem old_lookup_order_loses_everything :
    let F0 : Facts := { F with openLoadsFrom := ["current"] }
    let s0 : Sys := run F0 (init [false, false])
      [(0, .startCommit), (0, .step), (0, .step),                       -- writer 0 commits version 0
       (1, .startOpen), (1, .step),                                     -- opener 1 lists {0}
       (0, .startCommit), (0, .step), (0, .step), (0, .step), (0, .step), -- writer commits 1, retires 0
       (1, .step), (1, .step)]                                          -- opener: GET current/0 fails; skipped
    (s0.clients[1]?.map (·.loaded)) = some [] ∧ (s0.clients[1]?.map (·.toLoad)) = some [] ∧ s0.stored = [0, 1] := by
  decide

end S3db.Props.C03
