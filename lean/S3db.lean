import S3db.Model.AList
import S3db.Model.Value
import S3db.Gen.Crdt
import S3db.Gen.Key
import S3db.Lemmas.Sel
import S3db.Model.Kv
import S3db.Lemmas.KvMerge
import S3db.Props.C17
