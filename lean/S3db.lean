import S3db.Model.AList
import S3db.Model.Value
