import S3db.Model.AList
import S3db.Model.Value
import S3db.Model.Kv
import S3db.Model.Row
import S3db.Model.Table
import S3db.Gen.Crdt
import S3db.Gen.Key
import S3db.Model.Proto
import S3db.Model.Txn
import S3db.Model.Schema
import S3db.Model.Box
import S3db.Model.Scan
import S3db.Gen.Facts
/-!
# Line-protocol driver for the correspondence checks

One operation per input line, one canonical result line per operation.  The Go harness runs the
real implementation on the same operations and the two output streams are diffed.
Core Lean only (so this links as a `lean_exe`).
-/
open S3db S3db.AList

namespace Drv

def hexVal (c : Char) : Option Nat :=
  if '0' ≤ c ∧ c ≤ '9' then some (c.toNat - '0'.toNat)
  else if 'a' ≤ c ∧ c ≤ 'f' then some (c.toNat - 'a'.toNat + 10)
  else if 'A' ≤ c ∧ c ≤ 'F' then some (c.toNat - 'A'.toNat + 10)
  else none

def unhexAux : List Char → List Nat → Option (List Nat)
  | [], acc => some acc.reverse
  | [_], _ => none
  | a :: b :: rest, acc =>
    match hexVal a, hexVal b with
    | some x, some y => unhexAux rest ((x * 16 + y) :: acc)
    | _, _ => none

def unhex (s : String) : Option Bytes := unhexAux s.toList []

def hexNat (s : String) : Option Nat :=
  s.toList.foldl (fun acc c => match acc, hexVal c with
    | some a, some v => some (a * 16 + v)
    | _, _ => none) (some 0)

def hexDigit (n : Nat) : Char := if n < 10 then Char.ofNat (n + 48) else Char.ofNat (n - 10 + 97)
def hex (b : Bytes) : String := String.ofList (b.flatMap fun x => [hexDigit (x / 16), hexDigit (x % 16)])

/-- `N` | `I:<int>` | `R:<16 hex digits>` | `T:<hex>` | `B:<hex>` -/
def parseVal (s : String) : Option Val :=
  if s == "N" then some .null
  else if s.startsWith "I:" then (s.drop 2).toString.toInt?.map .int
  else if s.startsWith "R:" then (hexNat (s.drop 2).toString).map (fun n => .real (F64.ofBits n))
  else if s.startsWith "T:" then (unhex (s.drop 2).toString).map .text
  else if s.startsWith "B:" then (unhex (s.drop 2).toString).map .blob
  else none

/-! ## kv layer -/

structure Handle where
  tree : Kv.Tree String String := []
  src : Option String := none

/-- the custom merge the harness installs in custom-merge mode: metadata by `LastWriteWins`,
    payload = the two payloads joined in lexicographic order (tombstones as `LastWriteWins`) -/
def customMerge (a b : Kv.Entry String) : Kv.Entry String :=
  let w := S3db.Gen.Crdt.lastWriteWins a b
  match a.val, b.val with
  | some x, some y => if a.tomb == 0 && b.tomb == 0 then { w with val := some (if x < y then x ++ "+" ++ y else y ++ "+" ++ x) } else w
  | _, _ => w

abbrev KvState := AList String Handle

def insertSorted (p : String × String) : List (String × String) → List (String × String)
  | [] => [p]
  | q :: qs => if p.1 < q.1 then p :: q :: qs else q :: insertSorted p qs

def sortByKey (xs : List (String × String)) : List (String × String) := xs.foldl (fun acc p => insertSorted p acc) []

def showEntry (e : Kv.Entry String) : String :=
  s!"{e.mod}:{e.tomb}:{if e.prev == "" then "-" else e.prev}:{match e.val with | some v => v | none => "-"}"

def showOpt (o : Option String) : String := match o with | some v => v | none => "-"

def kvStep (st : KvState) (args : List String) : KvState × String :=
  let h (n : String) : Handle := (lookup n st).getD {}
  match args with
  | ["new", n] => (insert n {} st, "ok")
  | ["set", n, t, k, v] =>
    match t.toInt? with
    | some t => let hd := h n; (insert n { hd with tree := Kv.set hd.src hd.tree t k v } st, "ok")
    | none => (st, "bad-op")
  | ["tomb", n, t, k] =>
    match t.toInt? with
    | some t => let hd := h n; (insert n { hd with tree := Kv.tombstone hd.src hd.tree t k } st, "ok")
    | none => (st, "bad-op")
  | ["rmtomb", n, c] =>
    match c.toInt? with
    | some c => let hd := h n; (insert n { hd with tree := Kv.removeTombstones hd.tree c } st, "ok")
    | none => (st, "bad-op")
  | ["clone", n, m] => (insert m (h n) st, "ok")
  | ["src", n, l] => let hd := h n; (insert n { hd with src := if l == "-" then none else some l } st, "ok")
  | ["merge", n, g] => let hd := h n; (insert n { hd with tree := Kv.mergeTrees Kv.lww hd.tree (h g).tree } st, "ok")
  | ["mergec", n, g] => let hd := h n; (insert n { hd with tree := Kv.mergeTrees customMerge hd.tree (h g).tree } st, "ok")
  | ["dump", n] =>
    let es := sortByKey ((h n).tree.map fun p => (p.1, showEntry p.2))
    (st, " ".intercalate (es.map fun p => p.1 ++ "=" ++ p.2))
  | ["get", n, k] =>
    (st, match Kv.get (h n).tree k with | some e => s!"{e.mod}:{showOpt e.val}" | none => "none")
  | ["istomb", n, k] => (st, toString (Kv.isTombstoned (h n).tree k))
  | ["trace", n, k] =>
    -- versions are the handles named `ver:<label>`; an entry's `prev` holds the label
    let store (l : String) : Option (Kv.Tree String String) := (lookup ("ver:" ++ l) st).map (·.tree)
    let tr := Kv.trace store 0 k (st.length + 2) (h n).tree none
    (st, " ".intercalate (tr.map fun (t, v) => s!"{t}:{showOpt v}"))
  | ["diff", n, g] =>
    let ds := sortByKey ((Kv.diff (h n).tree (h g).tree).map fun (k, a, b) => (k, showOpt a ++ ":" ++ showOpt b))
    (st, " ".intercalate (ds.map fun p => p.1 ++ "=" ++ p.2))
  | _ => (st, "bad-op")

/-! ## rows and tables (values are opaque tokens) -/

open S3db.Row S3db.Table in
/-- `<deleted 0|1> <dut> <ncols> (<name> <val> <t>)*` ; returns the row and the remaining tokens -/
def parseCols : Nat → List String → List (String × ACol String) → Option (List (String × ACol String) × List String)
  | 0, rest, acc => some (acc.reverse, rest)
  | n + 1, name :: val :: t :: rest, acc =>
    match t.toInt? with
    | some t => parseCols n rest ((name, { v := val, t := t }) :: acc)
    | none => none
  | _, _, _ => none

open S3db.Row in
def parseRow (toks : List String) : Option (ARow String × List String) :=
  match toks with
  | d :: dut :: n :: rest =>
    match dut.toInt?, n.toNat? with
    | some dut, some n =>
      match parseCols n rest [] with
      | some (cols, rest') => some ({ deleted := d == "1", dut := dut, cols := cols }, rest')
      | none => none
    | _, _ => none
  | _ => none

def parsePairs : Nat → List String → List (String × String) → Option (List (String × String))
  | 0, [], acc => some acc.reverse
  | n + 1, c :: v :: rest, acc => parsePairs n rest ((c, v) :: acc)
  | _, _, _ => none

open S3db.Row in
def showRow (r : ARow String) : String :=
  let cs := sortByKey (r.cols.map fun p => (p.1, s!"{p.2.v}@{p.2.t}"))
  s!"d={if r.deleted then 1 else 0} dut={r.dut} " ++ ",".intercalate (cs.map fun p => p.1 ++ "=" ++ p.2)

open S3db.Row in
def rowStep (args : List String) : String :=
  match args with
  | "merge" :: rest =>
    match parseRow rest with
    | some (r1, rest') =>
      match parseRow rest' with
      | some (r2, []) => showRow (mergeRows r1 r2)
      | _ => "bad-op"
    | none => "bad-op"
  | _ => "bad-op"

abbrev TblState := AList String (S3db.Table.Table String String)

open S3db.Row S3db.Table in
def tblStep (st : TblState) (args : List String) : TblState × String :=
  let h (n : String) : Table String String := (lookup n st).getD []
  match args with
  | ["new", n] => (insert n [] st, "ok")
  | "insert" :: n :: w :: k :: cnt :: rest =>
    match w.toInt?, cnt.toNat? with
    | some w, some cnt =>
      match parsePairs cnt rest [] with
      | some vals =>
        match insertRow (h n) w k vals with
        | .ok t' => (insert n t' st, "ok")
        | .error .constraintPK => (st, "constraint_pk")
        | .error .constraintNotNull => (st, "constraint_notnull")
      | none => (st, "bad-op")
    | _, _ => (st, "bad-op")
  | "update" :: n :: w :: k :: cnt :: rest =>
    match w.toInt?, cnt.toNat? with
    | some w, some cnt =>
      match parsePairs cnt rest [] with
      | some vals => (insert n (updateRow (h n) w k vals) st, "ok")
      | none => (st, "bad-op")
    | _, _ => (st, "bad-op")
  | ["delete", n, w, k] =>
    match w.toInt? with
    | some w => (insert n (deleteRow (h n) w k) st, "ok")
    | none => (st, "bad-op")
  | ["clone", n, m] => (insert m (h n) st, "ok")
  | ["merge", n, g] => (insert n (mergeTables (h n) (h g)) st, "ok")
  | ["dump", n] =>
    let es := sortByKey ((h n).map fun p => (p.1, s!"[{p.2.mod}] " ++ showRow p.2.row))
    (st, " ; ".intercalate (es.map fun p => p.1 ++ ": " ++ p.2))
  | ["visible", n] =>
    let es := sortByKey ((h n).filterMap fun p =>
      match visible p.2.row with
      | some cols => some (p.1, ",".intercalate ((sortByKey (cols.map fun c => (c.1, c.2.v))).map fun c => c.1 ++ "=" ++ c.2))
      | none => none)
    (st, " ; ".intercalate (es.map fun p => p.1 ++ ": " ++ p.2))
  | _ => (st, "bad-op")

/-! ## bucket protocol -/

open S3db.Proto in
def showReq : Req → String
  | .list => "list"
  | .get .current v => s!"get current {v}"
  | .get .merged v => s!"get merged {v}"
  | .putNodes v => s!"putNodes {v}"
  | .putCur v => s!"putCur {v}"
  | .putMerged v => s!"putMerged {v}"
  | .delCur v => s!"delCur {v}"

def showNats (xs : List Nat) : String :=
  ",".intercalate ((xs.foldl (fun acc x => (acc.takeWhile (· < x)) ++ [x] ++ acc.dropWhile (· < x)) ([] : List Nat)).map toString)

open S3db.Proto in
def protoStep (st : Sys) (args : List String) : Sys × String :=
  match args with
  | "init" :: ros => (init (ros.map (· == "1")), "ok")
  | ["act", i, a] =>
    match i.toNat?, (match a with | "startOpen" => some Act.startOpen | "startCommit" => some Act.startCommit | "step" => some Act.step | "crash" => some Act.crash | _ => none) with
    | some i, some a =>
      let st' := step S3db.Gen.facts st i a
      let out := if st'.trace.length > st.trace.length then
          match st'.trace with
          | (j, r) :: _ => s!"{j}:{showReq r}"
          | [] => "-"
        else "-"
      (st', out)
    | _, _ => (st, "bad-op")
  | ["prefer", i, p] =>
    -- parents are retired in Go map order: move the pair of requests for parent `p` to the front
    match i.toNat?, p.toNat? with
    | some i, some p =>
      match st.clients[i]? with
      | some c =>
        let mine := c.queue.filter fun r => r == .putMerged p || r == .delCur p
        let rest := c.queue.filter fun r => !(r == .putMerged p || r == .delCur p)
        (setClient st i { c with queue := mine ++ rest }, "ok")
      | none => (st, "bad-op")
    | _, _ => (st, "bad-op")
  | ["state"] => (st, s!"cur=[{showNats st.bucket.current}] mrg=[{showNats st.bucket.merged}]")
  | _ => (st, "bad-op")

/-! ## connection attributes (clock readings are symbolic: negative, fresh per reading) -/

structure ConnState where
  c : S3db.Txn.Conn := {}
  clock : Int := 0          -- number of clock readings so far
  last : Option Int := none  -- stamp of the previous statement
  wrote : Bool := false      -- the open transaction holds uncommitted rows

open S3db.Txn in
def parseAssign (s : String) : Option Assign :=
  if s == "x" then some .noChange
  else if s == "-" then some .clear
  else if s == "bad" then some .malformed
  else s.toInt?.map .set

open S3db.Txn in
def connStep (st : ConnState) (args : List String) : ConnState × String :=
  let F := S3db.Gen.facts
  let fresh := -(st.clock + 1)
  match args with
  | ["reset"] => ({}, "ok")
  | ["begin"] => ({ st with c := st.c.begin F fresh, clock := st.clock + 1 }, "ok")
  | ["end"] => ({ st with c := st.c.endTx F, wrote := false }, "ok")
  | ["refresh"] =>
    -- `RefreshFunc.Final`: refused under a write time fixed at BEGIN, and over uncommitted rows
    (st, if st.c.refreshAllowed F && !(F.refreshRefusesDirty && st.wrote) then "ok" else "err")
  | ["set", d, w] =>
    match parseAssign d, parseAssign w with
    | some d, some w =>
      match st.c.update F d w with
      | some c' => ({ st with c := c' }, "ok")
      | none => (st, "err")
    | _, _ => (st, "bad-op")
  | ["read"] =>
    let sh (o : Option Int) : String := match o with | none => "N" | some v => if v < 0 then "clock" else toString v
    (st, sh st.c.deadline ++ " " ++ sh st.c.writeTime)
  | ["stmt"] =>
    let t := st.c.stmtTime F fresh
    let out := if t < 0 then s!"clock same={if st.last == some t then 1 else 0}" else s!"t={t}"
    ({ st with clock := st.clock + 1, last := some t, wrote := true }, out)
  | ["stmt", "other"] =>
    -- a statement on another table of the connection: same stamp, but this table stays clean
    let t := st.c.stmtTime F fresh
    let out := if t < 0 then s!"clock same={if st.last == some t then 1 else 0}" else s!"t={t}"
    ({ st with clock := st.clock + 1, last := some t }, out)
  | _ => (st, "bad-op")

/-! ## table definitions -/

def unhexStr (s : String) : Option String :=
  if s == "-" then some "" else
  match unhex s with
  | some bs => some (String.fromUTF8! (ByteArray.mk (bs.map (·.toUInt8)).toArray))
  | none => none

def hexStr (s : String) : String := if s == "" then "-" else hex (s.toUTF8.toList.map (·.toNat))

open S3db.Schema in
def parseConsList : Nat → List String → List Cons → Option (List Cons × List String)
  | 0, rest, acc => some (acc.reverse, rest)
  | n + 1, c :: rest, acc =>
    match c with
    | "pk" => parseConsList n rest (.primaryKey :: acc)
    | "notnull" => parseConsList n rest (.notNull :: acc)
    | "unique" => parseConsList n rest (.unique :: acc)
    | "other" => parseConsList n rest (.other :: acc)
    | _ => none
  | _, _, _ => none

def parseNames : Nat → List String → List String → Option (List String × List String)
  | 0, rest, acc => some (acc.reverse, rest)
  | n + 1, x :: rest, acc =>
    match unhexStr x with
    | some s => parseNames n rest (s :: acc)
    | none => none
  | _, _, _ => none

open S3db.Schema in
def parseItems : Nat → List String → List Item → Option (List Item × List String)
  | 0, rest, acc => some (acc.reverse, rest)
  | n + 1, "col" :: name :: kt :: nc :: rest, acc =>
    match unhexStr name, nc.toNat? with
    | some name, some nc =>
      match parseConsList nc rest [] with
      | some (cs, rest') => parseItems n rest' (.col name (kt == "1") cs :: acc)
      | none => none
    | _, _ => none
  | n + 1, "tpk" :: cnt :: rest, acc =>
    match cnt.toNat? with
    | some cnt =>
      match parseNames cnt rest [] with
      | some (ns, rest') => parseItems n rest' (.tablePK ns :: acc)
      | none => none
    | none => none
  | _, _, _ => none

open S3db.Schema in
def parseOpts : Nat → List String → List (String × OptVal) → Option (List (String × OptVal))
  | 0, [], acc => some acc.reverse
  | n + 1, name :: v :: rest, acc =>
    match unhexStr name with
    | some name =>
      let ov : Option OptVal :=
        if v == "none" then some .none
        else if v == "text" then some .text
        else if v.startsWith "num:" then (v.drop 4).toString.toInt?.map .number
        else none
      match ov with
      | some ov => parseOpts n rest ((name, ov) :: acc)
      | none => none
    | none => none
  | _, _, _ => none

open S3db.Schema in
partial def schemaStep (args : List String) : String :=
  match args with
  | "create-malformed" :: rest =>
    -- the text of the columns argument is malformed (trailing comma, keywords run together)
    if schemaStep ("create" :: rest) == "bad-op" then "bad-op" else "reject"
  | "create-nostorage" :: rest =>
    -- the storage cannot be opened: whatever the definition, the CREATE is refused
    if schemaStep ("create" :: rest) == "bad-op" then "bad-op"
    else if (S3db.Schema.createEff S3db.Gen.facts true false true).1 then "accept" else "reject"
  | "create" :: hasCols :: nitems :: rest =>
    match nitems.toNat? with
    | some ni =>
      match parseItems ni rest [] with
      | some (items, nopts :: rest') =>
        match nopts.toNat? with
        | some no =>
          match parseOpts no rest' [] with
          | some opts =>
            match create S3db.Gen.facts (if hasCols == "1" then some items else none) opts with
            | some (d, o) =>
              let cols := d.cols.map fun (n, nn) => hexStr n ++ ":" ++ (if d.key == some n then "k" else if nn then "1" else "0")
              s!"accept cols={",".intercalate cols} key={match d.key with | some k => hexStr k | none => "-"} epn={o.entriesPerNode} cache={o.nodeCache} ro={if o.readonly then 1 else 0}"
            | none => "reject"
          | none => "bad-op"
        | none => "bad-op"
      | _ => "bad-op"
    | none => "bad-op"
  | _ => "bad-op"

/-! ## range scans (`Cursor.Filter` / `Cursor.Next` before SQLite's re-check) -/

def showVal : Val → String
  | .null => "N"
  | .int i => s!"I:{i}"
  | .real _ => "R"
  | .text b => "T:" ++ hex b
  | .blob b => "B:" ++ hex b

open S3db.Scan in
def parseCons : Nat → List String → List (Con (Val × String)) → Option (List (Con (Val × String)) × List String)
  | 0, rest, acc => some (acc.reverse, rest)
  | n + 1, op :: v :: rest, acc =>
    let o : Option Op := match op with
      | "eq" => some .eq | "lt" => some .lt | "le" => some .le | "ge" => some .ge | "gt" => some .gt | _ => none
    match o, parseVal v with
    | some o, some x => parseCons n rest ((o, (x, v)) :: acc)
    | _, _ => none
  | _, _, _ => none

def parseEnts : Nat → List String → List ((Val × String) × Bool) → Option (List ((Val × String) × Bool))
  | 0, [], acc => some acc.reverse
  | n + 1, v :: d :: rest, acc =>
    match parseVal v with
    | some x => parseEnts n rest (((x, v), d == "1") :: acc)
    | none => none
  | _, _, _ => none

open S3db.Scan in
def scanStep (args : List String) : String :=
  match args with
  | desc :: nc :: rest =>
    match nc.toNat? with
    | some nc =>
      match parseCons nc rest [] with
      | some (cs, ne :: rest') =>
        match ne.toNat? with
        | some ne =>
          match parseEnts ne rest' [] with
          | some es =>
            -- keys carry their original token so that REAL keys print exactly as they came
            let cmp : (Val × String) → (Val × String) → Int := fun a b =>
              (S3db.Gen.Key.keyOrder a.1.toSQLite (some b.1.toSQLite)).getD 0
            " ".intercalate ((scan S3db.Gen.facts cmp (desc == "1") cs es).map (·.2))
          | none => "bad-op"
        | none => "bad-op"
      | _ => "bad-op"
    | none => "bad-op"
  | _ => "bad-op"

/-! ## keys -/

def showOptInt (o : Option Int) : String := match o with | some i => toString i | none => "panic"

def keyStep (args : List String) : String :=
  match args with
  | ["order", a, b] =>
    match parseVal a, parseVal b with
    | some x, some y => showOptInt (Gen.Key.keyOrder x.toSQLite (some y.toSQLite))
    | _, _ => "bad-op"
  | _ => "bad-op"

structure State where
  kv : KvState := []
  tbl : TblState := []
  proto : S3db.Proto.Sys := {}
  conn : ConnState := {}

def step (st : State) (line : String) : State × String :=
  match (line.trimAscii.toString.splitOn " ").filter (· ≠ "") with
  | "#" :: _ => (st, line.trimAscii.toString)
  | "kv" :: rest => let (k, out) := kvStep st.kv rest; ({ st with kv := k }, out)
  | "key" :: rest => (st, keyStep rest)
  | "row" :: rest => (st, rowStep rest)
  | "scan" :: rest => (st, scanStep rest)
  | "box" :: rest => (st, S3db.Box.step rest)
  | "schema" :: rest => (st, schemaStep rest)
  | "conn" :: rest => let (c, out) := connStep st.conn rest; ({ st with conn := c }, out)
  | "proto" :: rest => let (p, out) := protoStep st.proto rest; ({ st with proto := p }, out)
  | "tbl" :: rest => let (t, out) := tblStep st.tbl rest; ({ st with tbl := t }, out)
  | "reset" :: _ => ({}, "ok")
  | _ => (st, "bad-op")

end Drv

partial def loop (h : IO.FS.Stream) (out : IO.FS.Stream) (st : Drv.State) : IO Unit := do
  let line ← h.getLine
  if line.isEmpty then return ()
  let (st', o) := Drv.step st line
  out.putStrLn o
  loop h out st'

def main : IO Unit := do
  let stdin ← IO.getStdin
  let stdout ← IO.getStdout
  loop stdin stdout {}
  stdout.flush
