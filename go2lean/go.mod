module verif/go2lean

go 1.23
