package main

func genFacts() {}
