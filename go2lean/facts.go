package main

// go2lean, fact mode: fixed AST queries about decision logic that lives inside effectful
// functions. Each query yields a Lean term; a query that no longer matches yields "unknown"/false.

import (
	"bytes"
	"fmt"
	"go/ast"
	"go/printer"
	"go/token"
	"sort"
	"strings"
)

type src struct {
	fset  *token.FileSet
	file  *ast.File
	funcs map[string]*ast.FuncDecl
	rel   string
}

func load(rel string) *src {
	fset := token.NewFileSet()
	f := parseFile(fset, rel)
	return &src{fset: fset, file: f, funcs: funcDecls(f), rel: rel}
}

func (s *src) text(n ast.Node) string {
	if n == nil {
		return ""
	}
	var b bytes.Buffer
	printer.Fprint(&b, s.fset, n)
	return strings.Join(strings.Fields(b.String()), " ")
}

func (s *src) fn(name string) *ast.FuncDecl {
	if f, ok := s.funcs[name]; ok {
		return f
	}
	broken = append(broken, fmt.Sprintf("%s: function %s not found", s.rel, name))
	return &ast.FuncDecl{Body: &ast.BlockStmt{}, Name: ast.NewIdent(name), Type: &ast.FuncType{Params: &ast.FieldList{}}}
}

// callOrder lists, in source order, the labels of the calls whose rendered callee matches.
func (s *src) callOrder(n ast.Node, labels map[string]string) []string {
	type hit struct {
		pos token.Pos
		l   string
	}
	var hits []hit
	ast.Inspect(n, func(x ast.Node) bool {
		if c, ok := x.(*ast.CallExpr); ok {
			if l, ok := labels[s.text(c.Fun)]; ok {
				hits = append(hits, hit{c.Pos(), l})
			}
		}
		return true
	})
	sort.Slice(hits, func(i, j int) bool { return hits[i].pos < hits[j].pos })
	var out []string
	for _, h := range hits {
		out = append(out, h.l)
	}
	return out
}

// stmtsOf flattens a body into its top-level statements.
func stmtsOf(b *ast.BlockStmt) []ast.Stmt {
	if b == nil {
		return nil
	}
	return b.List
}

// ifWithCond finds the first IfStmt (anywhere below n) whose condition renders as cond.
func (s *src) ifWithCond(n ast.Node, cond string) *ast.IfStmt {
	var res *ast.IfStmt
	ast.Inspect(n, func(x ast.Node) bool {
		if res != nil {
			return false
		}
		if i, ok := x.(*ast.IfStmt); ok && s.text(i.Cond) == cond {
			res = i
			return false
		}
		return true
	})
	return res
}

// ifContaining finds the first IfStmt whose condition text contains all the fragments.
func (s *src) ifContaining(n ast.Node, frags ...string) *ast.IfStmt {
	var res *ast.IfStmt
	ast.Inspect(n, func(x ast.Node) bool {
		if res != nil {
			return false
		}
		if i, ok := x.(*ast.IfStmt); ok {
			t := s.text(i.Cond)
			all := true
			for _, f := range frags {
				if !strings.Contains(t, f) {
					all = false
				}
			}
			if all {
				res = i
				return false
			}
		}
		return true
	})
	return res
}

func endsIn(b *ast.BlockStmt, kind string) bool {
	if b == nil || len(b.List) == 0 {
		return false
	}
	switch x := b.List[len(b.List)-1].(type) {
	case *ast.ReturnStmt:
		return kind == "return"
	case *ast.BranchStmt:
		return kind == strings.ToLower(x.Tok.String())
	}
	return false
}

func (s *src) firstCallPos(n ast.Node, callee string) token.Pos {
	var p token.Pos
	ast.Inspect(n, func(x ast.Node) bool {
		if c, ok := x.(*ast.CallExpr); ok && p == 0 && s.text(c.Fun) == callee {
			p = c.Pos()
		}
		return true
	})
	return p
}

// errCheckedAfter: the statement holding the call is directly followed by `if err != nil { … return }`.
func (s *src) errCheckedAfter(body *ast.BlockStmt, callee string) bool {
	ok := false
	var walk func(list []ast.Stmt)
	walk = func(list []ast.Stmt) {
		for i, st := range list {
			has := false
			switch st.(type) {
			case *ast.AssignStmt, *ast.ExprStmt:
				ast.Inspect(st, func(x ast.Node) bool {
					if c, k := x.(*ast.CallExpr); k && s.text(c.Fun) == callee {
						has = true
					}
					return true
				})
			}
			if has && i+1 < len(list) {
				if ifs, k := list[i+1].(*ast.IfStmt); k && s.text(ifs.Cond) == "err != nil" && endsIn(ifs.Body, "return") {
					ok = true
				}
			}
			ast.Inspect(st, func(x ast.Node) bool {
				if b, k := x.(*ast.BlockStmt); k && x != st {
					walk(b.List)
					return false
				}
				return true
			})
		}
	}
	walk(body.List)
	return ok
}

func leanStrList(xs []string) string {
	q := make([]string, len(xs))
	for i, x := range xs {
		q[i] = leanStr(x)
	}
	return "[" + strings.Join(q, ", ") + "]"
}

func leanStr(s string) string {
	return "\"" + strings.ReplaceAll(strings.ReplaceAll(s, "\\", "\\\\"), "\"", "\\\"") + "\""
}

func leanBool(b bool) string {
	if b {
		return "true"
	}
	return "false"
}

func persistLabel(s string) string {
	switch s {
	case "rootPersist":
		return "current"
	case "mergedPersist":
		return "merged"
	}
	return "unknown:" + s
}

func genFacts() {
	kvs := load("kv/kv.go")
	vc := load("vtable_common.go")
	vt := load("sqlite/vtable.go")
	rf := load("sqlite/s3db_refresh.go")
	f := map[string]string{}

	// ---- DB.Commit
	commit := kvs.fn("DB.Commit")
	f["commitOrder"] = leanStrList(kvs.callOrder(commit, map[string]string{"s.crdt.MakeRoot": "flushNodes", "s.root.Store": "putRoot", "s.moveMergedRoots": "retireParents"}))
	f["commitChecksErrors"] = leanBool(kvs.errCheckedAfter(commit.Body, "s.crdt.MakeRoot") && kvs.errCheckedAfter(commit.Body, "s.root.Store"))
	{
		ct := kvs.text(commit.Body)
		f["commitRemembersFailure"] = leanBool(
			strings.HasPrefix(ct, "{ if s.flushErr != nil { return nil, fmt.Errorf(") &&
				strings.Contains(ct, "root, err := s.crdt.MakeRoot(ctx) if err != nil { s.flushErr = err return nil, fmt.Errorf(\"mast makeroot: %w\", err) }") &&
				strings.Contains(ct, "err = s.root.Store(ctx, name, rootBytes) if err != nil { s.unstored = true return nil, fmt.Errorf(\"store: %w\", err) }") &&
				strings.Contains(ct, "s.tombstoned = false s.unstored = false return &name, nil }") &&
				strings.Count(ct, "s.unstored =") == 2 && strings.Count(ct, "s.flushErr =") == 1 &&
				kvs.text(kvs.fn("DB.IsDirty").Body) == "{ return s.tombstoned || s.unstored || s.crdt.IsDirty() }")
	}
	roIf := kvs.ifWithCond(commit, "s.readonly")
	f["commitGuardBeforeFlush"] = leanBool(roIf != nil && endsIn(roIf.Body, "return") && strings.Contains(kvs.text(roIf.Body), "ErrReadOnly") &&
		roIf.Pos() < kvs.firstCallPos(commit, "s.crdt.MakeRoot") && kvs.firstCallPos(commit, "s.crdt.MakeRoot") != 0)
	ct := kvs.text(commit.Body)
	f["nameIsHashOfStoredBytes"] = leanBool(strings.Contains(ct, "hashBytes := blake2b.Sum256(rootBytes)") &&
		strings.Contains(ct, "hash := big.NewInt(0).SetBytes(hashBytes[:12]).Text(62)") &&
		strings.Contains(ct, "name := fmt.Sprintf(\"%s%06s_%s\", s.cfg.CustomRootPrefix, crTime, hash)") &&
		strings.Contains(ct, "err = s.root.Store(ctx, name, rootBytes)"))

	// ---- moveMergedRoots
	mm := kvs.fn("DB.moveMergedRoots")
	f["retireOrder"] = leanStrList(kvs.callOrder(mm, map[string]string{"s.merged.Store": "putMerged", "s.s3Client.DeleteObjectWithContext": "delCurrent"}))
	skip := kvs.ifWithCond(mm, "newRoot == key")
	f["retireSkipsSelf"] = leanBool(skip != nil && endsIn(skip.Body, "continue"))
	f["retireStopsOnPutError"] = leanBool(kvs.errCheckedAfter(mm.Body, "s.merged.Store"))
	delText := kvs.text(mm.Body)
	if !strings.Contains(delText, "Key: aws.String(s.root.Prefix + key)") || !strings.Contains(delText, "s.merged.Store(ctx, key, mergedRoot)") {
		f["retireOrder"] = leanStrList([]string{"unknown"})
	}

	// ---- Open
	open := kvs.fn("Open")
	ot := kvs.text(open.Body)
	f["openLoadsFrom"] = leanStrList([]string{"unknown"})
	f["historicLoadsFrom"] = leanStrList([]string{"unknown"})
	f["historicCond"] = leanStr("unknown")
	persistsOf := func(e ast.Expr) []string {
		cl, ok := e.(*ast.CompositeLit)
		if !ok {
			return []string{"unknown"}
		}
		var out []string
		for _, el := range cl.Elts {
			out = append(out, persistLabel(kvs.text(el)))
		}
		return out
	}
	okPersistDefs := strings.Contains(ot, "rootPersist := cfg.Storage.fixPrefix().toPersist(S3, \"root/current/\")") &&
		strings.Contains(ot, "mergedPersist := cfg.Storage.fixPrefix().toPersist(S3, \"root/merged/\")")
	for _, st := range open.Body.List {
		if as, ok := st.(*ast.AssignStmt); ok && len(as.Lhs) == 1 && kvs.text(as.Lhs[0]) == "persists" && as.Tok == token.DEFINE && okPersistDefs {
			f["openLoadsFrom"] = leanStrList(persistsOf(as.Rhs[0]))
		}
		if ifs, ok := st.(*ast.IfStmt); ok && strings.Contains(kvs.text(ifs.Cond), "OnlyVersions") && ifs.Else != nil {
			f["historicCond"] = leanStr(kvs.text(ifs.Cond))
			// the historic path uses the same lookup order unless it assigns its own
			f["historicLoadsFrom"] = f["openLoadsFrom"]
			hist, list := false, false
			for _, b := range ifs.Body.List {
				if as, ok := b.(*ast.AssignStmt); ok && kvs.text(as.Lhs[0]) == "persists" && okPersistDefs {
					f["historicLoadsFrom"] = leanStrList(persistsOf(as.Rhs[0]))
				}
				if kvs.text(b) == "skipUnreadable = false" {
					hist = true
				}
			}
			if eb, ok := ifs.Else.(*ast.BlockStmt); ok {
				for _, b := range eb.List {
					if kvs.text(b) == "skipUnreadable = true" {
						list = true
					}
				}
			}
			f["historicFailsOnMissing"] = leanBool(hist && list && strings.Contains(kvs.text(ifs.Body), "versionsToLoad = opts.OnlyVersions") &&
				strings.Contains(kvs.text(ifs.Else), "versionsToLoad, err = listRoots(ctx, S3, rootPersist)"))
		}
	}
	if _, ok := f["historicFailsOnMissing"]; !ok {
		f["historicFailsOnMissing"] = "false"
	}
	rwIf := kvs.ifWithCond(open, "!opts.ReadOnly")
	commitPos := kvs.firstCallPos(open, "s.Commit")
	f["openCommitsOnlyIfRW"] = leanBool(rwIf != nil && commitPos > rwIf.Body.Pos() && commitPos < rwIf.Body.End() && len(kvs.callOrder(open, map[string]string{"s.Commit": "c"})) == 1)
	first := stmtsOf(open.Body)
	f["onlyVersionsRequiresRO"] = leanBool(len(first) > 0 && func() bool {
		i, ok := first[0].(*ast.IfStmt)
		return ok && kvs.text(i.Cond) == "!opts.ReadOnly && len(opts.OnlyVersions) > 0" && endsIn(i.Body, "return")
	}())

	// ---- mergeRoots
	mr := kvs.fn("mergeRoots")
	nilIf := kvs.ifWithCond(mr, "root == nil")
	f["missingSkippedOnlyIfSkipUnreadable"] = leanBool(nilIf != nil && len(nilIf.Body.List) == 2 && func() bool {
		in, ok := nilIf.Body.List[0].(*ast.IfStmt)
		return ok && kvs.text(in.Cond) == "skipUnreadable" && endsIn(in.Body, "continue") && endsIn(nilIf.Body, "return")
	}())
	loadIf := kvs.ifContaining(mr, "NoSuchKey", "errors.As")
	if loadIf == nil {
		loadIf = kvs.ifContaining(mr, "isNoSuchKey(err)")
	}
	f["loadErrorSkipCond"] = leanStr("unknown")
	if loadIf != nil {
		f["loadErrorSkipCond"] = leanStr(kvs.text(loadIf.Cond))
	}
	// every other error path of the fold returns (F16): the two `!isNoSuchKey(err) || !skipUnreadable` guards
	cnt := 0
	ast.Inspect(mr, func(x ast.Node) bool {
		if i, ok := x.(*ast.IfStmt); ok && kvs.text(i.Cond) == "!isNoSuchKey(err) || !skipUnreadable" && endsIn(i.Body, "return") {
			cnt++
		}
		return true
	})
	f["mergeErrorsReturned"] = leanBool(cnt == 2)

	// ---- the row merge and the three statements (C01, C02, C15): the decision points read as the model expects
	mrows := vc.fn("MergeRows")
	mrt := vc.text(mrows.Body)
	f["mergeStatusCond"] = leanStr("unknown")
	if len(mrows.Body.List) >= 3 {
		for _, st := range mrows.Body.List {
			if i, ok := st.(*ast.IfStmt); ok && strings.Contains(vc.text(i.Cond), "DeleteUpdateOffset") {
				f["mergeStatusCond"] = leanStr(vc.text(i.Cond))
				break
			}
		}
	}
	f["mergeStatusBranchesAsExpected"] = leanBool(
		strings.Contains(mrt, "{ res.Deleted = r2.Deleted res.DeleteUpdateOffset = durationpb.New(t2.Add(r2.DeleteUpdateOffset.AsDuration()).Sub(outTime)) if r1.Deleted { if !r2.Deleted { resetValuesBefore = t2.Add(r2.DeleteUpdateOffset.AsDuration()) } } } else { res.Deleted = r1.Deleted res.DeleteUpdateOffset = durationpb.New(t1.Add(r1.DeleteUpdateOffset.AsDuration()).Sub(outTime)) if !r1.Deleted { if r2.Deleted { resetValuesBefore = t1.Add(r1.DeleteUpdateOffset.AsDuration()) } } }"))
	f["mergeColumnSwitchAsExpected"] = leanBool(
		strings.Contains(mrt, "switch { case !inR1: if !hideDeletedValue(t2, v2, resetValuesBefore) { res.ColumnValues[k] = adj(t2, v2, outTime) } case !inR2: if !hideDeletedValue(t1, v1, resetValuesBefore) { res.ColumnValues[k] = adj(t1, v1, outTime) } case !UpdateTime(t2, v2).Before(UpdateTime(t1, v1)): if !hideDeletedValue(t2, v2, resetValuesBefore) { res.ColumnValues[k] = adj(t2, v2, outTime) } default: if !hideDeletedValue(t1, v1, resetValuesBefore) { res.ColumnValues[k] = adj(t1, v1, outTime) } }"))
	f["deletedRowsKeepColumns"] = leanBool(!strings.Contains(mrt, "if res.Deleted { return &res }") && strings.Count(mrt, "return") == 1)
	f["hideAndAdjAsExpected"] = leanBool(
		vc.text(vc.fn("hideDeletedValue").Body) == "{ return UpdateTime(inputTime, cv).Before(resetValuesBefore) }" &&
			strings.Contains(vc.text(vc.fn("adj").Body), "if inTime.Equal(outTime) { return cv }") &&
			strings.Contains(vc.text(vc.fn("adj").Body), "UpdateOffset: durationpb.New(UpdateTime(inTime, cv).Sub(outTime))"))
	mvt := vc.text(vc.fn("mergeValues").Body)
	f["mergeValuesAsExpected"] = leanBool(strings.Contains(mvt, "resp := crdt.LastWriteWins(&i1, &i2) res := *resp if i1.ModEpochNanos < i2.ModEpochNanos { res.Value = MergeRows(nil, time.Unix(0, i1.ModEpochNanos), i1.Value.(*v1proto.Row), time.Unix(0, i2.ModEpochNanos), i2.Value.(*v1proto.Row), time.Unix(0, i2.ModEpochNanos), ) } else { res.Value = MergeRows(nil, time.Unix(0, i2.ModEpochNanos), i2.Value.(*v1proto.Row), time.Unix(0, i1.ModEpochNanos), i1.Value.(*v1proto.Row), time.Unix(0, i1.ModEpochNanos), ) } return res"))
	ins := vc.text(vc.fn("VirtualTable.Insert").Body)
	upd := vc.text(vc.fn("VirtualTable.Update").Body)
	del := vc.text(vc.fn("VirtualTable.Delete").Body)
	store := "mt := laterOf(ot, t) merged := MergeRows(key, ot, old, t, &new, mt) err = c.Tree.Root.Set(ctx, mt, NewKey(key), merged)"
	f["insertRefusedCond"] = leanStr("unknown")
	if i := vc.ifContaining(vc.fn("VirtualTable.Insert"), "old.Deleted"); i != nil {
		f["insertRefusedCond"] = leanStr(vc.text(i.Cond))
	}
	f["statementsMergeAndStoreAsExpected"] = leanBool(strings.Contains(ins, store) && strings.Contains(upd, store) && strings.Contains(del, store) &&
		strings.Contains(upd, "if !ok || old.Deleted { return nil }") &&
		strings.Contains(upd, "new.DeleteUpdateOffset = durationpb.New(ot.Add(old.DeleteUpdateOffset.AsDuration()).Sub(t))") &&
		strings.Contains(del, "new.Deleted = true") &&
		strings.Contains(ins, "for i, v := range values { if i == c.KeyCol { continue } colName := c.ColumnNameByIndex[i] new.ColumnValues[colName] = &v1proto.ColumnValue{Value: toSQLiteValue(v)}") &&
		vc.text(vc.fn("laterOf").Body) == "{ if a.After(b) { return a } return b }")

	// ---- the uniqueness lookup: getRow reports a failed lookup as an error (never as "absent"), Insert rejects a NULL key before it
	gr := vc.text(vc.fn("getRow").Body)
	f["getRowReturnsLookupError"] = leanBool(strings.HasPrefix(gr, "{ var crdtValue crdt.Value ok, err := c.Tree.Root.Get(ctx, key, &crdtValue) if err != nil { return false, err } if ok {") &&
		strings.HasSuffix(gr, "return ok, nil }") &&
		strings.Contains(ins, "ok, err := getRow(ctx, c, NewKey(key), &old, &ot) if err != nil { return 0, fmt.Errorf(\"get: %w\", err) } if ok && ("))
	f["insertRejectsNullKey"] = leanBool(strings.Contains(ins, "key = values[c.KeyCol] if key == nil { return 0, ErrS3DBConstraintNotNull }") &&
		strings.Index(ins, "if key == nil { return 0, ErrS3DBConstraintNotNull }") < strings.Index(ins, "getRow("))
	// ---- loadRootFromAny: only a NoSuchKey answer moves on to the next location
	la := kvs.fn("loadRootFromAny")
	f["loadAnySkipCond"] = leanStr("unknown")
	ast.Inspect(la, func(x ast.Node) bool {
		if i, ok := x.(*ast.IfStmt); ok && endsIn(i.Body, "continue") {
			f["loadAnySkipCond"] = leanStr(kvs.text(i.Cond))
		}
		return true
	})
	f["loadAnyReturnsOtherErrors"] = leanBool(strings.Contains(kvs.text(la.Body), "if err != nil { var ae awserr.Error if errors.As(err, &ae) && ae.Code() == s3.ErrCodeNoSuchKey { continue } return nil, nil, fmt.Errorf(\"%s: %w\", persist[i].NodeURLPrefix(), err) }"))
	// ---- statement paths propagate storage errors (C14)
	propagates := func(s *src, fn, callee string) bool { return s.errCheckedAfter(s.fn(fn).Body, callee) }
	f["statementErrorsPropagate"] = leanBool(
		propagates(vc, "VirtualTable.Insert", "getRow") && propagates(vc, "VirtualTable.Insert", "c.Tree.Root.Set") &&
			propagates(vc, "VirtualTable.Update", "getRow") && propagates(vc, "VirtualTable.Update", "c.Tree.Root.Set") &&
			propagates(vc, "VirtualTable.Delete", "getRow") && propagates(vc, "VirtualTable.Delete", "c.Tree.Root.Set") &&
			propagates(vc, "VirtualTable.Commit", "c.Tree.Root.Commit") &&
			propagates(vc, "Cursor.Next", "c.cursor.Forward") && propagates(vc, "Cursor.Next", "c.cursor.Backward") &&
			propagates(vc, "Cursor.Filter", "c.t.Tree.Root.Cursor"))
	chg := load("sqlite/s3db_changes.go")
	cn2 := chg.fn("ChangesCursor.Next")
	f["changesErrorsPropagate"] = leanBool(strings.Contains(chg.text(cn2.Body), "if err == mast.ErrNoMoreDiffs { c.eof = true return nil } if err != nil { return err }") &&
		strings.Contains(chg.text(cn2.Body), "if row, ok := de.NewValue.(*v1proto.Row); ok && row != nil && !row.Deleted {"))
	// ---- Rollback restores the snapshot taken at Begin unconditionally; Commit clears it only on success (C05)
	rb := vc.fn("VirtualTable.Rollback")
	f["rollbackRestoresSnapshot"] = leanBool(vc.text(rb.Body) == "{ dbg(\"ROLLBACK\\n\") if c.txStart != nil { c.Tree.Root.Cancel() c.Tree.Root = c.txStart c.txStart = nil } return nil }")
	cm := vc.fn("VirtualTable.Commit")
	f["commitKeepsSnapshotOnError"] = leanBool(vc.text(cm.Body) == "{ dbg(\"COMMIT\\n\") c.Tree.Root.SetCreated(time.Now()) _, err := c.Tree.Root.Commit(ctx) if err != nil { c.commitFailed = true return fmt.Errorf(\"commit tree: %w\", err) } c.txStart = nil return nil }")
	// ---- after a failed storage commit the table is read again from the bucket before its next use (C04, C14, C16)
	{
		call := func(recv string) string {
			return recv + ".reopenAfterFailedCommit(ctx) if err != nil { return err } "
		}
		f["failedCommitReopens"] = leanBool(
			strings.Contains(vc.text(cm.Body), "if err != nil { c.commitFailed = true return fmt.Errorf(") &&
				vc.text(vc.fn("VirtualTable.reopenAfterFailedCommit").Body) == "{ if !c.commitFailed || c.txStart != nil { return nil } verifReopening(c) tree, err := OpenKV(ctx, c.S3Options, \"s3db-rows\") if err != nil { return fmt.Errorf(\"reopen after failed commit: %w\", err) } c.Tree = tree c.commitFailed = false return nil }" &&
				strings.Contains(vc.text(vc.fn("VirtualTable.Begin").Body), "err = c"+call("")+"c.txStart, err = c.Tree.Root.Clone(ctx)") &&
				strings.Contains(vc.text(vc.fn("Cursor.Filter").Body), "err := c.t"+call("")+"c.cursor, err = c.t.Tree.Root.Cursor(ctx)") &&
				strings.Contains(vc.text(vc.fn("Vacuum").Body), "err := table"+call("")+"if table.Tree.Root.IsDirty()") &&
				strings.Count(vc.text(vc.file), "c.commitFailed = ") == 2)
	}
	bg := vc.fn("VirtualTable.Begin")
	f["beginClonesTree"] = leanBool(strings.Contains(vc.text(bg.Body), "c.txStart, err = c.Tree.Root.Clone(ctx)") && strings.Contains(vc.text(bg.Body), "if c.txStart != nil { return errors.New(\"transaction already in progress\") }"))
	// ---- connection attributes (C05, C15)
	vb := vt.fn("VirtualTable.Begin")
	f["beginFixesWriteTime"] = leanBool(strings.Contains(vt.text(vb.Body), "if c.module.sc.writeTime.IsZero() { c.module.sc.writeTime = time.Now() c.module.sc.txFixedWriteTime = true c.module.sc.ResetContext() }"))
	endsTx := "if c.module.sc.txFixedWriteTime { c.module.sc.writeTime = time.Time{} c.module.sc.txFixedWriteTime = false c.module.sc.ResetContext() }"
	f["endOfTxReleasesWriteTime"] = leanBool(strings.Contains(vt.text(vt.fn("VirtualTable.Commit").Body), endsTx) && strings.Contains(vt.text(vt.fn("VirtualTable.Rollback").Body), endsTx))
	cu := load("sqlite/s3db_conn.go")
	cut := cu.text(cu.fn("ConnModule.Update").Body)
	f["connUpdateParsesBeforeAssigning"] = leanBool(strings.Contains(cut, "newDeadline, newWriteTime := c.sc.deadline, c.sc.writeTime") &&
		strings.Contains(cut, "c.sc.deadline, c.sc.writeTime = newDeadline, newWriteTime if !writeTime.NoChange() { c.sc.txFixedWriteTime = false } c.sc.ResetContext() return nil") &&
		strings.Count(cut, "return fmt.Errorf(") == 3 &&
		// the third refusal: a write_time outside what 64-bit nanoseconds express (F74), before anything is assigned
		strings.Contains(cut, "if newWriteTime.Before(time.Unix(0, math.MinInt64)) || newWriteTime.After(time.Unix(0, math.MaxInt64)) { return fmt.Errorf(") &&
		strings.Index(cut, "newWriteTime.After(time.Unix(0, math.MaxInt64))") < strings.Index(cut, "c.sc.deadline, c.sc.writeTime = newDeadline, newWriteTime"))
	cc := cu.fn("ConnCursor.Column")
	ccl := stmtsOf(cc.Body)
	f["connColumnHonoursNoChange"] = leanBool(len(ccl) > 0 && func() bool {
		i, ok := ccl[0].(*ast.IfStmt)
		return ok && cu.text(i.Cond) == "context.NoChange()" && endsIn(i.Body, "return")
	}())
	rc := vt.text(vt.fn("S3DBConn.ResetContext").Body)
	f["resetContextAsExpected"] = leanBool(strings.Contains(rc, "sc.ctx = context.Background() if !sc.deadline.IsZero() { sc.ctx, sc.ctxCancel = context.WithDeadline(sc.ctx, sc.deadline) } if !sc.writeTime.IsZero() { sc.ctx = writetime.NewContext(sc.ctx, sc.writeTime) }"))
	ut2 := vc.text(vc.fn("updateTime").Body)
	f["updateTimePrefersContext"] = leanBool(ut2 == "{ if t, ok := writetime.FromContext(ctx); ok { return t } return time.Now() }")

	// ---- read-only guards
	var guards []string
	for _, m := range []string{"DB.Set", "DB.Tombstone", "DeleteHistoricVersions"} {
		fd := kvs.fn(m)
		l := stmtsOf(fd.Body)
		if len(l) > 0 {
			if i, ok := l[0].(*ast.IfStmt); ok && kvs.text(i.Cond) == "s.readonly" && endsIn(i.Body, "return") && strings.Contains(kvs.text(i.Body), "ErrReadOnly") {
				guards = append(guards, strings.TrimPrefix(m, "DB."))
			}
		}
	}
	if roIf != nil {
		guards = append(guards, "Commit")
	}
	sort.Strings(guards)
	f["roGuards"] = leanStrList(guards)
	sync := vt.fn("VirtualTable.Sync")
	sl := stmtsOf(sync.Body)
	f["syncSkipsRO"] = leanBool(len(sl) > 0 && func() bool {
		i, ok := sl[0].(*ast.IfStmt)
		return ok && vt.text(i.Cond) == "c.common.S3Options.ReadOnly" && endsIn(i.Body, "return") && vt.firstCallPos(sync, "c.common.Commit") > i.End()
	}())

	// ---- vacuum
	vac := vc.fn("Vacuum")
	f["rowCutoff"] = leanStr("unknown")
	if i := vc.ifContaining(vac, "row.Deleted"); i != nil {
		f["rowCutoff"] = leanStr(vc.text(i.Cond))
	}
	f["vacuumOrder"] = leanStrList(vc.callOrder(vac, map[string]string{"db.RemoveTombstones": "removeTombstones", "db.Commit": "commit", "kv.DeleteHistoricVersions": "deleteHistoric"}))
	dirtyIf := vc.ifWithCond(vac, "table.Tree.Root.IsDirty()")
	f["vacuumRefusesDirty"] = leanBool(dirtyIf != nil && endsIn(dirtyIf.Body, "return") && dirtyIf.Pos() < vc.firstCallPos(vac, "table.Tree.Root.Clone"))
	rfin := rf.fn("RefreshFunc.Final")
	rdIf := rf.ifWithCond(rfin, "!vt.S3Options.ReadOnly && vt.Tree.Root.IsDirty()")
	f["refreshRefusesDirty"] = leanBool(rdIf != nil && endsIn(rdIf.Body, "return") && rdIf.Pos() < rf.firstCallPos(rfin, "s3db.OpenKV"))
	// ---- the bug-hunt repairs (F57, F58, F59, F61, F62, F71, F75, F77)
	{
		bit := vt.text(vt.fn("VirtualTable.BestIndex").Body)
		f["bestIndexSkipsOtherCollations"] = leanBool(strings.Contains(bit, "op := mapOp(c.Op, c.Usable) if op != s3db.OpIgnore && !strings.EqualFold(input.Collation(i), \"BINARY\") { op = s3db.OpIgnore } indexIn[i] = s3db.IndexInput{"))
		f["beginAsksTableFirst"] = leanBool(
			vt.text(vt.fn("VirtualTable.Begin").Body) == "{ err := c.common.Begin(c.module.sc.ctx) if err != nil { return toSqlite(err) } if c.module.sc.writeTime.IsZero() { c.module.sc.writeTime = time.Now() c.module.sc.txFixedWriteTime = true c.module.sc.ResetContext() } return nil }" &&
				vt.text(vt.fn("VirtualTable.Sync").Body) == "{ if c.common.S3Options.ReadOnly { return toSqlite(c.common.Rollback()) } return toSqlite(c.common.Commit(c.module.sc.ctx)) }")
		fxIf := rf.ifWithCond(rfin, "h.sc.txFixedWriteTime")
		f["refreshRefusedAfterWrite"] = leanBool(fxIf != nil && endsIn(fxIf.Body, "return") && strings.Contains(rf.text(fxIf.Body), "ctx.ResultError(") && fxIf.Pos() < rf.firstCallPos(rfin, "s3db.OpenKV"))
		ut := vc.text(vc.fn("VirtualTable.Update").Body)
		f["updateRefusesKeyChange"] = leanBool(
			strings.Contains(ut, "if nk, assigned := values[c.KeyCol]; assigned && !c.usesRowID && !sameKeyValue(nk, key) { return errors.New(") &&
				strings.Index(ut, "!sameKeyValue(nk, key)") < strings.Index(ut, "getRow(ctx, c, NewKey(key), &old, &ot)") &&
				vc.text(vc.fn("sameKeyValue").Body) == "{ x, y := NewKey(a).SQLiteValue, NewKey(b).SQLiteValue return x.Type == y.Type && x.Int == y.Int && math.Float64bits(x.Real) == math.Float64bits(y.Real) && x.Text == y.Text && bytes.Equal(x.Blob, y.Blob) }")
		nw := vc.fn("New")
		nwt := vc.text(nw.Body)
		f["optionValuesAsWritten"] = leanBool(
			strings.Contains(nwt, "s := strings.SplitN(args[i], \"=\", 2) if len(s) > 1 { s[1] = strings.TrimSpace(s[1]) }") &&
				strings.Count(nwt, "strconv.ParseInt(s[1], 10, 32)") == 2 && !strings.Contains(nwt, "ParseInt(s[1], 0,"))
		cst := vc.text(vc.fn("convertSchema").Body)
		f["declarableCheckedBeforeOpen"] = leanBool(
			strings.Contains(cst, "if !utf8.ValidString(name) {") &&
				strings.Contains(cst, "if _, ok := folded[\"_rowid_\"]; ok && len(schema.PrimaryKey) == 0 { return fmt.Errorf(") &&
				vc.firstCallPos(nw, "convertSchema") != 0 && vc.firstCallPos(nw, "convertSchema") < vc.firstCallPos(nw, "OpenKV"))
		f["connFilterResetsEof"] = leanBool(strings.Contains(cu.text(cu.fn("ConnCursor.Filter").Body), "vc.eof = false"))
		f["vacuumDeletesSupersededFirst"] = leanBool(strings.Contains(kvs.text(kvs.fn("DB.getHistoricRootsAndNodes").Body), "roots = make([]string, 0, len(candidateRoots)) ordered := make(map[string]bool, len(candidateRoots)) var supersededFirst func(name string) supersededFirst = func(name string) { if ordered[name] { return } ordered[name] = true if root, ok := rootCacheByName[name]; ok { for _, parent := range root.MergeSources { if _, ok := candidateRoots[parent]; ok { supersededFirst(parent) } } } roots = append(roots, name) } for k := range candidateRoots { supersededFirst(k) } return roots, nodes, nil") &&
			strings.Contains(kvs.text(kvs.fn("DeleteHistoricVersions").Body), "for _, l := range roots { _, err := s.s3Client.DeleteObjectWithContext(ctx, &s3.DeleteObjectInput{ Key: aws.String(s.merged.Prefix + l),"))
		f["roSyncEndsTransaction"] = leanBool(strings.HasPrefix(vt.text(vt.fn("VirtualTable.Sync").Body), "{ if c.common.S3Options.ReadOnly { return toSqlite(c.common.Rollback()) }"))
		{
			vtx := vc.text(vc.fn("Vacuum").Body)
			f["vacuumRemembersFailedCommit"] = leanBool(
				strings.Contains(vtx, "err = db.RemoveTombstones(ctx, beforeTime) if err != nil { table.commitFailed = true return fmt.Errorf(") &&
					strings.Contains(vtx, "_, err = db.Commit(ctx) if err != nil { table.commitFailed = true return fmt.Errorf(") &&
					strings.Count(vc.text(vc.file), "table.commitFailed = true") == 2)
		}
		{
			ot := kvs.text(kvs.fn("Open").Body)
			f["openRelistsWhenSkipped"] = leanBool(strings.Contains(ot, "var listed []string for attempt := 0; ; attempt++ { versionsToLoad, err = listRoots(ctx, S3, rootPersist) if err != nil { return nil, err } if attempt > 0 && sameNames(versionsToLoad, listed) { break } listed = versionsToLoad tree, mergedRoots, unmergeableRoots, err = mergeRoots(ctx, versionsToLoad, cfg, crdtConfig, persists, when, opts.ForceRebranch, &kvVersion, skipUnreadable) if err != nil { return nil, fmt.Errorf(\"merge: %w\", err) } if unmergeableRoots == 0 || attempt == 2 { break } }") &&
				kvs.text(kvs.fn("sameNames").Body) == "{ if len(a) != len(b) { return false } seen := make(map[string]bool, len(a)) for _, n := range a { seen[n] = true } for _, n := range b { if !seen[n] { return false } } return true }")
			f["rowidCannotBeAssigned"] = leanBool(strings.Contains(vc.text(vc.fn("VirtualTable.Insert").Body), "if c.usesRowID { if values[c.KeyCol] != nil { return 0, errors.New("))
			f["keyColumnFoldedLookup"] = leanBool(strings.Contains(vc.text(vc.fn("convertSchema").Body), "keyColName, ok = folded[foldASCII(schema.PrimaryKey[0])] if !ok { return fmt.Errorf(") &&
				strings.Contains(vc.text(vc.fn("convertSchema").Body), "lower := foldASCII(name) if _, ok := folded[lower]; ok { return fmt.Errorf(\"duplicate column: %s\", name) } folded[lower] = name"))
		}
		f["emptyVersionForgotten"] = leanBool(strings.Contains(kvs.text(kvs.fn("DeleteHistoricVersions").Body), "s.crdt.Source = nil s.crdt.MergeSources = nil s.mergedRoots = map[string][]byte{}"))
	}
	rt := kvs.fn("DB.RemoveTombstones")
	f["tombCutoff"] = leanStr("unknown")
	if i := kvs.ifContaining(rt, "ts"); i != nil {
		f["tombCutoff"] = leanStr(kvs.text(i.Cond))
	}
	gh := kvs.fn("DB.getHistoricRootsAndNodes")
	f["versionCutoff"] = leanStr("unknown")
	if i := kvs.ifContaining(gh, "childRoot.Created"); i != nil {
		f["versionCutoff"] = leanStr(kvs.text(i.Cond))
	}
	// the keep pass: unconditional walk of the current tree, and a loop over the root graph whose only skip is "is a candidate"
	keepOK := false
	for _, st := range gh.Body.List {
		if i, ok := st.(*ast.IfStmt); ok && i.Init != nil && kvs.text(i.Init) == "err := keep(s.crdt.Mast)" && kvs.text(i.Cond) == "err != nil" {
			keepOK = true
		}
	}
	loopOK := false
	ast.Inspect(gh, func(x ast.Node) bool {
		if r, ok := x.(*ast.RangeStmt); ok && kvs.text(r.X) == "rootCacheByName" && r.Pos() > kvs.firstCallPos(gh, "keep") {
			conts := 0
			ast.Inspect(r.Body, func(y ast.Node) bool {
				if b, ok := y.(*ast.BranchStmt); ok && b.Tok == token.CONTINUE {
					conts++
				}
				return true
			})
			first, ok := r.Body.List[0].(*ast.IfStmt)
			loopOK = conts == 1 && ok && kvs.text(first.Init) == "_, ok := candidateRoots[name]" && kvs.text(first.Cond) == "ok" &&
				strings.Contains(kvs.text(r.Body), "keep(kept.Mast)")
		}
		return true
	})
	keepFn := strings.Contains(kvs.text(gh.Body), "if ls, ok := link.(string); ok && !removed { delete(candidateBlocks, ls) }")
	f["vacuumKeepsReachable"] = leanBool(keepOK && loopOK && keepFn)
	ght := kvs.text(gh.Body)
	f["vacuumKeepsListedCurrent"] = leanBool(strings.Contains(ght, "current, err := s.listRoots(ctx) if err != nil { return nil, nil, fmt.Errorf(\"list roots: %w\", err) } superseded, err := s.listMergedRoots(ctx) if err != nil { return nil, nil, fmt.Errorf(\"list merged roots: %w\", err) } for _, name := range append(current, superseded...) { if _, ok := rootCacheByName[name]; ok { continue }") &&
		strings.Contains(ght, "rootCacheByName[name] = root kept, err := crdt.Load(ctx, loadConfig, &name, *root)"))
	f["vacuumChecksOwnAge"] = leanBool(strings.Contains(ght, "tooNew := false if parentRoot, ok := rootCacheByName[parent]; ok && (parentRoot.Created == nil || !parentRoot.Created.Before(olderThan)) { tooNew = true } for _, childRoot := range children {"))
	f["vacuumSkipsUnreadableListed"] = leanBool(strings.Contains(ght, "kept, err := crdt.Load(ctx, loadConfig, &name, *root) if err != nil { if isNoSuchKey(err) { continue } return nil, nil, err } if err := keep(kept.Mast); err != nil { if isNoSuchKey(err) { continue } return nil, nil, err } } nodes = make([]string, 0, len(candidateBlocks))"))
	f["nodeContentChecked"] = leanBool(kvs.text(kvs.fn("persistEncryptor.Load").Body) == "{ value, err := e.Persist.Load(ctx, path) if err != nil { return nil, err } plain, err := e.encryptor.Decrypt(path, value) if err != nil { return nil, err } sum := blake2b.Sum256(plain) if base64.RawURLEncoding.EncodeToString(sum[:]) != path { return nil, fmt.Errorf(\"node %s: content does not match its name\", path) } return plain, nil }")
	f["vacuumWalksBypassCache"] = leanBool(strings.Contains(ght, "loadConfig := s.crdt.Config loadConfig.NodeCache = nil") && !strings.Contains(ght, "crdt.Load(ctx, s.crdt.Config,") && strings.Count(ght, "crdt.Load(ctx, loadConfig,") == 4)
	{
		vcm := vc.text(vc.fn("VirtualTable.Commit").Body)
		f["versionsDatedAtCommit"] = leanBool(strings.Contains(vcm, "c.Tree.Root.SetCreated(time.Now()) _, err := c.Tree.Root.Commit(ctx)") &&
			strings.Contains(vc.text(vc.fn("Vacuum").Body), "db.SetCreated(time.Now()) _, err = db.Commit(ctx)") &&
			kvs.text(kvs.fn("DB.SetCreated").Body) == "{ s.crdt.Created = &when }")
	}
	vacT := vc.text(vc.fn("Vacuum").Body)
	f["vacuumRepointsSnapshot"] = leanBool(strings.Contains(vacT, "table.Tree.Root = db db = nil if table.txStart != nil { snapshot, err := table.Tree.Root.Clone(ctx) if err != nil { return fmt.Errorf(\"clone: %w\", err) } table.txStart.Cancel() table.txStart = snapshot } err = kv.DeleteHistoricVersions(ctx, table.Tree.Root, beforeTime)"))
	rtT := kvs.text(kvs.fn("DB.RemoveTombstones").Body)
	f["purgeCutoffClamped"] = leanBool(strings.Contains(rtT, "cutoff := before.UnixNano() if before.After(time.Unix(0, math.MaxInt64)) { cutoff = math.MaxInt64 } else if before.Before(time.Unix(0, math.MinInt64)) { cutoff = math.MinInt64 }"))
	f["deletedNodesLeaveCache"] = leanBool(strings.Contains(kvs.text(kvs.fn("DeleteHistoricVersions").Body), "return fmt.Errorf(\"delete node: %s: %w\", l, err) } s.forgetNode(l) }") &&
		kvs.text(kvs.fn("DB.forgetNode").Body) == "{ if c, ok := s.cfg.NodeCache.(interface{ Remove(key interface{}) }); ok { c.Remove(fmt.Sprintf(\"%s/%s\", s.persist.NodeURLPrefix(), link)) } }")
	dh := kvs.fn("DeleteHistoricVersions")
	var dord []string
	for _, st := range dh.Body.List {
		if r, ok := st.(*ast.RangeStmt); ok && strings.Contains(kvs.text(r.Body), "DeleteObjectWithContext") {
			// which list the loop walks and under which prefix it deletes
			key := "?"
			ast.Inspect(r.Body, func(x ast.Node) bool {
				if kv, ok := x.(*ast.KeyValueExpr); ok && kvs.text(kv.Key) == "Key" {
					key = kvs.text(kv.Value)
				}
				return true
			})
			dord = append(dord, kvs.text(r.X)+" "+key)
		}
	}
	f["deleteOrder"] = leanStrList(dord)
	dht := kvs.text(dh.Body)
	f["vacuumFinishesRetire"] = leanBool(len(dord) > 0 && dord[0] == "current aws.String(s.root.Prefix + l)" &&
		strings.Contains(dht, "current, err := s.listRoots(ctx) if err != nil { return fmt.Errorf(\"list roots: %w\", err) }") &&
		strings.Contains(dht, "for _, l := range roots { historic[l] = true }") &&
		strings.Contains(dht, "for _, l := range current { if !historic[l] { continue }"))

	// ---- passphrase -> key (C18): deriveKey and V1NodeEncryptor are exactly the known pure functions
	cry := load("kv/crypto.go")
	f["deriveKeyAsExpected"] = leanBool(cry.text(cry.fn("deriveKey").Body) == "{ combined := make([]byte, 0, len(context)+len(master)) combined = append(combined, context...) combined = append(combined, master...) salt, _ := nonce(combined, deriveKeySaltLen) return argon2.IDKey([]byte(base64.StdEncoding.EncodeToString(combined)), salt, 1, 8, 1, keyLen) }" &&
		cry.text(cry.fn("V1NodeEncryptor").Body) == "{ var key [32]byte copy(key[:], deriveKey(passphrase, nil)) return &jencryptor{key} }" &&
		cry.text(cry.fn("jencryptor.Encrypt").Body) == "{ return encrypt(&j.key, value) }" &&
		cry.text(cry.fn("jencryptor.Decrypt").Body) == "{ return decrypt(&j.key, value) }")
	// ---- scan (C06)
	fil := vc.fn("Cursor.Filter")
	opsOf := func(frag string) []string {
		i := vc.ifContaining(fil, frag)
		if i == nil {
			return []string{"unknown"}
		}
		var out []string
		for _, p := range strings.Split(vc.text(i.Cond), "||") {
			out = append(out, strings.TrimPrefix(strings.TrimSpace(p), "op == "))
		}
		return out
	}
	f["filterMaxOps"] = leanStrList(opsOf("op == OpLT"))
	f["filterMinOps"] = leanStrList(opsOf("op == OpGT"))
	ft := vc.text(fil.Body)
	f["filterWindowAsExpected"] = leanBool(
		strings.Contains(ft, "if c.max == nil || c.max != nil && c.operands[i].Order(c.max) < 0 { c.max = c.operands[i] c.ltMax = op == OpLT }") &&
			strings.Contains(ft, "if c.min == nil || c.min != nil && c.operands[i].Order(c.min) > 0 { c.min = c.operands[i] c.gtMin = op == OpGT }") &&
			strings.Contains(ft, "if !c.desc { if c.min != nil { err = c.cursor.Ceil(ctx, c.min) } else { err = c.cursor.Min(ctx) } }"))
	nullIf := vc.ifWithCond(fil, "val[i] == nil")
	f["filterNullOperandEmpty"] = leanBool(nullIf != nil && strings.Contains(vc.text(nullIf.Body), "c.eof = true") && endsIn(nullIf.Body, "return") && nullIf.Pos() < vc.firstCallPos(fil, "NewKey"))
	f["descSeekFallsBackToMax"] = leanBool(strings.Contains(ft, "err = c.cursor.Ceil(ctx, c.max) if err == nil { if _, _, ok := c.cursor.Get(); !ok {") && strings.Contains(ft, "err = c.cursor.Max(ctx)"))
	nx := vc.fn("Cursor.Next")
	nt := vc.text(nx.Body)
	f["nextAsExpected"] = leanBool(
		strings.Contains(nt, "if !c.desc { if c.max != nil { cmp := k.(*Key).Order(c.max) if c.ltMax && cmp >= 0 || cmp > 0 {") &&
			strings.Contains(nt, "} else { if c.min != nil { cmp := k.(*Key).Order(c.min) if c.gtMin && cmp <= 0 || cmp < 0 {") &&
			strings.Contains(nt, "if c.min != nil && c.gtMin && k.(*Key).Order(c.min) == 0 {") &&
			strings.Contains(nt, "if c.max != nil && c.ltMax && k.(*Key).Order(c.max) == 0 {") &&
			strings.Contains(nt, "if v.Value == nil || v.Value.(*v1proto.Row) == nil || v.Value.(*v1proto.Row).Deleted {"))
	bi := vt.fn("VirtualTable.BestIndex")
	f["bestIndexNeverOmits"] = leanBool(!strings.Contains(strings.ReplaceAll(vt.text(bi.Body), "//Omit", ""), "Omit"))

	// ---- NoChange (C02)
	col := vt.fn("Cursor.Column")
	ncIf := vt.ifWithCond(col, "i != c.keyCol && ctx.NoChange()")
	f["columnHonoursNoChange"] = leanBool(ncIf != nil && endsIn(ncIf.Body, "return") && ncIf.Pos() < vt.firstCallPos(col, "c.common.Column"))
	vtg := vt.fn("valuesToGo")
	skipIf := vt.ifWithCond(vtg, "values[i].NoChange()")
	f["valuesSkipNoChange"] = leanBool(skipIf != nil && endsIn(skipIf.Body, "continue"))

	// ---- codec (C16, C08)
	mp := vc.fn("marshalProto")
	up := vc.fn("unmarshalProto")
	fieldsOf := func(fd *ast.FuncDecl, typ string) []string {
		var out []string
		ast.Inspect(fd, func(x ast.Node) bool {
			if cl, ok := x.(*ast.CompositeLit); ok && strings.HasSuffix(vc.text(cl.Type), typ) {
				for _, el := range cl.Elts {
					if kvp, ok := el.(*ast.KeyValueExpr); ok {
						out = append(out, vc.text(kvp.Key)+"<-"+lastSel(vc.text(kvp.Value)))
					}
				}
			}
			return true
		})
		sort.Strings(out)
		return out
	}
	f["marshalFields"] = leanStrList(fieldsOf(mp, "CRDTValue"))
	f["unmarshalFields"] = leanStrList(fieldsOf(up, "crdt.Value"))
	mt := vc.text(mp.Body)
	f["marshalNilLinkAs"] = leanStr("unknown")
	if strings.Contains(mt, "for i := range in.Link { if in.Link[i] == nil { continue } out.Link[i] = in.Link[i].(string) }") {
		f["marshalNilLinkAs"] = leanStr("emptyString")
	}
	ut := vc.text(up.Body)
	f["unmarshalEmptyLinkAs"] = leanStr("unknown")
	switch {
	case strings.Contains(ut, "for i := range in.Link { if in.Link[i] == \"\" { continue } out.Link[i] = in.Link[i] }"):
		f["unmarshalEmptyLinkAs"] = leanStr("nil")
	case strings.Contains(ut, "for i := range in.Link { out.Link[i] = in.Link[i] }"):
		f["unmarshalEmptyLinkAs"] = leanStr("emptyString")
	}
	f["codecKeysAndSizes"] = leanBool(strings.Contains(mt, "out.Key[i] = in.Key[i].(*Key).SQLiteValue") && strings.Contains(ut, "out.Key[i] = &Key{in.Key[i]}") &&
		strings.Contains(ut, "Key: make([]interface{}, len(in.Key))") && strings.Contains(ut, "Link: make([]interface{}, len(in.Link))") &&
		strings.Contains(mt, "Link: make([]string, len(in.Link))"))

	// ---- New / Connect (C20)
	nw := vc.fn("New")
	openPos := vc.firstCallPos(nw, "OpenKV")
	lockPos := vc.firstCallPos(nw, "tableLock.Lock")
	loopEnd := token.Pos(0)
	for _, st := range nw.Body.List {
		if r, ok := st.(*ast.RangeStmt); ok && vc.text(r.X) == "args" {
			loopEnd = r.End()
		}
	}
	f["argsBeforeOpen"] = leanBool(loopEnd != 0 && openPos > loopEnd)
	f["registerAfterOpen"] = leanBool(openPos != 0 && lockPos > openPos && strings.Contains(vc.text(nw.Body), "tables[table.Name] = table"))
	// the duplicate-name check and the registration are one critical section at the end of New
	f["registerAtomic"] = leanBool(strings.HasSuffix(vc.text(nw.Body), "tableLock.Lock() defer tableLock.Unlock() if _, ok := tables[table.Name]; ok { return nil, fmt.Errorf(\"table already exists: %s\", table.Name) } tables[table.Name] = table return table, nil }") &&
		strings.Count(vc.text(nw.Body), "tables[") == 2 && !strings.Contains(vc.text(nw.Body), "GetTable("))
	cn := vt.fn("Module.Connect")
	decl := vt.ifWithCond(cn, "err != nil")
	declOK := false
	ast.Inspect(cn, func(x ast.Node) bool {
		if i, ok := x.(*ast.IfStmt); ok && vt.text(i.Cond) == "err != nil" && strings.Contains(vt.text(i.Body), "table.Disconnect()") && endsIn(i.Body, "return") {
			declOK = true
		}
		return true
	})
	_ = decl
	f["declareFailureUnregisters"] = leanBool(declOK)
	f["unknownOptionRejected"] = leanBool(strings.Contains(vc.text(nw.Body), "default: return nil, fmt.Errorf(\"unknown option: %s\", s[0])") &&
		strings.Contains(vc.text(nw.Body), "if _, ok := seen[s[0]]; ok { return nil, fmt.Errorf(\"duplicated: %s\", s[0]) }"))

	// ---- columns grammar and option unquoting (C20)
	sp := load("sql/parse.go")
	spt := sp.text(sp.fn("Schema").Body)
	typeBoundary := false
	for _, d := range sp.file.Decls {
		if gd, ok := d.(*ast.GenDecl); ok && gd.Tok == token.VAR && strings.Contains(sp.text(gd), "typeRE = regexp.MustCompile(`^(?i:text|varchar|integer|number|real)\\b`)") {
			typeBoundary = true
		}
	}
	f["schemaGrammarStrict"] = leanBool(typeBoundary && strings.Contains(spt, "list( parse.OneOf( parse.SeqWS( words(primaryKeyRE), parse.Exact(\"(\")") &&
		strings.Contains(spt, "s.Columns = append(s.Columns, types.SchemaColumn{Name: col}) coltype = \"\"") &&
		strings.Contains(spt, "words(notNullRE).Action(") && !strings.Contains(spt, "parse.Delimited(") &&
		strings.Contains(sp.text(sp.fn("list").Body), "before := *e if !delimiter(e) { return true } if !term(e) { *e = before return true }") &&
		sp.text(sp.fn("words").Body) == "{ return parse.SeqWS(parse.RE(re, func([]string) bool { return true })) }")
	uq := load("internal/unquote.go")
	f["unquoteOnlyStrings"] = leanBool(strings.Contains(uq.text(uq.fn("UnquoteAll").Body), "if _, quoted := cv.(colval.Text); !quoted { return s } res += cv.String()"))
	// ---- shared globals (C19)
	var globals []string
	locked := true
	for _, rel := range []string{"vtable_common.go", "open.go", "key.go", "kv/kv.go", "kv/crypto.go", "kv/encode_gob.go", "kv/internal/crdt/crdt.go", "kv/crdt/value.go", "sqlite/vtable.go", "sqlite/s3db_conn.go", "sqlite/s3db_changes.go", "sqlite/s3db_refresh.go", "sqlite/s3db_version.go", "sqlite/vacuum.go", "writetime/context.go"} {
		s := load(rel)
		for _, d := range s.file.Decls {
			gd, ok := d.(*ast.GenDecl)
			if !ok || gd.Tok != token.VAR {
				continue
			}
			for _, sp := range gd.Specs {
				vs := sp.(*ast.ValueSpec)
				for _, n := range vs.Names {
					if n.Name == "_" {
						continue
					}
					typ := s.text(vs.Type)
					val := ""
					if len(vs.Values) > 0 {
						val = s.text(vs.Values[0])
					}
					// immutable after init: errors, regexps, function values, sync.Mutex itself
					if strings.HasPrefix(val, "errors.New") || strings.HasPrefix(val, "regexp.MustCompile") || strings.HasPrefix(val, "mast.DefaultLayer") || typ == "sync.Mutex" || strings.HasPrefix(val, "MergeFunc(") || strings.HasPrefix(val, "parse.RE(") {
						continue
					}
					globals = append(globals, rel+":"+n.Name)
				}
			}
		}
	}
	sort.Strings(globals)
	f["sharedGlobals"] = leanStrList(globals)
	// every use of `tables` lies between tableLock.Lock() and the function's end (defer Unlock), every use of inMemoryS3* between inMemoryS3Lock.Lock() ...
	checkLocked := func(s *src, varName, lockCall string) {
		for name, fd := range s.funcs {
			if strings.Contains(name, ".") && s.funcs[strings.SplitN(name, ".", 2)[1]] == fd {
				// listed twice (qualified and bare): handle once
			}
			lp := s.firstCallPos(fd, lockCall)
			ast.Inspect(fd, func(x ast.Node) bool {
				if id, ok := x.(*ast.Ident); ok && id.Name == varName && id.Obj != nil && id.Obj.Kind == ast.Var {
					if fd.Name.Name == "init" {
						return true
					}
					if lp == 0 || id.Pos() < lp {
						locked = false
					}
				}
				return true
			})
		}
	}
	checkLocked(vc, "tables", "tableLock.Lock")
	op := load("open.go")
	checkLocked(op, "inMemoryS3", "inMemoryS3Lock.Lock")
	checkLocked(op, "inMemoryBucket", "inMemoryS3Lock.Lock")
	f["sharedGlobalsLocked"] = leanBool(locked)

	// ---- emit
	keys := make([]string, 0, len(f))
	for k := range f {
		keys = append(keys, k)
	}
	sort.Strings(keys)
	var b strings.Builder
	b.WriteString("-- GENERATED by go2lean (fact mode) from /repo — do not edit; regenerated on every run\n")
	b.WriteString("import S3db.Model.Facts\nnamespace S3db.Gen\n\ndef facts : S3db.Facts where\n")
	for _, k := range keys {
		fmt.Fprintf(&b, "  %s := %s\n", k, f[k])
	}
	b.WriteString("\nend S3db.Gen\n")
	writeOut("Facts.lean", b.String())
}

func lastSel(s string) string {
	if i := strings.LastIndex(s, "."); i >= 0 {
		return s[i+1:]
	}
	return s
}
