// go2lean, function mode: translates a whitelisted set of small pure Go functions into
// Lean 4 definitions. It understands only: local `:=`/`var`, tuple assignment from a
// translated function, if / else-if / else where every path returns, `return`, `panic`,
// comparisons, boolean and integer arithmetic, field selection, conversions
// float64()/int64(), bytes.Compare, string comparison, calls to other translated functions.
// Anything else is a translation error: the tie is reported broken for that function.
package main

import (
	"fmt"
	"go/ast"
	"go/token"
	"strconv"
	"strings"
)

type kind int

const (
	kUnknown kind = iota
	kInt
	kFloat
	kBytes
	kBool
	kEnum
	kStruct
	kOptStruct
	kTime
	kDur
)

// fieldInfo: Go field name -> Lean projection and kind
type fieldInfo struct {
	lean string
	k    kind
}

type funcSpec struct {
	goName   string            // Go function or method name
	leanName string            // Lean definition name
	recvType string            // Lean type of the receiver ("" if none)
	params   map[string]string // override of parameter Lean types by name
	ret      string            // Lean return type (without Option)
	retKind  []kind
}

type unit struct {
	fset     *token.FileSet
	fields   map[string]fieldInfo
	consts   map[string]string // selector constant (e.g. Type_INT) -> Lean term
	specs    map[string]*funcSpec
	decls    map[string]*ast.FuncDecl
	panics   map[string]bool
	typeMap  map[string][2]string // Go type text -> {Lean type, kind name}
	errs     []string
	tmp      int
	implicit string // implicit binder prefix for every def, e.g. "{α : Type} "
}

type env map[string]kind

func (u *unit) fail(n ast.Node, f string, a ...any) string {
	u.errs = append(u.errs, fmt.Sprintf("%s: %s", u.fset.Position(n.Pos()), fmt.Sprintf(f, a...)))
	return "untranslatable"
}

func kindOfName(s string) kind {
	switch s {
	case "int":
		return kInt
	case "float":
		return kFloat
	case "bytes":
		return kBytes
	case "bool":
		return kBool
	case "enum":
		return kEnum
	case "struct":
		return kStruct
	case "optstruct":
		return kOptStruct
	case "time":
		return kTime
	case "dur":
		return kDur
	}
	return kUnknown
}

func typeText(e ast.Expr) string {
	switch x := e.(type) {
	case *ast.Ident:
		return x.Name
	case *ast.StarExpr:
		return "*" + typeText(x.X)
	case *ast.SelectorExpr:
		return typeText(x.X) + "." + x.Sel.Name
	case *ast.ArrayType:
		return "[]" + typeText(x.Elt)
	case *ast.InterfaceType:
		return "interface{}"
	}
	return fmt.Sprintf("%T", e)
}

// hoisted calls to functions that may panic: name -> call text
type hoist struct {
	names []string
	calls []string
}

func (u *unit) expr(e ast.Expr, en env, h *hoist) (string, kind) {
	switch x := e.(type) {
	case *ast.Ident:
		switch x.Name {
		case "true", "false":
			return x.Name, kBool
		case "nil":
			return "none", kOptStruct
		}
		if k, ok := en[x.Name]; ok {
			return x.Name, k
		}
		if c, ok := u.consts[x.Name]; ok {
			return c, kEnum
		}
		return u.fail(e, "unknown identifier %s", x.Name), kUnknown
	case *ast.BasicLit:
		switch x.Kind {
		case token.INT:
			return x.Value, kInt
		case token.FLOAT:
			f, err := strconv.ParseFloat(x.Value, 64)
			if err != nil || f != float64(int64(f)) && !(f >= 9.2e18) {
				return u.fail(e, "float literal %s", x.Value), kUnknown
			}
			// integral literal, written exactly
			s := strings.TrimSuffix(strings.TrimSuffix(x.Value, "0"), ".")
			for strings.HasSuffix(s, "0") && strings.Contains(s, ".") {
				s = strings.TrimSuffix(s, "0")
			}
			s = strings.TrimSuffix(s, ".")
			if strings.ContainsAny(s, ".eE") {
				return u.fail(e, "float literal %s", x.Value), kUnknown
			}
			return "(F64.ofIntLit " + s + ")", kFloat
		}
		return u.fail(e, "literal %s", x.Value), kUnknown
	case *ast.ParenExpr:
		s, k := u.expr(x.X, en, h)
		return "(" + s + ")", k
	case *ast.StarExpr:
		return u.expr(x.X, en, h)
	case *ast.UnaryExpr:
		s, k := u.expr(x.X, en, h)
		switch x.Op {
		case token.NOT:
			return "(!" + s + ")", kBool
		case token.AND:
			return s, k
		case token.SUB:
			if k == kInt {
				return "(-" + s + ")", kInt
			}
			if k == kFloat && strings.HasPrefix(s, "(F64.ofIntLit ") {
				return "(F64.ofIntLit (-" + strings.TrimSuffix(strings.TrimPrefix(s, "(F64.ofIntLit "), ")") + "))", kFloat
			}
		}
		return u.fail(e, "unary %s", x.Op), kUnknown
	case *ast.SelectorExpr:
		if id, ok := x.X.(*ast.Ident); ok {
			if _, isVar := en[id.Name]; !isVar {
				// package-qualified constant
				if c, ok := u.consts[x.Sel.Name]; ok {
					return c, kEnum
				}
				return u.fail(e, "unknown constant %s.%s", id.Name, x.Sel.Name), kUnknown
			}
		}
		base, _ := u.expr(x.X, en, h)
		f, ok := u.fields[x.Sel.Name]
		if !ok {
			return u.fail(e, "unknown field %s", x.Sel.Name), kUnknown
		}
		if f.lean == "" { // embedded struct: identity
			return base, f.k
		}
		return base + "." + f.lean, f.k
	case *ast.BinaryExpr:
		l, lk := u.expr(x.X, en, h)
		r, rk := u.expr(x.Y, en, h)
		k := lk
		if k == kUnknown {
			k = rk
		}
		switch x.Op {
		case token.LAND:
			return "(" + l + " && " + r + ")", kBool
		case token.LOR:
			return "(" + l + " || " + r + ")", kBool
		case token.MUL:
			if lk == kInt && rk == kInt {
				return "(" + l + " * " + r + ")", kInt
			}
		case token.ADD:
			if lk == kInt && rk == kInt {
				return "(" + l + " + " + r + ")", kInt
			}
		case token.SUB:
			if lk == kInt && rk == kInt {
				return "(" + l + " - " + r + ")", kInt
			}
		case token.EQL, token.NEQ:
			var s string
			switch {
			case rk == kOptStruct && r == "none":
				s = "(" + l + ").isNone"
			case k == kInt || k == kEnum || k == kBool || k == kBytes:
				s = "(" + l + " == " + r + ")"
			default:
				return u.fail(e, "== on kind %d", k), kUnknown
			}
			if x.Op == token.NEQ {
				s = "(!" + s + ")"
			}
			return s, kBool
		case token.LSS, token.GTR, token.LEQ, token.GEQ:
			if lk != rk {
				return u.fail(e, "comparison of different kinds (%s %s %s)", l, x.Op, r), kUnknown
			}
			switch k {
			case kInt:
				op := map[token.Token]string{token.LSS: "<", token.GTR: ">", token.LEQ: "≤", token.GEQ: "≥"}[x.Op]
				return "(decide (" + l + " " + op + " " + r + "))", kBool
			case kFloat:
				switch x.Op {
				case token.LSS:
					return "(F64.lt " + l + " " + r + ")", kBool
				case token.GTR:
					return "(F64.gt " + l + " " + r + ")", kBool
				case token.GEQ:
					return "(F64.ge " + l + " " + r + ")", kBool
				case token.LEQ:
					return "(F64.ge " + r + " " + l + ")", kBool
				}
			case kBytes:
				switch x.Op {
				case token.LSS:
					return "(Bytes.lt " + l + " " + r + ")", kBool
				case token.GTR:
					return "(Bytes.lt " + r + " " + l + ")", kBool
				}
			}
		}
		return u.fail(e, "operator %s on kinds %d,%d", x.Op, lk, rk), kUnknown
	case *ast.CallExpr:
		return u.call(x, en, h)
	}
	return u.fail(e, "expression %T", e), kUnknown
}

func (u *unit) call(x *ast.CallExpr, en env, h *hoist) (string, kind) {
	var name string
	var args []string
	var kinds []kind
	switch f := x.Fun.(type) {
	case *ast.Ident:
		name = f.Name
		switch name {
		case "float64":
			a, k := u.expr(x.Args[0], en, h)
			if k == kInt {
				return "(F64.ofInt " + a + ")", kFloat
			}
			if k == kFloat {
				return a, kFloat
			}
			return u.fail(x, "float64() of kind %d", k), kUnknown
		case "int64", "int":
			a, k := u.expr(x.Args[0], en, h)
			if k == kFloat {
				return "(F64.toInt " + a + ")", kInt
			}
			if k == kInt {
				return a, kInt
			}
			return u.fail(x, "int64() of kind %d", k), kUnknown
		}
	case *ast.SelectorExpr:
		if id, ok := f.X.(*ast.Ident); ok && id.Name == "bytes" && f.Sel.Name == "Compare" {
			a, _ := u.expr(x.Args[0], en, h)
			b, _ := u.expr(x.Args[1], en, h)
			return "(Bytes.cmp " + a + " " + b + ")", kInt
		}
		name = f.Sel.Name
		a, k := u.expr(f.X, en, h)
		args = append(args, a)
		kinds = append(kinds, k)
	default:
		return u.fail(x, "call of %T", x.Fun), kUnknown
	}
	sp, ok := u.specs[name]
	if !ok {
		return u.fail(x, "call to non-whitelisted %s", name), kUnknown
	}
	for _, a := range x.Args {
		s, k := u.expr(a, en, h)
		args = append(args, s)
		kinds = append(kinds, k)
	}
	_ = kinds
	txt := "(" + sp.leanName + " " + strings.Join(args, " ") + ")"
	rk := kUnknown
	if len(sp.retKind) == 1 {
		rk = sp.retKind[0]
	}
	if u.panics[name] {
		if h == nil {
			return u.fail(x, "call to %s (may panic) in a position that cannot be hoisted", name), kUnknown
		}
		u.tmp++
		t := fmt.Sprintf("r%d", u.tmp)
		h.names = append(h.names, t)
		h.calls = append(h.calls, txt)
		return t, rk
	}
	return txt, rk
}

func wrapHoist(h *hoist, body, ind string) string {
	for i := len(h.names) - 1; i >= 0; i-- {
		body = fmt.Sprintf("match %s with\n%s| none => none\n%s| some %s =>\n%s  %s", h.calls[i], ind, ind, h.names[i], ind, body)
	}
	return body
}

func copyEnv(e env) env {
	n := env{}
	for k, v := range e {
		n[k] = v
	}
	return n
}

// stmts translates a statement list on which every path must end in return or panic.
func (u *unit) stmts(ss []ast.Stmt, en env, sp *funcSpec, opt bool, ind string) string {
	if len(ss) == 0 {
		u.errs = append(u.errs, "fallthrough at end of "+sp.goName)
		return "untranslatable"
	}
	ret := func(s string) string {
		if opt {
			return "some " + s
		}
		return s
	}
	switch s := ss[0].(type) {
	case *ast.ReturnStmt:
		h := &hoist{}
		var parts []string
		for _, r := range s.Results {
			t, _ := u.expr(r, en, h)
			parts = append(parts, t)
		}
		v := strings.Join(parts, ", ")
		if len(parts) > 1 {
			v = "(" + v + ")"
		} else if opt {
			v = "(" + v + ")"
		}
		if len(h.names) > 0 && !opt {
			return u.fail(s, "panic-capable call in non-Option function")
		}
		return wrapHoist(h, ret(v), ind)
	case *ast.ExprStmt:
		if c, ok := s.X.(*ast.CallExpr); ok {
			if id, ok := c.Fun.(*ast.Ident); ok && id.Name == "panic" {
				if !opt {
					return u.fail(s, "panic in non-Option function")
				}
				return "none"
			}
		}
		return u.fail(s, "expression statement")
	case *ast.DeclStmt:
		// `var x T`: declared, assigned later
		gd, ok := s.Decl.(*ast.GenDecl)
		if !ok || gd.Tok != token.VAR {
			return u.fail(s, "declaration")
		}
		en = copyEnv(en)
		for _, spc := range gd.Specs {
			vs := spc.(*ast.ValueSpec)
			if len(vs.Values) != 0 {
				return u.fail(s, "var with initialiser")
			}
			tm, ok := u.typeMap[typeText(vs.Type)]
			if !ok {
				return u.fail(s, "var of type %s", typeText(vs.Type))
			}
			for _, n := range vs.Names {
				en[n.Name] = kindOfName(tm[1])
			}
		}
		return u.stmts(ss[1:], en, sp, opt, ind)
	case *ast.AssignStmt:
		en = copyEnv(en)
		h := &hoist{}
		if len(s.Rhs) != 1 {
			return u.fail(s, "parallel assignment")
		}
		// type assertion on an optional: bind
		if ta, ok := s.Rhs[0].(*ast.TypeAssertExpr); ok && len(s.Lhs) == 1 {
			src, k := u.expr(ta.X, en, nil)
			if k != kOptStruct || !opt {
				return u.fail(s, "type assertion on kind %d", k)
			}
			name := s.Lhs[0].(*ast.Ident).Name
			en[name] = kStruct
			rest := u.stmts(ss[1:], en, sp, opt, ind+"  ")
			return fmt.Sprintf("match %s with\n%s| none => none\n%s| some %s =>\n%s  %s", src, ind, ind, name, ind, rest)
		}
		rhs, rk := u.expr(s.Rhs[0], en, h)
		var names []string
		for _, l := range s.Lhs {
			id, ok := l.(*ast.Ident)
			if !ok {
				return u.fail(s, "assignment to %T", l)
			}
			names = append(names, id.Name)
		}
		if len(names) == 1 {
			en[names[0]] = rk
		} else {
			// tuple from a translated function
			c, ok := s.Rhs[0].(*ast.CallExpr)
			if !ok {
				return u.fail(s, "tuple assignment from non-call")
			}
			fn := ""
			switch f := c.Fun.(type) {
			case *ast.Ident:
				fn = f.Name
			case *ast.SelectorExpr:
				fn = f.Sel.Name
			}
			fs := u.specs[fn]
			if fs == nil || len(fs.retKind) != len(names) {
				return u.fail(s, "tuple assignment arity")
			}
			for i, n := range names {
				en[n] = fs.retKind[i]
			}
		}
		if len(h.names) > 0 && !opt {
			return u.fail(s, "panic-capable call in non-Option function")
		}
		rest := u.stmts(ss[1:], en, sp, opt, ind)
		pat := names[0]
		if len(names) > 1 {
			pat = "(" + strings.Join(names, ", ") + ")"
		}
		body := fmt.Sprintf("let %s := %s\n%s%s", pat, rhs, ind, rest)
		return wrapHoist(h, body, ind)
	case *ast.IfStmt:
		if s.Init != nil {
			return u.fail(s, "if with init")
		}
		h := &hoist{}
		cond, _ := u.expr(s.Cond, en, h)
		if len(h.names) > 0 && !opt {
			return u.fail(s, "panic-capable call in non-Option function")
		}
		// a branch that does not end in return/panic continues with the rest
		then := u.stmts(appendIfOpen(s.Body.List, ss[1:]), en, sp, opt, ind+"  ")
		var els string
		switch e := s.Else.(type) {
		case nil:
			els = u.stmts(ss[1:], en, sp, opt, ind+"  ")
		case *ast.BlockStmt:
			els = u.stmts(appendIfOpen(e.List, ss[1:]), en, sp, opt, ind+"  ")
		case *ast.IfStmt:
			els = u.stmts(append([]ast.Stmt{e}, ss[1:]...), en, sp, opt, ind+"  ")
		}
		body := fmt.Sprintf("if %s then\n%s  %s\n%selse\n%s  %s", cond, ind, then, ind, ind, els)
		return wrapHoist(h, body, ind)
	}
	return u.fail(ss[0], "statement %T", ss[0])
}

func terminates(ss []ast.Stmt) bool {
	if len(ss) == 0 {
		return false
	}
	switch s := ss[len(ss)-1].(type) {
	case *ast.ReturnStmt:
		return true
	case *ast.ExprStmt:
		if c, ok := s.X.(*ast.CallExpr); ok {
			if id, ok := c.Fun.(*ast.Ident); ok && id.Name == "panic" {
				return true
			}
		}
	case *ast.IfStmt:
		if s.Else == nil {
			return false
		}
		if !terminates(s.Body.List) {
			return false
		}
		switch e := s.Else.(type) {
		case *ast.BlockStmt:
			return terminates(e.List)
		case *ast.IfStmt:
			return terminates([]ast.Stmt{e})
		}
	}
	return false
}

func appendIfOpen(body, rest []ast.Stmt) []ast.Stmt {
	if terminates(body) {
		return body
	}
	// assignments inside a branch that falls through are not supported (no join): only
	// allow a fall-through branch that consists of nested ifs/returns
	return append(append([]ast.Stmt{}, body...), rest...)
}

func hasPanic(fd *ast.FuncDecl) bool {
	found := false
	ast.Inspect(fd.Body, func(n ast.Node) bool {
		if c, ok := n.(*ast.CallExpr); ok {
			if id, ok := c.Fun.(*ast.Ident); ok && id.Name == "panic" {
				found = true
			}
		}
		if _, ok := n.(*ast.TypeAssertExpr); ok {
			found = true
		}
		return true
	})
	return found
}

func callees(fd *ast.FuncDecl) map[string]bool {
	m := map[string]bool{}
	ast.Inspect(fd.Body, func(n ast.Node) bool {
		if c, ok := n.(*ast.CallExpr); ok {
			switch f := c.Fun.(type) {
			case *ast.Ident:
				m[f.Name] = true
			case *ast.SelectorExpr:
				m[f.Sel.Name] = true
			}
		}
		return true
	})
	return m
}

// translate emits the definitions of all specs, callees first.
func (u *unit) translate(order []string) string {
	// panic closure
	u.panics = map[string]bool{}
	for n, fd := range u.decls {
		if hasPanic(fd) {
			u.panics[n] = true
		}
	}
	for changed := true; changed; {
		changed = false
		for n, fd := range u.decls {
			if u.panics[n] {
				continue
			}
			for c := range callees(fd) {
				if u.panics[c] && u.specs[c] != nil {
					u.panics[n] = true
					changed = true
				}
			}
		}
	}
	var b strings.Builder
	for _, n := range order {
		fd := u.decls[n]
		sp := u.specs[n]
		if fd == nil {
			u.errs = append(u.errs, "function not found: "+n)
			continue
		}
		en := env{}
		var params []string
		addParam := func(name, goType string) {
			if name == "_" {
				return
			}
			if o, ok := sp.params[name]; ok {
				p := strings.SplitN(o, "|", 2)
				params = append(params, fmt.Sprintf("(%s : %s)", name, p[0]))
				en[name] = kindOfName(p[1])
				return
			}
			tm, ok := u.typeMap[goType]
			if !ok {
				u.errs = append(u.errs, fmt.Sprintf("%s: parameter %s of unmapped type %s", n, name, goType))
				return
			}
			params = append(params, fmt.Sprintf("(%s : %s)", name, tm[0]))
			en[name] = kindOfName(tm[1])
		}
		if fd.Recv != nil {
			for _, p := range fd.Recv.List {
				for _, nm := range p.Names {
					addParam(nm.Name, typeText(p.Type))
				}
			}
		}
		for _, p := range fd.Type.Params.List {
			for _, nm := range p.Names {
				addParam(nm.Name, typeText(p.Type))
			}
		}
		opt := u.panics[n]
		ret := sp.ret
		if opt {
			ret = "Option (" + ret + ")"
		}
		body := u.stmts(fd.Body.List, en, sp, opt, "  ")
		fmt.Fprintf(&b, "/-- `%s` (%s) -/\ndef %s %s%s : %s :=\n  %s\n\n", sp.goName, u.fset.Position(fd.Pos()), sp.leanName, u.implicit, strings.Join(params, " "), ret, body)
	}
	return b.String()
}

// whichArg emits, for functions that return one of their two pointer parameters, a Boolean
// companion `<name>Fst` that is true when the first parameter is returned. The Go code
// compares the returned pointer with `&existing` (crdt.Tree.update), which a value-level
// translation cannot express.
func (u *unit) whichArg(order []string) string {
	var b strings.Builder
	for _, n := range order {
		fd := u.decls[n]
		sp := u.specs[n]
		if fd == nil || sp == nil {
			continue
		}
		var names []string
		en := env{}
		var params []string
		for _, p := range fd.Type.Params.List {
			for _, nm := range p.Names {
				names = append(names, nm.Name)
				tm := u.typeMap[typeText(p.Type)]
				params = append(params, fmt.Sprintf("(%s : %s)", nm.Name, tm[0]))
				en[nm.Name] = kindOfName(tm[1])
			}
		}
		if len(names) != 2 {
			u.errs = append(u.errs, n+": whichArg needs two parameters")
			continue
		}
		body := u.whichStmts(fd.Body.List, en, names, "  ")
		fmt.Fprintf(&b, "/-- does `%s` return its first argument? -/\ndef %sFst %s%s : Bool :=\n  %s\n\n", sp.goName, sp.leanName, u.implicit, strings.Join(params, " "), body)
	}
	return b.String()
}

func (u *unit) whichStmts(ss []ast.Stmt, en env, names []string, ind string) string {
	if len(ss) == 0 {
		u.errs = append(u.errs, "whichArg: fallthrough")
		return "untranslatable"
	}
	switch s := ss[0].(type) {
	case *ast.ReturnStmt:
		if len(s.Results) != 1 {
			return u.fail(s, "whichArg: multi return")
		}
		switch r := s.Results[0].(type) {
		case *ast.Ident:
			if r.Name == names[0] {
				return "true"
			}
			if r.Name == names[1] {
				return "false"
			}
		case *ast.CallExpr:
			if id, ok := r.Fun.(*ast.Ident); ok && u.specs[id.Name] != nil && len(r.Args) == 2 {
				a0, ok0 := r.Args[0].(*ast.Ident)
				a1, ok1 := r.Args[1].(*ast.Ident)
				if ok0 && ok1 && a0.Name == names[0] && a1.Name == names[1] {
					return "(" + u.specs[id.Name].leanName + "Fst " + a0.Name + " " + a1.Name + ")"
				}
				if ok0 && ok1 && a0.Name == names[1] && a1.Name == names[0] {
					return "(!(" + u.specs[id.Name].leanName + "Fst " + a0.Name + " " + a1.Name + "))"
				}
			}
		}
		return u.fail(s, "whichArg: return of something that is not a parameter")
	case *ast.IfStmt:
		if s.Init != nil {
			return u.fail(s, "if with init")
		}
		cond, _ := u.expr(s.Cond, en, nil)
		then := u.whichStmts(appendIfOpen(s.Body.List, ss[1:]), en, names, ind+"  ")
		var els string
		switch e := s.Else.(type) {
		case nil:
			els = u.whichStmts(ss[1:], en, names, ind+"  ")
		case *ast.BlockStmt:
			els = u.whichStmts(appendIfOpen(e.List, ss[1:]), en, names, ind+"  ")
		case *ast.IfStmt:
			els = u.whichStmts(append([]ast.Stmt{e}, ss[1:]...), en, names, ind+"  ")
		}
		return fmt.Sprintf("if %s then\n%s  %s\n%selse\n%s  %s", cond, ind, then, ind, ind, els)
	}
	return u.fail(ss[0], "whichArg: statement %T", ss[0])
}
