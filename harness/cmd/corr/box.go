package main

import (
	"bytes"
	"encoding/hex"
	"flag"
	"fmt"
	"strings"

	"github.com/jrhy/s3db/kv"
	"golang.org/x/crypto/nacl/secretbox"

	"verif/harness/gen"
)

func init() { cmds["box"] = boxCmd }

// safeDecrypt: a panic inside decrypt is reported as such (with the input) instead of killing the stream
func safeDecrypt(key *[32]byte, c []byte) (m []byte, err error) {
	defer func() {
		if r := recover(); r != nil {
			boxPanics = append(boxPanics, fmt.Sprintf("decrypt panics on a %d-byte input: %v", len(c), r))
			m, err = nil, fmt.Errorf("panic: %v", r)
		}
	}()
	return kv.VerifDecrypt(key, c)
}

var boxPanics []string

func boxCmd(args []string) int {
	fs := flag.NewFlagSet("box", flag.ExitOnError)
	seed := fs.Uint64("seed", 1, "")
	n := fs.Int("n", 300, "messages")
	outp := fs.String("out", "", "")
	kn := fs.String("known", "", "")
	fs.Parse(args)
	setKnown(*kn)
	e := NewEmitter(*outp+".ops", *outp+".exp")
	st := NewStats("box", *seed)
	st.Rule = "messages of length 0..200 (every length up to 100, then around multiples of 32/64) under random keys: the real encrypt is compared with the Lean secretbox model given the same nonce (`box seal`), the hand-rolled legacy seal with the Lean legacy model (`box legacyseal`), and decrypt with the Lean decrypt (`box open`) on the genuine ciphertext, on EVERY single-bit flip and EVERY truncation of short messages and sampled ones of longer messages, and under a wrong key; oracles on the implementation: decrypt(encrypt m) = m, equal plaintext gives equal ciphertext, every modification is an error, the ciphertext does not contain the plaintext; every third message also goes through the passphrase path: V1NodeEncryptor built twice from the same slice and once from a copy agree and read each other's data, leave the passphrase unmodified, and five different passphrases (all-zero of the same length, extended, empty, one bit flipped, shortened) are refused; distinct = distinct (length, kind of modification)"
	r := gen.New(*seed)
	e.Case(fmt.Sprintf("box-%d", *seed))
	hx := hex.EncodeToString
	emptyOK := func(b []byte) string {
		if len(b) == 0 {
			return "-"
		}
		return hx(b)
	}
	for i := 0; i < *n; i++ {
		l := i
		if i > 100 {
			l = gen.Pick(r, []int{31, 32, 33, 63, 64, 65, 95, 96, 97, 127, 128, 129, 160, 191, 192, 193, 200})
		}
		var key [32]byte
		for j := range key {
			key[j] = byte(r.U64())
		}
		m := make([]byte, l)
		for j := range m {
			m[j] = byte(r.U64())
		}
		c, err := kv.VerifEncrypt(&key, m)
		if err != nil {
			st.Fail(fmt.Sprint(i), "encrypt: "+err.Error(), nil)
			continue
		}
		nonce := c[:24]
		e.Op(fmt.Sprintf("box seal %s %s %s", hx(key[:]), hx(nonce), emptyOK(m)), hx(c[24:]))
		st.Count("seal")
		// oracles on the implementation
		back, err := safeDecrypt(&key, c)
		if err != nil || !bytes.Equal(back, m) {
			st.Fail(fmt.Sprintf("len %d", l), fmt.Sprintf("decrypt(encrypt m) != m: %v", err), nil)
		}
		c2, _ := kv.VerifEncrypt(&key, m)
		if !bytes.Equal(c, c2) {
			st.Fail(fmt.Sprintf("len %d", l), "equal plaintext under the same key gives different ciphertext", nil)
		}
		if l >= 8 && bytes.Contains(c, m) {
			st.Fail(fmt.Sprintf("len %d", l), "the ciphertext contains the plaintext", nil)
		}
		e.Op(fmt.Sprintf("box open %s %s", hx(key[:]), hx(c)), "ok:"+emptyOK(m))
		// modifications
		nmod := 0
		flip := func(bit int) {
			t := append([]byte(nil), c...)
			t[bit/8] ^= 1 << (bit % 8)
			res := "err"
			if mm, err := safeDecrypt(&key, t); err == nil {
				res = "ok:" + emptyOK(mm)
				st.Fail(fmt.Sprintf("len %d bit %d", l, bit), "a modified ciphertext decrypts without error", []string{hx(key[:]), hx(t)})
			}
			e.Op(fmt.Sprintf("box open %s %s", hx(key[:]), hx(t)), res)
			nmod++
		}
		trunc := func(n int) {
			t := c[:n]
			res := "err"
			if mm, err := safeDecrypt(&key, t); err == nil {
				res = "ok:" + emptyOK(mm)
				st.Fail(fmt.Sprintf("len %d truncated to %d", l, n), "a truncated ciphertext decrypts without error", []string{hx(key[:]), hx(t)})
			}
			e.Op(fmt.Sprintf("box open %s %s", hx(key[:]), emptyOK(t)), res)
			nmod++
		}
		if l <= 12 {
			for b := 0; b < len(c)*8; b++ {
				flip(b)
			}
			for t := 0; t < len(c); t++ {
				trunc(t)
			}
			st.Distinct(fmt.Sprintf("%d-exhaustive", l))
		} else {
			for k := 0; k < 12; k++ {
				flip(r.Intn(len(c) * 8))
			}
			for _, t := range []int{0, 1, 23, 24, 25, 39, 40, 41, len(c) - 1, len(c) - 16, 24 + 16 + l/2} {
				if t >= 0 && t < len(c) {
					trunc(t)
				}
			}
			st.Distinct(fmt.Sprintf("%d-sampled", l))
		}
		st.Dist["modifications"] += nmod
		// wrong key
		wk := key
		wk[r.Intn(32)] ^= 1 << r.Intn(8)
		res := "err"
		if mm, err := safeDecrypt(&wk, c); err == nil {
			res = "ok:" + emptyOK(mm)
			st.Fail(fmt.Sprintf("len %d", l), "a different key decrypts without error", nil)
		}
		e.Op(fmt.Sprintf("box open %s %s", hx(wk[:]), hx(c)), res)
		// legacy format
		var n24 [24]byte
		copy(n24[:], nonce)
		lc, err := kv.VerifLegacySeal(m, n24[:], &key)
		if err != nil {
			st.Fail(fmt.Sprint(i), "legacy seal: "+err.Error(), nil)
			continue
		}
		e.Op(fmt.Sprintf("box legacyseal %s %s %s", hx(key[:]), hx(nonce), emptyOK(m)), hx(lc))
		lm, err := kv.VerifLegacyOpen(lc, n24[:], &key)
		if err != nil || !bytes.Equal(lm, m) {
			st.Fail(fmt.Sprintf("len %d", l), fmt.Sprintf("legacy open(legacy seal m) != m: %v", err), nil)
		}
		e.Op(fmt.Sprintf("box legacyopen %s %s %s", hx(key[:]), hx(nonce), hx(lc)), "ok:"+emptyOK(m))
		// data written by the legacy format, read through decrypt (the documented compatibility path)
		legacyBlob := append(append([]byte(nil), nonce...), lc...)
		dm, derr := safeDecrypt(&key, legacyBlob)
		got := "err"
		if derr == nil {
			got = "ok:" + emptyOK(dm)
		}
		e.Op(fmt.Sprintf("box open %s %s", hx(key[:]), hx(legacyBlob)), got)
		if derr != nil || !bytes.Equal(dm, m) {
			// F17: beyond 32 bytes the two formats differ only in the keystream position, the MAC is the same,
			// so secretbox.Open succeeds and the fallback never runs
			if l > 32 && derr == nil && st.known("F17") {
				st.Count("known_F17")
			} else {
				st.Fail(fmt.Sprintf("len %d", l), fmt.Sprintf("legacy-format data is not readable through decrypt: err=%v", derr), nil)
			}
		} else {
			st.Count("legacy_readable")
		}
		// the passphrase path (V1NodeEncryptor / deriveKey): building an encryptor leaves the caller's passphrase
		// alone, the same passphrase always gives the same key, a different one is refused
		if i%3 == 0 {
			pass := make([]byte, r.Intn(41))
			for j := range pass {
				pass[j] = byte(r.U64())
			}
			orig := append([]byte(nil), pass...)
			e1 := kv.V1NodeEncryptor(pass)
			if !bytes.Equal(pass, orig) {
				st.Fail(fmt.Sprintf("passphrase len %d", len(pass)), "V1NodeEncryptor modified the caller's passphrase", []string{hx(orig), hx(pass)})
				copy(pass, orig)
			}
			e2 := kv.V1NodeEncryptor(pass) // the same slice again
			e3 := kv.V1NodeEncryptor(append([]byte(nil), orig...))
			pc1, err1 := e1.Encrypt("x", m)
			pc2, _ := e2.Encrypt("x", m)
			pc3, _ := e3.Encrypt("x", m)
			st.Count("passphrase_cases")
			if err1 != nil || !bytes.Equal(pc1, pc2) || !bytes.Equal(pc1, pc3) {
				st.Fail(fmt.Sprintf("passphrase len %d", len(orig)), fmt.Sprintf("encryptors built from the same passphrase give different ciphertext (err %v)", err1), []string{hx(orig), hx(m)})
			}
			for n, ex := range []kv.Encryptor{e1, e2, e3} {
				if back, err := ex.Decrypt("x", pc1); err != nil || !bytes.Equal(back, m) {
					st.Fail(fmt.Sprintf("passphrase len %d", len(orig)), fmt.Sprintf("encryptor %d built from the same passphrase cannot read the data: %v", n+1, err), []string{hx(orig), hx(m)})
				}
			}
			others := [][]byte{make([]byte, len(orig)), append(append([]byte(nil), orig...), 0), nil}
			if len(orig) > 0 {
				fl := append([]byte(nil), orig...)
				fl[r.Intn(len(fl))] ^= 1 << r.Intn(8)
				others = append(others, fl, orig[:len(orig)-1])
			}
			for _, o := range others {
				if bytes.Equal(o, orig) {
					continue
				}
				if back, err := kv.V1NodeEncryptor(o).Decrypt("x", pc2); err == nil {
					st.Fail(fmt.Sprintf("passphrase len %d", len(orig)), "a different passphrase reads the data", []string{hx(orig), hx(o), hx(back)})
				}
			}
			// deriveKey with a context: master and context are left alone too, and the context matters
			ctxb := []byte("ctx")
			k1 := kv.VerifDeriveKey(pass, ctxb)
			k2 := kv.VerifDeriveKey(pass, ctxb)
			if !bytes.Equal(pass, orig) || string(ctxb) != "ctx" || !bytes.Equal(k1, k2) || len(k1) != 32 {
				st.Fail(fmt.Sprintf("passphrase len %d", len(orig)), "deriveKey is not a function of its arguments (or modifies them)", []string{hx(orig)})
			}
		}
		// sanity of the reference library itself
		var nn [24]byte
		copy(nn[:], nonce)
		if ref := secretbox.Seal(nil, m, &nn, &key); !bytes.Equal(ref, c[24:]) {
			st.Fail(fmt.Sprint(i), "encrypt is not secretbox.Seal with the derived nonce", nil)
		}
		if i < 2 {
			st.Sample(strings.Join(e.CaseOps()[len(e.CaseOps())-3:], " ; "))
		}
	}
	seenPanic := map[string]bool{}
	for _, p := range boxPanics {
		if !seenPanic[p] {
			seenPanic[p] = true
			st.Fail("panic", p, nil)
		}
	}
	st.Cases = *n
	st.Evaluations = e.Lines
	e.Close()
	st.Write(*outp + ".stats.json")
	fmt.Printf("box: %d messages, %d lines, %d oracle failures\n", *n, e.Lines, len(st.Failures))
	return 0
}
