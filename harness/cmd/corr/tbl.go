package main

import (
	"context"
	"flag"
	"fmt"
	"sort"
	"strings"
	"time"

	"github.com/jrhy/s3db"
	"github.com/jrhy/s3db/kv"
	v1proto "github.com/jrhy/s3db/proto/v1"
	"github.com/jrhy/s3db/writetime"

	"verif/harness/fakes3"
	"verif/harness/gen"
	"verif/harness/sqlh"
)

func init() { cmds["tbl"] = tblCmd }

type tblWriter struct {
	name string
	vt   *s3db.VirtualTable
	ro   bool
}

type tblStmt struct {
	kind string // ins upd del
	t    int64
	key  any
	vals map[int]any // column index -> value (non-key)
}

type tblCase struct {
	e       *Emitter
	st      *Stats
	r       *gen.Rng
	id      string
	bucket  string
	store   *fakes3.Store
	cols    []string // cols[0] is the key column
	epn     int
	writers []*tblWriter
	labels  map[string]string
	nextT   int64
	nextW   int
	log     []tblStmt // accepted statements
	shapes  map[string]bool
	failed  bool
}

func (c *tblCase) fail(what string) {
	c.failed = true
	c.st.Fail(c.id, what, c.e.CaseOps())
}

func (c *tblCase) label(name string) string {
	if l, ok := c.labels[name]; ok {
		return l
	}
	l := fmt.Sprintf("v%d", len(c.labels))
	c.labels[name] = l
	return l
}

func (c *tblCase) currentRoots() []string {
	pfx := "p/s3db-rows/root/current/"
	var out []string
	for _, k := range c.store.Keys(pfx) {
		out = append(out, strings.TrimPrefix(k, pfx))
	}
	sort.Strings(out)
	return out
}

func (c *tblCase) args(name string, ro bool) []string {
	a := []string{name, "columns=" + c.cols[0] + " primary key, " + strings.Join(c.cols[1:], ", "),
		"s3_bucket=" + c.bucket, "s3_endpoint=" + sqlh.Endpoint, "s3_prefix=p", fmt.Sprintf("entries_per_node=%d", c.epn)}
	if ro {
		a = append(a, "readonly")
	}
	return a
}

// mirrorOpen emits the model-side fold for an open that merged `order` and returns nothing
func (c *tblCase) mirrorOpen(h string, order []string, ro bool, root *kv.DB) bool {
	if len(order) == 0 {
		c.e.Op("tbl new "+h, "ok")
	}
	for i, n := range order {
		if i == 0 {
			c.e.Op(fmt.Sprintf("tbl clone ver:%s %s", c.label(n), h), "ok")
		} else {
			c.e.Op(fmt.Sprintf("tbl merge %s ver:%s", h, c.label(n)), "ok")
		}
	}
	c.st.Count(fmt.Sprintf("open_versions_%d", min(len(order), 4)))
	if len(order) >= 2 {
		c.shapes["merge"] = true
	}
	if len(order) >= 3 {
		c.shapes["merge3"] = true
	}
	if len(order) >= 2 && !ro {
		rs, err := root.Roots()
		if err != nil || len(rs) != 1 {
			c.fail(fmt.Sprintf("roots after merging open: %v %v", rs, err))
			return false
		}
		c.e.Op(fmt.Sprintf("tbl clone %s ver:%s", h, c.label(rs[0])), "ok")
	}
	return true
}

func (c *tblCase) withOrder(f func() error) ([]string, error) {
	roots := c.currentRoots()
	perm := c.r.Perm(len(roots))
	order := make([]string, len(roots))
	for i, p := range perm {
		order[i] = roots[p]
	}
	kv.VerifPermute = func(in []string) []string {
		if len(in) != len(order) {
			return in
		}
		return append([]string(nil), order...)
	}
	defer func() { kv.VerifPermute = nil }()
	return order, f()
}

func (c *tblCase) open(ro bool) *tblWriter {
	w := &tblWriter{name: fmt.Sprintf("W%d", c.nextW), ro: ro}
	c.nextW++
	tname := "t" + sqlh.Uniq()
	order, err := c.withOrder(func() error {
		var err error
		w.vt, err = s3db.New(context.Background(), c.args(tname, ro))
		return err
	})
	if err != nil {
		c.fail("open: " + err.Error())
		return nil
	}
	c.writers = append(c.writers, w)
	if !c.mirrorOpen(w.name, order, ro, w.vt.Tree.Root) {
		return nil
	}
	return w
}

func (c *tblCase) refresh(w *tblWriter) bool {
	var nt *s3db.KV
	order, err := c.withOrder(func() error {
		var err error
		nt, err = s3db.OpenKV(context.Background(), w.vt.S3Options, "s3db-rows")
		return err
	})
	if err != nil {
		c.fail("refresh: " + err.Error())
		return false
	}
	w.vt.Tree.Root.Cancel()
	w.vt.Tree = nt
	c.st.Count("refresh")
	return c.mirrorOpen(w.name, order, w.ro, nt.Root)
}

func (c *tblCase) close() {
	for _, w := range c.writers {
		if w.vt != nil && w.vt.Tree != nil {
			w.vt.Disconnect()
		}
	}
	sqlh.DropBucket(c.bucket)
}

func keyTok(k any) string { return valStr(normVal(k)) }

func (c *tblCase) dumpReal(w *tblWriter, visibleOnly bool) (string, error) {
	cur, err := w.vt.Tree.Root.Cursor(context.Background())
	if err != nil {
		return "", err
	}
	if err := cur.Min(context.Background()); err != nil {
		return "", err
	}
	type kvp struct{ k, v string }
	var parts []kvp
	for {
		k, v, ok := cur.Get()
		if !ok {
			break
		}
		row, _ := v.Value.(*v1proto.Row)
		kt := keyTok(k.(*s3db.Key).Value())
		if visibleOnly {
			if row != nil && !row.Deleted {
				var cs []string
				for n, cv := range row.ColumnValues {
					cs = append(cs, n+"="+valStr(normVal(s3db.FromSQLiteValue(cv.Value))))
				}
				sort.Strings(cs)
				parts = append(parts, kvp{kt, strings.Join(cs, ",")})
			}
		} else {
			parts = append(parts, kvp{kt, fmt.Sprintf("[%d] %s", v.ModEpochNanos, absRow(v.ModEpochNanos, row))})
		}
		if err := cur.Forward(context.Background()); err != nil {
			return "", err
		}
	}
	sort.Slice(parts, func(i, j int) bool { return parts[i].k < parts[j].k })
	var out []string
	for _, p := range parts {
		out = append(out, p.k+": "+p.v)
	}
	return strings.Join(out, " ; "), nil
}

func (c *tblCase) visibleKey(w *tblWriter, key any) bool {
	var cv struct{}
	_ = cv
	d, err := c.dumpReal(w, true)
	if err != nil {
		return false
	}
	for _, p := range strings.Split(d, " ; ") {
		if strings.HasPrefix(p, keyTok(key)+": ") {
			return true
		}
	}
	return false
}

func errClassVt(err error) string {
	switch err {
	case nil:
		return "ok"
	case s3db.ErrS3DBConstraintPrimaryKey:
		return "constraint_pk"
	case s3db.ErrS3DBConstraintNotNull:
		return "constraint_notnull"
	}
	return "ERR " + err.Error()
}

// exec runs one statement as its own transaction (Begin, statement, Commit) on a writer.
func (c *tblCase) exec(w *tblWriter, s tblStmt) {
	ctx := writetime.NewContext(context.Background(), time.Unix(0, s.t))
	if err := w.vt.Begin(ctx); err != nil {
		c.fail("begin: " + err.Error())
		return
	}
	var err error
	var op string
	pairs := func() string {
		var idx []int
		for i := range s.vals {
			idx = append(idx, i)
		}
		sort.Ints(idx)
		out := fmt.Sprintf("%d", len(idx))
		for _, i := range idx {
			out += " " + c.cols[i] + " " + valStr(normVal(s.vals[i]))
		}
		return out
	}
	switch s.kind {
	case "ins":
		vals := map[int]any{0: s.key}
		for i, v := range s.vals {
			vals[i] = v
		}
		_, err = w.vt.Insert(ctx, vals)
		op = fmt.Sprintf("tbl insert %s %d %s %s", w.name, s.t, keyTok(s.key), pairs())
	case "upd":
		err = w.vt.Update(ctx, s.key, s.vals)
		op = fmt.Sprintf("tbl update %s %d %s %s", w.name, s.t, keyTok(s.key), pairs())
	case "del":
		err = w.vt.Delete(ctx, s.key)
		op = fmt.Sprintf("tbl delete %s %d %s", w.name, s.t, keyTok(s.key))
	}
	c.e.Op(op, errClassVt(err))
	c.st.Count(s.kind)
	if err != nil {
		w.vt.Rollback()
		if err != s3db.ErrS3DBConstraintPrimaryKey {
			c.fail(s.kind + ": " + err.Error())
		} else {
			c.st.Count("constraint_pk")
		}
		return
	}
	c.log = append(c.log, s)
	if err := w.vt.Commit(ctx); err != nil {
		c.fail("commit: " + err.Error())
		return
	}
	rs, err := w.vt.Tree.Root.Roots()
	if err != nil || len(rs) != 1 {
		c.fail(fmt.Sprintf("roots after commit: %v %v", rs, err))
		return
	}
	c.e.Op(fmt.Sprintf("tbl clone %s ver:%s", w.name, c.label(rs[0])), "ok")
}

// expected visible table according to the README rule, from the accepted statements
func (c *tblCase) readmeOracle() string {
	type cell struct {
		t int64
		v string
	}
	type rowSpec struct {
		st      int64
		deleted bool
		has     bool
		cols    map[string]cell
	}
	rows := map[string]*rowSpec{}
	for _, s := range c.log {
		k := keyTok(s.key)
		r := rows[k]
		if r == nil {
			r = &rowSpec{cols: map[string]cell{}}
			rows[k] = r
		}
		if s.kind == "ins" || s.kind == "del" {
			if !r.has || s.t >= r.st {
				r.st, r.deleted, r.has = s.t, s.kind == "del", true
			}
		}
		for i, v := range s.vals {
			n := c.cols[i]
			if old, ok := r.cols[n]; !ok || s.t >= old.t {
				r.cols[n] = cell{s.t, valStr(normVal(v))}
			}
		}
	}
	var keys []string
	for k := range rows {
		keys = append(keys, k)
	}
	sort.Strings(keys)
	var out []string
	for _, k := range keys {
		r := rows[k]
		if !r.has || r.deleted {
			continue
		}
		var cs []string
		for n, cl := range r.cols {
			cs = append(cs, n+"="+cl.v)
		}
		sort.Strings(cs)
		out = append(out, k+": "+strings.Join(cs, ","))
	}
	return strings.Join(out, " ; ")
}

func (c *tblCase) run(nops int) {
	defer c.close()
	keys := []any{int64(1), int64(2), int64(3), "x", 2.5, []byte{7}}[:1+c.r.Intn(6)]
	w0 := c.open(false)
	if w0 == nil {
		return
	}
	nw := 1 + c.r.Intn(3)
	for i := 1; i < nw; i++ {
		if c.open(false) == nil {
			return
		}
	}
	newT := func() int64 {
		c.nextT++
		return 1_000_000 + c.nextT*7919%100003 // distinct, not monotone
	}
	rw := func() *tblWriter {
		for {
			w := gen.Pick(c.r, c.writers)
			if !w.ro {
				return w
			}
		}
	}
	for i := 0; i < nops && !c.failed; i++ {
		w := rw()
		switch op := c.r.Intn(20); {
		case op < 6: // insert (every non-key column is assigned, as SQLite does)
			s := tblStmt{kind: "ins", t: newT(), key: gen.Pick(c.r, keys), vals: map[int]any{}}
			for j := 1; j < len(c.cols); j++ {
				if c.r.Chance(1, 4) {
					s.vals[j] = nil
				} else {
					s.vals[j] = int64(c.r.Intn(100))
				}
			}
			c.exec(w, s)
		case op < 11: // update of a row the writer can see
			k := gen.Pick(c.r, keys)
			if !c.visibleKey(w, k) {
				continue
			}
			s := tblStmt{kind: "upd", t: newT(), key: k, vals: map[int]any{}}
			for j := 1; j < len(c.cols); j++ {
				if c.r.Bool() {
					s.vals[j] = int64(c.r.Intn(100))
				}
			}
			c.exec(w, s)
			c.shapes["update"] = true
		case op < 14: // delete of a row the writer can see
			k := gen.Pick(c.r, keys)
			if !c.visibleKey(w, k) {
				continue
			}
			c.exec(w, tblStmt{kind: "del", t: newT(), key: k})
			c.shapes["delete"] = true
		case op < 16 && len(c.log) > 0: // retry of an earlier accepted statement, anywhere
			s := gen.Pick(c.r, c.log)
			if s.kind != "ins" && !c.visibleKey(w, s.key) {
				continue
			}
			c.exec(w, s)
			c.st.Count("retry")
			c.shapes["retry"] = true
		case op < 19: // refresh: merge what is current (a partial merge that is committed)
			if !c.refresh(w) {
				return
			}
		default:
			d, err := c.dumpReal(w, false)
			if err != nil {
				c.fail("dump: " + err.Error())
				return
			}
			c.e.Op("tbl dump "+w.name, d)
		}
	}
	if c.failed {
		return
	}
	// readers: several merge orders over the same versions must agree (C01) and equal the README rule (C02)
	n := len(c.currentRoots())
	tries := 5
	if n <= 1 {
		tries = 1
	}
	var first string
	want := c.readmeOracle()
	for i := 0; i < tries && !c.failed; i++ {
		rd := c.open(true)
		if rd == nil {
			return
		}
		d, err := c.dumpReal(rd, false)
		if err != nil {
			c.fail("reader dump: " + err.Error())
			return
		}
		c.e.Op("tbl dump "+rd.name, d)
		vis, _ := c.dumpReal(rd, true)
		c.e.Op("tbl visible "+rd.name, vis)
		if i == 0 {
			first = d
			if vis != want {
				c.fail(fmt.Sprintf("merged table differs from the documented rule: got %q want %q", vis, want))
			}
		} else if d != first {
			c.fail(fmt.Sprintf("two readers of the same %d versions disagree: %q vs %q", n, first, d))
		}
	}
	if n >= 2 {
		c.st.Count("final_merge_of_2plus")
	}
	// quiescence: a read-write open merges and commits once; the next one writes nothing
	if !c.failed {
		if w := c.open(false); w != nil {
			before := c.store.LogLen()
			if w2 := c.open(false); w2 != nil {
				for _, rq := range c.store.Log()[before:] {
					if rq.Mutation() {
						c.fail("re-opening a quiescent table still writes: " + rq.String())
						break
					}
				}
				v1, _ := c.dumpReal(w, true)
				v2, _ := c.dumpReal(w2, true)
				if v1 != v2 || v1 != want {
					c.fail(fmt.Sprintf("quiescent re-open changes the rows: %q vs %q (want %q)", v1, v2, want))
				}
			}
		}
	}
	var sh []string
	for s := range c.shapes {
		sh = append(sh, s)
	}
	sort.Strings(sh)
	if len(sh) > 0 {
		c.st.Distinct(strings.Join(sh, "+") + "|" + first)
	}
	c.st.Count(fmt.Sprintf("height_%d", w0.vt.Tree.Root.Height()))
}

func tblCmd(args []string) int {
	fs := flag.NewFlagSet("tbl", flag.ExitOnError)
	seed := fs.Uint64("seed", 1, "")
	n := fs.Int("n", 100, "cases")
	outp := fs.String("out", "", "")
	kn := fs.String("known", "", "")
	fs.Parse(args)
	setKnown(*kn)
	e := NewEmitter(*outp+".ops", *outp+".exp")
	st := NewStats("tbl", *seed)
	st.Rule = "multi-writer histories at the virtual-table level (VirtualTable.Insert/Update/Delete/Begin/Commit, refresh = OpenKV with a chosen merge order) over 1-4 writers, 1-6 keys of mixed storage classes, 1-3 non-key columns, permuted distinct nanosecond write times, retries of earlier statements on any writer, entries_per_node in {2,3,4,4096}; oracles: 5 readers with different merge orders agree, merged table equals the README rule computed from the accepted statements, quiescent re-open writes nothing; non-trivial = contains an update, a delete, a retry or a merge of 2+ versions; distinct = different final entry dump or shape"
	root := gen.New(*seed)
	for i := 0; i < *n; i++ {
		r := root.Fork(i)
		b, store := sqlh.Bucket()
		c := &tblCase{e: e, st: st, r: r, id: fmt.Sprintf("tbl-%d-%d", *seed, i), bucket: b, store: store,
			cols: []string{"k", "a", "b", "c"}[:2+r.Intn(3)], epn: gen.Pick(r, []int{2, 3, 4, 4096}), labels: map[string]string{}, shapes: map[string]bool{}}
		e.Case(c.id)
		c.run(6 + r.Intn(25))
		st.Cases++
		if i < 2 {
			st.Sample(e.CaseOps())
		}
	}
	st.Evaluations = e.Lines
	e.Close()
	st.Write(*outp + ".stats.json")
	fmt.Printf("tbl: %d cases, %d lines, %d oracle failures\n", st.Cases, e.Lines, len(st.Failures))
	return 0
}
