package main

import (
	"database/sql"
	"flag"
	"fmt"
	"github.com/aws/aws-sdk-go/aws/awserr"
	"strconv"
	"strings"
	"time"
	"verif/harness/fakes3"

	"github.com/jrhy/s3db"

	"verif/harness/gen"
	"verif/harness/sqlh"
)

func init() { cmds["schema"] = schemaCmd }

type scCol struct {
	name      string
	typ       string // "" none; known or unknown word
	knownType bool
	cons      []string // pk notnull unique other
	otherText string
}

type scItem struct {
	col *scCol
	tpk []string
}

var scKnownTypes = []string{"text", "varchar", "integer", "number", "real"}

func randCase(r *gen.Rng, s string) string {
	b := []byte(s)
	for i := range b {
		if r.Bool() && b[i] >= 'a' && b[i] <= 'z' {
			b[i] -= 32
		}
	}
	return string(b)
}

func ws(r *gen.Rng) string { return gen.Pick(r, []string{" ", "  ", " \t ", "\n ", " "}) }

func bareOK(n string) bool {
	if n == "" {
		return false
	}
	for i, c := range n {
		if !(c == '_' || c >= 'a' && c <= 'z' || c >= 'A' && c <= 'Z' || i > 0 && (c >= '0' && c <= '9')) {
			return false
		}
	}
	switch strings.ToLower(n) {
	case "primary", "key", "not", "null", "unique", "default", "text", "varchar", "integer", "number", "real", "check", "references", "collate":
		return false
	}
	return true
}

func renderName(r *gen.Rng, n string) string {
	switch {
	case bareOK(n) && r.Chance(2, 3):
		return n
	case !strings.Contains(n, `"`) && r.Bool():
		return `"` + n + `"`
	default:
		return `'` + strings.ReplaceAll(n, `'`, `''`) + `'`
	}
}

func renderItems(r *gen.Rng, items []scItem) string {
	var parts []string
	for _, it := range items {
		if it.col == nil {
			var ns []string
			for _, n := range it.tpk {
				ns = append(ns, renderName(r, n))
			}
			parts = append(parts, randCase(r, "primary")+ws(r)+randCase(r, "key")+gen.Pick(r, []string{"", " "})+"("+gen.Pick(r, []string{"", " "})+strings.Join(ns, gen.Pick(r, []string{",", " , ", ", "}))+gen.Pick(r, []string{"", " "})+")")
			continue
		}
		c := it.col
		s := renderName(r, c.name)
		if c.typ != "" {
			s += ws(r) + randCase(r, c.typ)
		}
		for _, k := range c.cons {
			switch k {
			case "pk":
				s += ws(r) + randCase(r, "primary") + ws(r) + randCase(r, "key")
			case "notnull":
				s += ws(r) + randCase(r, "not") + ws(r) + randCase(r, "null")
			case "unique":
				s += ws(r) + randCase(r, "unique")
			case "other":
				s += ws(r) + c.otherText
			}
		}
		parts = append(parts, s)
	}
	return strings.Join(parts, gen.Pick(r, []string{",", ", ", " , ", ",\n  "}))
}

func hexs(s string) string {
	if s == "" {
		return "-"
	}
	return fmt.Sprintf("%x", s)
}

func encodeItems(items []scItem) string {
	out := fmt.Sprint(len(items))
	for _, it := range items {
		if it.col == nil {
			out += fmt.Sprintf(" tpk %d", len(it.tpk))
			for _, n := range it.tpk {
				out += " " + hexs(n)
			}
			continue
		}
		kt := 1
		if it.col.typ != "" && !it.col.knownType {
			kt = 0
		}
		out += fmt.Sprintf(" col %s %d %d", hexs(it.col.name), kt, len(it.col.cons))
		for _, k := range it.col.cons {
			out += " " + k
		}
	}
	return out
}

type scOpt struct {
	name, val string
	hasVal    bool
}

func optClass(o scOpt) string {
	if !o.hasVal {
		return "none"
	}
	// the two sizes are decimal numbers (F60: no octal, no hex)
	if n, err := strconv.ParseInt(o.val, 10, 64); err == nil {
		return fmt.Sprintf("num:%d", n)
	}
	return "text"
}

func schemaCmd(args []string) int {
	fs := flag.NewFlagSet("schema", flag.ExitOnError)
	seed := fs.Uint64("seed", 1, "")
	n := fs.Int("n", 300, "definitions")
	outp := fs.String("out", "", "")
	kn := fs.String("known", "", "")
	fs.Parse(args)
	setKnown(*kn)
	st := NewStats("schema", *seed)
	st.Rule = "table definitions built from structures: 1-5 columns with names that need and do not need quoting (spaces, '-', '.', non-ASCII, embedded quotes, keywords), optional known/unknown type words, constraint words in any order (PRIMARY KEY, NOT NULL, UNIQUE, DEFAULT/CHECK/REFERENCES/COLLATE), table-level PRIMARY KEY(...) with one or several names (the name also in another case than the column's), duplicate names (also differing only in case); one definition in ten has a malformed text (trailing comma, NOT NULL / PRIMARY KEY written as one word) and must be rejected; the declared type of every column must be the type word written (none where none was written); s3_prefix is given in numeric-looking and quoted spellings and must be used as written; one definition in six is given a storage that cannot be opened (s3_endpoint without s3_bucket, or the first storage request failing) and must be rejected like any other; options well-formed, malformed (text, 1e3, empty, out of range), negative, missing a value, given a value they must not have, duplicated, unknown, misspelt; each structure is rendered with random quoting style, keyword case and white space and run through the real CREATE VIRTUAL TABLE; compared with the Lean decision on the structure: accept/reject, declared column names/order/key/NOT NULL (PRAGMA table_info), parsed option values (GetTable); plus: a rejected definition leaves no table registered and the bucket as it was (one bucket in four, and every bucket of a definition with duplicate column names, already holds two unmerged versions, so that an open would store a merge), NOT NULL and key uniqueness are enforced on an accepted one; each definition runs in a child process; non-trivial = not the plain valid definition; distinct = distinct structure"
	isChild, from, to := childRange()
	var e *Emitter
	if !isChild {
		// children append to per-child op files; the parent concatenates
		e = NewEmitter(*outp+".ops", *outp+".exp")
		e.Close()
		isolate(st, *n, *outp, 10*time.Second, func(int, []string, string) bool { return false })
		// collect the children's lines
		st.Write(*outp + ".stats.json")
		fmt.Printf("schema: %d definitions, %d oracle failures\n", st.Cases, len(st.Failures))
		return 0
	}
	openProgress(*outp)
	e = appendEmitter(*outp+".ops", *outp+".exp")
	root := gen.New(*seed)
	names := []string{"a", "b", "c", "id", "name", "Email", "a b", "x-y", "d.e", "é", "it's", `say "hi"`, "select", "primary", "_x1", "A"}
	for i := from; i < to; i++ {
		r := root.Fork(i)
		progressLine(fmt.Sprintf("CASE %d", i))
		id := fmt.Sprintf("schema-%d-%d", *seed, i)
		// ---- structure
		nc := 1 + r.Intn(5)
		perm := r.Perm(len(names))
		var items []scItem
		for j := 0; j < nc; j++ {
			c := &scCol{name: names[perm[j]], knownType: true}
			if r.Chance(1, 2) {
				c.typ = gen.Pick(r, scKnownTypes)
			}
			if r.Chance(1, 4) {
				c.cons = append(c.cons, "notnull")
			}
			items = append(items, scItem{col: c})
		}
		if r.Chance(5, 6) {
			k := r.Intn(nc)
			if r.Chance(1, 4) {
				// the clause may spell the column in another case: SQLite's names are case-insensitive (F96)
				kn := items[k].col.name
				switch r.Intn(4) {
				case 0:
					kn = strings.ToUpper(kn)
				case 1:
					kn = strings.ToLower(kn)
				}
				items = append(items, scItem{tpk: []string{kn}})
			} else {
				c := items[k].col
				if r.Bool() {
					c.cons = append([]string{"pk"}, c.cons...)
				} else {
					c.cons = append(c.cons, "pk")
				}
			}
		}
		mutation := "valid"
		if r.Chance(1, 2) {
			switch m := r.Intn(9); m {
			case 0:
				mutation = "unique"
				c := items[r.Intn(nc)].col
				c.cons = append(c.cons, "unique")
			case 1:
				mutation = "default/check/references"
				c := items[r.Intn(nc)].col
				c.cons = append(c.cons, "other")
				c.otherText = gen.Pick(r, []string{"default 5", "DEFAULT 'x'", "check (1)", "references t(x)", "collate nocase", "autoincrement"})
			case 2:
				mutation = "composite key"
				if nc >= 2 {
					items = append(items, scItem{tpk: []string{items[0].col.name, items[1].col.name}})
				} else {
					items = append(items, scItem{tpk: []string{items[0].col.name, "zz"}})
				}
			case 3:
				mutation = "second primary key"
				c := items[r.Intn(nc)].col
				c.cons = append(c.cons, "pk")
				if r.Bool() {
					items = append(items, scItem{tpk: []string{items[0].col.name}})
				}
			case 4:
				mutation = "duplicate column"
				d := *items[r.Intn(nc)].col
				d.cons = nil
				if r.Bool() {
					d.name = strings.ToUpper(d.name)
					if d.name == items[0].col.name {
						d.name = strings.ToLower(d.name)
					}
				}
				items = append(items, scItem{col: &d})
			case 5:
				mutation = "unknown type word"
				c := items[r.Intn(nc)].col
				c.typ, c.knownType = gen.Pick(r, []string{"blob", "int", "float", "datetime"}), false
			case 6:
				mutation = "key of undefined column"
				items = append(items, scItem{tpk: []string{"nosuchcol"}})
			case 7:
				mutation = "no columns argument"
			case 8:
				mutation = "empty columns"
				items = nil
			}
		}
		// ---- options
		var opts []scOpt
		optMut := "plain"
		if r.Chance(1, 2) {
			opts = append(opts, scOpt{"entries_per_node", gen.Pick(r, []string{"16", "4", "0", "0x10", "+8", "4096"}), true})
		}
		if r.Chance(1, 3) {
			opts = append(opts, scOpt{"node_cache_entries", gen.Pick(r, []string{"1000", "0", "64"}), true})
		}
		if r.Chance(1, 4) {
			opts = append(opts, scOpt{"readonly", "", false})
		}
		if r.Chance(1, 3) {
			switch m := r.Intn(8); m {
			case 0:
				optMut = "malformed number"
				opts = append(opts, scOpt{gen.Pick(r, []string{"entries_per_node", "node_cache_entries"}) + dupSuffix(opts), gen.Pick(r, []string{"abc", "1e3", "", "12x", "5000000000", "1.5", "4=5", "16=", "1=x"}), true})
			case 1:
				optMut = "negative"
				opts = append(opts, scOpt{gen.Pick(r, []string{"entries_per_node", "node_cache_entries"}) + dupSuffix(opts), gen.Pick(r, []string{"-3", "-1"}), true})
			case 2:
				optMut = "missing value"
				opts = append(opts, scOpt{gen.Pick(r, []string{"entries_per_node", "node_cache_entries", "s3_prefix"}) + dupSuffix(opts), "", false})
			case 3:
				optMut = "readonly with a value"
				opts = append(opts, scOpt{"readonly", gen.Pick(r, []string{"false", "true", "1"}), true})
			case 4:
				optMut = "duplicated"
				if len(opts) > 0 {
					opts = append(opts, opts[0])
				} else {
					opts = append(opts, scOpt{"readonly", "", false}, scOpt{"readonly", "", false})
				}
			case 5:
				optMut = "unknown"
				opts = append(opts, scOpt{gen.Pick(r, []string{"foo", "entries_per_nodes", "Readonly", "COLUMNS2"}), "1", true})
			case 6:
				optMut = "space before ="
				opts = append(opts, scOpt{"entries_per_node ", " 4", true})
			case 7:
				optMut = "hex/octal spelling"
				opts = append(opts, scOpt{"entries_per_node" + dupSuffix(opts), gen.Pick(r, []string{"0x20", "017", "0100", "1_000", "0X1f", "0b11", "0o17"}), true})
			}
		}
		// a duplicate produced by dupSuffix marker is really a duplicate name: strip the marker
		for k := range opts {
			opts[k].name = strings.TrimSuffix(opts[k].name, "\x00")
		}
		// ---- render + run
		b, store := sqlh.Bucket()
		db := sqlh.Open()
		tname := "t" + sqlh.Uniq()
		var argv []string
		for _, o := range opts {
			if o.hasVal {
				argv = append(argv, o.name+"="+o.val)
			} else {
				argv = append(argv, o.name)
			}
		}
		// the prefix in several spellings; whatever is written (quotes removed) is the prefix used (F49)
		pfxWant := gen.Pick(r, []string{"p", "p", "p", "007", "1e3", "2024.10", "0x10", "-5", "a b", "it''s", "day=1", "a=b=c", "x="})
		pfxArg := "'" + pfxWant + "'"
		if !strings.ContainsAny(pfxWant, " '=") && r.Bool() {
			pfxArg = pfxWant
		}
		pfxWant = strings.ReplaceAll(pfxWant, "''", "'")
		// sometimes the storage cannot be opened: the definition is then rejected after every argument was
		// accepted — the late rejection must leave as little behind as an early one
		storage := "ok"
		switch r.Intn(12) {
		case 0:
			storage = "endpoint without bucket"
		case 1:
			storage = "first storage request fails"
		}
		switch storage {
		case "endpoint without bucket":
			argv = append(argv, "s3_endpoint='"+sqlh.Endpoint+"'", "s3_prefix='p'")
		case "first storage request fails":
			sqlh.NextClient("sc", func(c *fakes3.Client) {
				c.Fault = func(idx, midx int, op, key string) error {
					if idx == 0 {
						return awserr.New("AccessDenied", "injected fault", nil)
					}
					return nil
				}
			})
			argv = append(argv, "s3_bucket='"+b+"'", "s3_endpoint='"+sqlh.Endpoint+"'", "s3_prefix='p'")
		default:
			argv = append(argv, "s3_bucket='"+b+"'", "s3_endpoint='"+sqlh.Endpoint+"'", "s3_prefix="+pfxArg)
		}
		st.Count("storage_" + storage)
		// one bucket in four already holds two unmerged versions under the prefix: opening it stores a merge,
		// so a definition that is rejected only after the storage was opened leaves an object behind (F61)
		if storage == "ok" && (mutation == "duplicate column" || r.Chance(1, 4)) {
			var pres []string
			var pdbs []*sql.DB
			for n := 0; n < 2; n++ { // both writers open the empty prefix before either commits
				d := sqlh.Open()
				defer d.Close()
				pre := fmt.Sprintf("pre%s", sqlh.Uniq())
				sqlh.Exec(d, sqlh.CreateSQL(sqlh.TableOpts{Name: pre, Bucket: b, Prefix: strings.ReplaceAll(pfxWant, "'", "''"), Columns: "k primary key, v"}))
				pres, pdbs = append(pres, pre), append(pdbs, d)
			}
			for n := range pres {
				sqlh.Exec(pdbs[n], fmt.Sprintf(`insert into "%s" values(?,?)`, pres[n]), fmt.Sprintf("zzpre%d", n), "v")
			}
			if len(store.Keys(pfxWant+"/s3db-rows/root/current/")) == 2 {
				st.Count("bucket_with_two_unmerged_versions")
			}
		}
		before := strings.Join(store.Keys(""), " ")
		rendered := renderItems(r, items)
		// sometimes the text itself is malformed although the structure is fine: a trailing comma, or a
		// two-word keyword written as one word (SQLite would read that as a type name) — to be rejected
		textMut := ""
		if mutation != "no columns argument" && r.Chance(1, 10) {
			switch r.Intn(4) {
			case 3:
				rendered += gen.Pick(r, []string{", zz integernot null", ", zz textprimary key", ", zz realunique", ", zz numberx"})
				textMut = "type word run together with the next word"
			case 0:
				rendered += gen.Pick(r, []string{",", " ,", ", "})
				textMut = "trailing comma"
			case 1:
				rendered += gen.Pick(r, []string{", zz notnull", ", zz NotNull"})
				textMut = "notnull as one word"
			default:
				rendered += gen.Pick(r, []string{", zz primarykey", ", primarykey(zz)"})
				textMut = "primarykey as one word"
			}
			st.Count("text_" + textMut)
		}
		if mutation != "no columns argument" {
			pos := r.Intn(len(argv) + 1)
			colArg := "columns='" + strings.ReplaceAll(rendered, "'", "''") + "'"
			argv = append(argv[:pos], append([]string{colArg}, argv[pos:]...)...)
		}
		stmt := fmt.Sprintf(`create virtual table "%s" using s3db (%s)`, tname, strings.Join(argv, ", "))
		progressLine(stmt)
		err := sqlh.Exec(db, stmt)
		sqlh.NextClient("", nil)
		// ---- model op
		op := "schema create "
		if storage != "ok" {
			op = "schema create-nostorage "
		}
		if textMut != "" {
			op = "schema create-malformed "
		}
		if mutation == "no columns argument" {
			op += "0 0"
		} else {
			op += "1 " + encodeItems(items)
		}
		var mo []scOpt
		for _, o := range opts {
			mo = append(mo, o)
		}
		op += fmt.Sprintf(" %d", len(mo))
		for _, o := range mo {
			op += " " + hexs(o.name) + " " + optClass(o)
		}
		exp := "reject"
		if err == nil {
			rows, _ := sqlh.Query(db, fmt.Sprintf(`select name, "notnull", pk from pragma_table_info('%s') order by cid`, tname))
			var cols []string
			key := "-"
			for _, rw := range rows {
				nm := strings.TrimPrefix(rw[0], "T:")
				flag := strings.TrimPrefix(rw[1], "I:")
				if rw[2] != "I:0" {
					key = nm
					flag = "k"
				}
				cols = append(cols, nm+":"+flag)
			}
			vt := s3db.GetTable(tname)
			ro := 0
			if vt.S3Options.ReadOnly {
				ro = 1
			}
			exp = fmt.Sprintf("accept cols=%s key=%s epn=%d cache=%d ro=%d", strings.Join(cols, ","), key, vt.S3Options.EntriesPerNode, vt.S3Options.NodeCacheEntries, ro)
		}
		e.Case(id)
		e.Op(op, exp)
		st.Count("columns_" + mutation)
		st.Count("options_" + optMut)
		st.Evaluations++
		if mutation != "valid" || optMut != "plain" {
			st.Distinct(op)
		}
		fail := func(w string) { st.Fail(id, w+"  ["+stmt+"]", []string{stmt}) }
		if err != nil {
			st.Count("rejected")
			if s3db.GetTable(tname) != nil {
				fail("a rejected definition left the table registered")
			}
			if after := strings.Join(store.Keys(""), " "); after != before {
				fail(fmt.Sprintf("a rejected definition changed the bucket: %d objects before, %d after", len(strings.Fields(before)), len(strings.Fields(after))))
			}
			// the name can be used again
			if e2 := sqlh.Exec(db, fmt.Sprintf(`create virtual table "%s" using s3db (columns='a primary key', s3_bucket='%s', s3_endpoint='%s')`, tname, b, sqlh.Endpoint)); e2 != nil {
				fail("after a rejected definition the table name cannot be used: " + e2.Error())
			}
		} else {
			st.Count("accepted")
			if storage == "ok" {
				if got := s3db.GetTable(tname).S3Options.Prefix; got != pfxWant {
					fail(fmt.Sprintf("s3_prefix=%s opened the prefix %q", pfxArg, got))
				}
			}
			// declared types: exactly the type word written for each column, none where none was written (F48)
			if trows, terr := sqlh.Query(db, fmt.Sprintf(`select name, type from pragma_table_info('%s') order by cid`, tname)); terr == nil {
				var want []string
				for _, it := range items {
					if it.col != nil {
						want = append(want, strings.ToLower(it.col.typ))
					}
				}
				for k, rw := range trows {
					got := ""
					if b, e := hexDecode(strings.TrimPrefix(rw[1], "T:")); e == nil {
						got = strings.ToLower(string(b))
					}
					if k < len(want) && got != want[k] {
						fail(fmt.Sprintf("column %d is declared with type %q, the definition says %q", k, got, want[k]))
					}
				}
			}
			// behaviour: key uniqueness and NOT NULL
			vt := s3db.GetTable(tname)
			if !vt.S3Options.ReadOnly {
				var keyIdx = -1
				var nnIdx = -1
				var ncols int
				for _, it := range items {
					if it.col != nil {
						for _, k := range it.col.cons {
							if k == "notnull" && nnIdx < 0 {
								nnIdx = ncols
							}
						}
						ncols++
					}
				}
				_ = keyIdx
				vals := make([]any, ncols)
				qs := make([]string, ncols)
				for k := range vals {
					vals[k] = k + 1
					qs[k] = "?"
				}
				ins := fmt.Sprintf(`insert into "%s" values(%s)`, tname, strings.Join(qs, ","))
				if e1 := sqlh.Exec(db, ins, vals...); e1 != nil {
					fail("insert into an accepted table fails: " + e1.Error())
				} else if strings.Contains(exp, "key=") && !strings.Contains(exp, "key=-") {
					if e2 := sqlh.Exec(db, ins, vals...); e2 == nil {
						fail("the declared key is not enforced (second insert of the same key accepted)")
					}
				}
				if nnIdx >= 0 && !strings.HasSuffix(exp, "key="+items[0].col.name) {
					v2 := append([]any(nil), vals...)
					for k := range v2 {
						v2[k] = 100 + k
					}
					v2[nnIdx] = nil
					// only meaningful when the NOT NULL column is not the key itself
					isKey := false
					ci := 0
					for _, it := range items {
						if it.col != nil {
							if ci == nnIdx && strings.Contains(exp, "key="+fmt.Sprintf("%x", it.col.name)+" ") {
								isKey = true
							}
							ci++
						}
					}
					if e3 := sqlh.Exec(db, ins, v2...); e3 == nil && !isKey {
						fail("NOT NULL is not enforced on an accepted definition")
					}
				}
			}
		}
		db.Close()
		sqlh.DropBucket(b)
		st.Cases++
		if i < 3 {
			st.Sample(stmt + "  =>  " + exp)
		}
		st.Write(*outp + ".child.json")
		e.Flush()
	}
	e.Close()
	return 0
}

func dupSuffix(opts []scOpt) string { return "" }
