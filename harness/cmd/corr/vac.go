package main

import (
	"context"
	"database/sql"
	"encoding/json"
	"flag"
	"fmt"
	"github.com/aws/aws-sdk-go/aws/awserr"
	"os"
	"sort"
	"strings"
	"time"

	"github.com/jrhy/s3db"
	v1proto "github.com/jrhy/s3db/proto/v1"
	"google.golang.org/protobuf/proto"

	"verif/harness/fakes3"
	"verif/harness/gen"
	"verif/harness/sqlh"
)

func init() { cmds["vac"] = vacCmd }

type vacCase struct {
	st     *Stats
	r      *gen.Rng
	id     string
	bucket string
	store  *fakes3.Store
	epn    int
	cache  int
	log    []string
	failed bool
}

func (c *vacCase) note(s string) { c.log = append(c.log, s); progressLine(s) }
func (c *vacCase) fail(w string) {
	c.failed = true
	c.st.Fail(c.id, w, append([]string(nil), c.log[max(0, len(c.log)-40):]...))
}

func (c *vacCase) mk(db *sql.DB, ro bool, client string, prep func(*fakes3.Client)) (string, error) {
	name := "t" + sqlh.Uniq()
	sqlh.NextClient(client, prep)
	err := sqlh.Exec(db, sqlh.CreateSQL(sqlh.TableOpts{Name: name, Bucket: c.bucket, Prefix: "p", Columns: "k primary key, a", EntriesPerNode: c.epn, NodeCache: c.cache, ReadOnly: ro}))
	sqlh.NextClient("", nil)
	return name, err
}

func (c *vacCase) freshRows() (string, error) {
	db := sqlh.Open()
	defer db.Close()
	t, err := c.mk(db, true, "rd", nil)
	if err != nil {
		return "", err
	}
	rows, err := sqlh.Query(db, fmt.Sprintf(`select k,a from "%s" order by k`, t))
	return sqlh.RowsString(rows), err
}

// entries dumps every entry of the table's tree, delete markers included: key -> "live"/"deleted@<ns>"
func entries(name string) map[string]string {
	out := map[string]string{}
	vt := s3db.GetTable(name)
	cur, err := vt.Tree.Root.Cursor(context.Background())
	if err != nil {
		return out
	}
	cur.Min(context.Background())
	for {
		k, v, ok := cur.Get()
		if !ok {
			break
		}
		row, _ := v.Value.(*v1proto.Row)
		kk := sqlh.Canon(normVal(k.(*s3db.Key).Value()))
		if row == nil {
			out[kk] = "tombstone"
		} else if row.Deleted {
			out[kk] = fmt.Sprintf("deleted@%d", v.ModEpochNanos+int64(row.DeleteUpdateOffset.AsDuration()))
		} else {
			out[kk] = "live"
		}
		if cur.Forward(context.Background()) != nil {
			break
		}
	}
	return out
}

// dangling walks every version object present in the bucket and returns node links that do not exist
func (c *vacCase) dangling(prefixes ...string) []string { return danglingIn(c.store, prefixes...) }

// danglingSince is danglingIn restricted to version objects created at or after `since`
func danglingSince(store *fakes3.Store, since time.Time, prefixes ...string) []string {
	var out []string
	for _, d := range danglingIn(store, prefixes...) {
		ver := strings.SplitN(d, " ", 2)[0]
		b, ok := store.Get("p/s3db-rows/root/" + ver)
		var root struct {
			Created *time.Time `json:"cr"`
		}
		if ok && json.Unmarshal(b, &root) == nil && root.Created != nil && root.Created.Before(since) {
			continue
		}
		out = append(out, d)
	}
	return out
}

func danglingIn(store *fakes3.Store, prefixes ...string) []string {
	var bad []string
	seen := map[string]bool{}
	var walk func(ver, link string)
	walk = func(ver, link string) {
		if link == "" || seen[link] {
			return
		}
		seen[link] = true
		b, ok := store.Get("p/s3db-rows/node/" + link)
		if !ok {
			bad = append(bad, ver+" -> node "+link)
			return
		}
		var n v1proto.Node
		if err := proto.Unmarshal(b, &n); err != nil {
			bad = append(bad, ver+" -> node "+link+" does not decode: "+err.Error())
			return
		}
		for _, l := range n.Link {
			walk(ver, l)
		}
	}
	for _, pfx := range prefixes {
		for _, k := range store.Keys(pfx) {
			b, _ := store.Get(k)
			var root struct {
				Link *string
			}
			if err := json.Unmarshal(b, &root); err != nil {
				bad = append(bad, k+" does not decode")
				continue
			}
			if root.Link != nil {
				seen = map[string]bool{}
				walk(strings.TrimPrefix(k, "p/s3db-rows/root/"), *root.Link)
			}
		}
	}
	return bad
}

func (c *vacCase) run() {
	defer sqlh.DropBucket(c.bucket)
	nw := 1 + c.r.Intn(2)
	if os.Getenv("VAC_NOCACHE") != "" {
		c.cache = 0
	}
	// "cached return": one long-lived writer with a node cache whose history ends with an insert and its
	// delete, a first vacuum between the two and a later one that purges the marker
	cachedReturn := (c.cache > 0 || os.Getenv("VAC_NOCACHE") != "") && c.r.Chance(1, 2)
	if cachedReturn {
		nw = 1
		c.st.Count("scenario_cached_return")
	}
	var dbs []*sql.DB
	var tabs []string
	for i := 0; i < nw; i++ {
		db := sqlh.Open()
		defer db.Close()
		t, err := c.mk(db, false, fmt.Sprintf("w%d", i), nil)
		if err != nil {
			c.fail(err.Error())
			return
		}
		dbs, tabs = append(dbs, db), append(tabs, t)
	}
	marks := []time.Time{time.Now()}
	tick := func() {
		time.Sleep(300 * time.Microsecond)
		marks = append(marks, time.Now())
		time.Sleep(300 * time.Microsecond)
	}
	var snaps []vacSnap
	var lateCuts []time.Time
	steps := 4 + c.r.Intn(14)
	lastVer := map[int]string{}
	for s := 0; s < steps; s++ {
		i := c.r.Intn(nw)
		db, t := dbs[i], tabs[i]
		stepStart := time.Now()
		var what string
		switch op := c.r.Intn(14); {
		case op >= 12:
			// a delete whose write time is older than the row's latest update (a lagging clock, or a
			// writer that had not seen the update): the row's delete time and its latest write time differ
			what = "delete stamped before the row's latest update"
			k := 300 + c.r.Intn(5)
			sqlh.Exec(db, fmt.Sprintf(`insert into "%s" values(?,?)`, t), k, "late")
			tick()
			delAt := marks[len(marks)-1]
			tick()
			// a cutoff here lies after the row's delete time and before its latest write time
			lateCuts = append(lateCuts, marks[len(marks)-1])
			sqlh.Exec(db, fmt.Sprintf(`update "%s" set a='later' where k=?`, t), k)
			sqlh.Exec(db, "update s3db_conn set write_time=?", delAt.UTC().Format("2006-01-02 15:04:05.000000000"))
			sqlh.Exec(db, fmt.Sprintf(`delete from "%s" where k=?`, t), k)
			sqlh.Exec(db, "update s3db_conn set write_time=NULL")
		case op < 4:
			what = "insert"
			sqlh.Exec(db, fmt.Sprintf(`insert into "%s" values(?,?)`, t), c.r.Intn(30), "v")
		case op < 5:
			what = "insert then delete (returns to earlier content)"
			k := 100 + c.r.Intn(5)
			sqlh.Exec(db, fmt.Sprintf(`insert into "%s" values(?,?)`, t), k, "tmp")
			tick()
			sqlh.Exec(db, fmt.Sprintf(`delete from "%s" where k=?`, t), k)
		case op < 6:
			what = "update and update back"
			k := c.r.Intn(30)
			sqlh.Exec(db, fmt.Sprintf(`update "%s" set a='w' where k=?`, t), k)
			tick()
			sqlh.Exec(db, fmt.Sprintf(`update "%s" set a='v' where k=?`, t), k)
		case op < 8:
			what = "delete"
			sqlh.Exec(db, fmt.Sprintf(`delete from "%s" where k=?`, t), c.r.Intn(30))
		case op < 9:
			what = "delete then re-insert"
			k := c.r.Intn(30)
			sqlh.Exec(db, fmt.Sprintf(`delete from "%s" where k=?`, t), k)
			tick()
			sqlh.Exec(db, fmt.Sprintf(`insert into "%s" values(?,?)`, t), k, "again")
		case op < 10:
			what = "transaction of several rows"
			sqlh.Exec(db, "begin")
			for j := 0; j < 5; j++ {
				sqlh.Exec(db, fmt.Sprintf(`insert into "%s" values(?,?)`, t), 200+c.r.Intn(40), "bulk")
			}
			sqlh.Exec(db, "commit")
		default:
			what = "refresh (merge)"
			sqlh.Exec(db, "select s3db_refresh(?)", t)
		}
		c.note(fmt.Sprintf("writer %d: %s", i, what))
		c.st.Count(what)
		// the version the writer is on now, what it shows, and when (for "versions created at or after the
		// cutoff read exactly as before", F52)
		if v, err := sqlh.Query(db, "select s3db_version(?)", t); err == nil && len(v) == 1 {
			if vb, e := hexDecode(strings.TrimPrefix(v[0][0], "T:")); e == nil {
				// what the version reads as from the bucket right now (not through the writer's connection, whose
				// in-memory tree may carry the F24 phantoms), and when the youngest of its versions was created
				if rows, rerr := readVersionKA(c.bucket, c.epn, string(vb)); rerr == nil {
					if at, ok := createdAt(c.store, string(vb)); ok {
						snaps = append(snaps, vacSnap{version: string(vb), rows: rows, at: at})
						// a version this step committed is dated by its commit, not by the opening of the
						// connection (F52): vacuum compares that date with its cutoff
						if string(vb) != lastVer[i] && lastVer[i] != "" && what != "refresh (merge)" && at.Before(stepStart) {
							c.fail(fmt.Sprintf("step %d (%s) committed version %s, which carries the creation time %s — before the step began (%s)", s, what, vb, at.UTC().Format(time.RFC3339Nano), stepStart.UTC().Format(time.RFC3339Nano)))
							return
						}
					}
				}
				lastVer[i] = string(vb)
			}
		}
		tick()
	}
	// sometimes the history ends with an insert and its delete on writer 0, and the cutoff is put between the
	// two: the first vacuum then deletes what only the state before the insert needed, and the later vacuum
	// (cutoff in the future) purges the marker and returns the tree to that very state
	var between time.Time
	if cachedReturn || c.r.Chance(1, 3) {
		k := 400 + c.r.Intn(5)
		sqlh.Exec(dbs[0], fmt.Sprintf(`insert into "%s" values(?,?)`, tabs[0]), k, "tmp")
		tick()
		between = marks[len(marks)-1]
		sqlh.Exec(dbs[0], fmt.Sprintf(`delete from "%s" where k=?`, tabs[0]), k)
		tick()
		c.note("writer 0: insert then delete at the end of the history")
		c.st.Count("history_ends_with_insert_delete")
	}
	// the vacuuming connection: an existing writer (refreshed) or a new connection opened now
	vdb, vt := dbs[0], tabs[0]
	stale := false
	if nw == 2 && c.r.Chance(1, 3) {
		stale = true
		// writer 0 vacuums without having seen what writer 1 committed: whatever it deletes, the merged
		// view of the table (what a connection opened afterwards sees) must stay as it is (F43)
		c.note("vacuum from writer 0, not refreshed, while writer 1 has versions of its own")
		c.st.Count("vacuum_by_stale_writer")
	} else if nw == 1 && (cachedReturn || c.r.Chance(1, 2)) {
		// the one writer vacuums as it is: its node cache (if any) has seen every node it ever stored
		c.note("vacuum from the only writer, not refreshed")
		c.st.Count("vacuum_by_unrefreshed_writer")
	} else if c.r.Bool() {
		vdb = sqlh.Open()
		defer vdb.Close()
		var err error
		vt, err = c.mk(vdb, false, "v", nil)
		if err != nil {
			c.fail(err.Error())
			return
		}
		c.note("vacuum from a connection opened after the history")
	} else {
		sqlh.Exec(vdb, "select s3db_refresh(?)", vt)
		c.note("vacuum from writer 0 after a refresh")
	}
	tick()
	var cutoff time.Time
	switch pick := c.r.Intn(6); {
	case !between.IsZero() && (cachedReturn || pick < 3):
		cutoff = between
		c.st.Count("cutoff_between_last_insert_and_delete")
	case len(lateCuts) > 0 && (pick == 3 || pick == 4):
		cutoff = gen.Pick(c.r, lateCuts)
		c.st.Count("cutoff_between_delete_time_and_latest_write")
	case pick == 0:
		cutoff = time.Date(2000, 1, 1, 0, 0, 0, 0, time.UTC)
		c.st.Count("cutoff_past")
	case pick == 1:
		cutoff = time.Now().Add(time.Hour)
		c.st.Count("cutoff_future")
	case pick == 2 && c.r.Chance(1, 2):
		// beyond what int64 nanoseconds can express (F45)
		cutoff = gen.Pick(c.r, []time.Time{time.Date(2300, 1, 1, 0, 0, 0, 0, time.UTC), time.Date(9999, 12, 31, 23, 59, 59, 0, time.UTC), time.Date(1000, 1, 1, 0, 0, 0, 0, time.UTC), time.Date(2262, 4, 12, 0, 0, 0, 0, time.UTC)})
		c.st.Count("cutoff_out_of_int64_range")
	case pick == 5 && len(snaps) > 0 && c.r.Chance(1, 2):
		// exactly the creation time of a recorded version, to the nanosecond: "created at or after the
		// cutoff" includes "at" (seeded change C09d turned the version's own test into "after")
		cutoff = snaps[c.r.Intn(len(snaps))].at
		c.st.Count("cutoff_exactly_a_version_creation_time")
	default:
		cutoff = gen.Pick(c.r, marks)
		c.st.Count("cutoff_between")
	}
	c.note(fmt.Sprintf("cutoff index %d of %d marks", sort.Search(len(marks), func(i int) bool { return !marks[i].Before(cutoff) }), len(marks)))
	rowsBefore := sqlh.QS(vdb, fmt.Sprintf(`select k,a from "%s" order by k`, vt))
	freshBefore, ferr := c.freshRows()
	if ferr != nil {
		c.fail("fresh open before the vacuum: " + ferr.Error())
		return
	}
	// sometimes the vacuum runs inside a transaction that has written to the table without changing it,
	// and the transaction is rolled back afterwards (F44)
	cleanTxn := c.r.Chance(1, 5)
	if cleanTxn {
		sqlh.Exec(vdb, "begin")
		sqlh.Exec(vdb, fmt.Sprintf(`delete from "%s" where k=?`, vt), -12345)
		c.note("vacuum inside a transaction that changed nothing; rolled back afterwards")
		c.st.Count("vacuum_in_clean_transaction")
	}
	entBefore := entries(vt)
	snap := c.store.Snapshot()
	l0 := c.store.LogLen()
	if os.Getenv("VAC_TRACE") != "" {
		fmt.Fprintln(os.Stderr, "BEFORE", entBefore, "cutoff", cutoff.UnixNano(), "rows", rowsBefore)
		fmt.Fprintln(os.Stderr, "FULL", entriesFull(vt))
		fmt.Fprintln(os.Stderr, "LIST", entriesList(vt))
	}
	if err := s3db.Vacuum(context.Background(), vt, cutoff); err != nil {
		c.fail("vacuum fails: " + err.Error())
		return
	}
	if os.Getenv("VAC_TRACE") != "" {
		fmt.Fprintln(os.Stderr, "AFTER", entries(vt))
		fmt.Fprintln(os.Stderr, "FULL", entriesFull(vt))
		fmt.Fprintln(os.Stderr, "LIST", entriesList(vt))
	}
	if cleanTxn {
		if err := sqlh.Exec(vdb, "rollback"); err != nil {
			c.fail("rollback after the vacuum: " + err.Error())
			return
		}
	}
	total := 0
	for _, q := range c.store.Log()[l0:] {
		if q.Mutation() && q.Err == "" {
			total++
		}
	}
	c.st.Evaluations++
	c.st.Count(fmt.Sprintf("vacuum_mutations_%d", min(total, 20)/5*5))
	retainedSince := cutoff
	check := func(stage string) bool {
		if got := sqlh.QS(vdb, fmt.Sprintf(`select k,a from "%s" order by k`, vt)); got != rowsBefore {
			// F42 (dependency): with a node cache, a tree that returns to an earlier shape resolves the old hash
			// through a cached node object that a later insert modified in place — the connection holding the
			// cache sees rows again that were inserted into that node afterwards (deleted since), while the
			// bucket, and hence every other reader, is right
			if c.cache > 0 && c.st.known("F42") && isSuperset(got, rowsBefore) {
				if fr, err := c.freshRows(); err == nil && fr == freshBefore {
					c.st.Count("known_F42")
					return false
				}
			}
			c.fail(fmt.Sprintf("%s: rows through the vacuuming connection changed: %q -> %q", stage, rowsBefore, got))
			return false
		}
		fr, err := c.freshRows()
		if err != nil || fr != freshBefore {
			// F51 (design): a vacuumer that has not merged another writer's version purges the marker of a row
			// that version still holds as live; the merged view then shows the row again
			// F22 (dependency): with a node cache a merge (the refresh before the vacuum) can leave one key
			// twice in the tree in memory; the vacuum's commit stores that tree
			if c.cache > 0 && err == nil && hasDuplicateKey(fr) && c.st.known("F22") {
				c.st.Count("known_F22")
				return false
			}
			if stale && err == nil && isSuperset(fr, freshBefore) && c.st.known("F51") {
				c.st.Count("known_F51")
				return false
			}
			c.fail(fmt.Sprintf("%s: a connection opened afterwards sees %q (err %v), want %q", stage, fr, err, freshBefore))
			return false
		}
		if d := c.dangling("p/s3db-rows/root/current/"); len(d) > 0 {
			c.fail(fmt.Sprintf("%s: the current version refers to deleted objects: %v", stage, d[:min(len(d), 3)]))
			return false
		}
		// every version created at or after the cutoff still reads exactly as it did
		for _, sn := range snaps {
			if sn.at.Before(retainedSince) {
				continue
			}
			got, err := readVersionKA(c.bucket, c.epn, sn.version)
			c.st.Count("retained_versions_reread")
			if (err != nil || got != sn.rows) && os.Getenv("VAC_TRACE") != "" {
				fmt.Fprintln(os.Stderr, "CUTOFF", retainedSince.UTC().Format(time.RFC3339Nano), "SNAP", sn.version, sn.at.UTC().Format(time.RFC3339Nano), "err", err)
				for _, k := range c.store.Keys("p/s3db-rows/root/") {
					b, _ := c.store.Get(k)
					fmt.Fprintln(os.Stderr, "  ", k, string(b))
				}
				fmt.Fprintln(os.Stderr, "  DANGLING", danglingIn(c.store, "p/s3db-rows/root/merged/", "p/s3db-rows/root/current/"))
				for _, q := range c.store.Log()[l0:] {
					if (q.Mutation() || q.Op == "LIST") && !strings.Contains(q.Key, "/node/") {
						fmt.Fprintln(os.Stderr, "  REQ", q.String())
					}
				}
			}
			if err != nil || got != sn.rows {
				c.fail(fmt.Sprintf("%s: version %s, created at or after the cutoff, reads %q (err %v), was %q", stage, sn.version, got, err, sn.rows))
				return false
			}
		}
		// superseded versions: those created at or after the cutoff are retained and must be complete; older
		// ones are what vacuum removes (a stale vacuumer does not know the other writer's ones and leaves their
		// version objects behind — they are history older than the cutoff, not retained versions)
		if d := danglingSince(c.store, retainedSince, "p/s3db-rows/root/merged/"); len(d) > 0 {
			if os.Getenv("VAC_TRACE") != "" {
				fmt.Fprintln(os.Stderr, "CUTOFF", retainedSince.UTC().Format(time.RFC3339Nano), "DANGLING", d)
				for _, k := range c.store.Keys("p/s3db-rows/root/") {
					b, _ := c.store.Get(k)
					fmt.Fprintln(os.Stderr, "  ", k, string(b))
				}
				for _, q := range c.store.Log()[l0:] {
					if q.Mutation() || q.Op == "LIST" {
						fmt.Fprintln(os.Stderr, "  REQ", q.String())
					}
				}
			}
			c.fail(fmt.Sprintf("%s: a version created at or after the cutoff refers to deleted objects: %v", stage, d[:min(len(d), 3)]))
			return false
		}
		return true
	}
	if !check("after vacuum") {
		return
	}
	// C10: exactly the markers older than the cutoff are gone, everything else is untouched
	entAfter := entries(vt)
	purged := 0
	for k, v := range entBefore {
		var ns int64
		isDel := false
		if n, _ := fmt.Sscanf(v, "deleted@%d", &ns); n == 1 {
			isDel = true
		}
		after, still := entAfter[k]
		if isDel && time.Unix(0, ns).Before(cutoff) {
			purged++
			if still {
				c.fail(fmt.Sprintf("row %s was deleted before the cutoff but still occupies the table (%s)", k, after))
				return
			}
		} else if !still || after != v {
			c.fail(fmt.Sprintf("entry %s (%s) must be kept unchanged but is %q after vacuum", k, v, after))
			return
		}
	}
	if purged > 0 {
		c.st.Count("vacuum_purged_rows")
	}
	if cutoff.After(time.Now()) && !stale {
		// everything superseded is gone: only the current version and exactly its nodes remain
		if m := c.store.Keys("p/s3db-rows/root/merged/"); len(m) > 0 {
			c.fail(fmt.Sprintf("with a cutoff in the future %d superseded versions remain: %v", len(m), m[:min(len(m), 3)]))
			return
		}
	}
	// idempotence
	snap2 := c.store.Snapshot()
	if err := s3db.Vacuum(context.Background(), vt, cutoff); err != nil {
		c.fail("second vacuum fails: " + err.Error())
		return
	}
	snap3 := c.store.Snapshot()
	if len(snap3) != len(snap2) {
		c.fail(fmt.Sprintf("repeating the same vacuum changed the bucket: %d -> %d objects", len(snap2), len(snap3)))
		return
	}
	for k := range snap2 {
		if _, ok := snap3[k]; !ok {
			c.fail("repeating the same vacuum removed " + k)
			return
		}
	}
	if !check("after the repeated vacuum") {
		return
	}
	// a later vacuum with a cutoff in the future purges every marker: the tree may return to a shape it had
	// before, i.e. to nodes an earlier vacuum deleted — they must be stored again (F40: node cache)
	if cutoff.Before(time.Now()) {
		retainedSince = time.Now().Add(time.Hour)
		if err := s3db.Vacuum(context.Background(), vt, retainedSince); err != nil {
			c.fail("vacuum with a later cutoff fails: " + err.Error())
			return
		}
		c.st.Count("second_vacuum_later_cutoff")
		if !check("after a second vacuum with a cutoff in the future") {
			return
		}
	}
	// the table stays writable
	if err := sqlh.Exec(vdb, fmt.Sprintf(`insert into "%s" values(?,?)`, vt), 9999, "after"); err != nil {
		c.fail("insert after vacuum: " + err.Error())
		return
	}
	if fr, err := c.freshRows(); err != nil || !strings.Contains(fr, "I:9999") {
		// F42 (dependency), second symptom: with a node cache the tree in memory can hold a subtree the stored
		// version does not have (node objects shared through the cache, modified in place); the vacuum deletes
		// its nodes as garbage, and the version this connection stores next refers to them
		if c.cache > 0 && err != nil && strings.Contains(err.Error(), "NoSuchKey") && c.st.known("F42") {
			c.st.Count("known_F42_dangling_write")
			return
		}
		c.fail(fmt.Sprintf("a row written after vacuum is not visible to a fresh reader: %q %v", fr, err))
		return
	}
	// every crash point inside vacuum, from the same starting bucket
	if total <= 40 {
		for k := 0; k <= total && !c.failed; k++ {
			c.store.Restore(snap)
			db := sqlh.Open()
			var vcl *fakes3.Client
			t2, err := c.mk(db, false, "vc", func(x *fakes3.Client) { vcl = x })
			if err != nil {
				c.fail(fmt.Sprintf("open before crash run %d: %v", k, err))
				db.Close()
				return
			}
			_, mm := vcl.Counts()
			vcl.CrashAfter = mm + k
			s3db.Vacuum(context.Background(), t2, cutoff)
			db.Close()
			c.st.Count("vacuum_crash_runs")
			fr, err := c.freshRows()
			if err != nil || fr != freshBefore {
				c.fail(fmt.Sprintf("vacuum crashed after %d of %d mutations: a later open sees %q (err %v), want %q", k, total, fr, err, freshBefore))
				return
			}
			if d := c.dangling("p/s3db-rows/root/current/"); len(d) > 0 {
				c.fail(fmt.Sprintf("vacuum crashed after %d of %d mutations: the current version refers to deleted objects: %v", k, total, d[:min(len(d), 3)]))
				return
			}
			// the vacuum that comes after the crash, from a new process, must go through (F69) and change nothing
			if k%3 == 0 {
				db2 := sqlh.Open()
				t3, err := c.mk(db2, false, "vr", nil)
				if err != nil {
					c.fail(fmt.Sprintf("open for the vacuum after crash run %d: %v", k, err))
					db2.Close()
					return
				}
				if err := s3db.Vacuum(context.Background(), t3, cutoff); err != nil {
					c.fail(fmt.Sprintf("vacuum crashed after %d of %d mutations: the next vacuum fails: %v", k, total, err))
				} else if fr, err := c.freshRows(); err != nil || fr != freshBefore {
					c.fail(fmt.Sprintf("vacuum crashed after %d of %d mutations, then a complete vacuum: a later open sees %q (err %v), want %q", k, total, fr, err, freshBefore))
				} else if d := c.dangling("p/s3db-rows/root/"); len(d) > 0 {
					c.fail(fmt.Sprintf("vacuum crashed after %d of %d mutations, then a complete vacuum: a listed version refers to deleted objects: %v", k, total, d[:min(len(d), 3)]))
				}
				db2.Close()
				c.st.Count("vacuum_after_crash_runs")
				if c.failed {
					return
				}
			}
		}
	}
	// every single storage fault inside vacuum (the process lives on): whatever vacuum answers, the same
	// connection still reads the same rows, stays writable, and nothing current refers to a deleted object
	fcut := cutoff
	if c.r.Bool() {
		fcut = time.Now().Add(time.Hour)
	}
	for k := 0; k <= 80 && !c.failed; k++ {
		c.store.Restore(snap)
		db := sqlh.Open()
		var vcl *fakes3.Client
		t2, err := c.mk(db, false, "vf", func(x *fakes3.Client) { vcl = x })
		if err != nil {
			c.fail(fmt.Sprintf("open before fault run %d: %v", k, err))
			db.Close()
			return
		}
		_, mm := vcl.Counts()
		hit := false
		reads, readFault := 0, k%2 == 1 // odd runs fail the (k/2)-th READ of the vacuum instead of a mutation
		vcl.Fault = func(idx, midx int, op, key string) error {
			if readFault {
				if op == "GET" || op == "LIST" {
					reads++
					if !hit && reads-1 == k/2 {
						hit = true
						return fakes3.ErrInjected
					}
				}
				return nil
			}
			if !hit && (op == "PUT" || op == "DEL") && midx == mm+k/2 {
				hit = true
				return awserr.New("InternalError", "injected fault", nil)
			}
			return nil
		}
		verr := s3db.Vacuum(context.Background(), t2, fcut)
		vcl.Fault = nil
		if !hit {
			db.Close()
			if readFault {
				continue
			}
			break
		}
		c.st.Count("vacuum_fault_runs")
		stage := fmt.Sprintf("vacuum with mutation %d failing once (vacuum answered %v)", k/2, verr)
		if readFault {
			c.st.Count("vacuum_read_fault_runs")
			stage = fmt.Sprintf("vacuum with read %d failing once (vacuum answered %v)", k/2, verr)
		}
		if got := sqlh.QS(db, fmt.Sprintf(`select k,a from "%s" order by k`, t2)); got != freshBefore {
			c.fail(fmt.Sprintf("%s: rows through the vacuuming connection changed: %q -> %q", stage, freshBefore, got))
		} else if err := sqlh.Exec(db, fmt.Sprintf(`insert into "%s" values(?,?)`, t2), 9998, "after-fault"); err != nil {
			c.fail(fmt.Sprintf("%s: the vacuuming connection cannot write any more: %v", stage, err))
		} else if fr, err := c.freshRows(); err != nil || !strings.Contains(fr, "I:9998") || strings.Replace(fr, " | I:9998,T:61667465722d6661756c74", "", 1) != freshBefore && fr != "I:9998,T:61667465722d6661756c74" {
			c.fail(fmt.Sprintf("%s: a connection opened afterwards sees %q (err %v), want %q plus the row written after the fault", stage, fr, err, freshBefore))
		} else if d := c.dangling("p/s3db-rows/root/current/"); len(d) > 0 {
			c.fail(fmt.Sprintf("%s: the current version refers to deleted objects: %v", stage, d[:min(len(d), 3)]))
			if os.Getenv("VAC_TRACE") != "" {
				for _, q := range c.store.Log() {
					if q.Client == "vf" {
						fmt.Fprintln(os.Stderr, q.String())
					}
				}
			}
		}
		db.Close()
	}
	c.st.Distinct(strings.Join(c.log, "|"))
}

func vacCmd(args []string) int {
	fs := flag.NewFlagSet("vac", flag.ExitOnError)
	seed := fs.Uint64("seed", 1, "")
	n := fs.Int("n", 40, "cases")
	outp := fs.String("out", "", "")
	kn := fs.String("known", "", "")
	fs.Parse(args)
	setKnown(*kn)
	st := NewStats("vac", *seed)
	st.Rule = "histories of 4-18 steps by 1-2 writers (inserts, deletes, insert-then-delete and update-and-back so that old and new versions share content-addressed nodes, delete-then-re-insert, multi-row transactions, merging refreshes; entries_per_node in {2,4,4096}, node_cache_entries in {0,16,1000}), then s3db.Vacuum from an old or a new connection with a cutoff in the past, in the future, outside the range of int64 nanoseconds (years 1000, 2262, 2300, 9999), at one of the instants recorded between the steps, or exactly at the creation time of a recorded version; the vacuuming connection is new, a refreshed writer, the only writer unrefreshed, or a stale writer that has not seen the other writer's versions; one vacuum in five runs inside a transaction that changed nothing and is rolled back afterwards; checks: rows unchanged through the vacuuming and a fresh connection, no version object in root/current or root/merged reaches a missing node, exactly the delete markers older than the cutoff are gone and every other entry is byte-for-byte as before, future cutoff leaves no superseded version, every version created at or after the cutoff re-reads exactly as it did, a repeated vacuum changes nothing, a further vacuum with a cutoff in the future leaves rows and reachability intact, the table stays writable, every single storage fault inside vacuum (a failing PUT/DELETE, or a failing GET/LIST) with the same connection used afterwards, and EVERY crash point inside vacuum (restore, crash after k mutations, re-open; after every third crash point a complete vacuum from a new connection, which must succeed and change nothing); distinct = distinct history (all non-trivial)"
	isChild, from, to := childRange()
	if !isChild {
		NewEmitter(*outp+".ops", *outp+".exp").Close()
		isolate(st, *n, *outp, 40*time.Second, func(idx int, lines []string, output string) bool {
			// F42 / F22 (dependency): with a node cache mast modifies node objects it shares through the cache; a
			// node that ends up holding one key twice makes mast's own validateNode panic the next time it is copied
			if len(lines) > 0 && !strings.Contains(lines[0], "node_cache_entries=0") && strings.Contains(output, "mast.validateNode") &&
				strings.Contains(output, "sweet merciful crap") && st.known("F42") {
				st.Count("known_F42_panic")
				return true
			}
			return false
		})
		st.Write(*outp + ".stats.json")
		fmt.Printf("vac: %d cases, %d oracle failures\n", st.Cases, len(st.Failures))
		return 0
	}
	openProgress(*outp)
	root := gen.New(*seed)
	for i := from; i < to; i++ {
		r := root.Fork(i)
		b, store := sqlh.Bucket()
		c := &vacCase{st: st, r: r, id: fmt.Sprintf("vac-%d-%d", *seed, i), bucket: b, store: store, epn: gen.Pick(r, []int{2, 4, 4096}), cache: gen.Pick(r, []int{0, 0, 16, 1000})}
		progressLine(fmt.Sprintf("CASE %d node_cache_entries=%d", i, c.cache))
		nf := len(st.Failures)
		c.run()
		if c.failed && c.cache > 0 && len(st.Failures) > nf && (knownIDs["F42"] || knownIDs["F22"]) {
			// Differential attribution: mast shares live node objects through the node cache and modifies them in
			// place (F22, F42 - dependency), which surfaces in many shapes at low rates. The same history is run
			// again WITHOUT a node cache; only a failure that survives that is reported as new.
			r2 := root.Fork(i)
			b2, store2 := sqlh.Bucket()
			c2 := &vacCase{st: NewStats("vac-recheck", *seed), r: r2, id: c.id + "-nocache", bucket: b2, store: store2, epn: gen.Pick(r2, []int{2, 4, 4096}), cache: gen.Pick(r2, []int{0, 0, 16, 1000})}
			c2.cache = 0
			progressLine(fmt.Sprintf("CASE %d again with node_cache_entries=0", i))
			c2.run()
			if !c2.failed {
				st.Failures = st.Failures[:nf]
				_ = st.known("F42") || st.known("F22")
				st.Count("known_F22_F42_only_with_node_cache")
			}
		}
		st.Cases++
		if i < 1 {
			st.Sample(c.log)
		}
		st.Write(*outp + ".child.json")
	}
	return 0
}

// entriesFull maps every key of the table's tree to the absolute insert/delete time of its row
func entriesFull(name string) map[string]int64 {
	out := map[string]int64{}
	vt := s3db.GetTable(name)
	cur, err := vt.Tree.Root.Cursor(context.Background())
	if err != nil {
		return out
	}
	cur.Min(context.Background())
	for {
		k, v, ok := cur.Get()
		if !ok {
			break
		}
		if row, _ := v.Value.(*v1proto.Row); row != nil {
			out[sqlh.Canon(normVal(k.(*s3db.Key).Value()))] = v.ModEpochNanos + int64(row.DeleteUpdateOffset.AsDuration())
		}
		if cur.Forward(context.Background()) != nil {
			break
		}
	}
	return out
}

func entriesList(name string) []string {
	var out []string
	vt := s3db.GetTable(name)
	cur, err := vt.Tree.Root.Cursor(context.Background())
	if err != nil {
		return out
	}
	cur.Min(context.Background())
	for {
		k, v, ok := cur.Get()
		if !ok {
			break
		}
		row, _ := v.Value.(*v1proto.Row)
		out = append(out, fmt.Sprintf("%v@%d/%d del=%v", k.(*s3db.Key).Value(), v.ModEpochNanos%1000000000, v.TombstoneSinceEpochNanos, row != nil && row.Deleted))
		if cur.Forward(context.Background()) != nil {
			break
		}
	}
	return out
}

// isSuperset: every row of `small` (rows joined by " | ") occurs in `big`, and big has more
func isSuperset(big, small string) bool {
	have := map[string]bool{}
	for _, r := range strings.Split(big, " | ") {
		have[r] = true
	}
	n := 0
	for _, r := range strings.Split(small, " | ") {
		if r == "" {
			continue
		}
		if !have[r] {
			return false
		}
		n++
	}
	return len(have) > n
}

type vacSnap struct {
	version string
	rows    string
	at      time.Time
}

// readVersionKA re-reads a version (the JSON list s3db_version() returned) through a read-only open
// restricted to it and renders the visible rows like `select k,a ... order by k` does
func readVersionKA(bucket string, epn int, version string) (string, error) {
	var names []string
	if err := json.Unmarshal([]byte(version), &names); err != nil {
		return "", err
	}
	if names == nil {
		names = []string{}
	}
	sqlh.NextClient("hist", nil)
	kvh, err := s3db.OpenKV(context.Background(), s3db.S3Options{Bucket: bucket, Endpoint: sqlh.Endpoint, Prefix: "p", EntriesPerNode: epn, ReadOnly: true, OnlyVersions: names}, "s3db-rows")
	sqlh.NextClient("", nil)
	if err != nil {
		return "", err
	}
	cur, err := kvh.Root.Cursor(context.Background())
	if err != nil {
		return "", err
	}
	if err := cur.Min(context.Background()); err != nil {
		return "", err
	}
	var out []string
	for {
		k, v, ok := cur.Get()
		if !ok {
			break
		}
		if row, _ := v.Value.(*v1proto.Row); row != nil && !row.Deleted {
			a := "N"
			if cv, ok := row.ColumnValues["a"]; ok {
				a = sqlh.Canon(normVal(s3db.FromSQLiteValue(cv.Value)))
			}
			out = append(out, sqlh.Canon(normVal(k.(*s3db.Key).Value()))+","+a)
		}
		if err := cur.Forward(context.Background()); err != nil {
			return "", err
		}
	}
	return strings.Join(out, " | "), nil
}

// createdAt: the oldest creation time among the versions of a version list (all must be retained for the
// list to stay readable); false when a version object cannot be found
func createdAt(store *fakes3.Store, version string) (time.Time, bool) {
	var names []string
	if json.Unmarshal([]byte(version), &names) != nil || len(names) == 0 {
		return time.Time{}, false
	}
	var oldest time.Time
	for _, n := range names {
		b, ok := store.Get("p/s3db-rows/root/current/" + n)
		if !ok {
			if b, ok = store.Get("p/s3db-rows/root/merged/" + n); !ok {
				return time.Time{}, false
			}
		}
		var root struct {
			Created *time.Time `json:"cr"`
		}
		if json.Unmarshal(b, &root) != nil || root.Created == nil {
			return time.Time{}, false
		}
		if oldest.IsZero() || root.Created.Before(oldest) {
			oldest = *root.Created
		}
	}
	return oldest, true
}
