package main

import "strings"

// Known findings (see /verif/known_findings.json): signatures are implemented here and
// honoured only for ids passed with -known (bin/check passes the ids listed for the property).
var knownIDs = map[string]bool{}

func setKnown(list string) {
	knownIDs = map[string]bool{}
	for _, k := range strings.Split(list, ",") {
		if k != "" {
			knownIDs[k] = true
		}
	}
}

// known reports (and records) a reproduced known finding.
func (s *Stats) known(id string) bool {
	if !knownIDs[id] {
		return false
	}
	for _, k := range s.Known {
		if k == id {
			return true
		}
	}
	s.Known = append(s.Known, id)
	return true
}
