package main

import (
	"encoding/json"
	"fmt"
	"os"
	"os/exec"
	"strings"
	"time"
)

// A Go panic inside an SQLite callback cannot be recovered by the caller: it kills the process.
// Streams that drive SQL therefore run their cases in child processes. The child appends what it
// is about to do to <out>.progress (flushed per line) and rewrites <out>.child.json after every
// case; when a child dies the parent knows the case and the last statement, reports it (or
// recognises a known finding) and restarts after that case.

type progress struct{ f *os.File }

var prog *progress

func openProgress(outp string) {
	f, err := os.OpenFile(outp+".progress", os.O_CREATE|os.O_WRONLY|os.O_TRUNC, 0o644)
	if err != nil {
		panic(err)
	}
	prog = &progress{f}
}

func progressLine(s string) {
	if prog != nil {
		prog.f.WriteString(strings.ReplaceAll(s, "\n", " ") + "\n")
	}
}

// childRange reports whether this process is a child and which cases it runs.
func childRange() (bool, int, int) {
	v := os.Getenv("CORR_CHILD")
	if v == "" {
		return false, 0, 0
	}
	var a, b int
	fmt.Sscanf(v, "%d:%d", &a, &b)
	return true, a, b
}

// isolate runs cases [0,n) of the sub-command in children. onCrash decides what a death means:
// it returns true when the crash is a recognised known finding.
func isolate(st *Stats, n int, outp string, perCaseTimeout time.Duration, onCrash func(caseIdx int, lines []string, output string) bool) {
	i := 0
	for i < n {
		os.Remove(outp + ".child.json")
		os.Remove(outp + ".progress")
		cmd := exec.Command(os.Args[0], os.Args[1:]...)
		cmd.Env = append(os.Environ(), fmt.Sprintf("CORR_CHILD=%d:%d", i, n), "GOTRACEBACK=single")
		var buf strings.Builder
		cmd.Stdout = &buf
		cmd.Stderr = &buf
		done := make(chan error, 1)
		if err := cmd.Start(); err != nil {
			st.Fail("isolate", "cannot start child: "+err.Error(), nil)
			return
		}
		go func() { done <- cmd.Wait() }()
		var err error
		timedOut := false
		select {
		case err = <-done:
		case <-time.After(perCaseTimeout * time.Duration(n-i+1)):
			cmd.Process.Kill()
			err = <-done
			timedOut = true
		}
		var cs Stats
		if b, e := os.ReadFile(outp + ".child.json"); e == nil {
			json.Unmarshal(b, &cs)
			if cs.Dist != nil {
				st.Merge(&cs)
			}
		}
		if err == nil {
			return
		}
		// which case died?
		var lines []string
		if b, e := os.ReadFile(outp + ".progress"); e == nil {
			lines = strings.Split(strings.TrimSpace(string(b)), "\n")
		}
		died := i + cs.Cases
		var caseLines []string
		for _, l := range lines {
			if strings.HasPrefix(l, "CASE ") {
				caseLines = nil
			}
			caseLines = append(caseLines, l)
		}
		out := buf.String()
		if len(out) > 3000 {
			out = out[:1500] + " ... " + out[len(out)-1500:]
		}
		if timedOut {
			st.Fail(fmt.Sprintf("case %d", died), "the process hung (killed after the time limit); last operations: "+strings.Join(tailStr(caseLines, 3), " | "), tailStr(caseLines, 40))
		} else if !onCrash(died, caseLines, out) {
			st.Fail(fmt.Sprintf("case %d", died), "the process died: "+firstPanicLine(out)+"; last operation: "+strings.Join(tailStr(caseLines, 1), ""), append(tailStr(caseLines, 40), "OUTPUT: "+out))
		}
		st.Cases++
		i = died + 1
	}
}

func tailStr(xs []string, n int) []string {
	if len(xs) > n {
		return xs[len(xs)-n:]
	}
	return xs
}

func firstPanicLine(out string) string {
	for _, l := range strings.Split(out, "\n") {
		if strings.HasPrefix(l, "panic:") || strings.HasPrefix(l, "fatal error:") {
			return l
		}
	}
	if len(out) > 200 {
		return out[:200]
	}
	return out
}

// runSelf runs this binary again with an extra environment variable and returns its output.
func runSelf(env string, timeout time.Duration) (string, error) {
	cmd := exec.Command(os.Args[0], os.Args[1:]...)
	cmd.Env = append(os.Environ(), env, "GOTRACEBACK=single")
	var buf strings.Builder
	cmd.Stdout = &buf
	cmd.Stderr = &buf
	if err := cmd.Start(); err != nil {
		return "", err
	}
	done := make(chan error, 1)
	go func() { done <- cmd.Wait() }()
	select {
	case err := <-done:
		return buf.String(), err
	case <-time.After(timeout):
		cmd.Process.Kill()
		<-done
		return buf.String(), fmt.Errorf("timeout")
	}
}
