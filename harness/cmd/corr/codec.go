package main

import (
	"flag"
	"fmt"
	"math"
	"reflect"
	"time"

	"github.com/jrhy/mast"
	"github.com/jrhy/s3db"
	"github.com/jrhy/s3db/kv/crdt"
	v1proto "github.com/jrhy/s3db/proto/v1"
	"google.golang.org/protobuf/proto"
	"google.golang.org/protobuf/types/known/durationpb"

	"verif/harness/gen"
)

func init() { cmds["codec"] = codecCmd }

func codecVal(r *gen.Rng) any {
	switch r.Intn(8) {
	case 0:
		return nil
	case 1:
		return int64(r.U64())
	case 2:
		return math.Float64frombits(r.U64()&^(0x7ff<<52) | uint64(r.Intn(2046)+1)<<52)
	case 3:
		return gen.Pick(r, []any{math.Copysign(0, -1), math.Inf(1), math.Inf(-1), 0.0, math.MaxFloat64, math.SmallestNonzeroFloat64, int64(math.MinInt64), int64(math.MaxInt64), int64(0)})
	case 4:
		b := make([]byte, r.Intn(6))
		for i := range b {
			b[i] = byte(r.U64())
		}
		return b
	case 5:
		return gen.Pick(r, []any{"", "a", "é€😀", "a\x00b", "x'"})
	}
	return fmt.Sprintf("s%d", r.Intn(1000))
}

func codecCmd(args []string) int {
	fs := flag.NewFlagSet("codec", flag.ExitOnError)
	seed := fs.Uint64("seed", 1, "")
	n := fs.Int("n", 3000, "nodes")
	outp := fs.String("out", "", "")
	kn := fs.String("known", "", "")
	fs.Parse(args)
	setKnown(*kn)
	NewEmitter(*outp+".ops", *outp+".exp").Close()
	st := NewStats("codec", *seed)
	st.Rule = "random mast nodes (0-6 keys of all storage classes incl. -0.0, infinities, int64 limits, empty and non-UTF-8-safe strings; entries with all four crdt.Value fields, rows with 0-3 columns, NULL values, negative and zero offsets, delete markers, nil rows for tombstones; link arrays with absent children in every position) are encoded with the real marshalProto and decoded with the real unmarshalProto; oracle: the decoded node equals the original (keys, every entry field, every link incl. nil); non-trivial = has an absent link next to a present one, or a -0.0/empty value; distinct = distinct encoded bytes"
	root := gen.New(*seed)
	for i := 0; i < *n; i++ {
		r := root.Fork(i)
		nk := r.Intn(7)
		node := mast.Node{Key: make([]interface{}, nk), Value: make([]interface{}, nk), Link: make([]interface{}, nk+1)}
		if r.Chance(1, 5) {
			node.Link = nil // a leaf stored without a link array
		}
		nontrivial := false
		for j := 0; j < nk; j++ {
			kv := codecVal(r)
			if kv == nil {
				kv = int64(j)
			}
			node.Key[j] = s3db.NewKey(kv)
			var row *v1proto.Row
			cv := crdt.Value{ModEpochNanos: int64(r.U64() >> 2), PreviousRoot: gen.Pick(r, []string{"", "1Xa_abc", "prev"})}
			if r.Chance(1, 8) {
				cv.TombstoneSinceEpochNanos = int64(r.U64() >> 2)
			} else {
				row = &v1proto.Row{Deleted: r.Chance(1, 4), ColumnValues: map[string]*v1proto.ColumnValue{}}
				if r.Bool() {
					row.DeleteUpdateOffset = durationpb.New(time.Duration(int64(r.U64()>>20) - 1<<42))
				}
				for c := 0; c < r.Intn(4); c++ {
					v := codecVal(r)
					col := s3db.ToColumnValue(v)
					if r.Bool() {
						col.UpdateOffset = durationpb.New(time.Duration(int64(r.U64()>>20) - 1<<42))
					}
					row.ColumnValues[fmt.Sprint("c", c)] = col
					if f, ok := v.(float64); ok && f == 0 && math.Signbit(f) {
						nontrivial = true
					}
					if s, ok := v.(string); ok && s == "" {
						nontrivial = true
					}
				}
				cv.Value = row
			}
			node.Value[j] = cv
		}
		present := 0
		for j := range node.Link {
			if r.Bool() {
				node.Link[j] = fmt.Sprintf("h%d", r.Intn(100000))
				present++
			}
		}
		if present > 0 && present < len(node.Link) {
			nontrivial = true
			st.Count("sparse_links")
		}
		b, err := s3db.VerifMarshalNode(node)
		st.Evaluations++
		if err != nil {
			st.Fail(fmt.Sprint(i), "marshal: "+err.Error(), nil)
			continue
		}
		var back mast.Node
		if err := s3db.VerifUnmarshalNode(b, &back); err != nil {
			st.Fail(fmt.Sprint(i), "unmarshal: "+err.Error(), nil)
			continue
		}
		if why := nodeDiff(node, back); why != "" {
			st.Fail(fmt.Sprintf("codec-%d-%d", *seed, i), "decoded node differs from the encoded one: "+why, []string{fmt.Sprintf("%x", b)})
		}
		if nontrivial {
			st.Distinct(string(b))
		}
		st.Count(fmt.Sprintf("keys_%d", nk))
		if i < 2 {
			st.Sample(fmt.Sprintf("%d keys, %d links, bytes %x", nk, len(node.Link), b))
		}
	}
	st.Cases = *n
	st.Write(*outp + ".stats.json")
	fmt.Printf("codec: %d nodes, %d oracle failures\n", *n, len(st.Failures))
	return 0
}

func nodeDiff(a, b mast.Node) string {
	if len(a.Key) != len(b.Key) || len(a.Value) != len(b.Value) || len(a.Link) != len(b.Link) {
		return fmt.Sprintf("sizes %d/%d/%d vs %d/%d/%d", len(a.Key), len(a.Value), len(a.Link), len(b.Key), len(b.Value), len(b.Link))
	}
	for i := range a.Key {
		ka, kb := a.Key[i].(*s3db.Key), b.Key[i].(*s3db.Key)
		if !proto.Equal(ka.SQLiteValue, kb.SQLiteValue) || sigDiff(ka.SQLiteValue, kb.SQLiteValue) {
			return fmt.Sprintf("key %d: %v vs %v", i, ka, kb)
		}
		va, vb := a.Value[i].(crdt.Value), b.Value[i].(crdt.Value)
		if va.ModEpochNanos != vb.ModEpochNanos || va.TombstoneSinceEpochNanos != vb.TombstoneSinceEpochNanos || va.PreviousRoot != vb.PreviousRoot {
			return fmt.Sprintf("entry %d metadata: %+v vs %+v", i, va, vb)
		}
		ra, _ := va.Value.(*v1proto.Row)
		rb, _ := vb.Value.(*v1proto.Row)
		if (ra == nil) != (rb == nil) {
			return fmt.Sprintf("entry %d row presence: %v vs %v", i, ra, rb)
		}
		if ra != nil {
			if ra.Deleted != rb.Deleted || ra.DeleteUpdateOffset.AsDuration() != rb.DeleteUpdateOffset.AsDuration() || len(ra.ColumnValues) != len(rb.ColumnValues) {
				return fmt.Sprintf("entry %d row: %v vs %v", i, ra, rb)
			}
			for n, ca := range ra.ColumnValues {
				cb := rb.ColumnValues[n]
				if cb == nil || ca.UpdateOffset.AsDuration() != cb.UpdateOffset.AsDuration() || !proto.Equal(ca.Value, cb.Value) || sigDiff(ca.Value, cb.Value) {
					return fmt.Sprintf("entry %d column %s: %v vs %v", i, n, ca, cb)
				}
			}
		}
	}
	for i := range a.Link {
		if !reflect.DeepEqual(a.Link[i], b.Link[i]) {
			return fmt.Sprintf("link %d: %#v vs %#v", i, a.Link[i], b.Link[i])
		}
	}
	return ""
}

func sigDiff(a, b *v1proto.SQLiteValue) bool {
	return math.Float64bits(a.GetReal()) != math.Float64bits(b.GetReal()) || a.GetType() != b.GetType()
}
