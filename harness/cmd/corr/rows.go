package main

import (
	"flag"
	"fmt"
	"sort"
	"strings"
	"time"

	"github.com/jrhy/s3db"
	"github.com/jrhy/s3db/kv/crdt"
	v1proto "github.com/jrhy/s3db/proto/v1"
	"google.golang.org/protobuf/types/known/durationpb"

	"verif/harness/gen"
)

func init() { cmds["rows"] = rowsCmd }

var rowCols = []string{"a", "b", "c", "d"}

// absRow renders a stored row with absolute times (entry time + offsets).
func absRow(base int64, r *v1proto.Row) string {
	if r == nil {
		return "nil"
	}
	var parts []string
	for name, cv := range r.ColumnValues {
		parts = append(parts, fmt.Sprintf("%s=%s@%d", name, valStr(normVal(s3db.FromSQLiteValue(cv.Value))), base+int64(cv.UpdateOffset.AsDuration())))
	}
	sort.Strings(parts)
	d := 0
	if r.Deleted {
		d = 1
	}
	return fmt.Sprintf("d=%d dut=%d %s", d, base+int64(r.DeleteUpdateOffset.AsDuration()), strings.Join(parts, ","))
}

func normVal(v any) any {
	switch x := v.(type) {
	case int:
		return int64(x)
	}
	return v
}

// rowTokens renders a row for the driver: <deleted> <dut> <ncols> (<name> <val> <t>)*
func rowTokens(base int64, r *v1proto.Row) string {
	var names []string
	for n := range r.ColumnValues {
		names = append(names, n)
	}
	sort.Strings(names)
	d := 0
	if r.Deleted {
		d = 1
	}
	s := fmt.Sprintf("%d %d %d", d, base+int64(r.DeleteUpdateOffset.AsDuration()), len(names))
	for _, n := range names {
		cv := r.ColumnValues[n]
		s += fmt.Sprintf(" %s %s %d", n, valStr(normVal(s3db.FromSQLiteValue(cv.Value))), base+int64(cv.UpdateOffset.AsDuration()))
	}
	return s
}

func randRow(r *gen.Rng, base int64, times []int64, full bool) *v1proto.Row {
	row := &v1proto.Row{ColumnValues: map[string]*v1proto.ColumnValue{}}
	row.Deleted = r.Chance(1, 3)
	dut := gen.Pick(r, times)
	if dut != base || r.Bool() {
		row.DeleteUpdateOffset = durationpb.New(time.Duration(dut - base))
	}
	for _, c := range rowCols {
		if !full && r.Chance(1, 3) {
			continue
		}
		t := gen.Pick(r, times)
		if full && !row.Deleted && t < dut {
			t = dut
		}
		cv := s3db.ToColumnValue(int64(r.Intn(5)))
		if r.Chance(1, 5) {
			cv = s3db.ToColumnValue(nil)
		}
		if t != base || r.Bool() {
			cv.UpdateOffset = durationpb.New(time.Duration(t - base))
		}
		row.ColumnValues[c] = cv
	}
	return row
}

func rowsCmd(args []string) int {
	fs := flag.NewFlagSet("rows", flag.ExitOnError)
	seed := fs.Uint64("seed", 1, "")
	n := fs.Int("n", 5000, "pairs")
	outp := fs.String("out", "", "")
	kn := fs.String("known", "", "")
	fs.Parse(args)
	setKnown(*kn)
	e := NewEmitter(*outp+".ops", *outp+".exp")
	st := NewStats("rows", *seed)
	st.Rule = "pairs of stored rows (arbitrary and SQL-shaped: live rows holding every column at or after their insert time) with times from a 6-element pool so that ties, deletes and re-inserts are common; merged by the real MergeRows (three choices of outTime) and by mergeValues in both argument orders; non-trivial = the two rows differ in status or share a column; distinct = distinct canonical pair"
	root := gen.New(*seed)
	e.Case(fmt.Sprintf("rows-%d", *seed))
	for i := 0; i < *n; i++ {
		r := root.Fork(i)
		times := []int64{1000, 2000, 3000, 4000, 5000, 6000}
		t1, t2 := gen.Pick(r, times), gen.Pick(r, times)
		full := r.Bool()
		r1, r2 := randRow(r, t1, times, full), randRow(r, t2, times, full)
		out := []int64{t1, t2, gen.Pick(r, times)}[r.Intn(3)]
		res := s3db.MergeRows(nil, time.Unix(0, t1), r1, time.Unix(0, t2), r2, time.Unix(0, out))
		op := "row merge " + rowTokens(t1, r1) + " " + rowTokens(t2, r2)
		e.Op(op, absRow(out, res))
		if full {
			st.Count("sql_shaped")
		} else {
			st.Count("arbitrary")
		}
		if r1.Deleted != r2.Deleted {
			st.Count("status_differs")
		}
		if r1.Deleted && !r2.Deleted || !r1.Deleted && r2.Deleted {
			st.Distinct(op)
		} else {
			for c := range r1.ColumnValues {
				if _, ok := r2.ColumnValues[c]; ok {
					st.Distinct(op)
					break
				}
			}
		}
		// mergeValues: the entry with the later time goes second; result keeps the later time
		i1 := crdt.Value{ModEpochNanos: t1, Value: r1}
		i2 := crdt.Value{ModEpochNanos: t2, Value: r2}
		mv := s3db.VerifMergeValues(i1, i2)
		var want string
		if t1 < t2 {
			want = "row merge " + rowTokens(t1, r1) + " " + rowTokens(t2, r2)
		} else {
			want = "row merge " + rowTokens(t2, r2) + " " + rowTokens(t1, r1)
		}
		e.Op(want, absRow(mv.ModEpochNanos, mv.Value.(*v1proto.Row)))
		if mv.ModEpochNanos != max(t1, t2) {
			st.Fail(op, fmt.Sprintf("mergeValues keeps time %d, want max(%d,%d)", mv.ModEpochNanos, t1, t2), []string{op})
		}
		if i < 3 {
			st.Sample(op + " => " + absRow(out, res))
		}
	}
	st.Cases = *n
	st.Evaluations = e.Lines
	e.Close()
	st.Write(*outp + ".stats.json")
	fmt.Printf("rows: %d lines\n", e.Lines)
	return 0
}
