package main

import (
	"context"
	"encoding/json"
	"flag"
	"fmt"
	"github.com/aws/aws-sdk-go/aws/awserr"
	"sort"
	"strings"
	"time"

	"github.com/jrhy/s3db/kv"
	"github.com/jrhy/s3db/kv/crdt"

	"verif/harness/fakes3"
	"verif/harness/gen"
)

func init() { cmds["kv"] = kvCmd }

type kvHandle struct {
	name string
	db   *kv.DB
	ro   bool
	cl   *fakes3.Client
}

type kvCase struct {
	e       *Emitter
	st      *Stats
	r       *gen.Rng
	store   *fakes3.Store
	cfg     kv.Config
	handles []*kvHandle
	labels  map[string]string
	nextT   int64
	nextH   int
	sets    map[string]map[string]bool // key -> "time:value" ever written
	id      string
	nconfl  int
	custom  bool
	shapes  map[string]bool
}

var ctxBG = context.Background()

func (c *kvCase) label(name string) string {
	if name == "" {
		return "-"
	}
	if l, ok := c.labels[name]; ok {
		return l
	}
	l := fmt.Sprintf("v%d", len(c.labels))
	c.labels[name] = l
	return l
}

func (c *kvCase) currentRoots() []string {
	pfx := strings.TrimSuffix(c.cfg.Storage.Prefix, "/") + "/root/current/"
	var out []string
	for _, k := range c.store.Keys(pfx) {
		out = append(out, strings.TrimPrefix(k, pfx))
	}
	sort.Strings(out)
	return out
}

// open opens a handle through the real kv.Open with a chosen merge order and mirrors it in the model.
func (c *kvCase) open(ro bool, perm []int) (*kvHandle, error) {
	roots := c.currentRoots()
	if perm == nil {
		perm = c.r.Perm(len(roots))
	}
	order := make([]string, len(roots))
	for i, p := range perm {
		order[i] = roots[p]
	}
	kv.VerifPermute = func(in []string) []string {
		if len(in) != len(order) {
			return in
		}
		return append([]string(nil), order...)
	}
	defer func() { kv.VerifPermute = nil }()
	c.nextT++
	when := time.Unix(0, 1_000_000_000+c.nextT)
	cl := c.store.Client(fmt.Sprintf("h%d", c.nextH))
	db, err := kv.Open(ctxBG, cl, c.cfg, kv.OpenOptions{ReadOnly: ro}, when)
	if err != nil {
		return nil, err
	}
	h := &kvHandle{name: fmt.Sprintf("H%d", c.nextH), db: db, ro: ro, cl: cl}
	c.nextH++
	c.handles = append(c.handles, h)
	if len(order) == 0 {
		c.e.Op("kv new "+h.name, "ok")
	}
	for i, n := range order {
		if i == 0 {
			c.e.Op(fmt.Sprintf("kv clone ver:%s %s", c.label(n), h.name), "ok")
		} else {
			if c.custom {
				c.e.Op(fmt.Sprintf("kv mergec %s ver:%s", h.name, c.label(n)), "ok")
			} else {
				c.e.Op(fmt.Sprintf("kv merge %s ver:%s", h.name, c.label(n)), "ok")
			}
		}
	}
	c.st.Count(fmt.Sprintf("open_versions_%d", min(len(order), 4)))
	switch {
	case len(order) == 1:
		c.e.Op(fmt.Sprintf("kv src %s %s", h.name, c.label(order[0])), "ok")
	case len(order) >= 2 && !ro:
		rs, err := db.Roots()
		if err != nil || len(rs) != 1 {
			return nil, fmt.Errorf("roots after merging open: %v %v", rs, err)
		}
		l := c.label(rs[0])
		c.e.Op(fmt.Sprintf("kv src %s %s", h.name, l), "ok")
		c.e.Op(fmt.Sprintf("kv clone %s ver:%s", h.name, l), "ok")
	default:
		c.e.Op(fmt.Sprintf("kv src %s -", h.name), "ok")
	}
	return h, nil
}

func (c *kvCase) dumpReal(db *kv.DB) (string, error) {
	cur, err := db.Cursor(ctxBG)
	if err != nil {
		return "", err
	}
	if err := cur.Min(ctxBG); err != nil {
		return "", err
	}
	var parts []string
	for {
		k, v, ok := cur.Get()
		if !ok {
			break
		}
		val := "-"
		if v.Value != nil {
			val = fmt.Sprint(v.Value)
		}
		parts = append(parts, fmt.Sprintf("%v=%d:%d:%s:%s", k, v.ModEpochNanos, v.TombstoneSinceEpochNanos, c.label(v.PreviousRoot), val))
		if err := cur.Forward(ctxBG); err != nil {
			return "", err
		}
	}
	return strings.Join(parts, " "), nil
}

func (c *kvCase) fail(what string) {
	c.st.Fail(c.id, what, c.e.CaseOps())
}

// diff runs Diff(h, g), emits it for the model and checks it against the visible values.
func (c *kvCase) diff(h, g *kvHandle, keys []string) bool {
	var parts []string
	err := h.db.Diff(ctxBG, g.db, func(key, mine, from interface{}) (bool, error) {
		parts = append(parts, fmt.Sprintf("%v=%s:%s", key, optStr(mine), optStr(from)))
		return true, nil
	})
	if err != nil {
		// F32: mast compares the nil key of an empty root node (plain keys only)
		if strings.Contains(err.Error(), "keyCompare:") && (h.db.Size() == 0 || g.db.Size() == 0) && c.st.known("F32") {
			c.st.Count("diff_F32")
			return true
		}
		c.fail(fmt.Sprintf("diff %s %s: %v", h.name, g.name, err))
		return false
	}
	sort.Strings(parts)
	c.e.Op(fmt.Sprintf("kv diff %s %s", h.name, g.name), strings.Join(parts, " "))
	// implementation-only oracle: exactly the keys whose visible value differs
	for _, k := range keys {
		var a, b string
		a, b = c.visible(h.db, k), c.visible(g.db, k)
		reported := false
		for _, p := range parts {
			if strings.HasPrefix(p, k+"=") {
				reported = true
			}
		}
		if (a != b) != reported {
			c.fail(fmt.Sprintf("Diff(%s,%s) key %s: visible %q vs %q, reported=%v", h.name, g.name, k, a, b, reported))
		}
	}
	c.st.Count("diff")
	return true
}

// danglingKV: "" when the stored version `name` exists and every node it reaches exists
func danglingKV(store *fakes3.Store, name string) string {
	b, ok := store.Get("p/root/current/" + name)
	if !ok {
		if b, ok = store.Get("p/root/merged/" + name); !ok {
			return "version " + name + " is not stored"
		}
	}
	var root struct{ Link *string }
	if err := json.Unmarshal(b, &root); err != nil {
		return "version " + name + " does not decode"
	}
	if root.Link != nil {
		if _, ok := store.Get("p/node/" + *root.Link); !ok {
			return "version " + name + " refers to the missing node " + *root.Link
		}
	}
	return ""
}

func (c *kvCase) run(nops int) {
	keys := []string{"a", "b", "c", "d", "e", "f", "g", "h"}[:2+c.r.Intn(6)]
	defer func() {
		for _, h := range c.handles {
			h.db.Cancel() // a dirty handle that is garbage-collected panics the process
		}
	}()
	if _, err := c.open(false, nil); err != nil {
		c.fail("open: " + err.Error())
		return
	}
	for i := 0; i < nops; i++ {
		h := gen.Pick(c.r, c.handles)
		switch op := c.r.Intn(20); {
		case op < 6 && !h.ro: // set
			k := gen.Pick(c.r, keys)
			c.nextT++
			t := c.nextT*7919%100003 + 1000 // distinct, not monotone
			v := fmt.Sprintf("x%d", c.nextT)
			err := h.db.Set(ctxBG, time.Unix(0, t), k, v)
			c.e.Op(fmt.Sprintf("kv set %s %d %s %s", h.name, t, k, v), errStr(err))
			if c.sets[k] == nil {
				c.sets[k] = map[string]bool{}
			}
			c.sets[k][fmt.Sprintf("%d:%s", t, v)] = true
			c.st.Count("set")
		case op < 8 && !h.ro: // tombstone
			k := gen.Pick(c.r, keys)
			c.nextT++
			t := c.nextT*7919%100003 + 1000
			err := h.db.Tombstone(ctxBG, time.Unix(0, t), k)
			c.e.Op(fmt.Sprintf("kv tomb %s %d %s", h.name, t, k), errStr(err))
			c.shapes["tomb"] = true
			c.st.Count("tombstone")
		case op < 9 && !h.ro: // remove tombstones
			cut := int64(c.r.Intn(100003)) + 1000
			err := h.db.RemoveTombstones(ctxBG, time.Unix(0, cut))
			c.e.Op(fmt.Sprintf("kv rmtomb %s %d", h.name, cut), errStr(err))
			c.st.Count("rmtomb")
		case op < 12 && !h.ro: // commit
			if h.cl != nil && h.db.IsDirty() && c.r.Chance(1, 4) {
				// a commit attempt with one storage request failing. Nothing is emitted for the model: a failed
				// commit changes nothing, and the retry below must then be a real commit (F39)
				kind := gen.Pick(c.r, []string{"/root/current/", "/root/current/", "/node/", "/root/merged/"})
				hit := false
				h.cl.Fault = func(idx, midx int, op, key string) error {
					if !hit && op == "PUT" && strings.Contains(key, kind) {
						hit = true
						return awserr.New("InternalError", "injected fault", nil)
					}
					return nil
				}
				name, err := h.db.Commit(ctxBG)
				h.cl.Fault = nil
				c.st.Count("commit_with_fault" + strings.TrimSuffix(kind, "/"))
				switch {
				case hit && kind == "/root/merged/":
					// retiring the parents is best-effort: the commit itself stands
					if err != nil || name == nil {
						c.fail(fmt.Sprintf("commit whose retire PUT failed: %v", err))
						return
					}
					l := c.label(*name)
					c.e.Op(fmt.Sprintf("kv src %s %s", h.name, l), "ok")
					c.e.Op(fmt.Sprintf("kv clone %s ver:%s", h.name, l), "ok")
					continue
				case hit && err == nil:
					c.fail(fmt.Sprintf("Commit reports success although its PUT under %s failed", kind))
					return
				case hit && kind == "/node/":
					// the handle may refuse further commits, but it must never acknowledge one it did not store
					if n2, e2 := h.db.Commit(ctxBG); e2 != nil {
						if len(c.handles) == 1 {
							c.st.Count("commit_refused_after_flush_fault")
							h.db.Cancel()
							return
						}
						for j, g := range c.handles {
							if g == h {
								c.handles = append(c.handles[:j], c.handles[j+1:]...)
								break
							}
						}
						h.db.Cancel()
						c.st.Count("commit_refused_after_flush_fault")
						continue
					} else if n2 != nil {
						if d := danglingKV(c.store, *n2); d != "" {
							c.fail("a commit retried after a failed node PUT was acknowledged, but " + d)
							return
						}
						l := c.label(*n2)
						c.e.Op(fmt.Sprintf("kv src %s %s", h.name, l), "ok")
						c.e.Op(fmt.Sprintf("kv clone %s ver:%s", h.name, l), "ok")
						continue
					}
				}
				// version PUT failed (or the fault was not reached): fall through to the ordinary commit = the retry
			}
			name, err := h.db.Commit(ctxBG)
			if err != nil {
				c.fail("commit: " + err.Error())
				return
			}
			if name != nil {
				if _, ok1 := c.store.Get("p/root/current/" + *name); !ok1 {
					if _, ok2 := c.store.Get("p/root/merged/" + *name); !ok2 {
						c.fail("Commit acknowledged version " + *name + " but no such version object is stored")
						return
					}
				}
			}
			if name != nil {
				l := c.label(*name)
				c.e.Op(fmt.Sprintf("kv src %s %s", h.name, l), "ok")
				c.e.Op(fmt.Sprintf("kv clone %s ver:%s", h.name, l), "ok")
			}
			c.st.Count("commit")
		case op < 13 && !h.ro && len(c.handles) < 6: // clone
			db2, err := h.db.Clone(ctxBG)
			if err != nil {
				c.fail("clone: " + err.Error())
				return
			}
			h2 := &kvHandle{name: fmt.Sprintf("H%d", c.nextH), db: db2}
			c.nextH++
			c.handles = append(c.handles, h2)
			c.e.Op(fmt.Sprintf("kv clone %s %s", h.name, h2.name), "ok")
			c.st.Count("clone")
		case op < 15 && len(c.handles) < 6: // open another handle (merging what is current)
			ro := c.r.Chance(1, 3)
			multi := len(c.currentRoots()) > 1 // before the open: a read-write open retires what it merges
			if _, err := c.open(ro, nil); err != nil {
				c.fail("open: " + err.Error())
				return
			}
			if multi {
				c.shapes["multi"] = true
				// what the merge changed relative to every other handle (the writers it merged among them)
				nh := c.handles[len(c.handles)-1]
				for _, g := range c.handles[:len(c.handles)-1] {
					if !c.diff(nh, g, keys) {
						return
					}
				}
			}
		case op < 17: // get / istomb
			k := gen.Pick(c.r, keys)
			var cv crdt.Value
			ok, err := h.db.Get(ctxBG, k, &cv)
			exp := "none"
			if err != nil {
				exp = "ERR " + err.Error()
			} else if ok {
				exp = fmt.Sprintf("%d:%v", cv.ModEpochNanos, cv.Value)
			}
			c.e.Op(fmt.Sprintf("kv get %s %s", h.name, k), exp)
			tb, err := h.db.IsTombstoned(ctxBG, k)
			c.e.Op(fmt.Sprintf("kv istomb %s %s", h.name, k), fmt.Sprint(tb))
			c.st.Count("get")
		case op < 18: // dump
			d, err := c.dumpReal(h.db)
			if err != nil {
				c.fail("dump: " + err.Error())
				return
			}
			c.e.Op("kv dump "+h.name, d)
			c.st.Count("dump")
		default: // diff
			if !c.diff(h, gen.Pick(c.r, c.handles), keys) {
				return
			}
		}
	}
	// commit everything, then the order-independence oracle on the real code
	for _, h := range c.handles {
		if !h.ro {
			if name, err := h.db.Commit(ctxBG); err == nil && name != nil {
				l := c.label(*name)
				c.e.Op(fmt.Sprintf("kv src %s %s", h.name, l), "ok")
				c.e.Op(fmt.Sprintf("kv clone %s ver:%s", h.name, l), "ok")
			}
		}
	}
	n := len(c.currentRoots())
	var first string
	tries := 4
	if n <= 1 {
		tries = 1
	}
	for i := 0; i < tries; i++ {
		h, err := c.open(true, nil)
		if err != nil {
			c.fail("final open: " + err.Error())
			return
		}
		d, err := c.dumpReal(h.db)
		if err != nil {
			c.fail("final dump: " + err.Error())
			return
		}
		c.e.Op("kv dump "+h.name, d)
		if i == 0 {
			first = d
		} else if !c.custom && stripPrev(d) != stripPrev(first) {
			c.fail(fmt.Sprintf("merge order changes the result: %q vs %q", first, d))
		}
	}
	if n > 1 {
		c.st.Count("final_multi_version_merge")
	}
	// TraceHistory: against the Lean walk over the model's versions, plus oracles on the implementation
	if len(c.handles) > 0 {
		h := c.handles[len(c.handles)-1]
		for _, k := range keys {
			var times []int64
			var vals []string
			err := h.db.TraceHistory(ctxBG, k, time.Time{}, func(when time.Time, value interface{}) (bool, error) {
				times = append(times, when.UnixNano())
				vals = append(vals, optStr(value))
				return true, nil
			})
			if err != nil {
				c.fail("TraceHistory: " + err.Error())
				continue
			}
			c.st.Count("trace")
			var tr []string
			for i := range times {
				tr = append(tr, fmt.Sprintf("%d:%s", times[i], vals[i]))
			}
			c.e.Op(fmt.Sprintf("kv trace %s %s", h.name, k), strings.Join(tr, " "))
			if len(times) > 1 {
				c.shapes["trace>1"] = true
			}
			var cv crdt.Value
			ok, _ := h.db.Get(ctxBG, k, &cv)
			if ok && (len(times) == 0 || times[0] != cv.ModEpochNanos || vals[0] != fmt.Sprint(cv.Value)) {
				c.fail(fmt.Sprintf("TraceHistory(%s) does not start at the current value %d:%v: %v %v", k, cv.ModEpochNanos, cv.Value, times, vals))
			}
			for i := range times {
				if i > 0 && times[i] >= times[i-1] {
					c.fail(fmt.Sprintf("TraceHistory(%s) not strictly decreasing: %v", k, times))
				}
				if !c.custom && vals[i] != "-" && !c.sets[k][fmt.Sprintf("%d:%s", times[i], vals[i])] {
					c.fail(fmt.Sprintf("TraceHistory(%s) yields %d:%s which was never set", k, times[i], vals[i]))
				}
			}
		}
	}
	var sh []string
	for s := range c.shapes {
		sh = append(sh, s)
	}
	sort.Strings(sh)
	if len(sh) > 0 {
		c.st.Distinct(strings.Join(sh, "+") + "|" + first)
	}
}

func stripPrev(d string) string {
	// PreviousRoot is bookkeeping of the local handle, not part of the merged value
	parts := strings.Fields(d)
	for i, p := range parts {
		f := strings.Split(p, ":")
		if len(f) >= 4 {
			f[2] = "_"
			parts[i] = strings.Join(f, ":")
		}
	}
	return strings.Join(parts, " ")
}

func (c *kvCase) visible(db *kv.DB, k string) string {
	var cv crdt.Value
	ok, err := db.Get(ctxBG, k, &cv)
	if err != nil {
		return "ERR"
	}
	if !ok {
		return "-"
	}
	return fmt.Sprint(cv.Value)
}

func optStr(v interface{}) string {
	if v == nil {
		return "-"
	}
	return fmt.Sprint(v)
}

func errStr(err error) string {
	if err == nil {
		return "ok"
	}
	return "ERR " + err.Error()
}

func kvCmd(args []string) int {
	fs := flag.NewFlagSet("kv", flag.ExitOnError)
	seed := fs.Uint64("seed", 1, "")
	n := fs.Int("n", 100, "cases")
	outp := fs.String("out", "", "output prefix (writes <out>.ops <out>.exp <out>.stats.json)")
	kn := fs.String("known", "", "known finding ids")
	fs.Parse(args)
	setKnown(*kn)
	e := NewEmitter(*outp+".ops", *outp+".exp")
	st := NewStats("kv", *seed)
	st.Rule = "random kv histories over 1-6 handles (Set/Tombstone/RemoveTombstones/Commit/Clone/Open with a chosen merge order/Get/Diff/dump) with distinct times; a case is non-trivial when it contains a tombstone, an open that merges 2+ versions, or a trace longer than 1; distinct = different final dump or shape"
	root := gen.New(*seed)
	for i := 0; i < *n; i++ {
		r := root.Fork(i)
		c := &kvCase{e: e, st: st, r: r, store: fakes3.NewStore(), labels: map[string]string{}, sets: map[string]map[string]bool{}, id: fmt.Sprintf("kv-%d-%d", *seed, i), shapes: map[string]bool{}}
		c.cfg = kv.Config{
			Storage:      &kv.S3BucketInfo{EndpointURL: "http://fake", BucketName: "b", Prefix: "p"},
			KeysLike:     "",
			ValuesLike:   "",
			BranchFactor: uint(gen.Pick(r, []int{2, 3, 4, 16})),
		}
		if r.Chance(1, 4) {
			// custom-merge mode: metadata by LastWriteWins, payloads joined in lexicographic order
			c.custom = true
			c.cfg.CustomMerge = func(_ interface{}, v1, v2 crdt.Value) crdt.Value {
				res := *crdt.LastWriteWins(&v1, &v2)
				x, ok1 := v1.Value.(string)
				y, ok2 := v2.Value.(string)
				if ok1 && ok2 && !v1.Tombstoned() && !v2.Tombstoned() {
					if x < y {
						res.Value = x + "+" + y
					} else {
						res.Value = y + "+" + x
					}
				}
				return res
			}
			st.Count("mode_custom_merge")
		} else if r.Chance(1, 3) {
			c.cfg.OnConflictMerged = func(key, v1, v2 interface{}) error { c.nconfl++; return nil }
			st.Count("mode_conflict_callback")
		} else {
			st.Count("mode_default")
		}
		e.Case(c.id)
		c.run(8 + r.Intn(30))
		st.Cases++
		if i < 2 {
			st.Sample(e.CaseOps())
		}
	}
	st.Evaluations = e.Lines
	e.Close()
	st.Write(*outp + ".stats.json")
	fmt.Printf("kv: %d cases, %d lines, %d oracle failures\n", st.Cases, e.Lines, len(st.Failures))
	return 0
}
