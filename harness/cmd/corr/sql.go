package main

import (
	"database/sql"
	"flag"
	"fmt"
	"math"
	"os"
	"strings"
	"time"

	"github.com/jrhy/s3db"

	"verif/harness/fakes3"
	"verif/harness/gen"
	"verif/harness/sqlh"
)

func init() { cmds["sql"] = sqlCmd }

var sqlKeyPool = []any{
	int64(0), int64(1), int64(2), int64(3), int64(4), int64(5), int64(7), int64(8), int64(9), int64(15), int64(16), int64(17), int64(64), int64(-1), int64(-16),
	int64(1) << 53, int64(1)<<53 + 1, int64(math.MaxInt64), int64(math.MinInt64),
	0.5, 1.5, -2.5, 3.14, 1e10, 1e300, -1e300, math.Inf(1), math.Inf(-1),
	"a", "b", "ab", "abc", "B", "é", "zz", "10", "9", "A", "ABC", "Abd", "b  ",
	[]byte("a"), []byte{0}, []byte{0, 1}, []byte{255}, []byte("ab"),
}

// twins of stored integer keys, used as query operands only (storing both is finding F9)
var sqlTwinOperands = []any{4.0, 16.0, float64(int64(1) << 53), 0.0, 1.0, math.Copysign(0, -1), 9223372036854775808.0, 2.0000000000000004}

func sqlKey(r *gen.Rng, operand bool) any {
	if operand && r.Chance(1, 8) {
		return gen.Pick(r, sqlTwinOperands)
	}
	return gen.Pick(r, sqlKeyPool)
}

func sqlVal(r *gen.Rng) any {
	switch r.Intn(9) {
	case 0:
		return nil
	case 1:
		return int64(r.Intn(100) - 50)
	case 2:
		return float64(r.Intn(100)) / 4
	case 3:
		return fmt.Sprintf("s%d", r.Intn(50))
	case 4:
		return []byte{byte(r.Intn(256)), byte(r.Intn(256))}
	case 5:
		return gen.Pick(r, []any{int64(math.MaxInt64), int64(math.MinInt64), math.Copysign(0, -1), math.SmallestNonzeroFloat64, math.MaxFloat64, math.Inf(-1), "é€😀", "a\x00b", []byte{}, []byte{0}, 1e-320, int64(1)<<53 + 1})
	case 6:
		return strings.Repeat("x", r.Intn(300))[0:] + "y"
	}
	return int64(r.U64())
}

type sqlProg struct {
	st        *Stats
	r         *gen.Rng
	id        string
	db        *sql.DB
	bucket    string
	store     *fakes3.Store
	epn       int
	cache     int
	cur       string
	notNullB  bool
	log       []string
	failedStm bool // a statement failed (was rolled back) at some point of this program
	inTx      bool
	txWrote   bool
	aborted   bool
	wt        int
}

func (p *sqlProg) note(s string) {
	p.log = append(p.log, s)
	progressLine(s)
	if tq := os.Getenv("CORR_TRACE"); tq != "" && !strings.HasPrefix(s, "entries_per_node") {
		progressLine("   TRACE s3db:   " + sqlh.QS(p.db, strings.ReplaceAll(tq, "%T", `"`+p.cur+`"`)))
		progressLine("   TRACE native: " + sqlh.QS(p.db, strings.ReplaceAll(tq, "%T", "n")))
	}
}

func (p *sqlProg) fail(what string) {
	p.st.Fail(p.id, what, append([]string(nil), p.log[max(0, len(p.log)-40):]...))
	p.aborted = true
}

func (p *sqlProg) cols() string {
	if p.notNullB {
		return "k primary key, a, b not null"
	}
	return "k primary key, a, b"
}

func (p *sqlProg) mk() bool {
	p.cur = "t" + sqlh.Uniq()
	err := sqlh.Exec(p.db, sqlh.CreateSQL(sqlh.TableOpts{Name: p.cur, Bucket: p.bucket, Prefix: "p", Columns: p.cols(), EntriesPerNode: p.epn, NodeCache: p.cache}))
	if err != nil {
		p.fail("create: " + err.Error())
		return false
	}
	// failedStm is NOT reset: a phantom row left by a failed statement (F24) is published by the next
	// successful commit, so it survives a re-open (sql-5-347: the first query that showed it came after one)
	return true
}

func (p *sqlProg) height() int {
	if vt := s3db.GetTable(p.cur); vt != nil && vt.Tree != nil {
		return vt.Tree.Root.Height()
	}
	return 0
}

func class(err error) string {
	c := sqlh.ErrClass(err)
	if strings.HasPrefix(c, "constraint") {
		return "constraint"
	}
	return c
}

// both runs a statement on the s3db table and on the native twin and compares the outcome class
func (p *sqlProg) both(q string, args ...any) {
	progressLine(fmt.Sprintf("EXEC height=%d %s %v", p.height(), q, argStr(args)))
	if !strings.Contains(q, "%T") {
		// BEGIN/COMMIT/ROLLBACK: one connection holds both tables, so one statement covers both
		err := sqlh.Exec(p.db, q)
		p.note(fmt.Sprintf("%s -> %s", q, class(err)))
		p.st.Evaluations++
		if err != nil {
			p.fail(fmt.Sprintf("%s failed: %v", q, err))
		}
		return
	}
	es := sqlh.Exec(p.db, strings.ReplaceAll(q, "%T", `"`+p.cur+`"`), args...)
	en := sqlh.Exec(p.db, strings.ReplaceAll(q, "%T", "n"), args...)
	p.note(fmt.Sprintf("%s %v -> %s (native %s)", q, argStr(args), class(es), class(en)))
	p.st.Evaluations++
	if es != nil {
		p.failedStm = true // in autocommit a failing statement is rolled back by SQLite (xRollback)
	}
	if class(es) != class(en) {
		// F24 (see compareQuery): a phantom row left by an earlier rollback makes a later INSERT of that key fail
		// (the native INSERT has succeeded by now, so the phantom shows as: s3db refuses the key, and afterwards
		// both tables hold the same keys — or s3db still holds extra ones)
		if p.failedStm && p.height() >= 1 && strings.HasPrefix(q, "insert") && class(es) == "constraint" && en == nil &&
			(p.phantomOnly() || p.sameKeys()) && p.st.known("F24") {
			p.st.Count("known_F24")
			p.aborted = true
			return
		}
		p.fail(fmt.Sprintf("statement outcome differs: %s %v: s3db %v, native %v", q, argStr(args), es, en))
	}
	if class(es) == "constraint" {
		p.st.Count("constraint_failure")
	}
}

func argStr(args []any) string {
	var out []string
	for _, a := range args {
		out = append(out, sqlh.Canon(normArg(a)))
	}
	return "[" + strings.Join(out, " ") + "]"
}

func normArg(a any) any {
	switch x := a.(type) {
	case int:
		return int64(x)
	}
	return a
}

func (p *sqlProg) compareQuery(q string, args ...any) {
	progressLine(fmt.Sprintf("QUERY height=%d cache=%d %s %v", p.height(), p.cache, q, argStr(args)))
	s := sqlh.QS(p.db, strings.ReplaceAll(q, "%T", `"`+p.cur+`"`), args...)
	n := sqlh.QS(p.db, strings.ReplaceAll(q, "%T", "n"), args...)
	p.st.Evaluations++
	p.note(fmt.Sprintf("%s %v", q, argStr(args)))
	if s != n {
		desc := strings.Contains(q, " desc") || strings.Contains(q, "max(")
		// F12: mast's Cursor.Backward is wrong on multi-level trees (dependency)
		if desc && p.height() >= 1 && p.st.known("F12") {
			p.st.Count("known_F12")
			return
		}
		// F24: mast writes a new child link into a shared node before copy-on-write, so the snapshot taken at
		// BEGIN sees rows of a rolled-back transaction/statement (dependency). Signature: something was rolled
		// back on this connection since the table was opened, the tree has height >= 1, and the only difference
		// is rows that exist in s3db but not in the native twin.
		if os.Getenv("SQL_TRACE") != "" {
			a, _ := sqlh.Query(p.db, `select k from "`+p.cur+`" order by k`)
			b, _ := sqlh.Query(p.db, `select k from n order by k`)
			fmt.Fprintln(os.Stderr, "TRACE failedStm", p.failedStm, "height", p.height(), "phantomOnly", p.phantomOnly(), "s3db", a, "native", b)
		}
		if p.failedStm && p.height() >= 1 && p.phantomOnly() && p.st.known("F24") {
			p.st.Count("known_F24")
			p.aborted = true
			return
		}
		if p.cache > 0 && p.height() >= 2 && p.st.known("F22") {
			p.st.Count("known_F22")
			p.aborted = true
			return
		}
		p.fail(fmt.Sprintf("query differs from native (height %d, entries_per_node %d, cache %d): %s %v: %s", p.height(), p.epn, p.cache, q, argStr(args), firstDiff(s, n)))
	}
}

func (p *sqlProg) setWT() {
	sqlh.Exec(p.db, "update s3db_conn set write_time=?", sqlh.TimeStr(p.wt))
}

func (p *sqlProg) run(nops int) {
	defer func() {
		if p.inTx {
			sqlh.Exec(p.db, "rollback")
		}
		p.db.Close()
		sqlh.DropBucket(p.bucket)
	}()
	if !p.mk() {
		return
	}
	nn := ""
	if p.notNullB {
		nn = " not null"
	}
	if err := sqlh.Exec(p.db, "create table n(k primary key, a, b"+nn+") without rowid"); err != nil {
		p.fail(err.Error())
		return
	}
	stored := map[string]bool{} // numeric keys stored so far, to avoid INT/REAL twins (F9)
	twinOK := func(k any) bool {
		var f float64
		switch x := k.(type) {
		case int64:
			f = float64(x)
			if stored[fmt.Sprintf("R%v", f)] {
				return false
			}
			stored[fmt.Sprintf("I%v", f)] = true
		case float64:
			f = x
			if stored[fmt.Sprintf("I%v", f)] {
				return false
			}
			stored[fmt.Sprintf("R%v", f)] = true
		}
		return true
	}
	ops := []string{"=", "<", "<=", ">", ">="}
	for i := 0; i < nops && !p.aborted; i++ {
		// transactions
		if !p.inTx && p.r.Chance(1, 7) {
			p.wt++
			p.setWT()
			p.both("begin")
			p.inTx, p.txWrote = true, false
			p.st.Count("begin")
		} else if p.inTx && p.r.Chance(1, 4) {
			e := gen.Pick(p.r, []string{"commit", "rollback"})
			before := len(p.store.Keys("p/s3db-rows/root/"))
			puts0 := countPuts(p.store, "root/current/")
			p.both(e)
			if e == "rollback" {
				p.failedStm = true
			}
			p.inTx = false
			p.st.Count(e)
			after := len(p.store.Keys("p/s3db-rows/root/"))
			puts1 := countPuts(p.store, "root/current/")
			if e == "rollback" && (after != before || puts1 != puts0) {
				p.fail("ROLLBACK left a new version in the bucket")
			}
			if e == "commit" && puts1-puts0 > 1 {
				p.fail(fmt.Sprintf("COMMIT published %d versions", puts1-puts0))
			}
			p.compareQuery("select k,a,b,typeof(k),typeof(a),typeof(b) from %T order by k")
			if p.aborted && e == "rollback" {
				// F24: rows of a rolled-back transaction survive on multi-level trees after a failed statement (mast aliasing)
			}
			continue
		}
		if !p.inTx {
			if p.r.Chance(2, 3) {
				p.wt++
			}
			p.setWT()
		}
		switch x := p.r.Intn(24); {
		case x < 7:
			k := sqlKey(p.r, false)
			if !twinOK(k) {
				continue
			}
			b := sqlVal(p.r)
			if p.notNullB && p.r.Chance(3, 4) && b == nil {
				b = int64(1)
			}
			p.both("insert into %T values (?,?,?)", k, sqlVal(p.r), b)
			p.st.Count("insert")
		case x < 8 && !p.inTx: // multi-row insert (statement atomicity in autocommit)
			k1, k2 := sqlKey(p.r, false), sqlKey(p.r, false)
			if !twinOK(k1) || !twinOK(k2) {
				continue
			}
			p.both("insert into %T values (?,?,?),(?,?,?)", k1, sqlVal(p.r), int64(1), k2, sqlVal(p.r), int64(2))
			p.st.Count("insert_multi")
		case x < 9:
			p.both("insert into %T(k,b) values (?,?)", func() any {
				k := sqlKey(p.r, false)
				if !twinOK(k) {
					return int64(12345)
				}
				return k
			}(), int64(7))
			p.st.Count("insert_partial_columns")
		case x < 12:
			p.both("update %T set a=? where k=?", sqlVal(p.r), sqlKey(p.r, true))
			p.st.Count("update")
		case x < 14:
			b := sqlVal(p.r)
			if p.notNullB && b == nil && p.r.Chance(1, 2) {
				b = "z"
			}
			p.both("update %T set b=? where k>=? and k<?", b, sqlKey(p.r, true), sqlKey(p.r, true))
			p.st.Count("update_range")
		case x < 15:
			p.both("update %T set a=?, b=coalesce(b,0) where k "+gen.Pick(p.r, ops)+" ?", sqlVal(p.r), sqlKey(p.r, true))
			p.st.Count("update_two_columns")
		case x < 18:
			p.both("delete from %T where k=?", sqlKey(p.r, true))
			p.st.Count("delete")
		case x < 19:
			p.both("delete from %T where k>? and k<=?", sqlKey(p.r, true), sqlKey(p.r, true))
			p.st.Count("delete_range")
		default:
			var w string
			var qa []any
			switch p.r.Intn(13) {
			case 11:
				// a comparison under another collation: the bytewise tree order cannot narrow it (F62)
				w, qa = "where k "+gen.Pick(p.r, ops)+" ? collate "+gen.Pick(p.r, []string{"nocase", "rtrim", "binary"}), []any{gen.Pick(p.r, []any{"A", "a", "AB", "abc", "ABC", "b  ", "B", "zz", "Zz"})}
			case 12:
				w, qa = "where k >= ? collate nocase and k < ? collate nocase", []any{gen.Pick(p.r, []any{"a", "A", "ab"}), gen.Pick(p.r, []any{"C", "c", "zz"})}
			case 0:
				w, qa = "where k "+gen.Pick(p.r, ops)+" ?", []any{sqlKey(p.r, true)}
			case 1:
				w, qa = "where k "+ops[1+p.r.Intn(4)]+" ? and k "+ops[1+p.r.Intn(4)]+" ?", []any{sqlKey(p.r, true), sqlKey(p.r, true)}
			case 2:
				w, qa = "where k in (?,?,?)", []any{sqlKey(p.r, true), sqlKey(p.r, true), sqlKey(p.r, true)}
			case 3:
				w = ""
			case 4:
				w, qa = "where a is not null and k > ?", []any{sqlKey(p.r, true)}
			case 5:
				w, qa = "where a "+gen.Pick(p.r, ops)+" ? and k "+gen.Pick(p.r, ops)+" ?", []any{sqlVal(p.r), sqlKey(p.r, true)}
			case 6:
				w, qa = "where b is not null and a "+gen.Pick(p.r, ops)+" ? and k "+ops[1+p.r.Intn(4)]+" ? and k "+ops[1+p.r.Intn(4)]+" ?", []any{sqlVal(p.r), sqlKey(p.r, true), sqlKey(p.r, true)}
			case 7:
				w, qa = "where a = ? or k = ? or k > ?", []any{sqlVal(p.r), sqlKey(p.r, true), sqlKey(p.r, true)}
			case 8:
				w, qa = "where k in (select k from %T where k > ?) and a is not null", []any{sqlKey(p.r, true)}
			case 9:
				w, qa = "where k between ? and ?", []any{sqlKey(p.r, true), sqlKey(p.r, true)}
			case 10:
				w, qa = "where k = ? or k is null", []any{nil}
			}
			ord := gen.Pick(p.r, []string{" order by k", " order by k limit 3", " order by k desc", " order by k desc limit 2", " order by typeof(a), k", " order by typeof(b) desc, k limit 4 offset 1", " order by k, a"})
			sel := gen.Pick(p.r, []string{"k,a,b,typeof(k),typeof(a),hex(b)", "count(*), min(k), max(k)", "k"})
			if strings.HasPrefix(sel, "count") {
				ord = ""
			}
			q := "select " + sel + " from %T " + w + ord
			if strings.Contains(ord, "desc") || strings.Contains(sel, "max(") {
				p.st.Count("query_desc")
			} else {
				p.st.Count("query_asc")
			}
			p.compareQuery(q, qa...)
			continue
		}
		if p.aborted {
			break
		}
		if !p.inTx && p.r.Chance(1, 6) {
			p.compareQuery("select k,a,b,typeof(k),typeof(a),typeof(b),hex(a) from %T order by k")
			if p.aborted {
				break
			}
			// C16: a fresh process (new connection, empty cache) reads the same table from the bucket alone
			rd := sqlh.Open()
			t2 := "t" + sqlh.Uniq()
			if err := sqlh.Exec(rd, sqlh.CreateSQL(sqlh.TableOpts{Name: t2, Bucket: p.bucket, Prefix: "p", Columns: p.cols(), ReadOnly: true})); err != nil {
				p.fail("fresh reader cannot open the committed table: " + err.Error())
			} else {
				a := sqlh.QS(rd, `select k,a,b,typeof(k),typeof(a),typeof(b) from "`+t2+`" order by k`)
				b := sqlh.QS(p.db, `select k,a,b,typeof(k),typeof(a),typeof(b) from n order by k`)
				if a != b {
					p.fail("fresh reader sees different rows than were committed: " + firstDiff(a, b))
				}
				p.st.Count("fresh_reader_checked")
			}
			rd.Close()
		}
		if !p.inTx && p.r.Chance(1, 15) {
			// close and re-open the table (same prefix)
			sqlh.Exec(p.db, `drop table "`+p.cur+`"`)
			if !p.mk() {
				return
			}
			p.note("REOPEN")
			p.st.Count("reopen")
		}
	}
	if p.aborted {
		return
	}
	if p.inTx {
		p.both("rollback")
		p.failedStm = true // the F24 signature applies to this rollback like to any other
		p.inTx = false
	}
	p.compareQuery("select k,a,b,typeof(k),typeof(a),typeof(b),hex(a),hex(b) from %T order by k")
	if rw := p.store.Rewritten(); len(rw) > 0 {
		p.fail(fmt.Sprintf("stored objects were re-written with different bytes: %v", rw))
	}
	p.st.Count(fmt.Sprintf("height_%d", p.height()))
	p.st.Distinct(fmt.Sprintf("%d|%s", p.epn, strings.Join(p.log[max(0, len(p.log)-3):], "|")))
}

func countPuts(s *fakes3.Store, frag string) int {
	n := 0
	for _, r := range s.Log() {
		if r.Op == "PUT" && strings.Contains(r.Key, frag) && r.Err == "" {
			n++
		}
	}
	return n
}

func sqlCmd(args []string) int {
	fs := flag.NewFlagSet("sql", flag.ExitOnError)
	seed := fs.Uint64("seed", 1, "")
	n := fs.Int("n", 100, "programs")
	outp := fs.String("out", "", "")
	kn := fs.String("known", "", "")
	fs.Parse(args)
	setKnown(*kn)
	st := NewStats("sql", *seed)
	st.Rule = "single-writer SQL programs (40-160 statements: INSERT incl. multi-row and partial-column, UPDATE/DELETE by key and by range, BEGIN/COMMIT/ROLLBACK, SELECT with =,<,<=,>,>=,IN,BETWEEN,OR,sub-select, ASC/DESC/LIMIT/OFFSET/aggregates, non-key constraints before key constraints) over keys and values of all storage classes, non-decreasing write times (constant inside transactions), entries_per_node in {2,3,4,7,16,4096}, node cache on/off, re-opens; every statement outcome and query result is compared with a native WITHOUT ROWID twin table in the same connection; a fresh read-only connection re-reads the table after commits; ROLLBACK must leave no version, COMMIT at most one; each program runs in a child process so that a panic inside an SQLite callback is caught; non-trivial/distinct = distinct program (all are non-trivial)"
	isChild, from, to := childRange()
	if !isChild {
		NewEmitter(*outp+".ops", *outp+".exp").Close()
		isolate(st, *n, *outp, 20*time.Second, func(idx int, lines []string, output string) bool {
			last := ""
			if len(lines) > 0 {
				last = lines[len(lines)-1]
			}
			// F12: mast's Cursor.Backward on multi-level trees (dependency): wrong rows or an index panic inside mast's cursor
			if strings.HasPrefix(last, "QUERY") && !strings.Contains(last, "height=0") && (strings.Contains(last, " desc") || strings.Contains(last, "max(")) &&
				strings.Contains(output, "mast.(*Cursor)") && st.known("F12") {
				st.Count("known_F12_panic")
				return true
			}
			return false
		})
		st.Write(*outp + ".stats.json")
		fmt.Printf("sql: %d programs, %d evaluations, %d oracle failures\n", st.Cases, st.Evaluations, len(st.Failures))
		return 0
	}
	openProgress(*outp)
	root := gen.New(*seed)
	for i := from; i < to; i++ {
		r := root.Fork(i)
		b, store := sqlh.Bucket()
		p := &sqlProg{st: st, r: r, id: fmt.Sprintf("sql-%d-%d", *seed, i), db: sqlh.Open(), bucket: b, store: store,
			epn: gen.Pick(r, []int{2, 3, 4, 7, 16, 4096}), notNullB: r.Chance(1, 3)}
		if p.epn >= 16 && r.Bool() {
			p.cache = 64
		}
		progressLine(fmt.Sprintf("CASE %d", i))
		p.note(fmt.Sprintf("entries_per_node=%d node_cache_entries=%d columns=%s", p.epn, p.cache, p.cols()))
		p.run(40 + r.Intn(120))
		st.Cases++
		if i < 1 {
			st.Sample(p.log[:min(len(p.log), 25)])
		}
		st.Write(*outp + ".child.json")
	}
	return 0
}

// firstDiff shows the first row in which two rendered results differ.
func firstDiff(s, n string) string {
	a, b := strings.Split(s, " | "), strings.Split(n, " | ")
	for i := 0; i < len(a) || i < len(b); i++ {
		x, y := "<no row>", "<no row>"
		if i < len(a) {
			x = a[i]
		}
		if i < len(b) {
			y = b[i]
		}
		if x != y {
			return fmt.Sprintf("row %d of %d/%d: s3db %.200s, native %.200s", i, len(a), len(b), x, y)
		}
	}
	return "identical"
}

// phantomOnly: every key of the native twin is in the s3db table, and the s3db table has more.
func (p *sqlProg) phantomOnly() bool {
	a, e1 := sqlh.Query(p.db, `select k from "`+p.cur+`" order by k`)
	b, e2 := sqlh.Query(p.db, `select k from n order by k`)
	if e1 != nil || e2 != nil || len(a) <= len(b) {
		return false
	}
	have := map[string]bool{}
	for _, r := range a {
		have[r[0]] = true
	}
	for _, r := range b {
		if !have[r[0]] {
			return false
		}
	}
	return true
}

// sameKeys: the s3db table and the native twin hold exactly the same keys.
func (p *sqlProg) sameKeys() bool {
	a, e1 := sqlh.Query(p.db, `select k from "`+p.cur+`" order by k`)
	b, e2 := sqlh.Query(p.db, `select k from n order by k`)
	if e1 != nil || e2 != nil || len(a) != len(b) {
		return false
	}
	for i := range a {
		if a[i][0] != b[i][0] {
			return false
		}
	}
	return true
}
