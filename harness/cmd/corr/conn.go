package main

import (
	"flag"
	"fmt"
	"strings"
	"time"

	"github.com/jrhy/s3db"

	"verif/harness/gen"
	"verif/harness/sqlh"
)

func init() { cmds["conn"] = connCmd }

var connDeadlineBase = time.Date(2099, 1, 1, 0, 0, 0, 0, time.UTC)

func connCmd(args []string) int {
	fs := flag.NewFlagSet("conn", flag.ExitOnError)
	seed := fs.Uint64("seed", 1, "")
	n := fs.Int("n", 60, "cases")
	outp := fs.String("out", "", "")
	kn := fs.String("known", "", "")
	fs.Parse(args)
	setKnown(*kn)
	e := NewEmitter(*outp+".ops", *outp+".exp")
	st := NewStats("conn", *seed)
	st.Rule = "random sequences on one connection of: UPDATE s3db_conn (deadline and/or write_time: a value, NULL, '' , malformed, or not mentioned), BEGIN/COMMIT/ROLLBACK, INSERTs into the table or into a second table of the connection (whose stored write time is read back from the tree), s3db_refresh (allowed or refused), SELECT * FROM s3db_conn; write_time values include well-formed times outside 1677..2262; the outcome of every UPDATE, every read-back and the stamp of every statement (explicit value, or a clock reading and whether it equals the previous statement's) are compared with the Lean connection model; non-trivial = contains a transaction and an attribute change; distinct = distinct sequence"
	root := gen.New(*seed)
	for ci := 0; ci < *n; ci++ {
		r := root.Fork(ci)
		id := fmt.Sprintf("conn-%d-%d", *seed, ci)
		e.Case(id)
		db := sqlh.Open()
		b, _ := sqlh.Bucket()
		tname := "t" + sqlh.Uniq()
		if err := sqlh.Exec(db, sqlh.CreateSQL(sqlh.TableOpts{Name: tname, Bucket: b, Prefix: "p", Columns: "k primary key, a"})); err != nil {
			st.Fail(id, err.Error(), nil)
			continue
		}
		// a second table on the connection: a transaction that has written to it only has fixed the write
		// time without making the first table dirty (what tells F58's refusal from the dirty-tree refusal)
		lname := "l" + sqlh.Uniq()
		if err := sqlh.Exec(db, sqlh.CreateSQL(sqlh.TableOpts{Name: lname, Bucket: b, Prefix: "log", Columns: "k primary key, a"})); err != nil {
			st.Fail(id, err.Error(), nil)
			continue
		}
		e.Op("conn reset", "ok")
		inTx, begun := false, false
		begunOn := map[string]bool{}
		var lastStamp int64 = -1
		nextKey := 0
		explicit := map[string]string{} // rendered time -> model int
		hadTx, hadSet := false, false
		canonTime := func(v string) string {
			if v == "N" {
				return "N"
			}
			if m, ok := explicit[v]; ok {
				return m
			}
			return "clock"
		}
		refresh := func() {
			_, err := sqlh.Query(db, "select s3db_refresh(?)", tname)
			res := "ok"
			if err != nil {
				res = "err"
			}
			e.Op("conn refresh", res)
			st.Count("refresh_" + res)
		}
		for i := 0; i < 10+r.Intn(25); i++ {
			switch op := r.Intn(12); {
			case op < 4: // UPDATE s3db_conn
				pick := func(isDeadline bool) (model string, sqlFrag string, arg any, mention bool) {
					switch r.Intn(6) {
					case 0:
						return "x", "", nil, false
					case 1:
						return "-", "", nil, true
					case 2:
						return "-", "", "", true
					case 3:
						if !isDeadline && r.Intn(2) == 0 {
							// well-formed, but outside what 64-bit nanoseconds express (F74): refused like a malformed one
							return "bad", "", gen.Pick(r, []string{"9999-12-31 23:59:59", "2262-04-12 00:00:00", "1677-09-21 00:00:00", "1000-01-01 00:00:00"}), true
						}
						return "bad", "", gen.Pick(r, []string{"garbage", "2020-13-45 00:00:00", "12:00"}), true
					}
					k := r.Intn(1000)
					var s string
					if isDeadline {
						s = connDeadlineBase.Add(time.Duration(k) * time.Second).Format(s3db.SQLiteTimeFormat)
					} else {
						s = sqlh.TimeStr(k)
					}
					explicit["T:"+fmt.Sprintf("%x", s)] = fmt.Sprint(k)
					return fmt.Sprint(k), "", s, true
				}
				dm, _, da, dmen := pick(true)
				wm, _, wa, wmen := pick(false)
				if !dmen && !wmen {
					continue
				}
				var sets []string
				var sargs []any
				if dmen {
					sets = append(sets, "deadline=?")
					sargs = append(sargs, da)
				}
				if wmen {
					sets = append(sets, "write_time=?")
					sargs = append(sargs, wa)
				}
				err := sqlh.Exec(db, "update s3db_conn set "+strings.Join(sets, ", "), sargs...)
				res := "ok"
				if err != nil {
					res = "err"
				}
				e.Op(fmt.Sprintf("conn set %s %s", dm, wm), res)
				st.Count("set_" + res)
				hadSet = true
			case op < 6 && !inTx:
				sqlh.Exec(db, "begin")
				inTx, begun = true, false
				begunOn = map[string]bool{}
				st.Count("begin")
				hadTx = true
			case op < 8 && inTx:
				sqlh.Exec(db, gen.Pick(r, []string{"commit", "rollback"}))
				inTx = false
				if begun {
					e.Op("conn end", "ok")
				}
				st.Count("end")
			case op == 8 && r.Intn(2) == 0: // s3db_refresh: refused under a write time fixed at BEGIN, and over uncommitted rows
				refresh()
			case op < 10: // a statement
				target, opName := tname, "conn stmt"
				if r.Intn(3) == 0 {
					target, opName = lname, "conn stmt other"
				}
				if inTx && !begunOn[target] {
					// SQLite calls xBegin of a table when the table is first written in the transaction
					e.Op("conn begin", "ok")
					begun, begunOn[target] = true, true
				}
				if !inTx {
					e.Op("conn begin", "ok")
				}
				nextKey++
				time.Sleep(20 * time.Microsecond)
				if err := sqlh.Exec(db, fmt.Sprintf(`insert into "%s" values(?,?)`, target), nextKey, "v"); err != nil {
					st.Fail(id, "insert: "+err.Error(), e.CaseOps())
					break
				}
				stamp := entries2(target, nextKey)
				exp := ""
				sec := time.Unix(0, stamp).UTC().Format(s3db.SQLiteTimeFormat)
				if m, ok := explicit["T:"+fmt.Sprintf("%x", sec)]; ok && stamp%1_000_000_000 == 0 {
					exp = "t=" + m
				} else {
					same := 0
					if stamp == lastStamp {
						same = 1
					}
					exp = fmt.Sprintf("clock same=%d", same)
				}
				lastStamp = stamp
				e.Op(opName, exp)
				if inTx && target == lname && r.Bool() {
					// the transaction has fixed its write time; has it written to the first table?
					refresh()
				}
				if !inTx {
					e.Op("conn end", "ok")
				}
				st.Count("stmt")
			default:
				rows, err := sqlh.Query(db, "select deadline, write_time from s3db_conn")
				if err != nil || len(rows) != 1 {
					st.Fail(id, fmt.Sprintf("read s3db_conn: %v", err), e.CaseOps())
					break
				}
				e.Op("conn read", canonTime(rows[0][0])+" "+canonTime(rows[0][1]))
				st.Count("read")
			}
		}
		if inTx {
			sqlh.Exec(db, "rollback")
		}
		db.Close()
		sqlh.DropBucket(b)
		st.Cases++
		if hadTx && hadSet {
			st.Distinct(strings.Join(e.CaseOps(), "|"))
		}
		if ci < 2 {
			st.Sample(e.CaseOps())
		}
	}
	st.Evaluations = e.Lines
	e.Close()
	st.Write(*outp + ".stats.json")
	fmt.Printf("conn: %d cases, %d lines\n", st.Cases, e.Lines)
	return 0
}

// entries2 returns the stored write time (ns) of the row with the given integer key
func entries2(table string, key int) int64 {
	for k, v := range entriesFull(table) {
		if k == fmt.Sprintf("I:%d", key) {
			return v
		}
	}
	return -1
}
