package main

import (
	"context"
	"flag"
	"fmt"
	"strings"
	"time"

	"github.com/jrhy/s3db"
	v1proto "github.com/jrhy/s3db/proto/v1"
	"github.com/jrhy/s3db/writetime"

	"verif/harness/gen"
	"verif/harness/sqlh"
)

func init() { cmds["scan"] = scanCmd }

var scanKeyPool = []any{int64(0), int64(1), int64(2), int64(3), int64(5), int64(8), int64(13), int64(21), int64(-7), int64(100), int64(1) << 53, 0.5, 2.5, -1.5, 7.25, 1e10, "a", "ab", "b", "zz", []byte{0}, []byte{1, 2}, []byte{255}}
var scanOperandExtra = []any{int64(4), int64(6), int64(50), int64(-100), 3.0, 13.0, 0.0, 4.5, "aa", "c", "", []byte{}, []byte{9}, int64(1)<<53 + 1}

func scanCmd(args []string) int {
	fs := flag.NewFlagSet("scan", flag.ExitOnError)
	seed := fs.Uint64("seed", 1, "")
	n := fs.Int("n", 60, "tables")
	outp := fs.String("out", "", "")
	kn := fs.String("known", "", "")
	fs.Parse(args)
	setKnown(*kn)
	e := NewEmitter(*outp+".ops", *outp+".exp")
	st := NewStats("scan", *seed)
	st.Rule = "tables of 0-20 keys of mixed storage classes (some rows deleted, entries_per_node in {2,4,4096}) built through VirtualTable.Insert/Delete; for each, 25 scans: a random list of 0-4 constraints (=,<,<=,>=,> on the key with operands that are stored keys, absent values, numeric twins; constraints on other columns and unusable ones mixed in) and a direction go through the real BestIndex -> Filter -> Next/Eof/Column exactly as the SQLite glue calls them, and the keys returned (BEFORE SQLite's re-check) are compared with the Lean model's scan; descending scans only on single-node trees (finding F12); non-trivial = at least one key constraint; distinct = distinct (entries, constraints, direction)"
	root := gen.New(*seed)
	ctx := context.Background()
	for ti := 0; ti < *n; ti++ {
		r := root.Fork(ti)
		id := fmt.Sprintf("scan-%d-%d", *seed, ti)
		e.Case(id)
		b, _ := sqlh.Bucket()
		epn := gen.Pick(r, []int{2, 4, 4096, 4096})
		tname := "t" + sqlh.Uniq()
		vt, err := s3db.New(ctx, []string{tname, "columns=k primary key, a", "s3_bucket=" + b, "s3_endpoint=" + sqlh.Endpoint, "s3_prefix=p", fmt.Sprintf("entries_per_node=%d", epn)})
		if err != nil {
			st.Fail(id, "create: "+err.Error(), nil)
			continue
		}
		nk := r.Intn(21)
		perm := r.Perm(len(scanKeyPool))
		wt := int64(1000)
		for j := 0; j < nk && j < len(perm); j++ {
			wt++
			c2 := writetime.NewContext(ctx, time.Unix(0, wt))
			vt.Insert(c2, map[int]any{0: scanKeyPool[perm[j]], 1: int64(j)})
			if r.Chance(1, 6) {
				wt++
				vt.Delete(writetime.NewContext(ctx, time.Unix(0, wt)), scanKeyPool[perm[j]])
			}
		}
		// the entries in key order, as the cursor sees them
		var ents []string
		cur, _ := vt.Tree.Root.Cursor(ctx)
		cur.Min(ctx)
		for {
			k, v, ok := cur.Get()
			if !ok {
				break
			}
			row, _ := v.Value.(*v1proto.Row)
			d := 0
			if row == nil || row.Deleted {
				d = 1
			}
			ents = append(ents, fmt.Sprintf("%s %d", valStr(normVal(k.(*s3db.Key).Value())), d))
			if cur.Forward(ctx) != nil {
				break
			}
		}
		height := vt.Tree.Root.Height()
		st.Count(fmt.Sprintf("height_%d", min(height, 3)))
		for q := 0; q < 25; q++ {
			desc := r.Chance(1, 2) && height == 0
			nc := r.Intn(5)
			var inputs []s3db.IndexInput
			var operands []any
			for j := 0; j < nc; j++ {
				switch r.Intn(8) {
				case 0:
					inputs = append(inputs, s3db.IndexInput{Op: s3db.OpIgnore, ColumnIndex: 0})
					operands = append(operands, nil)
				case 1:
					inputs = append(inputs, s3db.IndexInput{Op: s3db.OpEQ, ColumnIndex: 1}) // a constraint on another column
					operands = append(operands, int64(3))
				default:
					op := gen.Pick(r, []s3db.Op{s3db.OpEQ, s3db.OpLT, s3db.OpLE, s3db.OpGE, s3db.OpGT})
					var v any
					if r.Chance(2, 3) {
						v = gen.Pick(r, scanKeyPool)
					} else {
						v = gen.Pick(r, scanOperandExtra)
					}
					inputs = append(inputs, s3db.IndexInput{Op: op, ColumnIndex: 0})
					operands = append(operands, v)
				}
			}
			var order []s3db.OrderInput
			if desc || r.Bool() {
				order = []s3db.OrderInput{{Column: 0, Desc: desc}}
			}
			out, err := vt.BestIndex(inputs, order)
			if err != nil {
				st.Fail(id, "BestIndex: "+err.Error(), e.CaseOps())
				continue
			}
			var vals []any
			var cons []string
			opName := map[s3db.Op]string{s3db.OpEQ: "eq", s3db.OpLT: "lt", s3db.OpLE: "le", s3db.OpGE: "ge", s3db.OpGT: "gt"}
			for j := range inputs {
				if out.Used[j] {
					vals = append(vals, operands[j])
					cons = append(cons, opName[inputs[j].Op]+" "+valStr(normVal(operands[j])))
				} else if inputs[j].ColumnIndex == 0 && inputs[j].Op != s3db.OpIgnore {
					st.Fail(id, "BestIndex does not use a usable key constraint", e.CaseOps())
				}
			}
			c, _ := vt.Open()
			var got []string
			if err := c.Filter(ctx, out.IdxStr, vals); err != nil {
				st.Fail(id, "Filter: "+err.Error(), e.CaseOps())
				continue
			}
			for guard := 0; !c.Eof() && guard < 1000; guard++ {
				k, err := c.Column(0)
				if err != nil {
					st.Fail(id, "Column: "+err.Error(), e.CaseOps())
					break
				}
				got = append(got, valStr(normVal(k)))
				if err := c.Next(ctx); err != nil {
					st.Fail(id, "Next: "+err.Error(), e.CaseOps())
					break
				}
			}
			d := 0
			if desc {
				d = 1
			}
			op := fmt.Sprintf("scan %d %d %s %d %s", d, len(cons), strings.Join(cons, " "), len(ents), strings.Join(ents, " "))
			op = strings.Join(strings.Fields(op), " ")
			e.Op(op, strings.Join(got, " "))
			if desc {
				st.Count("desc")
			} else {
				st.Count("asc")
			}
			st.Count(fmt.Sprintf("constraints_%d", len(cons)))
			if len(cons) > 0 {
				st.Distinct(op)
			}
		}
		vt.Disconnect()
		sqlh.DropBucket(b)
		st.Cases++
		if ti < 2 {
			st.Sample(e.CaseOps()[:min(3, len(e.CaseOps()))])
		}
	}
	st.Evaluations = e.Lines
	e.Close()
	st.Write(*outp + ".stats.json")
	fmt.Printf("scan: %d tables, %d lines, %d oracle failures\n", st.Cases, e.Lines, len(st.Failures))
	return 0
}
