package main

import (
	"database/sql"
	"flag"
	"fmt"
	"strings"
	"time"

	"verif/harness/fakes3"
	"verif/harness/gen"
	"verif/harness/sqlh"
)

func init() { cmds["crash"] = crashCmd }

type crashCase struct {
	st     *Stats
	r      *gen.Rng
	id     string
	bucket string
	store  *fakes3.Store
	epn    int
	log    []string
}

func (c *crashCase) note(s string) { c.log = append(c.log, s) }

func (c *crashCase) fail(what string) { c.st.Fail(c.id, what, append([]string(nil), c.log...)) }

func (c *crashCase) openTable(db *sql.DB, ro bool, client string, prep func(*fakes3.Client)) (string, error) {
	name := "t" + sqlh.Uniq()
	sqlh.NextClient(client, prep)
	err := sqlh.Exec(db, sqlh.CreateSQL(sqlh.TableOpts{Name: name, Bucket: c.bucket, Prefix: "p", Columns: "k primary key, a, b", EntriesPerNode: c.epn, ReadOnly: ro}))
	sqlh.NextClient("", nil)
	return name, err
}

func (c *crashCase) dump(ro bool) (string, error) {
	db := sqlh.Open()
	defer db.Close()
	t, err := c.openTable(db, ro, "rec", nil)
	if err != nil {
		return "", err
	}
	rows, err := sqlh.Query(db, fmt.Sprintf(`select k, a, b from "%s" order by k`, t))
	if err != nil {
		return "", err
	}
	return sqlh.RowsString(rows), nil
}

type txn struct {
	kind  string // sql | mergeopen | vacuum
	stmts []string
	args  [][]any
}

func (c *crashCase) genStmts(n int, wt *int) ([]string, [][]any) {
	var stmts []string
	var args [][]any
	for i := 0; i < n; i++ {
		*wt++
		stmts = append(stmts, "update s3db_conn set write_time=?")
		args = append(args, []any{sqlh.TimeStr(*wt)})
		k := c.r.Intn(12)
		switch c.r.Intn(5) {
		case 0, 1:
			stmts = append(stmts, "insert into T values(?,?,?)")
			args = append(args, []any{k, c.r.Intn(100), fmt.Sprint("s", c.r.Intn(100))})
		case 2, 3:
			stmts = append(stmts, "update T set a=? where k=?")
			args = append(args, []any{c.r.Intn(100), k})
		default:
			stmts = append(stmts, "delete from T where k=?")
			args = append(args, []any{k})
		}
	}
	return stmts, args
}

// runTxn executes the transaction on a fresh connection whose client dies after k further mutations
// (k < 0: never). It returns whether COMMIT (or the operation) was acknowledged.
func (c *crashCase) runTxn(tx txn, k int) (acked bool, muts int, err error) {
	db := sqlh.Open()
	defer db.Close()
	var cl *fakes3.Client
	prep := func(x *fakes3.Client) { cl = x }
	switch tx.kind {
	case "mergeopen":
		// the transaction IS the read-write open that merges what is current and commits the merge
		sqlh.NextClient("w", func(x *fakes3.Client) {
			cl = x
			if k >= 0 {
				x.CrashAfter = k
			}
		})
		name := "t" + sqlh.Uniq()
		err = sqlh.Exec(db, sqlh.CreateSQL(sqlh.TableOpts{Name: name, Bucket: c.bucket, Prefix: "p", Columns: "k primary key, a, b", EntriesPerNode: c.epn}))
		sqlh.NextClient("", nil)
		_, muts = cl.Counts()
		return err == nil, muts, nil
	}
	t, err := c.openTable(db, false, "w", prep)
	if err != nil {
		return false, 0, fmt.Errorf("open before the transaction: %w", err)
	}
	_, m0 := cl.Counts()
	if k >= 0 {
		cl.CrashAfter = m0 + k
	}
	switch tx.kind {
	case "vacuum":
		rows, e := sqlh.Query(db, "select * from s3db_vacuum(?,?)", t, tx.args[0][0])
		acked = e == nil && len(rows) == 1 && rows[0][0] == "N"
	default:
		if e := sqlh.Exec(db, "begin"); e != nil {
			return false, 0, e
		}
		ok := true
		for i, s := range tx.stmts {
			if e := sqlh.Exec(db, strings.ReplaceAll(s, " T ", ` "`+t+`" `), tx.args[i]...); e != nil {
				if cls := sqlh.ErrClass(e); cls != "constraint_pk" && cls != "constraint" {
					ok = false
					break
				}
			}
		}
		if ok {
			acked = sqlh.Exec(db, "commit") == nil
		}
		if !acked {
			sqlh.Exec(db, "rollback")
		}
	}
	_, m1 := cl.Counts()
	return acked, m1 - m0, nil
}

func (c *crashCase) run() {
	defer sqlh.DropBucket(c.bucket)
	wt := 0
	// committed prefix: 1-4 transactions by one or two writers
	nb := 1 + c.r.Intn(4)
	for i := 0; i < nb; i++ {
		s, a := c.genStmts(1+c.r.Intn(6), &wt)
		if _, _, err := c.runTxn(txn{kind: "sql", stmts: s, args: a}, -1); err != nil {
			c.fail("prefix: " + err.Error())
			return
		}
	}
	var tx txn
	switch c.r.Intn(6) {
	case 0: // two unmerged versions, then the merging open
		snap := c.store.Snapshot()
		s1, a1 := c.genStmts(2+c.r.Intn(3), &wt)
		c.runTxn(txn{kind: "sql", stmts: s1, args: a1}, -1)
		mid := c.store.Snapshot()
		// second writer starts from the same parent
		c.store.Restore(snap)
		s2, a2 := c.genStmts(2+c.r.Intn(3), &wt)
		c.runTxn(txn{kind: "sql", stmts: s2, args: a2}, -1)
		// union of both buckets: two current versions with a common parent
		for k, v := range mid {
			if _, ok := c.store.Get(k); !ok && !strings.Contains(k, "root/merged/") {
				c.store.Put(k, v)
			}
		}
		for k, v := range mid {
			if strings.Contains(k, "root/merged/") {
				c.store.Put(k, v)
			}
		}
		tx = txn{kind: "mergeopen"}
		c.st.Count("txn_mergeopen")
	case 1:
		wt += 5
		tx = txn{kind: "vacuum", args: [][]any{{sqlh.TimeStr(wt)}}}
		if c.r.Bool() {
			tx.args[0][0] = time.Now().Add(time.Hour).UTC().Format("2006-01-02 15:04:05")
		}
		c.st.Count("txn_vacuum")
	default:
		s, a := c.genStmts(1+c.r.Intn(6), &wt)
		tx = txn{kind: "sql", stmts: s, args: a}
		c.st.Count("txn_sql")
	}
	c.note(fmt.Sprintf("epn=%d txn=%s %v %v", c.epn, tx.kind, tx.stmts, tx.args))
	snap := c.store.Snapshot()
	before, err := c.dump(true)
	if err != nil {
		c.fail("dump before: " + err.Error())
		return
	}
	c.store.Restore(snap)
	acked, total, err := c.runTxn(tx, -1)
	if err != nil || !acked {
		c.fail(fmt.Sprintf("fault-free run of the transaction failed: acked=%v err=%v", acked, err))
		return
	}
	after, err := c.dump(true)
	if err != nil {
		c.fail("dump after: " + err.Error())
		return
	}
	if tx.kind != "sql" && after != before {
		c.fail(fmt.Sprintf("%s changed the rows: %q -> %q", tx.kind, before, after))
	}
	c.st.Count(fmt.Sprintf("mutations_%d", min(total, 12)))
	for k := 0; k <= total; k++ {
		c.store.Restore(snap)
		ack, _, err := c.runTxn(tx, k)
		if err != nil && tx.kind != "mergeopen" {
			c.fail(fmt.Sprintf("crash point %d: %v", k, err))
			return
		}
		c.st.Evaluations++
		ro, err := c.dump(true)
		if err != nil {
			c.fail(fmt.Sprintf("crash after %d of %d mutations: read-only recovery open fails: %v", k, total, err))
			return
		}
		if ro != before && ro != after {
			c.fail(fmt.Sprintf("crash after %d of %d mutations: recovery shows neither old nor new: %q (old %q, new %q)", k, total, ro, before, after))
			return
		}
		if ack && ro != after {
			c.fail(fmt.Sprintf("crash after %d of %d mutations: commit was acknowledged but recovery shows the old contents", k, total))
			return
		}
		rw, err := c.dump(false)
		if err != nil {
			c.fail(fmt.Sprintf("crash after %d of %d mutations: read-write recovery open fails: %v", k, total, err))
			return
		}
		if rw != ro {
			c.fail(fmt.Sprintf("crash after %d of %d mutations: read-write recovery differs from read-only: %q vs %q", k, total, rw, ro))
			return
		}
		ro2, err := c.dump(true)
		if err != nil || ro2 != ro {
			c.fail(fmt.Sprintf("crash after %d of %d mutations: contents not stable across recovery opens: %q then %q (%v)", k, total, ro, ro2, err))
			return
		}
		if ro == before && before != after {
			c.st.Count("recovered_old")
		} else if before != after {
			c.st.Count("recovered_new")
		}
	}
	if before != after {
		c.st.Distinct(c.log[len(c.log)-1])
	} else if tx.kind != "sql" {
		c.st.Distinct(c.log[len(c.log)-1])
	}
}

func crashCmd(args []string) int {
	fs := flag.NewFlagSet("crash", flag.ExitOnError)
	seed := fs.Uint64("seed", 1, "")
	n := fs.Int("n", 40, "cases")
	outp := fs.String("out", "", "")
	kn := fs.String("known", "", "")
	fs.Parse(args)
	setKnown(*kn)
	NewEmitter(*outp+".ops", *outp+".exp").Close()
	st := NewStats("crash", *seed)
	st.Rule = "SQL histories (1-4 committed transactions, entries_per_node in {2,4,4096}) followed by one operation — a transaction of 1-6 statements, the merge commit of a read-write open over two unmerged versions, or s3db_vacuum — whose client dies after k mutating storage requests, for EVERY k in 0..(number of mutations of the fault-free run); then a read-only, a read-write and again a read-only recovery open; oracle: rows equal the contents before or after (after, if acknowledged), equal across the recovery opens; non-trivial = the operation changes the rows or is a merge-open/vacuum; distinct = distinct operation"
	root := gen.New(*seed)
	for i := 0; i < *n; i++ {
		r := root.Fork(i)
		b, store := sqlh.Bucket()
		c := &crashCase{st: st, r: r, id: fmt.Sprintf("crash-%d-%d", *seed, i), bucket: b, store: store, epn: gen.Pick(r, []int{2, 4, 4096})}
		c.run()
		st.Cases++
		if i < 2 {
			st.Sample(c.log)
		}
	}
	st.Write(*outp + ".stats.json")
	fmt.Printf("crash: %d cases, %d crash runs, %d oracle failures\n", st.Cases, st.Evaluations, len(st.Failures))
	return 0
}
