package main

import (
	"fmt"

	"verif/harness/sqlh"
)

func init() { cmds["scratch"] = scratch }

func scratch(args []string) int {
	db := sqlh.Open()
	b, st := sqlh.Bucket()
	fmt.Println(sqlh.XS(db, sqlh.CreateSQL(sqlh.TableOpts{Name: "t1", Bucket: b, Prefix: "p", Columns: "a primary key, b", EntriesPerNode: 4})))
	for i := 0; i < 20; i++ {
		fmt.Print(sqlh.XS(db, "insert into t1 values(?,?)", i, fmt.Sprint("v", i)), " ")
	}
	fmt.Println()
	fmt.Println(sqlh.QS(db, "select count(*) from t1"))
	fmt.Println(sqlh.QS(db, "select a from t1 where a<=50 order by a desc limit 3"))
	for _, r := range st.Log()[:10] {
		fmt.Println(r)
	}
	fmt.Println(len(st.Keys("")))
	fmt.Println(sqlh.XS(db, `create virtual table t2 using s3db (entries_per_node, columns='a primary key')`))
	return 0
}
