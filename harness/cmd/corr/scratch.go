package main

import (
	"fmt"
	"math"

	"github.com/jrhy/s3db"
	"google.golang.org/protobuf/proto"

	"verif/harness/sqlh"
)

func init() { cmds["scratch"] = scratch }

func scratch(args []string) int {
	cv := s3db.ToColumnValue(math.Copysign(0, -1))
	c2 := proto.Clone(cv)
	fmt.Printf("clone: %016x -> %v\n", math.Float64bits(cv.Value.Real), c2)
	db := sqlh.Open()
	bk, _ := sqlh.Bucket()
	fmt.Println(sqlh.XS(db, sqlh.CreateSQL(sqlh.TableOpts{Name: "t1", Bucket: bk, Prefix: "p", Columns: "k primary key, a, b"})))
	sqlh.SetWriteTime(db, 1)
	fmt.Println(sqlh.XS(db, "insert into t1 values(?,?,?)", 1, math.Copysign(0, -1), 1))
	sqlh.SetWriteTime(db, 2)
	fmt.Println(sqlh.XS(db, "update t1 set b=2 where k=1"))
	fmt.Println("after update of b at a later time:", sqlh.QS(db, "select k,a,b from t1"))
	return 0
}
