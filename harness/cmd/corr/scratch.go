package main

import (
	"context"
	"fmt"
	"os"
	"time"

	"github.com/jrhy/s3db"

	"verif/harness/sqlh"
)

func init() { cmds["scratch"] = scratch }

func scratch(args []string) int {
	switch os.Getenv("CASE") {
	case "L4":
		b, _ := sqlh.Bucket()
		db := sqlh.Open()
		fmt.Println(sqlh.XS(db, sqlh.CreateSQL(sqlh.TableOpts{Name: "t", Bucket: b, Prefix: "p", Columns: "k primary key, a", EntriesPerNode: 4})))
		sqlh.Exec(db, "insert into t values(1,'x')")
		sqlh.Exec(db, "insert into t values(2,'y')")
		sqlh.Exec(db, "delete from t where k=2")
		fmt.Println("vacuum 2300:", sqlh.XS(db, "select * from s3db_vacuum('t','2300-01-01 00:00:00')"))
		fmt.Println("rows:", sqlh.QS(db, "select k from t"))
		fmt.Println("insert 2:", sqlh.XS(db, "insert into t values(2,'again')"))
		fmt.Println("rows:", sqlh.QS(db, "select k from t"))
	case "L2":
		b, _ := sqlh.Bucket()
		db := sqlh.Open()
		fmt.Println(sqlh.XS(db, sqlh.CreateSQL(sqlh.TableOpts{Name: "t", Bucket: b, Prefix: "p", Columns: "k primary key, a", EntriesPerNode: 2})))
		for i := 0; i < 8; i++ {
			sqlh.Exec(db, "insert into t values(?,'x')", i)
		}
		sqlh.Exec(db, "delete from t where k=3")
		fmt.Println(sqlh.XS(db, "begin"))
		fmt.Println("delete nothing:", sqlh.XS(db, "delete from t where k=99"))
		fmt.Println("vacuum:", sqlh.XS(db, "select * from s3db_vacuum('t','2100-01-01 00:00:00')"))
		fmt.Println("rollback:", sqlh.XS(db, "rollback"))
		rows, err := sqlh.Query(db, "select k from t")
		fmt.Println("rows:", len(rows), err)
	case "L3":
		b, store := sqlh.Bucket()
		dbA := sqlh.Open()
		fmt.Println(sqlh.XS(dbA, sqlh.CreateSQL(sqlh.TableOpts{Name: "a", Bucket: b, Prefix: "p", Columns: "k primary key, a", EntriesPerNode: 2})))
		sqlh.SetWriteTime(dbA, 1)
		sqlh.Exec(dbA, "insert into a values(1,'one')")
		sqlh.SetWriteTime(dbA, 2)
		sqlh.Exec(dbA, "insert into a values(2,'two')")
		dbB := sqlh.Open()
		fmt.Println(sqlh.XS(dbB, sqlh.CreateSQL(sqlh.TableOpts{Name: "b", Bucket: b, Prefix: "p", Columns: "k primary key, a", EntriesPerNode: 2})))
		sqlh.SetWriteTime(dbB, 3)
		sqlh.Exec(dbB, "delete from b where k=2")
		fmt.Println("B vacuum (cutoff 2007):", sqlh.XS(dbB, "select * from s3db_vacuum('b','2021-01-01 00:00:00')"))
		fmt.Println("B rows:", sqlh.QS(dbB, "select k from b"), "nodes", len(store.Keys("p/s3db-rows/node/")))
		for _, k := range store.Keys("p/s3db-rows/") {
			fmt.Println("  before A:", k)
		}
		fmt.Println("A (stale) vacuum:", s3db.Vacuum(context.Background(), "a", time.Now().Add(time.Hour)), "nodes", len(store.Keys("p/s3db-rows/node/")))
		fmt.Println("dangling:", danglingIn(store, "p/s3db-rows/root/current/"))
		for _, k := range store.Keys("p/s3db-rows/") {
			bb, _ := store.Get(k)
			if len(bb) < 400 && k[len("p/s3db-rows/")] == 'r' {
				fmt.Println("  ", k, string(bb))
			} else {
				fmt.Println("  ", k, len(bb))
			}
		}
		dbC := sqlh.Open()
		fmt.Println(sqlh.XS(dbC, sqlh.CreateSQL(sqlh.TableOpts{Name: "c", Bucket: b, Prefix: "p", Columns: "k primary key, a", EntriesPerNode: 2, ReadOnly: true})))
		rows, err := sqlh.Query(dbC, "select k from c")
		fmt.Println("fresh reader:", rows, err)
	}
	return 0
}
