package main

import (
	"fmt"

	"verif/harness/sqlh"
)

func init() { cmds["scratch"] = scratch }

func scratch(args []string) int {
	db := sqlh.Open()
	b, _ := sqlh.Bucket()
	for _, v := range []string{"0o20", "0b100", "0x10", "017", "1_000"} {
		fmt.Println(v, sqlh.XS(db, fmt.Sprintf(`create virtual table "t%s" using s3db (entries_per_node=%s, s3_bucket='%s', columns='a primary key', s3_endpoint='http://fakes3.invalid', s3_prefix='p')`, v, v, b)))
	}
	return 0
}
