package main

import (
	"database/sql"
	"encoding/json"
	"flag"
	"fmt"
	"os"
	"strings"
	"sync"
	"time"

	"verif/harness/gen"
	"verif/harness/sqlh"
)

func init() { cmds["race"] = raceCmd }

type raceStream struct {
	idx    int
	bucket string
	prefix string
	table  string
	ops    []string
	wt     int
	// the prefix holds two unmerged versions before the stream opens its table
	twoVersions bool
}

// runStream executes one connection's stream and returns its observable outputs.
func runStream(s *raceStream) []string {
	var out []string
	db := sqlh.Open()
	defer db.Close()
	x := func(q string, a ...any) { out = append(out, classOnly(sqlh.XS(db, q, a...))) }
	q := func(qs string, a ...any) { out = append(out, sqlh.QS(db, qs, a...)) }
	if s.twoVersions && s.bucket != "" {
		// leave two unmerged versions under the prefix first (two writers that did not see each other), so that
		// the stream's own open, and every refresh, merges several versions while other connections do the same
		p1, p2 := sqlh.Open(), sqlh.Open()
		n1, n2 := s.table+"_p1", s.table+"_p2"
		sqlh.Exec(p1, sqlh.CreateSQL(sqlh.TableOpts{Name: n1, Bucket: s.bucket, Prefix: s.prefix, Columns: "k primary key, a", EntriesPerNode: 4}))
		sqlh.Exec(p2, sqlh.CreateSQL(sqlh.TableOpts{Name: n2, Bucket: s.bucket, Prefix: s.prefix, Columns: "k primary key, a", EntriesPerNode: 4}))
		sqlh.Exec(p1, fmt.Sprintf(`insert into "%s" values(?,?)`, n1), s.idx*10000+9001, "p1")
		sqlh.Exec(p2, fmt.Sprintf(`insert into "%s" values(?,?)`, n2), s.idx*10000+9002, "p2")
		p1.Close()
		p2.Close()
	}
	if s.bucket == "" {
		x(fmt.Sprintf(`create virtual table "%s" using s3db (entries_per_node=4, s3_prefix='%s', columns='k primary key, a')`, s.table, s.prefix))
	} else {
		x(sqlh.CreateSQL(sqlh.TableOpts{Name: s.table, Bucket: s.bucket, Prefix: s.prefix, Columns: "k primary key, a", EntriesPerNode: 4}))
	}
	for _, op := range s.ops {
		f := strings.Fields(op)
		switch f[0] {
		case "wt":
			x("update s3db_conn set write_time=?", sqlh.TimeStr(s.wt+atoi(f[1])))
			q("select write_time from s3db_conn")
		case "deadline":
			x("update s3db_conn set deadline=?", connDeadlineBase.Add(time.Duration(s.idx*1000+atoi(f[1]))*time.Second).Format("2006-01-02 15:04:05"))
			q("select deadline from s3db_conn")
		case "cleardeadline":
			x("update s3db_conn set deadline=NULL")
		case "ins":
			x(fmt.Sprintf(`insert into "%s" values(?,?)`, s.table), s.idx*10000+atoi(f[1]), f[1])
		case "txn":
			x("begin")
			for j := 0; j < 4; j++ {
				x(fmt.Sprintf(`insert into "%s" values(?,?)`, s.table), s.idx*10000+5000+atoi(f[1])*10+j, "t")
			}
			x(f[2])
		case "upd":
			x(fmt.Sprintf(`update "%s" set a='u' where k<?`, s.table), s.idx*10000+atoi(f[1]))
		case "del":
			x(fmt.Sprintf(`delete from "%s" where k=?`, s.table), s.idx*10000+atoi(f[1]))
		case "sel":
			q(fmt.Sprintf(`select count(*), min(k), max(k) from "%s"`, s.table))
		case "refresh":
			q("select s3db_refresh(?)", s.table)
		case "vacuum":
			q("select * from s3db_vacuum(?,?)", s.table, "2000-01-01 00:00:00")
		case "version":
			r := sqlh.QS(db, "select s3db_version(?)", s.table)
			out = append(out, fmt.Sprint(len(r) > 0 && !strings.HasPrefix(r, "ERR")))
		}
	}
	q(fmt.Sprintf(`select k,a from "%s" order by k`, s.table))
	x(fmt.Sprintf(`drop table "%s"`, s.table))
	return out
}

func classOnly(s string) string {
	if strings.HasPrefix(s, "ERR:") {
		return strings.Join(strings.SplitN(s, ":", 3)[:2], ":")
	}
	return s
}

func atoi(s string) int {
	var n int
	fmt.Sscan(s, &n)
	return n
}

func raceCmd(args []string) int {
	fs := flag.NewFlagSet("race", flag.ExitOnError)
	seed := fs.Uint64("seed", 1, "")
	n := fs.Int("n", 10, "cases")
	outp := fs.String("out", "", "")
	kn := fs.String("known", "", "")
	fs.Parse(args)
	setKnown(*kn)
	st := NewStats("race", *seed)
	st.Rule = "m = 2-6 connections, each in its own goroutine with its own tables (own bucket, or a shared bucket with its own prefix), run independent streams (two thirds of them on a prefix that already holds two unmerged versions, so that opens and refreshes merge; create, write_time/deadline set and read back, inserts, transactions committed and rolled back, updates, deletes, selects, s3db_refresh, s3db_version, s3db_vacuum, drop) concurrently in a binary built with the race detector; every connection's outputs are compared with the same stream run alone; then 2-4 connections CREATE a table of the same name at once (storage LISTs held for 30 ms so that the opens overlap): exactly one succeeds and can use its table; a data-race report, a deadlock (time limit) or a difference is a failure; each case runs in a child process; distinct = distinct set of streams (all non-trivial)"
	isChild, from, to := childRange()
	if !isChild {
		NewEmitter(*outp+".ops", *outp+".exp").Close()
		// one process per case: the lazily created in-memory object store is created once per process
		for i := 0; i < *n; i++ {
			os.Remove(*outp + ".child.json")
			out, err := runSelf(fmt.Sprintf("CORR_CHILD=%d:%d", i, i+1), 90*time.Second)
			var cs Stats
			if b, e := os.ReadFile(*outp + ".child.json"); e == nil {
				json.Unmarshal(b, &cs)
				if cs.Dist != nil {
					st.Merge(&cs)
				}
			}
			if err != nil {
				what := "the process died: " + firstPanicLine(out)
				if strings.Contains(out, "DATA RACE") {
					idx := strings.Index(out, "WARNING: DATA RACE")
					what = "the race detector reports a data race: " + strings.Join(strings.Fields(out[idx:min(len(out), idx+900)]), " ")
				} else if strings.Contains(err.Error(), "timeout") {
					what = "deadlock or hang: the case did not finish within the time limit"
				}
				st.Fail(fmt.Sprintf("race-%d-%d", *seed, i), what, nil)
				if cs.Cases == 0 {
					st.Cases++
				}
			}
		}
		st.Write(*outp + ".stats.json")
		fmt.Printf("race: %d cases, %d oracle failures\n", st.Cases, len(st.Failures))
		return 0
	}
	openProgress(*outp)
	root := gen.New(*seed)
	for i := from; i < to; i++ {
		r := root.Fork(i)
		progressLine(fmt.Sprintf("CASE %d", i))
		m := 2 + r.Intn(5)
		sharedBucket, _ := sqlh.Bucket()
		mk := func(tag string) []*raceStream {
			var ss []*raceStream
			rr := root.Fork(i)
			rr.Intn(5)
			for c := 0; c < m; c++ {
				s := &raceStream{idx: c, table: fmt.Sprintf("r%s_%d_%d_%s", tag, i, c, sqlh.Uniq()), wt: c * 100000}
				if c < 2 && rr.Chance(1, 2) {
					// no s3_bucket: the process-wide in-memory object store (created lazily on first use)
					s.bucket = ""
					s.prefix = fmt.Sprintf("mem%s%d_%d", tag, i, c)
				} else if rr.Bool() {
					s.bucket, _ = sqlh.Bucket()
					s.prefix = "p"
				} else {
					s.bucket = sharedBucket
					s.prefix = fmt.Sprintf("%s%d", tag, c)
				}
				s.twoVersions = rr.Chance(2, 3)
				for j := 0; j < 8+rr.Intn(10); j++ {
					switch op := rr.Intn(14); {
					case op < 4:
						s.ops = append(s.ops, fmt.Sprintf("ins %d", j))
					case op < 5:
						s.ops = append(s.ops, fmt.Sprintf("txn %d %s", j, gen.Pick(rr, []string{"commit", "rollback"})))
					case op < 6:
						s.ops = append(s.ops, fmt.Sprintf("wt %d", j))
					case op < 7:
						s.ops = append(s.ops, fmt.Sprintf("deadline %d", j))
					case op < 8:
						s.ops = append(s.ops, "cleardeadline")
					case op < 9:
						s.ops = append(s.ops, fmt.Sprintf("upd %d", j))
					case op < 10:
						s.ops = append(s.ops, fmt.Sprintf("del %d", rr.Intn(j+1)))
					case op < 11:
						s.ops = append(s.ops, "refresh")
					case op < 12:
						s.ops = append(s.ops, "vacuum")
					case op < 13:
						s.ops = append(s.ops, "version")
					default:
						s.ops = append(s.ops, "sel")
					}
				}
				ss = append(ss, s)
			}
			return ss
		}
		// concurrent run first (so that the first use of process-wide state is concurrent), then the same streams alone
		conc := mk("c")
		got := make([][]string, len(conc))
		var wg sync.WaitGroup
		for c, s := range conc {
			wg.Add(1)
			go func(c int, s *raceStream) {
				defer wg.Done()
				got[c] = runStream(s)
			}(c, s)
		}
		wg.Wait()
		var want [][]string
		for _, s := range mk("s") {
			want = append(want, runStream(s))
		}
		st.Evaluations += m
		for c := range conc {
			if strings.Join(got[c], "\n") != strings.Join(want[c], "\n") {
				d := ""
				for k := range got[c] {
					if k >= len(want[c]) || got[c][k] != want[c][k] {
						w := "<none>"
						if k < len(want[c]) {
							w = want[c][k]
						}
						d = fmt.Sprintf("output %d: concurrent %.150q, alone %.150q", k, got[c][k], w)
						break
					}
				}
				st.Fail(fmt.Sprintf("race-%d-%d", *seed, i), fmt.Sprintf("connection %d of %d behaves differently when the others run concurrently: %s", c, m, d), conc[c].ops)
				break
			}
		}
		// the same table name from several connections at once: the registry is keyed by the bare name, so run
		// one after another exactly the first CREATE succeeds — the same must hold when they overlap inside
		// the storage open (every LIST is held for a moment so that they do)
		{
			k := 2 + r.Intn(3)
			name := fmt.Sprintf("dup_%d_%s", i, sqlh.Uniq())
			res := make([]string, k)
			dbs := make([]*sql.DB, k)
			var start, dwg sync.WaitGroup
			start.Add(1)
			for c := 0; c < k; c++ {
				dbs[c] = sqlh.Open()
				dwg.Add(1)
				go func(c int) {
					defer dwg.Done()
					start.Wait()
					res[c] = classOnly(sqlh.XS(dbs[c], sqlh.CreateSQL(sqlh.TableOpts{Name: name, Bucket: sharedBucket, Prefix: fmt.Sprintf("dup%d", c), Columns: "k primary key, a", EntriesPerNode: 4})))
				}(c)
			}
			sqlh.SlowLists(30 * time.Millisecond)
			start.Done()
			dwg.Wait()
			sqlh.SlowLists(0)
			nok, winner := 0, -1
			for c, x := range res {
				if x == "ok" {
					nok++
					winner = c
				}
			}
			st.Evaluations++
			st.Count("same_name_creates")
			if nok != 1 {
				st.Fail(fmt.Sprintf("race-%d-%d", *seed, i), fmt.Sprintf("%d connections created a table of the same name at once: %d of the CREATEs succeeded (%v); one after another exactly one does", k, nok, res), nil)
			} else {
				if e := sqlh.XS(dbs[winner], fmt.Sprintf(`insert into "%s" values(1,'w')`, name)); e != "ok" {
					st.Fail(fmt.Sprintf("race-%d-%d", *seed, i), "the connection that won the CREATE cannot write: "+e, nil)
				} else if got := sqlh.QS(dbs[winner], fmt.Sprintf(`select count(*) from "%s"`, name)); got != "I:1" {
					st.Fail(fmt.Sprintf("race-%d-%d", *seed, i), "the connection that won the CREATE reads "+got, nil)
				}
				for c := range dbs {
					dbs[c].Close()
				}
			}
		}
		st.Count(fmt.Sprintf("connections_%d", m))
		st.Cases++
		st.Distinct(fmt.Sprint(i))
		if i < 1 {
			st.Sample(conc[0].ops)
		}
		st.Write(*outp + ".child.json")
	}
	return 0
}
