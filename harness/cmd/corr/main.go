package main

import (
	"fmt"
	"os"
)

var cmds = map[string]func(args []string) int{}

func main() {
	if len(os.Args) < 2 {
		fmt.Fprintln(os.Stderr, "usage: corr <command> [args]")
		os.Exit(2)
	}
	f, ok := cmds[os.Args[1]]
	if !ok {
		fmt.Fprintln(os.Stderr, "unknown command", os.Args[1])
		os.Exit(2)
	}
	os.Exit(f(os.Args[2:]))
}
