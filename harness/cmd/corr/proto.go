package main

import (
	"encoding/json"
	"flag"
	"fmt"
	"sort"
	"strings"
	"sync"
	"sync/atomic"
	"time"

	"github.com/jrhy/s3db/kv"

	"verif/harness/fakes3"
	"verif/harness/gen"
)

func init() { cmds["proto"] = protoCmd }

type pClient struct {
	idx        int
	name       string
	ro         bool
	cl         *fakes3.Client
	db         *kv.DB
	script     []string // "open", "write" (set a fresh key + commit)
	pos        int
	start      chan string
	busy       int32 // 1 while an op is running
	opErr      error
	inOpen     bool
	loaded     int
	crashed    bool
	opening    bool
	commits    int
	listKeys   map[string]bool // data keys stored when this open's LIST was served
	lastOpenOK bool
}

type protoCase struct {
	e          *Emitter
	st         *Stats
	r          *gen.Rng
	id         string
	store      *fakes3.Store
	sched      *fakes3.Scheduler
	cfg        kv.Config
	clients    []*pClient
	vid        map[string]int // real version name -> model id
	nextVid    int
	pendVid    map[int]int       // client idx -> model id allocated at begin of its commit
	arrival    []string          // names in root/current/ in order of arrival (as the model keeps them)
	dataOf     map[string]string // version name -> data key it introduced
	storedKeys map[string]bool   // data keys whose version PUT was served
	ackedKeys  map[string]bool
	wg         sync.WaitGroup
	nextT      int64
	failed     bool
}

func (c *protoCase) fail(what string) {
	if !c.failed {
		c.st.Fail(c.id, what, c.e.CaseOps())
	}
	c.failed = true
}

func (c *protoCase) v(name string) string {
	if id, ok := c.vid[name]; ok {
		return fmt.Sprint(id)
	}
	return "?" + name
}

// canonical form of a served root-level request
func (c *protoCase) canon(op, key string) string {
	base := "p/root/"
	k := strings.TrimPrefix(key, base)
	switch {
	case op == "LIST":
		return "list"
	case strings.HasPrefix(k, "current/"):
		n := strings.TrimPrefix(k, "current/")
		switch op {
		case "GET":
			return "get current " + c.v(n)
		case "PUT":
			return "putCur " + c.v(n)
		case "DEL":
			return "delCur " + c.v(n)
		}
	case strings.HasPrefix(k, "merged/"):
		n := strings.TrimPrefix(k, "merged/")
		switch op {
		case "GET":
			return "get merged " + c.v(n)
		case "PUT":
			return "putMerged " + c.v(n)
		}
	}
	return op + " " + key
}

func (c *protoCase) runClient(pc *pClient) {
	defer c.wg.Done()
	for op := range pc.start {
		var err error
		switch op {
		case "open":
			if pc.db != nil {
				pc.db.Cancel()
			}
			c.nextT++
			var db *kv.DB
			db, err = kv.Open(ctxBG, pc.cl, c.cfg, kv.OpenOptions{ReadOnly: pc.ro}, time.Unix(0, 1_000_000_000+atomic.AddInt64(&c.nextT, 1)))
			if err == nil {
				pc.db = db
			}
		case "write":
			key := fmt.Sprintf("c%d_%d", pc.idx, pc.commits)
			pc.commits++
			err = pc.db.Set(ctxBG, time.Unix(0, 1000+atomic.AddInt64(&c.nextT, 1)), key, "v")
			if err == nil {
				var name *string
				name, err = pc.db.Commit(ctxBG)
				if err == nil && name != nil {
					c.sched.Lock()
					c.ackedKeys[key] = true
					c.sched.Unlock()
				}
			}
		}
		pc.opErr = err
		atomic.StoreInt32(&pc.busy, 0)
		c.sched.Kick()
	}
}

// waitQuiet blocks until the client is parked on a scheduled request or its op has finished.
func (c *protoCase) waitQuiet(pc *pClient) (string, bool) {
	return c.sched.WaitParkedOr(pc.name, func() bool { return atomic.LoadInt32(&pc.busy) == 0 })
}

func (c *protoCase) act(pc *pClient, a, exp string) {
	c.e.Op(fmt.Sprintf("proto act %d %s", pc.idx, a), exp)
}

// flushTau emits the model's request-less step that completes an open (and, for a read-write
// open that loaded 2+ versions, allocates the merge version)
func (c *protoCase) flushTau(pc *pClient) {
	if pc.opening {
		pc.opening = false
		c.act(pc, "step", "-")
		if !pc.ro && pc.loaded >= 2 {
			c.pendVid[pc.idx] = c.nextVid
			c.nextVid++
		}
	}
}

func (c *protoCase) run(nsteps int) {
	defer func() {
		for _, pc := range c.clients {
			close(pc.start)
		}
		// let every goroutine finish: free them all
		for _, pc := range c.clients {
			c.sched.Free(pc.name, true)
		}
		c.wg.Wait()
		for _, pc := range c.clients {
			if pc.db != nil {
				pc.db.Cancel()
			}
		}
	}()
	ros := make([]string, len(c.clients))
	for i, pc := range c.clients {
		ros[i] = "0"
		if pc.ro {
			ros[i] = "1"
		}
	}
	c.e.Op("proto init "+strings.Join(ros, " "), "ok")
	for _, pc := range c.clients {
		c.wg.Add(1)
		go c.runClient(pc)
	}
	kv.VerifPermute = func(in []string) []string {
		// load in the order the model keeps root/current/: order of arrival
		pos := map[string]int{}
		for i, n := range c.arrival {
			pos[n] = i
		}
		out := append([]string(nil), in...)
		sort.SliceStable(out, func(i, j int) bool { return pos[out[i]] < pos[out[j]] })
		return out
	}
	defer func() { kv.VerifPermute = nil }()
	for step := 0; step < nsteps && !c.failed; step++ {
		// who can act?
		var cand []*pClient
		for _, pc := range c.clients {
			if pc.crashed {
				continue
			}
			if atomic.LoadInt32(&pc.busy) == 1 || pc.pos < len(pc.script) {
				cand = append(cand, pc)
			}
		}
		if len(cand) == 0 {
			break
		}
		pc := gen.Pick(c.r, cand)
		if atomic.LoadInt32(&pc.busy) == 0 {
			// start the next operation of its script
			c.flushTau(pc)
			op := pc.script[pc.pos]
			if op == "write" && (pc.db == nil || pc.ro) {
				pc.pos++
				continue
			}
			pc.pos++
			atomic.StoreInt32(&pc.busy, 1)
			if op == "open" {
				c.act(pc, "startOpen", "-")
				pc.opening, pc.loaded = true, 0
				pc.inOpen = true
				c.st.Count("open")
			} else {
				c.act(pc, "startCommit", "-")
				c.pendVid[pc.idx] = c.nextVid
				c.nextVid++
				pc.inOpen = false
				c.st.Count("commit")
			}
			pc.start <- op
			c.waitQuiet(pc)
			continue
		}
		// crash instead of serving?
		if c.r.Chance(1, 25) {
			pc.opening = false
			pc.crashed = true
			pc.cl.CrashAfter = 0
			c.sched.Free(pc.name, true)
			c.act(pc, "crash", "-")
			c.st.Count("crash")
			// wait for its op to die
			for atomic.LoadInt32(&pc.busy) == 1 {
				time.Sleep(50 * time.Microsecond)
			}
			delete(c.pendVid, pc.idx)
			continue
		}
		parked, ok := c.waitQuiet(pc)
		if !ok {
			// op finished without a further request
			if pc.opErr != nil {
				c.fail(fmt.Sprintf("client %d: %v", pc.idx, pc.opErr))
			}
			continue
		}
		f := strings.SplitN(parked, " ", 2)
		op, key := f[0], f[1]
		if op != "GET" && op != "LIST" {
			c.flushTau(pc)
		}
		// a version PUT reveals the real name of the version the model allocated earlier
		if op == "PUT" && strings.Contains(key, "/root/current/") {
			name := key[strings.LastIndex(key, "/")+1:]
			id, ok := c.pendVid[pc.idx]
			if !ok {
				c.fail("version PUT without a commit in progress in the model: " + parked)
				return
			}
			c.vid[name] = id
			delete(c.pendVid, pc.idx)
			// the model flushes the nodes in one request of its own
			c.act(pc, "step", fmt.Sprintf("%d:putNodes %d", pc.idx, id))
		}
		if op == "PUT" && strings.Contains(key, "/root/merged/") {
			name := key[strings.LastIndex(key, "/")+1:]
			// parents are retired in Go map order: tell the model which one comes next
			c.e.Op(fmt.Sprintf("proto prefer %d %s", pc.idx, c.v(name)), "ok")
		}
		canon := c.canon(op, key)
		if op == "LIST" {
			pc.listKeys = map[string]bool{}
			for k := range c.storedKeys {
				pc.listKeys[k] = true
			}
		}
		before := c.store.LogLen()
		c.sched.Step(pc.name)
		served := c.store.Log()[before:]
		var rq fakes3.Req
		for _, x := range served {
			if x.Client == pc.name && !strings.Contains(x.Key, "/node/") {
				rq = x
			}
		}
		if rq.Err == "fault" || rq.Err == "crashed" || rq.Err == "ctx" {
			c.fail("unexpected request failure: " + rq.String())
			return
		}
		c.act(pc, "step", fmt.Sprintf("%d:%s", pc.idx, canon))
		c.st.Count("req_" + op)
		switch {
		case op == "GET" && rq.Err == "":
			pc.loaded++
		case op == "PUT" && strings.Contains(key, "/root/current/"):
			name := key[strings.LastIndex(key, "/")+1:]
			c.arrival = append(c.arrival, name)
			if b, ok := c.store.Get(key); ok {
				c.noteData(name, b, pc)
			}
		case op == "DEL":
			name := key[strings.LastIndex(key, "/")+1:]
			for i, n := range c.arrival {
				if n == name {
					c.arrival = append(c.arrival[:i], c.arrival[i+1:]...)
					break
				}
			}
		}
		_, parkedAgain := c.waitQuiet(pc)
		if !parkedAgain {
			// the operation returned
			if pc.opErr != nil {
				c.fail(fmt.Sprintf("client %d: %v", pc.idx, pc.opErr))
				return
			}
			if pc.inOpen {
				c.checkOpen(pc)
			}
		}
	}
	if c.failed {
		return
	}
	// let everything still running finish unscheduled, then compare the final bucket
	for _, pc := range c.clients {
		if atomic.LoadInt32(&pc.busy) == 0 && !pc.crashed {
			c.flushTau(pc)
		}
	}
	c.e.Op("proto state", c.realState())
	c.oracleFinal()
}

// noteData records which data key a version introduced (the commit's Set)
func (c *protoCase) noteData(name string, rootBytes []byte, pc *pClient) {
	if pc.inOpen {
		return
	}
	key := fmt.Sprintf("c%d_%d", pc.idx, pc.commits-1)
	c.dataOf[name] = key
	c.storedKeys[key] = true
}

func (c *protoCase) checkOpen(pc *pClient) {
	// implementation-only oracle (C03): the opener sees every row whose version PUT was served before its LIST
	for k := range pc.listKeys {
		var v string
		ok, err := pc.db.Get(ctxBG, k, &v)
		if err != nil || !ok {
			c.fail(fmt.Sprintf("client %d opened a table that lacks %s, committed before its open began (err=%v)", pc.idx, k, err))
			return
		}
	}
	c.st.Count("open_checked")
	if len(pc.listKeys) > 0 {
		c.st.Count("open_checked_nonempty")
	}
}

func (c *protoCase) realState() string {
	ids := func(pfx string) string {
		var out []int
		for _, k := range c.store.Keys(pfx) {
			n := strings.TrimPrefix(k, pfx)
			if id, ok := c.vid[n]; ok {
				out = append(out, id)
			} else {
				out = append(out, -1)
			}
		}
		sort.Ints(out)
		return strings.Trim(strings.ReplaceAll(fmt.Sprint(out), " ", ","), "[]")
	}
	return fmt.Sprintf("cur=[%s] mrg=[%s]", ids("p/root/current/"), ids("p/root/merged/"))
}

func (c *protoCase) oracleFinal() {
	// every stored version is an ancestor-or-equal of a current one (parents from the root JSON)
	parents := map[string][]string{}
	for _, pfx := range []string{"p/root/current/", "p/root/merged/"} {
		for _, k := range c.store.Keys(pfx) {
			b, _ := c.store.Get(k)
			var root struct {
				P []string `json:"p"`
			}
			json.Unmarshal(b, &root)
			parents[strings.TrimPrefix(k, pfx)] = root.P
		}
	}
	reach := map[string]bool{}
	var walk func(n string)
	walk = func(n string) {
		if reach[n] {
			return
		}
		reach[n] = true
		for _, p := range parents[n] {
			walk(p)
		}
	}
	for _, k := range c.store.Keys("p/root/current/") {
		walk(strings.TrimPrefix(k, "p/root/current/"))
	}
	for name := range c.vid {
		if !reach[name] {
			c.fail(fmt.Sprintf("version %s (v%d) was stored but no current version descends from it", name, c.vid[name]))
		}
	}
	// a final reader sees every row whose version PUT was served
	db, err := kv.Open(ctxBG, c.store.Client("final"), c.cfg, kv.OpenOptions{ReadOnly: true}, time.Unix(0, 2_000_000_000))
	c.sched.Free("final", true)
	if err != nil {
		c.fail("final open: " + err.Error())
		return
	}
	for k := range c.storedKeys {
		var v string
		ok, err := db.Get(ctxBG, k, &v)
		if err != nil || !ok {
			c.fail(fmt.Sprintf("committed row %s is not visible to a final reader (err=%v)", k, err))
		}
	}
}

func protoCmd(args []string) int {
	fs := flag.NewFlagSet("proto", flag.ExitOnError)
	seed := fs.Uint64("seed", 1, "")
	n := fs.Int("n", 100, "cases")
	outp := fs.String("out", "", "")
	kn := fs.String("known", "", "")
	fs.Parse(args)
	setKnown(*kn)
	e := NewEmitter(*outp+".ops", *outp+".exp")
	st := NewStats("proto", *seed)
	st.Rule = "2-3 real kv clients (goroutines) run open / write+commit scripts against one fake bucket; a deterministic scheduler releases ONE root-level request at a time following a random schedule with crashes; every served request is compared with the request the Lean transition system serves for the same action; oracles: every completed open holds every row whose version PUT preceded its LIST, every stored version is an ancestor of a current one, a final reader sees every stored row; non-trivial = the schedule interleaves requests of 2+ clients inside one operation; distinct = distinct request trace"
	root := gen.New(*seed)
	for i := 0; i < *n; i++ {
		r := root.Fork(i)
		c := &protoCase{e: e, st: st, r: r, id: fmt.Sprintf("proto-%d-%d", *seed, i), store: fakes3.NewStore(), sched: fakes3.NewScheduler(),
			vid: map[string]int{}, pendVid: map[int]int{}, dataOf: map[string]string{}, storedKeys: map[string]bool{}, ackedKeys: map[string]bool{}}
		c.sched.Free("final", true)
		c.store.Sched = c.sched
		c.cfg = kv.Config{Storage: &kv.S3BucketInfo{EndpointURL: "http://fake", BucketName: "b", Prefix: "p"}, KeysLike: "", ValuesLike: "", BranchFactor: 4}
		k := 2 + r.Intn(2)
		for j := 0; j < k; j++ {
			pc := &pClient{idx: j, name: fmt.Sprintf("c%d", j), ro: j > 0 && r.Chance(1, 4), start: make(chan string)}
			pc.cl = c.store.Client(pc.name)
			pc.script = []string{"open"}
			for len(pc.script) < 3+r.Intn(5) {
				if r.Chance(1, 3) {
					pc.script = append(pc.script, "open")
				} else {
					pc.script = append(pc.script, "write")
				}
			}
			c.clients = append(c.clients, pc)
		}
		e.Case(c.id)
		c.run(40 + r.Intn(120))
		st.Cases++
		var tr []string
		for _, rq := range c.store.Log() {
			if !strings.Contains(rq.Key, "/node/") && rq.Client != "final" {
				tr = append(tr, rq.Client+":"+rq.Op)
			}
		}
		inter := false
		for j := 2; j < len(tr); j++ {
			if tr[j][:2] == tr[j-2][:2] && tr[j-1][:2] != tr[j][:2] {
				inter = true
			}
		}
		if inter {
			st.Distinct(strings.Join(tr, " "))
		}
		if i < 2 {
			st.Sample(e.CaseOps())
		}
	}
	st.Evaluations = e.Lines
	e.Close()
	st.Write(*outp + ".stats.json")
	fmt.Printf("proto: %d cases, %d lines, %d oracle failures\n", st.Cases, e.Lines, len(st.Failures))
	return 0
}
