package main

import (
	"database/sql"
	"flag"
	"fmt"
	"strings"
	"time"

	"github.com/aws/aws-sdk-go/aws/awserr"
	"github.com/aws/aws-sdk-go/aws/request"

	"verif/harness/fakes3"
	"verif/harness/gen"
	"verif/harness/sqlh"
)

func init() { cmds["fault"] = faultCmd }

type fStmt struct {
	kind string // exec | query | open | refresh
	sql  string
	args []any
}

type faultCase struct {
	st     *Stats
	r      *gen.Rng
	id     string
	bucket string
	store  *fakes3.Store
	epn    int
	cache  int // node_cache_entries of the connection the faults hit
	log    []string
	failed bool
}

func (c *faultCase) note(s string) { c.log = append(c.log, s); progressLine(s) }
func (c *faultCase) fail(w string) {
	c.failed = true
	c.st.Fail(c.id, w, append([]string(nil), c.log[max(0, len(c.log)-40):]...))
}

func (c *faultCase) program() []fStmt {
	var p []fStmt
	n := 6 + c.r.Intn(8)
	for i := 0; i < n; i++ {
		switch op := c.r.Intn(12); {
		case op < 5:
			p = append(p, fStmt{"exec", "insert into T values(?,?)", []any{c.r.Intn(40), "v"}})
		case op < 6:
			p = append(p, fStmt{"exec", "update T set a='u' where k<?", []any{c.r.Intn(40)}})
		case op < 7:
			p = append(p, fStmt{"exec", "delete from T where k=?", []any{c.r.Intn(40)}})
		case op < 9:
			p = append(p, fStmt{"query", "select k,a from T order by k", nil})
		case op < 10:
			p = append(p, fStmt{"query", "select count(*) from T where k>=?", []any{c.r.Intn(40)}})
		case op < 11:
			p = append(p, fStmt{"refresh", "", nil})
		default:
			p = append(p, fStmt{"open", "", nil}) // close and re-open the table
		}
	}
	p = append(p, fStmt{"query", "select k,a from T order by k", nil})
	return p
}

type runResult struct {
	outcomes []string // per statement: "ok"/rows or "ERR"
	acked    map[string]bool
}

// runProgram executes the program on a fresh connection against the current bucket content.
func (c *faultCase) runProgram(p []fStmt, seedPrefix [][]any) (res runResult, db *sql.DB, table string) {
	db = sqlh.Open()
	res.acked = map[string]bool{}
	open := func() error {
		table = "t" + sqlh.Uniq()
		return sqlh.Exec(db, sqlh.CreateSQL(sqlh.TableOpts{Name: table, Bucket: c.bucket, Prefix: "p", Columns: "k primary key, a", EntriesPerNode: c.epn, NodeCache: c.cache}))
	}
	if err := open(); err != nil {
		res.outcomes = append(res.outcomes, "ERR open: "+sqlh.ErrClass(err))
		table = ""
	} else {
		res.outcomes = append(res.outcomes, "ok")
	}
	for _, s := range p {
		if table == "" && s.kind != "open" {
			res.outcomes = append(res.outcomes, "ERR no table")
			continue
		}
		q := strings.ReplaceAll(s.sql, " T", ` "`+table+`"`)
		switch s.kind {
		case "exec":
			err := sqlh.Exec(db, q, s.args...)
			if err == nil {
				res.outcomes = append(res.outcomes, "ok")
				if strings.HasPrefix(s.sql, "insert") {
					res.acked[fmt.Sprint(s.args[0])] = true
				}
			} else if cls := sqlh.ErrClass(err); strings.HasPrefix(cls, "constraint") {
				res.outcomes = append(res.outcomes, "constraint")
			} else {
				res.outcomes = append(res.outcomes, "ERR "+cls)
			}
		case "query":
			rows, err := sqlh.Query(db, q, s.args...)
			if err != nil {
				res.outcomes = append(res.outcomes, "ERR "+sqlh.ErrClass(err))
			} else {
				res.outcomes = append(res.outcomes, "rows:"+sqlh.RowsString(rows))
			}
		case "refresh":
			if _, err := sqlh.Query(db, "select s3db_refresh(?)", table); err != nil {
				res.outcomes = append(res.outcomes, "ERR "+sqlh.ErrClass(err))
			} else {
				res.outcomes = append(res.outcomes, "ok")
			}
		case "open":
			if table != "" {
				sqlh.Exec(db, `drop table "`+table+`"`)
			}
			if err := open(); err != nil {
				res.outcomes = append(res.outcomes, "ERR open: "+sqlh.ErrClass(err))
				table = ""
			} else {
				res.outcomes = append(res.outcomes, "ok")
			}
		}
	}
	return res, db, table
}

func (c *faultCase) run() {
	defer sqlh.DropBucket(c.bucket)
	// some committed content first (two unmerged versions half of the time)
	for w := 0; w < 1+c.r.Intn(2); w++ {
		db := sqlh.Open()
		t := "t" + sqlh.Uniq()
		sqlh.Exec(db, sqlh.CreateSQL(sqlh.TableOpts{Name: t, Bucket: c.bucket, Prefix: "p", Columns: "k primary key, a", EntriesPerNode: c.epn}))
		dbs := []*sql.DB{db}
		if w == 0 && c.r.Bool() {
			db2 := sqlh.Open()
			t2 := "t" + sqlh.Uniq()
			sqlh.Exec(db2, sqlh.CreateSQL(sqlh.TableOpts{Name: t2, Bucket: c.bucket, Prefix: "p", Columns: "k primary key, a", EntriesPerNode: c.epn}))
			for i := 0; i < 6; i++ {
				sqlh.Exec(db2, fmt.Sprintf(`insert into "%s" values(?,?)`, t2), 100+c.r.Intn(30), "w2")
			}
			dbs = append(dbs, db2)
		}
		for i := 0; i < 10; i++ {
			sqlh.Exec(db, fmt.Sprintf(`insert into "%s" values(?,?)`, t), 50+c.r.Intn(30), "base")
		}
		for _, d := range dbs {
			d.Close()
		}
	}
	prog := c.program()
	for _, s := range prog {
		c.note(fmt.Sprintf("%s %s %v", s.kind, s.sql, s.args))
	}
	snap := c.store.Snapshot()
	c.store.ResetRequests()
	ref, db, _ := c.runProgram(prog, nil)
	db.Close()
	total := c.store.Requests()
	for i, o := range ref.outcomes {
		if strings.HasPrefix(o, "ERR") {
			c.fail(fmt.Sprintf("fault-free run: statement %d fails: %s", i, o))
			return
		}
	}
	c.st.Count(fmt.Sprintf("requests_%d", min(total, 200)/50*50))
	step := 1
	if total > 120 {
		step = 2
	}
	for k := 0; k < total && !c.failed; k += step {
		for _, kind := range []string{"transport", "deadline"} {
			for _, persistent := range []bool{false, true} {
				if persistent && (k%3 != 0) {
					continue
				}
				c.store.Restore(snap)
				c.store.ResetRequests()
				kk, pers, knd := k, persistent, kind
				c.store.GlobalFault = func(n int, client, op, key string) error {
					if client == "rec" {
						return nil
					}
					if n == kk || (pers && n > kk) {
						if knd == "transport" {
							return fakes3.ErrInjected
						}
						return awserr.New(request.CanceledErrorCode, "request context canceled", fmt.Errorf("context deadline exceeded"))
					}
					return nil
				}
				progressLine(fmt.Sprintf("FAULT at request %d of %d kind=%s persistent=%v", k, total, kind, persistent))
				got, db, table := c.runProgram(prog, nil)
				c.store.GlobalFault = nil
				c.st.Evaluations++
				c.st.Count("fault_runs_" + kind)
				sawErr := false
				for i, o := range got.outcomes {
					if strings.HasPrefix(o, "ERR") {
						sawErr = true
						continue
					}
					if sawErr {
						// after an error the connection may legitimately be behind; only complete answers are compared below
						continue
					}
					if o != ref.outcomes[i] && c.cache > 0 && (hasDuplicateKey(o) || hasDuplicateKey(ref.outcomes[i])) && c.st.known("F22") {
						// F22 (dependency): with a node cache mast writes into node objects it shares through the
						// cache; after a fault that no statement reports (a retire step, whose errors are ignored by
						// design) the next refresh merges a version with its own parent and a key shows twice; the fault-free
						// reference run is subject to the same defect when the open itself merges two versions
						c.st.Count("known_F22")
						break
					}
					if o != ref.outcomes[i] {
						c.fail(fmt.Sprintf("request %d fails (%s, persistent=%v): statement %d (%s) returns %q without error; the complete answer is %q", k, kind, persistent, i-1, stmtText(prog, i-1), o, ref.outcomes[i]))
						break
					}
				}
				if c.failed {
					db.Close()
					break
				}
				// the fault has cleared: after a refresh (or on a new connection) every acknowledged row is there and writes work
				if table != "" {
					if _, err := sqlh.Query(db, "select s3db_refresh(?)", table); err != nil {
						c.fail(fmt.Sprintf("request %d fails (%s): refresh after the fault cleared: %v", k, kind, err))
					} else if err := sqlh.Exec(db, fmt.Sprintf(`insert into "%s" values(?,?)`, table), 7777, "post"); err != nil {
						c.fail(fmt.Sprintf("request %d fails (%s): write after the fault cleared: %v", k, kind, err))
					}
				}
				db.Close()
				if c.failed {
					break
				}
				rd := sqlh.Open()
				sqlh.NextClient("rec", nil)
				t2 := "t" + sqlh.Uniq()
				err := sqlh.Exec(rd, sqlh.CreateSQL(sqlh.TableOpts{Name: t2, Bucket: c.bucket, Prefix: "p", Columns: "k primary key, a", EntriesPerNode: c.epn, ReadOnly: true}))
				sqlh.NextClient("", nil)
				if err != nil {
					c.fail(fmt.Sprintf("request %d fails (%s): a new connection cannot open the table afterwards: %v", k, kind, err))
					rd.Close()
					break
				}
				rows, err := sqlh.Query(rd, fmt.Sprintf(`select k from "%s"`, t2))
				if err != nil {
					c.fail(fmt.Sprintf("request %d fails (%s, persistent=%v): a new connection cannot read the table afterwards: %v", k, kind, persistent, err))
					rd.Close()
					break
				}
				have := map[string]bool{}
				for _, r := range rows {
					have[strings.TrimPrefix(r[0], "I:")] = true
				}
				rd.Close()
				// a row whose INSERT was acknowledged and that no later acknowledged DELETE removed must be visible
				deleted := map[string]bool{}
				for i, s := range prog {
					if s.kind == "exec" && strings.HasPrefix(s.sql, "delete") && i+1 < len(got.outcomes) {
						deleted[fmt.Sprint(s.args[0])] = true
					}
				}
				for key := range got.acked {
					if !have[key] && !deleted[key] {
						c.fail(fmt.Sprintf("request %d fails (%s, persistent=%v): INSERT of key %s was acknowledged but a later open does not see it", k, kind, persistent, key))
						break
					}
				}
			}
			if c.failed {
				break
			}
		}
	}
	c.st.Distinct(strings.Join(c.log, "|"))
}

// hasDuplicateKey: a rendered answer ("rows:" + rows joined by " | ", key first) shows one key twice
func hasDuplicateKey(o string) bool {
	seen := map[string]bool{}
	for _, row := range strings.Split(strings.TrimPrefix(o, "rows:"), " | ") {
		k := strings.SplitN(row, ",", 2)[0]
		if seen[k] {
			return true
		}
		seen[k] = true
	}
	return false
}

func stmtText(p []fStmt, i int) string {
	if i < 0 || i >= len(p) {
		return "open"
	}
	return p[i].kind + " " + p[i].sql
}

func faultCmd(args []string) int {
	fs := flag.NewFlagSet("fault", flag.ExitOnError)
	seed := fs.Uint64("seed", 1, "")
	n := fs.Int("n", 12, "programs")
	outp := fs.String("out", "", "")
	kn := fs.String("known", "", "")
	withCache := fs.Bool("cache", false, "half of the programs run with node_cache_entries=1000")
	fs.Parse(args)
	setKnown(*kn)
	st := NewStats("fault", *seed)
	st.Rule = "SQL programs (open, 6-14 statements: inserts, range updates, deletes, scans, counts, s3db_refresh, close/re-open; buckets with one or two unmerged versions; entries_per_node in {2,4,4096}, node_cache_entries in {0,1000} when run with -cache (the C14 check), else 0) are first run fault-free, counting the object-store requests; then re-run from the same bucket with a fault at EVERY request index (every 2nd when > 120) x {transport error, expired context} x {single, persistent (every 3rd index)}; every statement before the first error must return the complete fault-free answer, an acknowledged INSERT must be visible to a later open, after the fault clears refresh + write + a new connection must work; each program runs in a child process with a time limit (panic / hang detection); distinct = distinct program (all non-trivial)"
	isChild, from, to := childRange()
	if !isChild {
		NewEmitter(*outp+".ops", *outp+".exp").Close()
		isolate(st, *n, *outp, 120*time.Second, func(int, []string, string) bool { return false })
		st.Write(*outp + ".stats.json")
		fmt.Printf("fault: %d programs, %d fault runs, %d oracle failures\n", st.Cases, st.Evaluations, len(st.Failures))
		return 0
	}
	openProgress(*outp)
	root := gen.New(*seed)
	for i := from; i < to; i++ {
		r := root.Fork(i)
		b, store := sqlh.Bucket()
		c := &faultCase{st: st, r: r, id: fmt.Sprintf("fault-%d-%d", *seed, i), bucket: b, store: store, epn: gen.Pick(r, []int{2, 4, 4096}), cache: gen.Pick(r, []int{0, 1000})}
		if !*withCache {
			c.cache = 0
		}
		progressLine(fmt.Sprintf("CASE %d", i))
		nf := len(st.Failures)
		c.run()
		if c.failed && c.cache > 0 && len(st.Failures) > nf && knownIDs["F22"] {
			// differential attribution (see the vac stream): the same program again without a node cache; only a
			// failure that survives that is reported as new, the rest is the dependency defect F22
			r2 := root.Fork(i)
			b2, store2 := sqlh.Bucket()
			c2 := &faultCase{st: NewStats("fault-recheck", *seed), r: r2, id: c.id + "-nocache", bucket: b2, store: store2, epn: gen.Pick(r2, []int{2, 4, 4096}), cache: gen.Pick(r2, []int{0, 1000})}
			c2.cache = 0
			progressLine(fmt.Sprintf("CASE %d again without a node cache", i))
			c2.run()
			if !c2.failed {
				st.Failures = st.Failures[:nf]
				st.known("F22")
				st.Count("known_F22_only_with_node_cache")
			}
		}
		st.Cases++
		if i < 1 {
			st.Sample(c.log)
		}
		st.Write(*outp + ".child.json")
	}
	return 0
}
