package main

import (
	"context"
	"database/sql"
	"encoding/json"
	"flag"
	"fmt"
	"sort"
	"strings"
	"time"

	"github.com/aws/aws-sdk-go/aws/awserr"
	"github.com/aws/aws-sdk-go/service/s3"
	"github.com/jrhy/s3db"
	v1proto "github.com/jrhy/s3db/proto/v1"

	"verif/harness/fakes3"
	"verif/harness/gen"
	"verif/harness/sqlh"
)

func init() { cmds["ver"] = verCmd }

type verSnap struct {
	step    int
	version string   // JSON list as returned by s3db_version
	rows    []string // sorted "k,a,b"
}

type verCase struct {
	st     *Stats
	r      *gen.Rng
	id     string
	bucket string
	store  *fakes3.Store
	epn    int
	log    []string
	failed bool
	snaps  []verSnap
}

func (c *verCase) note(s string) { c.log = append(c.log, s); progressLine(s) }
func (c *verCase) fail(w string) {
	c.failed = true
	c.st.Fail(c.id, w, append([]string(nil), c.log[max(0, len(c.log)-30):]...))
}

func (c *verCase) mk(db *sql.DB, client string, prep func(*fakes3.Client)) (string, error) {
	name := "t" + sqlh.Uniq()
	sqlh.NextClient(client, prep)
	err := sqlh.Exec(db, sqlh.CreateSQL(sqlh.TableOpts{Name: name, Bucket: c.bucket, Prefix: "p", Columns: "k primary key, a, b", EntriesPerNode: c.epn}))
	sqlh.NextClient("", nil)
	return name, err
}

func (c *verCase) take(db *sql.DB, t string, step int) {
	v, err := sqlh.Query(db, "select s3db_version(?)", t)
	if err != nil || len(v) != 1 {
		c.fail(fmt.Sprintf("s3db_version: %v", err))
		return
	}
	rows, err := sqlh.Query(db, fmt.Sprintf(`select k,a,b from "%s" order by k`, t))
	if err != nil {
		c.fail("dump: " + err.Error())
		return
	}
	vs := v[0][0]
	b, _ := hexDecode(strings.TrimPrefix(vs, "T:"))
	c.snaps = append(c.snaps, verSnap{step: step, version: string(b), rows: sqlh.SortedRows(rows)})
}

func hexDecode(s string) ([]byte, error) {
	out := make([]byte, len(s)/2)
	_, err := fmt.Sscanf(s, "%x", &out)
	return out, err
}

// readVersion re-reads a version through the Go API (a read-only open restricted to it)
func (c *verCase) readVersion(version string) ([]string, error) {
	var names []string
	if err := json.Unmarshal([]byte(version), &names); err != nil {
		return nil, err
	}
	if names == nil {
		names = []string{}
	}
	sqlh.NextClient("hist", nil)
	kvh, err := s3db.OpenKV(context.Background(), s3db.S3Options{Bucket: c.bucket, Endpoint: sqlh.Endpoint, Prefix: "p", EntriesPerNode: c.epn, ReadOnly: true, OnlyVersions: names}, "s3db-rows")
	sqlh.NextClient("", nil)
	if err != nil {
		return nil, err
	}
	cur, err := kvh.Root.Cursor(context.Background())
	if err != nil {
		return nil, err
	}
	if err := cur.Min(context.Background()); err != nil {
		return nil, err
	}
	var out []string
	for {
		k, v, ok := cur.Get()
		if !ok {
			break
		}
		row, _ := v.Value.(*v1proto.Row)
		if row != nil && !row.Deleted {
			get := func(n string) string {
				if cv, ok := row.ColumnValues[n]; ok {
					return sqlh.Canon(normVal(s3db.FromSQLiteValue(cv.Value)))
				}
				return "N"
			}
			out = append(out, sqlh.Canon(normVal(k.(*s3db.Key).Value()))+","+get("a")+","+get("b"))
		}
		if err := cur.Forward(context.Background()); err != nil {
			return nil, err
		}
	}
	sort.Strings(out)
	return out, nil
}

func (c *verCase) changes(db *sql.DB, t, from, to string, prep func(*fakes3.Client)) ([]string, error) {
	cn := "c" + sqlh.Uniq()
	sqlh.NextClient("diff", prep)
	defer sqlh.NextClient("", nil)
	if err := sqlh.Exec(db, fmt.Sprintf(`create virtual table "%s" using s3db_changes(table='%s', from='%s', to='%s')`, cn, t, from, to)); err != nil {
		return nil, err
	}
	defer sqlh.Exec(db, fmt.Sprintf(`drop table "%s"`, cn))
	rows, err := sqlh.Query(db, fmt.Sprintf(`select k,a,b from "%s"`, cn))
	if err != nil {
		return nil, err
	}
	// the same table as the inner loop of a join: SQLite scans the cursor once per outer row, and every
	// scan has to return all of the rows again (F47). Only without an injected fault plan.
	if prep == nil {
		j, jerr := sqlh.Query(db, fmt.Sprintf(`select count(*) from (select 1 as x union all select 2 union all select 3) o cross join "%s"`, cn))
		if jerr != nil || len(j) != 1 || j[0][0] != fmt.Sprintf("I:%d", 3*len(rows)) {
			c.fail(fmt.Sprintf("s3db_changes(from=%s,to=%s) returns %d rows when scanned once, but a join that scans it 3 times counts %v (err %v)", from, to, len(rows), j, jerr))
		}
	}
	return sqlh.SortedRows(rows), nil
}

func keyOf(row string) string { return strings.SplitN(row, ",", 2)[0] }

func (c *verCase) run() {
	defer sqlh.DropBucket(c.bucket)
	nw := 1 + c.r.Intn(3)
	var dbs []*sql.DB
	var tabs []string
	for i := 0; i < nw; i++ {
		db := sqlh.Open()
		defer db.Close()
		t, err := c.mk(db, fmt.Sprintf("w%d", i), nil)
		if err != nil {
			c.fail(err.Error())
			return
		}
		dbs, tabs = append(dbs, db), append(tabs, t)
	}
	c.take(dbs[0], tabs[0], 0) // the empty snapshot "[]"
	wt := 0
	steps := 6 + c.r.Intn(14)
	for s := 1; s <= steps && !c.failed; s++ {
		i := c.r.Intn(nw)
		db, t := dbs[i], tabs[i]
		before := ""
		if v, err := sqlh.Query(db, "select s3db_version(?)", t); err == nil && len(v) == 1 {
			before = v[0][0]
		}
		rowsBefore := sqlh.QS(db, fmt.Sprintf(`select k,a,b from "%s" order by k`, t))
		wt++
		sqlh.SetWriteTime(db, wt)
		var what string
		switch op := c.r.Intn(12); {
		case op < 4:
			what = "insert"
			sqlh.Exec(db, fmt.Sprintf(`insert into "%s" values(?,?,?)`, t), c.r.Intn(10), wt, "x")
		case op < 6:
			what = "update"
			sqlh.Exec(db, fmt.Sprintf(`update "%s" set a=? where k=?`, t), wt, c.r.Intn(10))
		case op < 8:
			what = "delete"
			sqlh.Exec(db, fmt.Sprintf(`delete from "%s" where k=?`, t), c.r.Intn(10))
		case op < 9:
			what = "transaction"
			end := gen.Pick(c.r, []string{"commit", "commit", "rollback"})
			sqlh.Exec(db, "begin")
			if end == "commit" {
				sqlh.Exec(db, fmt.Sprintf(`insert into "%s" values(?,?,?)`, t), 20+c.r.Intn(5), wt, "y")
			} else {
				// no INSERT in a transaction that is rolled back: on multi-level trees its row can stay in the
				// connection's tree (F24, dependency), which is not what this stream is about
				sqlh.Exec(db, fmt.Sprintf(`update "%s" set b=? where k=?`, t), "y", c.r.Intn(10))
			}
			sqlh.Exec(db, fmt.Sprintf(`delete from "%s" where k=?`, t), c.r.Intn(10))
			// s3db_version() in the middle of a transaction that has written: it either declines, or names
			// exactly the rows visible right now (which are not committed anywhere yet)
			if v, err := sqlh.Query(db, "select s3db_version(?)", t); err == nil && len(v) == 1 {
				c.st.Count("version_inside_transaction_answered")
				now, _ := sqlh.Query(db, fmt.Sprintf(`select k,a,b from "%s" order by k`, t))
				vb, _ := hexDecode(strings.TrimPrefix(v[0][0], "T:"))
				if got, rerr := c.readVersion(string(vb)); rerr == nil && strings.Join(got, " | ") != strings.Join(sqlh.SortedRows(now), " | ") {
					c.fail(fmt.Sprintf("s3db_version() inside a transaction returned %s, which reads as %v while the connection sees %v", vb, got, sqlh.SortedRows(now)))
				}
			} else {
				c.st.Count("version_inside_transaction_declined")
			}
			sqlh.Exec(db, end)
		case op < 10:
			what = "no-op statement"
			sqlh.Exec(db, fmt.Sprintf(`update "%s" set a=? where k=?`, t), wt, 999)
		default:
			what = "refresh"
			sqlh.Exec(db, "select s3db_refresh(?)", t)
		}
		c.note(fmt.Sprintf("step %d writer %d: %s", s, i, what))
		c.st.Count(what)
		after := ""
		if v, err := sqlh.Query(db, "select s3db_version(?)", t); err == nil && len(v) == 1 {
			after = v[0][0]
		}
		rowsAfter := sqlh.QS(db, fmt.Sprintf(`select k,a,b from "%s" order by k`, t))
		if rowsAfter != rowsBefore && after == before {
			c.fail(fmt.Sprintf("step %d (%s) changed the committed rows but s3db_version stayed %s", s, what, after))
		}
		if what == "no-op statement" && after != before {
			c.fail(fmt.Sprintf("a statement that changed nothing changed s3db_version: %s -> %s", before, after))
		}
		if what == "refresh" && after != before {
			// a refresh with nothing to merge — the connection's single version is still the only
			// current one — must not invent a version.  (When another writer has superseded it, moving
			// to that writer's version is a change even if the visible rows happen to be equal.)
			var b []string
			bb, _ := hexDecode(strings.TrimPrefix(before, "T:"))
			json.Unmarshal(bb, &b)
			cur := c.store.Keys("p/s3db-rows/root/current/")
			if len(b) == 1 && len(cur) == 1 && strings.HasSuffix(cur[0], "/"+b[0]) {
				ab, _ := hexDecode(strings.TrimPrefix(after, "T:"))
				c.fail(fmt.Sprintf("a refresh that had nothing to merge changed s3db_version: %s -> %s", bb, ab))
			}
		}
		c.take(db, t, s)
		// C11: every earlier snapshot still reads exactly as it did
		for _, sn := range c.snaps {
			if !c.r.Chance(1, 3) && sn.step != 0 {
				continue
			}
			got, err := c.readVersion(sn.version)
			c.st.Evaluations++
			if err != nil {
				c.fail(fmt.Sprintf("version %s taken at step %d cannot be re-read at step %d: %v", sn.version, sn.step, s, err))
				break
			}
			if strings.Join(got, " | ") != strings.Join(sn.rows, " | ") {
				c.fail(fmt.Sprintf("version %s taken at step %d reads differently at step %d: then %v, now %v", sn.version, sn.step, s, sn.rows, got))
				break
			}
			viaSQL, err := c.changes(dbs[0], tabs[0], "[]", sn.version, nil)
			if err != nil || strings.Join(viaSQL, " | ") != strings.Join(sn.rows, " | ") {
				c.fail(fmt.Sprintf("s3db_changes(from='[]', to=%s) at step %d: %v %v, want %v", sn.version, s, viaSQL, err, sn.rows))
				break
			}
		}
	}
	if c.failed {
		return
	}
	// C12: changes between ordered pairs of snapshots
	pairs := 0
	for ai := range c.snaps {
		for bi := range c.snaps {
			if ai == bi || !c.r.Chance(1, 2) {
				continue
			}
			A, B := c.snaps[ai], c.snaps[bi]
			got, err := c.changes(dbs[0], tabs[0], A.version, B.version, nil)
			c.st.Evaluations++
			pairs++
			if err != nil {
				c.fail(fmt.Sprintf("s3db_changes(from=%s,to=%s) fails: %v", A.version, B.version, err))
				return
			}
			inA := map[string]string{}
			for _, r := range A.rows {
				inA[keyOf(r)] = r
			}
			inB := map[string]string{}
			for _, r := range B.rows {
				inB[keyOf(r)] = r
			}
			have := map[string]bool{}
			for _, r := range got {
				have[r] = true
				if inB[keyOf(r)] != r {
					c.fail(fmt.Sprintf("s3db_changes(from step %d, to step %d) returns %s which is not a row of the 'to' version %v", A.step, B.step, r, B.rows))
					return
				}
			}
			deleted := false
			for k := range inA {
				if _, ok := inB[k]; !ok {
					deleted = true
				}
			}
			if deleted {
				c.st.Count("pair_with_deleted_rows")
			}
			for k, r := range inB {
				if inA[k] != r && !have[r] {
					c.fail(fmt.Sprintf("s3db_changes(from step %d, to step %d) misses %s (from has %q)", A.step, B.step, r, inA[k]))
					return
				}
			}
			// single storage faults during the diff: an error or the complete answer
			if pairs%5 == 0 {
				total := 0
				c.changes(dbs[0], tabs[0], A.version, B.version, func(cl *fakes3.Client) {
					cl.Fault = func(idx, _ int, op, key string) error { total++; return nil }
				})
				for k := 0; k < total; k++ {
					kk := k
					kind := c.r.Intn(3)
					gotF, err := c.changes(dbs[0], tabs[0], A.version, B.version, func(cl *fakes3.Client) {
						n := 0
						cl.Fault = func(idx, _ int, op, key string) error {
							n++
							if n-1 == kk {
								switch kind {
								case 0:
									return fakes3.ErrInjected
								case 1:
									return context.DeadlineExceeded
								}
								// a versions named explicitly must be readable: "no such object" is an error here
								return awserr.New(s3.ErrCodeNoSuchKey, "The specified key does not exist.", nil)
							}
							return nil
						}
					})
					c.st.Count("diff_fault_runs")
					if err == nil && strings.Join(gotF, "|") != strings.Join(got, "|") {
						c.fail(fmt.Sprintf("s3db_changes with a failing request %d returned a partial answer without error: %v instead of %v", kk, gotF, got))
						return
					}
				}
			}
		}
	}
	c.st.Count(fmt.Sprintf("snapshots_%d", min(len(c.snaps), 20)/5*5))
	c.st.Distinct(strings.Join(c.log, "|"))
}

func verCmd(args []string) int {
	fs := flag.NewFlagSet("ver", flag.ExitOnError)
	seed := fs.Uint64("seed", 1, "")
	n := fs.Int("n", 40, "cases")
	outp := fs.String("out", "", "")
	kn := fs.String("known", "", "")
	fs.Parse(args)
	setKnown(*kn)
	st := NewStats("ver", *seed)
	st.Rule = "histories of 6-20 steps by 1-3 writers (inserts, updates, deletes, re-inserts, transactions, no-op statements, refreshes that merge); s3db_version() asked inside a writing transaction must decline or name the rows visible right then; s3db_version() and the rows are recorded after every step including the empty table; at later steps earlier versions are re-read through a restricted read-only open (Go API) and through s3db_changes(from='[]'); s3db_changes is then queried for ordered pairs of snapshots (also as the inner table of a join, which scans its cursor three times) and checked for soundness and completeness against the recorded rows, and every 5th pair is re-run with a single failing request (transport error, expired context, or a NoSuchKey answer) at EVERY request index; distinct = distinct history (all non-trivial)"
	isChild, from, to := childRange()
	if !isChild {
		NewEmitter(*outp+".ops", *outp+".exp").Close()
		isolate(st, *n, *outp, 30*time.Second, func(int, []string, string) bool { return false })
		st.Write(*outp + ".stats.json")
		fmt.Printf("ver: %d cases, %d evaluations, %d oracle failures\n", st.Cases, st.Evaluations, len(st.Failures))
		return 0
	}
	openProgress(*outp)
	root := gen.New(*seed)
	for i := from; i < to; i++ {
		r := root.Fork(i)
		b, store := sqlh.Bucket()
		c := &verCase{st: st, r: r, id: fmt.Sprintf("ver-%d-%d", *seed, i), bucket: b, store: store, epn: gen.Pick(r, []int{2, 4, 4096})}
		progressLine(fmt.Sprintf("CASE %d", i))
		c.run()
		st.Cases++
		if i < 1 {
			st.Sample(c.log)
		}
		st.Write(*outp + ".child.json")
	}
	return 0
}
