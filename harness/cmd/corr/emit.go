package main

import (
	"bufio"
	"encoding/json"
	"fmt"
	"os"
	"sort"
	"strings"
)

// Emitter writes the op lines for the Lean driver and, line for line, what the real code produced.
type Emitter struct {
	ops, exp *bufio.Writer
	fo, fe   *os.File
	Lines    int
	curCase  string
	caseOps  []string
}

func NewEmitter(opsPath, expPath string) *Emitter {
	fo, err := os.Create(opsPath)
	if err != nil {
		panic(err)
	}
	fe, err := os.Create(expPath)
	if err != nil {
		panic(err)
	}
	return &Emitter{ops: bufio.NewWriter(fo), exp: bufio.NewWriter(fe), fo: fo, fe: fe}
}

func (e *Emitter) Case(id string) {
	e.curCase = id
	e.caseOps = nil
	e.raw("reset", "ok")
	e.raw("# case "+id, "# case "+id)
}

func (e *Emitter) raw(op, exp string) {
	fmt.Fprintln(e.ops, op)
	fmt.Fprintln(e.exp, exp)
	e.Lines++
}

// Op records one operation and the canonical result the implementation gave.
func (e *Emitter) Op(op, exp string) {
	if strings.ContainsAny(op, "\n") || strings.ContainsAny(exp, "\n") {
		panic("newline in op")
	}
	e.caseOps = append(e.caseOps, op+"  => "+exp)
	e.raw(op, exp)
}

func (e *Emitter) CaseOps() []string { return append([]string(nil), e.caseOps...) }

func (e *Emitter) Close() {
	e.ops.Flush()
	e.exp.Flush()
	e.fo.Close()
	e.fe.Close()
}

// Stats is what a corr sub-command reports about its own run.
type Stats struct {
	Command     string         `json:"command"`
	Seed        uint64         `json:"seed"`
	Cases       int            `json:"cases"`
	Evaluations int            `json:"evaluations"`
	Nontrivial  int            `json:"distinct_nontrivial"`
	Rule        string         `json:"rule"`
	Dist        map[string]int `json:"distribution"`
	Samples     []any          `json:"samples"`
	Failures    []Failure      `json:"oracle_failures"`
	Known       []string       `json:"known_findings"`
	distinct    map[string]bool
}

type Failure struct {
	Case   string   `json:"case"`
	What   string   `json:"what"`
	Replay []string `json:"replay"`
}

func NewStats(cmd string, seed uint64) *Stats {
	return &Stats{Command: cmd, Seed: seed, Dist: map[string]int{}, distinct: map[string]bool{}}
}

func (s *Stats) Count(k string) { s.Dist[k]++ }

// Distinct registers a canonical non-trivial case; duplicates are not counted twice.
func (s *Stats) Distinct(canon string) {
	if !s.distinct[canon] {
		s.distinct[canon] = true
		s.Nontrivial++
	}
}

func (s *Stats) Sample(v any) {
	if len(s.Samples) < 3 {
		s.Samples = append(s.Samples, v)
	}
}

func (s *Stats) Fail(c, what string, replay []string) {
	if len(s.Failures) < 20 {
		s.Failures = append(s.Failures, Failure{c, what, replay})
	}
}

func (s *Stats) Write(path string) {
	keys := make([]string, 0, len(s.Dist))
	for k := range s.Dist {
		keys = append(keys, k)
	}
	sort.Strings(keys)
	b, _ := json.MarshalIndent(s, "", " ")
	if err := os.WriteFile(path, b, 0o644); err != nil {
		panic(err)
	}
}

// Merge adds another run's numbers to s.
func (s *Stats) Merge(o *Stats) {
	s.Cases += o.Cases
	s.Evaluations += o.Evaluations
	s.Nontrivial += o.Nontrivial
	for k, v := range o.Dist {
		s.Dist[k] += v
	}
	for _, x := range o.Samples {
		s.Sample(x)
	}
	for _, f := range o.Failures {
		s.Fail(f.Case, f.What, f.Replay)
	}
	for _, k := range o.Known {
		found := false
		for _, e := range s.Known {
			if e == k {
				found = true
			}
		}
		if !found {
			s.Known = append(s.Known, k)
		}
	}
}

// appendEmitter continues existing op/exp files (children of an isolated stream append to the parent's files).
func appendEmitter(opsPath, expPath string) *Emitter {
	fo, err := os.OpenFile(opsPath, os.O_APPEND|os.O_WRONLY|os.O_CREATE, 0o644)
	if err != nil {
		panic(err)
	}
	fe, err := os.OpenFile(expPath, os.O_APPEND|os.O_WRONLY|os.O_CREATE, 0o644)
	if err != nil {
		panic(err)
	}
	return &Emitter{ops: bufio.NewWriter(fo), exp: bufio.NewWriter(fe), fo: fo, fe: fe}
}

func (e *Emitter) Flush() {
	e.ops.Flush()
	e.exp.Flush()
}
