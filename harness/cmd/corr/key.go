package main

import (
	"database/sql"
	"encoding/hex"
	"flag"
	"fmt"
	"math"
	"strings"

	"github.com/jrhy/s3db"

	"verif/harness/gen"
	"verif/harness/sqlh"
)

func init() { cmds["key"] = keyCmd }

// boundary pool for key values of all storage classes
func keyPool(r *gen.Rng) []any {
	ints := []int64{0, 1, -1, 2, 16, 255, 256, 1 << 31, -(1 << 31), 1<<53 - 1, 1 << 53, 1<<53 + 1, 1<<53 + 2, -(1 << 53), -(1<<53 + 1), 1<<62 + 1,
		math.MaxInt64, math.MaxInt64 - 1, math.MinInt64, math.MinInt64 + 1, 1<<63 - 512, 1<<63 - 513, 1<<63 - 1024, 9007199254740993, 4611686018427387904}
	reals := []float64{0, math.Copysign(0, -1), 1, -1, 0.5, -0.5, 1.5, 16, 16.5, 255.999, math.SmallestNonzeroFloat64, -math.SmallestNonzeroFloat64,
		2.2250738585072014e-308, 1 << 52, 1<<52 + 0.5, 1 << 53, 1<<53 + 2, -(1 << 53), 1 << 62, 9223372036854775808.0, 9223372036854774784.0, -9223372036854775808.0,
		-9223372036854777856.0, 1.8446744073709552e19, 1e300, -1e300, math.MaxFloat64, -math.MaxFloat64, math.Inf(1), math.Inf(-1), 9007199254740993.0, 4611686018427387904.0, 1e10, 3.14159}
	texts := []string{"", "a", "A", "aa", "ab", "b", "a\x00", "a\x00b", "\x00", "\xff", "\xc3\xa9", "é", "z", "10", "9", "abc", "abd", "ab\xff"}
	blobs := [][]byte{{}, {0}, {0, 0}, {1}, {0xff}, {0xff, 0}, []byte("a"), []byte("ab"), []byte("abc"), {0x7f}, {0x80}}
	var pool []any
	for _, i := range ints {
		pool = append(pool, i)
	}
	for _, f := range reals {
		pool = append(pool, f)
	}
	for _, s := range texts {
		pool = append(pool, s)
	}
	for _, b := range blobs {
		pool = append(pool, b)
	}
	// random ones
	for i := 0; i < 40; i++ {
		switch r.Intn(4) {
		case 0:
			pool = append(pool, int64(r.U64()>>uint(r.Intn(64))))
		case 1:
			f := math.Float64frombits(r.U64())
			if math.IsNaN(f) {
				f = float64(r.Intn(1000)) / 8
			}
			pool = append(pool, f)
		case 2:
			b := make([]byte, r.Intn(5))
			for j := range b {
				b[j] = byte(r.Intn(4)) * 85
			}
			pool = append(pool, string(b))
		default:
			b := make([]byte, r.Intn(5))
			for j := range b {
				b[j] = byte(r.Intn(4)) * 85
			}
			pool = append(pool, b)
		}
	}
	// numeric neighbours: the same magnitude as INT and as REAL
	for i := 0; i < 20; i++ {
		e := uint(50 + r.Intn(14))
		base := int64(1) << e
		if e == 63 {
			base = math.MaxInt64
		}
		d := int64(r.Intn(5)) - 2
		v := base + d
		if r.Bool() {
			v = -v
		}
		pool = append(pool, v, float64(v))
	}
	return pool
}

func valStr(v any) string {
	switch x := v.(type) {
	case nil:
		return "N"
	case int64:
		return fmt.Sprintf("I:%d", x)
	case float64:
		return fmt.Sprintf("R:%016x", math.Float64bits(x))
	case string:
		return "T:" + hex.EncodeToString([]byte(x))
	case []byte:
		return "B:" + hex.EncodeToString(x)
	}
	panic("valStr")
}

func orderReal(a, b any) (res string) {
	defer func() {
		if recover() != nil {
			res = "panic"
		}
	}()
	return fmt.Sprint(s3db.NewKey(a).Order(s3db.NewKey(b)))
}

func sqliteCmp(db *sql.DB, a, b any) (int, error) {
	var r int
	err := db.QueryRow("select case when ?1 < ?2 then -1 when ?1 > ?2 then 1 when ?1 = ?2 then 0 else 99 end", a, b).Scan(&r)
	return r, err
}

func keyCmd(args []string) int {
	fs := flag.NewFlagSet("key", flag.ExitOnError)
	seed := fs.Uint64("seed", 1, "")
	n := fs.Int("n", 20000, "pairs")
	nt := fs.Int("triples", 5000, "triples")
	outp := fs.String("out", "", "")
	kn := fs.String("known", "", "")
	fs.Parse(args)
	setKnown(*kn)
	e := NewEmitter(*outp+".ops", *outp+".exp")
	st := NewStats("key", *seed)
	st.Rule = "pairs and triples of key values drawn from a boundary pool (0, ±1, 2^53±k, int64 limits, ±0.0, subnormals, ±inf, integral and non-integral reals, INT/REAL twins, empty/prefix-related texts and blobs) plus random values; every pair is compared by Key.Order, by the Lean model and by native SQLite; non-trivial = the two values belong to the same storage-class rank (numeric/numeric, text/text, blob/blob); distinct = distinct (a,b)"
	r := gen.New(*seed)
	pool := keyPool(r)
	db := sqlh.Open()
	defer db.Close()
	e.Case(fmt.Sprintf("key-%d", *seed))
	rank := func(v any) int {
		switch v.(type) {
		case int64, float64:
			return 1
		case string:
			return 2
		}
		return 3
	}
	for i := 0; i < *n; i++ {
		a, b := gen.Pick(r, pool), gen.Pick(r, pool)
		if i < len(pool) { // every value against itself first
			a, b = pool[i], pool[i]
		}
		got := orderReal(a, b)
		op := fmt.Sprintf("key order %s %s", valStr(a), valStr(b))
		e.Op(op, got)
		st.Count(fmt.Sprintf("rank_%d_%d", rank(a), rank(b)))
		if rank(a) == rank(b) {
			st.Distinct(op)
		}
		want, err := sqliteCmp(db, a, b)
		if err != nil {
			st.Fail(op, "sqlite: "+err.Error(), nil)
			continue
		}
		if got != fmt.Sprint(want) {
			st.Fail(op, fmt.Sprintf("Key.Order gives %s, native SQLite compares %d", got, want), []string{op})
		}
		if back := orderReal(b, a); got != "panic" && back != fmt.Sprint(-want) {
			st.Fail(op, fmt.Sprintf("not antisymmetric: Order(a,b)=%s Order(b,a)=%s", got, back), []string{op})
		}
	}
	for i := 0; i < *nt; i++ {
		a, b, c := gen.Pick(r, pool), gen.Pick(r, pool), gen.Pick(r, pool)
		ab, bc, ac := orderReal(a, b), orderReal(b, c), orderReal(a, c)
		st.Count("triple")
		le := func(s string) bool { return s == "-1" || s == "0" }
		if le(ab) && le(bc) && !le(ac) {
			st.Fail("triple", fmt.Sprintf("not transitive: %s <= %s <= %s but Order(a,c)=%s", valStr(a), valStr(b), valStr(c), ac), []string{"key order " + valStr(a) + " " + valStr(b), "key order " + valStr(b) + " " + valStr(c), "key order " + valStr(a) + " " + valStr(c)})
		}
		if ab == "0" && bc == "0" && ac != "0" {
			st.Fail("triple", fmt.Sprintf("equality not transitive: %s %s %s", valStr(a), valStr(b), valStr(c)), nil)
		}
	}
	// the malformed stream: NULL operands
	for _, v := range []any{int64(1), 1.5, "a", []byte("a")} {
		e.Op("key order N "+valStr(v), orderReal(nil, v))
		e.Op("key order "+valStr(v)+" N", orderReal(v, nil))
		st.Count("null_operand")
	}
	st.Cases = 1
	st.Evaluations = e.Lines
	st.Sample(strings.Join(e.CaseOps()[:5], " ; "))
	e.Close()
	st.Write(*outp + ".stats.json")
	fmt.Printf("key: %d lines, %d oracle failures\n", e.Lines, len(st.Failures))
	return 0
}
