package main

import (
	"database/sql"
	"flag"
	"fmt"
	"strings"
	"time"

	"verif/harness/fakes3"
	"verif/harness/gen"
	"verif/harness/sqlh"
)

func init() { cmds["ro"] = roCmd }

type roCase struct {
	st     *Stats
	r      *gen.Rng
	id     string
	bucket string
	store  *fakes3.Store
	epn    int
	log    []string
	failed bool
}

func (c *roCase) note(s string) { c.log = append(c.log, s); progressLine(s) }
func (c *roCase) fail(w string) {
	c.failed = true
	c.st.Fail(c.id, w, append([]string(nil), c.log[max(0, len(c.log)-30):]...))
}

func (c *roCase) mk(db *sql.DB, ro bool, client string) (string, error) {
	name := "t" + sqlh.Uniq()
	sqlh.NextClient(client, nil)
	err := sqlh.Exec(db, sqlh.CreateSQL(sqlh.TableOpts{Name: name, Bucket: c.bucket, Prefix: "p", Columns: "k primary key, a, b", EntriesPerNode: c.epn, ReadOnly: ro}))
	return name, err
}

func (c *roCase) roMutations() []string {
	var out []string
	for _, r := range c.store.Log() {
		if strings.HasPrefix(r.Client, "ro") && r.Mutation() {
			out = append(out, r.String())
		}
	}
	return out
}

func (c *roCase) run() {
	defer sqlh.DropBucket(c.bucket)
	// writers leave 0..4 unmerged versions (each from its own connection, none refreshing), some with deletes
	nw := c.r.Intn(5)
	wt := 0
	base := sqlh.Open()
	defer base.Close()
	if nw > 0 {
		t, err := c.mk(base, false, "w0")
		if err != nil {
			c.fail(err.Error())
			return
		}
		for i := 0; i < 6; i++ {
			wt++
			sqlh.SetWriteTime(base, wt)
			sqlh.Exec(base, fmt.Sprintf(`insert into "%s" values(?,?,?)`, t), i, i*10, "x")
		}
	}
	var ws []*sql.DB
	for i := 0; i < nw; i++ {
		db := sqlh.Open()
		ws = append(ws, db)
		defer db.Close()
	}
	tabs := make([]string, nw)
	for i, db := range ws {
		t, err := c.mk(db, false, fmt.Sprintf("w%d", i+1))
		if err != nil {
			c.fail(err.Error())
			return
		}
		tabs[i] = t
	}
	for i, db := range ws {
		for j := 0; j < 1+c.r.Intn(4); j++ {
			wt++
			sqlh.SetWriteTime(db, wt)
			switch c.r.Intn(3) {
			case 0:
				sqlh.Exec(db, fmt.Sprintf(`insert into "%s" values(?,?,?)`, tabs[i]), 100+wt, wt, "w")
			case 1:
				sqlh.Exec(db, fmt.Sprintf(`update "%s" set a=? where k=?`, tabs[i]), wt, c.r.Intn(6))
			default:
				sqlh.Exec(db, fmt.Sprintf(`delete from "%s" where k=?`, tabs[i]), c.r.Intn(6))
			}
		}
	}
	nver := len(c.store.Keys("p/s3db-rows/root/current/"))
	c.st.Count(fmt.Sprintf("unmerged_versions_%d", min(nver, 4)))
	c.note(fmt.Sprintf("bucket with %d current versions, entries_per_node=%d", nver, c.epn))
	snapshot := c.store.Snapshot()
	ro := sqlh.Open()
	defer ro.Close()
	t, err := c.mk(ro, true, "ro0")
	if err != nil {
		c.fail("read-only open: " + err.Error())
		return
	}
	dump := func() string { return sqlh.QS(ro, fmt.Sprintf(`select k,a,b from "%s" order by k`, t)) }
	rows := dump()
	nro := 1
	version := sqlh.QS(ro, "select s3db_version(?)", t)
	for i := 0; i < 12+c.r.Intn(20) && !c.failed; i++ {
		var what, res string
		expectErr := false
		switch c.r.Intn(10) {
		case 0:
			what, expectErr = "insert", true
			res = sqlh.XS(ro, fmt.Sprintf(`insert into "%s" values(?,?,?)`, t), 500+i, 1, 2)
		case 1:
			what = "update existing"
			n, _ := sqlh.Query(ro, fmt.Sprintf(`select count(*) from "%s" where k=?`, t), 1)
			expectErr = len(n) == 1 && n[0][0] == "I:1"
			res = sqlh.XS(ro, fmt.Sprintf(`update "%s" set a=? where k=?`, t), 77, 1)
		case 2:
			what = "delete range"
			n, _ := sqlh.Query(ro, fmt.Sprintf(`select count(*) from "%s" where k<?`, t), 3)
			expectErr = len(n) == 1 && n[0][0] != "I:0"
			res = sqlh.XS(ro, fmt.Sprintf(`delete from "%s" where k<?`, t), 3)
		case 3:
			what = "transaction with writes"
			sqlh.XS(ro, "begin")
			r1 := sqlh.XS(ro, fmt.Sprintf(`insert into "%s" values(?,?,?)`, t), 700+i, 1, 2)
			r2 := sqlh.XS(ro, fmt.Sprintf(`insert into "%s" values(?,?,?)`, t), 800+i, 1, 2)
			r3 := sqlh.XS(ro, gen.Pick(c.r, []string{"commit", "rollback"}))
			sqlh.XS(ro, "rollback")
			res = r1 + " / " + r2 + " / " + r3
			if !strings.HasPrefix(r1, "ERR") || !strings.HasPrefix(r2, "ERR") {
				c.fail("a write inside a transaction on a read-only table was accepted: " + res)
			}
		case 4:
			what = "refresh"
			sqlh.NextClient(fmt.Sprintf("ro%d", nro), nil)
			nro++
			res = sqlh.QS(ro, "select s3db_refresh(?)", t)
			// a read-only table can always be refreshed (F46: it holds no changes of its own, even when it
			// keeps the merge of several versions in memory)
			if strings.HasPrefix(res, "ERR") {
				c.fail("s3db_refresh of a read-only table fails: " + res)
			}
		case 5:
			what = "version"
			res = sqlh.QS(ro, "select s3db_version(?)", t)
			if res != version {
				c.fail(fmt.Sprintf("s3db_version of an unchanged read-only table changed: %s -> %s", version, res))
			}
		case 6:
			what = "changes"
			cn := "c" + sqlh.Uniq()
			sqlh.NextClient(fmt.Sprintf("ro%d", nro), nil)
			nro++
			res = sqlh.XS(ro, fmt.Sprintf(`create virtual table "%s" using s3db_changes(table='%s', from='[]')`, cn, t))
			res += " " + fmt.Sprint(len(strings.Split(sqlh.QS(ro, fmt.Sprintf(`select * from "%s"`, cn)), " | ")))
			sqlh.XS(ro, fmt.Sprintf(`drop table "%s"`, cn))
		case 7:
			what = "vacuum attempt"
			cut := gen.Pick(c.r, []string{"2000-01-01 00:00:00", sqlh.TimeStr(wt + 100), time.Now().Add(time.Hour).UTC().Format("2006-01-02 15:04:05")})
			res = sqlh.QS(ro, "select * from s3db_vacuum(?,?)", t, cut)
		default:
			what = "select"
			res = sqlh.QS(ro, fmt.Sprintf(`select count(*), max(a) from "%s" where k >= ?`, t), c.r.Intn(5))
		}
		c.note(what + " -> " + res[:min(len(res), 120)])
		c.st.Count(what)
		c.st.Evaluations++
		if expectErr && !strings.HasPrefix(res, "ERR") {
			c.fail(fmt.Sprintf("%s on a read-only table did not fail: %s", what, res))
		}
		// … and it fails for being a write, every time: an earlier refused write leaves no transaction open (F57)
		if expectErr && strings.HasPrefix(res, "ERR") && !strings.HasPrefix(res, "ERR:readonly") {
			c.fail(fmt.Sprintf("%s on a read-only table failed, but not for being a write: %s", what, res))
		}
		// no statement, refused or not, leaves a write time on the connection
		if wt := sqlh.QS(ro, "select write_time from s3db_conn"); wt != "N" {
			c.fail(fmt.Sprintf("after %s the connection has the write_time %s", what, wt))
		}
		if m := c.roMutations(); len(m) > 0 {
			c.fail(fmt.Sprintf("the read-only table modified the bucket after %s: %v", what, m[:min(len(m), 4)]))
		}
		if d := dump(); d != rows {
			c.fail(fmt.Sprintf("the visible rows of the read-only table changed after %s: %q -> %q", what, rows, d))
		}
	}
	// nothing in the bucket changed at all
	after := c.store.Snapshot()
	if len(after) != len(snapshot) {
		c.fail(fmt.Sprintf("bucket object count changed from %d to %d", len(snapshot), len(after)))
	}
	c.st.Distinct(fmt.Sprintf("%d|%s", nver, strings.Join(c.log, "|")))
}

func roCmd(args []string) int {
	fs := flag.NewFlagSet("ro", flag.ExitOnError)
	seed := fs.Uint64("seed", 1, "")
	n := fs.Int("n", 60, "cases")
	outp := fs.String("out", "", "")
	kn := fs.String("known", "", "")
	fs.Parse(args)
	setKnown(*kn)
	st := NewStats("ro", *seed)
	st.Rule = "buckets holding 0-5 unmerged versions (inserts, updates, deletes by up to 4 writers), then a read-only table runs 12-32 random operations: selects, write attempts (single, ranges, inside transactions, repeated), s3db_refresh, s3db_version, s3db_changes, s3db_vacuum attempts with past/future cutoffs; after every operation: no PUT/DELETE by any client of the read-only table in the request log, rows unchanged, writes that match a row fail with the read-only error every time (never 'transaction already in progress'), no write time is left on the connection; distinct = distinct operation sequence (all non-trivial)"
	isChild, from, to := childRange()
	if !isChild {
		NewEmitter(*outp+".ops", *outp+".exp").Close()
		isolate(st, *n, *outp, 20*time.Second, func(int, []string, string) bool { return false })
		st.Write(*outp + ".stats.json")
		fmt.Printf("ro: %d cases, %d oracle failures\n", st.Cases, len(st.Failures))
		return 0
	}
	openProgress(*outp)
	root := gen.New(*seed)
	for i := from; i < to; i++ {
		r := root.Fork(i)
		b, store := sqlh.Bucket()
		c := &roCase{st: st, r: r, id: fmt.Sprintf("ro-%d-%d", *seed, i), bucket: b, store: store, epn: gen.Pick(r, []int{2, 4, 4096})}
		progressLine(fmt.Sprintf("CASE %d", i))
		c.run()
		st.Cases++
		if i < 1 {
			st.Sample(c.log)
		}
		st.Write(*outp + ".child.json")
	}
	return 0
}
