package main

import (
	"context"
	"database/sql"
	"encoding/json"
	"flag"
	"fmt"
	"math"
	"os"
	"strings"
	"time"

	"github.com/aws/aws-sdk-go/aws/awserr"
	"github.com/jrhy/s3db"
	"github.com/jrhy/s3db/kv"

	"verif/harness/fakes3"
	"verif/harness/sqlh"
)

func init() { cmds["witness"] = witnessCmd }

// The corpus: the minimal failing input of every defect that was repaired by a fix: commit
// (it must now behave) and of every recorded finding (reported as KNOWN-FINDING when it still
// reproduces). Each witness runs in its own child process: several of them used to kill it.

type wEnv struct {
	db     *sql.DB
	bucket string
	store  *fakes3.Store
}

func (w *wEnv) mk(name, cols string, extra sqlh.TableOpts) string {
	extra.Name, extra.Bucket, extra.Columns = name, w.bucket, cols
	if extra.Prefix == "" {
		extra.Prefix = "p"
	}
	return sqlh.XS(w.db, sqlh.CreateSQL(extra))
}
func (w *wEnv) x(q string, a ...any) string { return sqlh.XS(w.db, q, a...) }
func (w *wEnv) q(q string, a ...any) string { return sqlh.QS(w.db, q, a...) }
func (w *wEnv) wt(k int)                    { sqlh.SetWriteTime(w.db, k) }

type witness struct {
	id    string
	props []string
	what  string
	known bool                 // a recorded finding: "" result = reproduced
	run   func(w *wEnv) string // "" = behaves as the property requires; otherwise what went wrong
}

func wantEq(what, got, want string) string {
	if got != want {
		return fmt.Sprintf("%s: got %q, want %q", what, got, want)
	}
	return ""
}

func i(n int) string    { return fmt.Sprintf("I:%d", n) }
func t(s string) string { return fmt.Sprintf("T:%x", s) }

var witnesses = []witness{
	{id: "F1", props: []string{"C16", "C06", "C09"}, what: "multi-node trees could not be read back (absent child link decoded as the link \"\")", run: func(w *wEnv) string {
		w.mk("t", "a primary key, b", sqlh.TableOpts{EntriesPerNode: 4})
		for k := 0; k < 20; k++ {
			w.x("insert into t values(?,?)", k, k)
		}
		w.mk("r", "a primary key, b", sqlh.TableOpts{EntriesPerNode: 4, ReadOnly: true})
		return wantEq("count through a fresh reader", w.q("select count(*) from r"), i(20))
	}},
	{id: "F2", props: []string{"C06"}, what: "descending scan with an upper bound above the last key", run: func(w *wEnv) string {
		w.mk("t", "a primary key, b", sqlh.TableOpts{})
		w.x("insert into t values (1,'x'),(3,'y')")
		if e := wantEq("a<=5 desc", w.q("select a from t where a<=5 order by a desc"), "I:3 | I:1"); e != "" {
			return e
		}
		return wantEq("max(a) where a<=5", w.q("select max(a) from t where a<=5"), i(3))
	}},
	{id: "F3", props: []string{"C06", "C14"}, what: "key comparison with NULL", run: func(w *wEnv) string {
		w.mk("t", "a primary key, b", sqlh.TableOpts{})
		w.x("insert into t values (1,'x')")
		for _, q := range []string{"select a from t where a = ?", "select a from t where a > ?", "select a from t where a >= ? order by a desc"} {
			if e := wantEq(q, w.q(q, nil), ""); e != "" {
				return e
			}
		}
		return ""
	}},
	{id: "F4", props: []string{"C02"}, what: "UPDATE re-assigned every column", run: func(w *wEnv) string {
		w.mk("w0", "a primary key, b, c", sqlh.TableOpts{})
		w.wt(1)
		w.x("insert into w0 values (1,'b0','c0')")
		w.mk("wa", "a primary key, b, c", sqlh.TableOpts{})
		w.mk("wb", "a primary key, b, c", sqlh.TableOpts{})
		w.wt(10)
		w.x("update wa set b='b10' where a=1")
		w.wt(5)
		w.x("update wb set c='c5' where a=1")
		w.mk("r", "a primary key, b, c", sqlh.TableOpts{ReadOnly: true})
		return wantEq("merged row", w.q("select * from r"), "I:1,"+t("b10")+","+t("c5"))
	}},
	{id: "F5", props: []string{"C02"}, what: "an UPDATE with a later write time revived a deleted row", run: func(w *wEnv) string {
		w.mk("w0", "a primary key, b", sqlh.TableOpts{})
		w.wt(1)
		w.x("insert into w0 values (1,'b0')")
		w.mk("wa", "a primary key, b", sqlh.TableOpts{})
		w.mk("wb", "a primary key, b", sqlh.TableOpts{})
		w.wt(10)
		w.x("update wa set b='b10' where a=1")
		w.wt(5)
		w.x("delete from wb where a=1")
		w.mk("r", "a primary key, b", sqlh.TableOpts{ReadOnly: true})
		return wantEq("merged table", w.q("select * from r"), "")
	}},
	{id: "F6", props: []string{"C01", "C02", "C04"}, what: "merge order changed the rows (delete, re-insert, update by a writer that saw neither)", run: func(w *wEnv) string {
		w.mk("w1", "k primary key, b, c", sqlh.TableOpts{})
		w.wt(1)
		w.x("insert into w1 values (1,'b1','c1')")
		w.mk("w2", "k primary key, b, c", sqlh.TableOpts{})
		w.mk("w3", "k primary key, b, c", sqlh.TableOpts{})
		w.wt(5)
		w.x("delete from w1 where k=1")
		w.x("select s3db_refresh('w3')")
		w.wt(6)
		w.x("insert into w3 values (2,'x','y')")
		w.wt(10)
		w.x("insert into w1 values (1,'b10','c10')")
		w.wt(12)
		w.x("update w2 set c='c12' where k=1")
		first := ""
		for n := 0; n < 12; n++ {
			name := fmt.Sprintf("r%d", n)
			w.mk(name, "k primary key, b, c", sqlh.TableOpts{ReadOnly: true})
			got := w.q("select * from " + name + " order by k")
			if n == 0 {
				first = got
			} else if got != first {
				return fmt.Sprintf("two readers of the same versions disagree: %q vs %q", first, got)
			}
		}
		return wantEq("merged table", first, "I:1,"+t("b10")+","+t("c12")+" | I:2,"+t("x")+","+t("y"))
	}},
	{id: "F7", props: []string{"C02", "C15"}, what: "a statement older than the stored row was dropped", run: func(w *wEnv) string {
		w.mk("t", "a primary key, b, c", sqlh.TableOpts{})
		w.wt(1)
		w.x("insert into t values (1,'b0','c0')")
		w.wt(10)
		w.x("update t set b='b10' where a=1")
		w.wt(5)
		w.x("update t set c='c5' where a=1")
		return wantEq("row", w.q("select * from t"), "I:1,"+t("b10")+","+t("c5"))
	}},
	{id: "F8", props: []string{"C07"}, what: "INTEGER beyond 2^53 compared with REAL through float64", run: func(w *wEnv) string {
		w.mk("t", "a primary key", sqlh.TableOpts{})
		w.x("insert into t values (?)", int64(1)<<53+1)
		return wantEq("insert of 2^53 as REAL next to 2^53+1", w.x("insert into t values (?)", float64(int64(1)<<53)), "ok")
	}},
	{id: "F11", props: []string{"C09", "C10"}, what: "vacuum deleted nodes the current version needs", run: func(w *wEnv) string {
		w.mk("t", "a primary key, b", sqlh.TableOpts{EntriesPerNode: 4})
		for k := 0; k < 20; k++ {
			w.x("insert into t values(?,?)", k, k)
		}
		if r := w.q("select * from s3db_vacuum('t',?)", time.Now().Add(time.Hour).UTC().Format("2006-01-02 15:04:05")); r != "N" {
			return "vacuum: " + r
		}
		w.mk("r", "a primary key, b", sqlh.TableOpts{EntriesPerNode: 4, ReadOnly: true})
		return wantEq("count through a fresh reader after vacuum", w.q("select count(*) from r"), i(20))
	}},
	{id: "F13", props: []string{"C12"}, what: "s3db_changes across a DELETE", run: func(w *wEnv) string {
		w.mk("t", "a primary key, b", sqlh.TableOpts{})
		w.x("insert into t values (1,'x'),(2,'y')")
		v1 := w.q("select s3db_version('t')")
		w.x("delete from t where a=2")
		w.x("insert into t values (3,'z')")
		v2 := w.q("select s3db_version('t')")
		dec := func(s string) string {
			b := make([]byte, len(s)/2-1)
			fmt.Sscanf(strings.TrimPrefix(s, "T:"), "%x", &b)
			return string(b)
		}
		w.x(fmt.Sprintf("create virtual table ch using s3db_changes(table='t', from='%s', to='%s')", dec(v1), dec(v2)))
		return wantEq("changes", w.q("select a from ch"), i(3))
	}},
	{id: "F18", props: []string{"C20", "C06"}, what: "NOT NULL not enforced", run: func(w *wEnv) string {
		w.mk("t", "a primary key, b not null", sqlh.TableOpts{})
		r := w.x("insert into t values (1,NULL)")
		if !strings.HasPrefix(r, "ERR:constraint") {
			return "insert of NULL into a NOT NULL column: " + r
		}
		w.x("insert into t values (1,2)")
		r = w.x("update t set b=NULL where a=1")
		if !strings.HasPrefix(r, "ERR:constraint") {
			return "update to NULL of a NOT NULL column: " + r
		}
		return ""
	}},
	{id: "F19", props: []string{"C20"}, what: "a rejected declaration left the table registered", run: func(w *wEnv) string {
		r := w.x(`create virtual table "tt" using s3db (s3_bucket='` + w.bucket + `', s3_endpoint='` + sqlh.Endpoint + `', columns='a primary key, a2, a2b, "x" wibble wobble')`)
		_ = r
		if s3db.GetTable("tt") != nil && !strings.HasPrefix(r, "ok") {
			return "table still registered after a failed CREATE: " + r
		}
		return ""
	}},
	{id: "F20", props: []string{"C15"}, what: "a malformed deadline was rejected but cleared the attribute", run: func(w *wEnv) string {
		w.x("update s3db_conn set deadline='2030-01-01 00:00:00'")
		r := w.x("update s3db_conn set deadline='garbage'")
		if !strings.HasPrefix(r, "ERR") {
			return "malformed deadline accepted: " + r
		}
		return wantEq("deadline after the rejected update", w.q("select deadline from s3db_conn"), t("2030-01-01 00:00:00"))
	}},
	{id: "F21", props: []string{"C05", "C06", "C15"}, what: "equal write times: a later statement lost to an earlier one", run: func(w *wEnv) string {
		w.mk("t", "a primary key, b", sqlh.TableOpts{})
		w.x("insert into t values (1,0)")
		w.x("begin")
		w.x("update t set b=1 where a=1")
		w.x("update t set b=2 where a=1")
		w.x("insert into t values (3,0)")
		w.x("update t set b=5 where a=3")
		w.x("delete from t where a=1")
		r := w.x("insert into t values (1,9)")
		w.x("commit")
		if r != "ok" {
			return "delete then insert of the same key in one transaction: " + r
		}
		return wantEq("rows", w.q("select * from t order by a"), "I:1,I:9 | I:3,I:5")
	}},
	{id: "F26", props: []string{"C06"}, what: "ORDER BY with two terms", run: func(w *wEnv) string {
		w.mk("t", "k primary key, a", sqlh.TableOpts{})
		w.x("insert into t values (1,2),(2,1)")
		return wantEq("order by k, a", w.q("select k from t order by k, a"), "I:1 | I:2")
	}},
	{id: "F27", props: []string{"C06"}, what: "non-key constraint before a key constraint", run: func(w *wEnv) string {
		w.mk("t", "k primary key, a", sqlh.TableOpts{})
		w.x("insert into t values (1,'x'),(2,'x'),(3,'y')")
		return wantEq("where a='x' and k>1", w.q("select k from t where a='x' and k>1"), i(2))
	}},
	{id: "F28", props: []string{"C05"}, what: "s3db_refresh inside a transaction dropped its rows", run: func(w *wEnv) string {
		w.mk("t", "k primary key, a", sqlh.TableOpts{})
		w.x("insert into t values (1,'one')")
		w.x("begin")
		w.x("insert into t values (2,'two')")
		r := w.q("select s3db_refresh('t')")
		w.x("commit")
		if !strings.HasPrefix(r, "ERR") {
			if got := w.q("select count(*) from t"); got != i(2) {
				return "refresh inside a transaction was accepted and the transaction's row is gone: count " + got
			}
		}
		return wantEq("rows after commit", w.q("select count(*) from t"), i(2))
	}},
	{id: "F29", props: []string{"C05", "C09"}, what: "s3db_vacuum inside a transaction published uncommitted rows", run: func(w *wEnv) string {
		w.mk("t", "k primary key, a", sqlh.TableOpts{})
		w.x("insert into t values (1,'one')")
		w.x("begin")
		w.x("insert into t values (2,'two')")
		w.q("select * from s3db_vacuum('t','2000-01-01 00:00:00')")
		w.x("rollback")
		w.mk("r", "k primary key, a", sqlh.TableOpts{ReadOnly: true})
		return wantEq("rows seen by a fresh reader after ROLLBACK", w.q("select count(*) from r"), i(1))
	}},
	{id: "F30", props: []string{"C20"}, what: "option values misparsed", run: func(w *wEnv) string {
		if r := w.mk("t1", "a primary key", sqlh.TableOpts{Extra: "node_cache_entries=1000, "}); r != "ok" {
			return "node_cache_entries=1000: " + r
		}
		if n := s3db.GetTable("t1").S3Options.NodeCacheEntries; n != 1000 {
			return fmt.Sprintf("node_cache_entries=1000 parsed as %d", n)
		}
		for _, bad := range []string{"node_cache_entries=abc, ", "readonly=false, ", "entries_per_node=-3, ", "node_cache_entries=-5, "} {
			if r := w.mk("t2", "a primary key", sqlh.TableOpts{Extra: bad}); !strings.HasPrefix(r, "ERR") {
				return bad + "accepted"
			}
		}
		return ""
	}},
	{id: "F31", props: []string{"C20"}, what: "an option without a value crashed the process", run: func(w *wEnv) string {
		r := w.mk("t", "a primary key", sqlh.TableOpts{Extra: "entries_per_node, "})
		if !strings.HasPrefix(r, "ERR") {
			return "accepted: " + r
		}
		return ""
	}},
	{id: "F25", props: []string{"C20"}, what: "quoted column names", run: func(w *wEnv) string {
		if r := w.mk("t", `"a b" primary key, "x-y", "d.e"`, sqlh.TableOpts{}); r != "ok" {
			return "create: " + r
		}
		return wantEq("column names", w.q("select name from pragma_table_info('t') order by cid"), t("a b")+" | "+t("x-y")+" | "+t("d.e"))
	}},
	{id: "F34", props: []string{"C06", "C14"}, what: "descending scan of an empty table crashed the process", run: func(w *wEnv) string {
		w.mk("t", "a primary key", sqlh.TableOpts{})
		if e := wantEq("order by desc on an empty table", w.q("select a from t order by a desc"), ""); e != "" {
			return e
		}
		return wantEq("max on an empty table", w.q("select max(a) from t"), "N")
	}},
	{id: "F35", props: []string{"C08", "C06"}, what: "REAL -0.0 turned into 0.0 after a later write to the row", run: func(w *wEnv) string {
		w.mk("t", "k primary key, a, b", sqlh.TableOpts{})
		w.wt(1)
		w.x("insert into t values (1,?,1)", math.Copysign(0, -1))
		w.wt(2)
		w.x("update t set b=2 where k=1")
		return wantEq("a after an update of b", w.q("select a from t"), "R:8000000000000000")
	}},
	{id: "F36", props: []string{"C15", "C05"}, what: "a deadline-only UPDATE of s3db_conn inside a transaction made the transaction's time a sticky write_time", run: func(w *wEnv) string {
		w.mk("t", "k primary key, a", sqlh.TableOpts{})
		w.x("begin")
		w.x("insert into t values (1,'x')")
		w.x("update s3db_conn set deadline=NULL")
		w.x("commit")
		return wantEq("write_time after the transaction", w.q("select write_time from s3db_conn"), "N")
	}},
	{id: "F38", props: []string{"C09"}, what: "vacuum after a half-failed retirement left a current version pointing at deleted nodes", run: func(w *wEnv) string {
		w.mk("t", "k primary key, a", sqlh.TableOpts{EntriesPerNode: 2})
		for k := 0; k < 12; k++ {
			w.x("insert into t values(?,'v')", k)
		}
		for k := 0; k < 12; k += 3 {
			w.x("delete from t where k=?", k)
		}
		db2 := sqlh.Open()
		defer db2.Close()
		var cl *fakes3.Client
		sqlh.NextClient("vac", func(c *fakes3.Client) { cl = c })
		r := sqlh.XS(db2, sqlh.CreateSQL(sqlh.TableOpts{Name: "v", Bucket: w.bucket, Prefix: "p", Columns: "k primary key, a", EntriesPerNode: 2}))
		sqlh.NextClient("", nil)
		if r != "ok" || cl == nil {
			return "open: " + r
		}
		hit := false
		cl.Fault = func(idx, midx int, op, key string) error {
			if !hit && op == "PUT" && strings.Contains(key, "/root/merged/") {
				hit = true
				return awserr.New("InternalError", "injected fault", nil)
			}
			return nil
		}
		err := s3db.Vacuum(context.Background(), "v", time.Now().Add(time.Hour))
		cl.Fault = nil
		if err != nil || !hit {
			return fmt.Sprintf("vacuum: %v (fault hit %v)", err, hit)
		}
		if d := danglingIn(w.store, "p/s3db-rows/root/current/"); len(d) > 0 {
			return fmt.Sprintf("a version still listed as current refers to deleted nodes: %v", d[:min(len(d), 2)])
		}
		return wantEq("rows after the vacuum", sqlh.QS(db2, "select count(*) from v"), i(8))
	}},
	{id: "F39", props: []string{"C04", "C16", "C14"}, what: "a kv Commit retried after a failed one reported success without storing anything", run: func(w *wEnv) string {
		for _, kind := range []string{"/root/current/", "/node/"} {
			store := fakes3.NewStore()
			cfg := kv.Config{Storage: &kv.S3BucketInfo{EndpointURL: "http://fake", BucketName: "b", Prefix: "p"}, KeysLike: "", ValuesLike: "", BranchFactor: 4}
			cl := store.Client("w")
			db, err := kv.Open(ctxBG, cl, cfg, kv.OpenOptions{}, time.Unix(0, 1))
			if err != nil {
				return "open: " + err.Error()
			}
			defer db.Cancel()
			db.Set(ctxBG, time.Unix(0, 10), "a", "v1")
			if _, err := db.Commit(ctxBG); err != nil {
				return "first commit: " + err.Error()
			}
			db.Set(ctxBG, time.Unix(0, 20), "b", "v2")
			hit := false
			cl.Fault = func(idx, midx int, op, key string) error {
				if !hit && op == "PUT" && strings.Contains(key, kind) {
					hit = true
					return awserr.New("InternalError", "injected fault", nil)
				}
				return nil
			}
			_, err = db.Commit(ctxBG)
			cl.Fault = nil
			if err == nil || !hit {
				return fmt.Sprintf("commit with a failing PUT under %s: err=%v hit=%v", kind, err, hit)
			}
			if _, err = db.Commit(ctxBG); err != nil {
				continue // refusing is fine; acknowledging without storing is not
			}
			rd, err := kv.Open(ctxBG, store.Client("r"), cfg, kv.OpenOptions{ReadOnly: true}, time.Unix(0, 2))
			if err != nil {
				return "re-open: " + err.Error()
			}
			var v string
			if ok, err := rd.Get(ctxBG, "b", &v); err != nil || !ok || v != "v2" {
				return fmt.Sprintf("the retried Commit (after a failed PUT under %s) was acknowledged, but a fresh open sees b=%q present=%v err=%v", kind, v, ok, err)
			}
		}
		return ""
	}},
	{id: "F40", props: []string{"C09", "C16", "C10"}, what: "with a node cache, a vacuum that returns the tree to an earlier shape referred to nodes an earlier vacuum had deleted", run: func(w *wEnv) string {
		w.mk("t", "k primary key, a", sqlh.TableOpts{EntriesPerNode: 2, NodeCache: 1000})
		for k := 0; k < 8; k++ {
			w.x("insert into t values(?,'v')", k)
		}
		time.Sleep(time.Millisecond)
		w.x("insert into t values(100,'x')")
		time.Sleep(time.Millisecond)
		mid := time.Now()
		time.Sleep(time.Millisecond)
		w.x("delete from t where k=100")
		time.Sleep(time.Millisecond)
		if err := s3db.Vacuum(context.Background(), "t", mid); err != nil {
			return "first vacuum: " + err.Error()
		}
		if err := s3db.Vacuum(context.Background(), "t", time.Now().Add(time.Hour)); err != nil {
			return "second vacuum: " + err.Error()
		}
		if d := danglingIn(w.store, "p/s3db-rows/root/current/"); len(d) > 0 {
			return fmt.Sprintf("the current version refers to deleted nodes: %v", d[:min(len(d), 2)])
		}
		db2 := sqlh.Open()
		defer db2.Close()
		if r := sqlh.XS(db2, sqlh.CreateSQL(sqlh.TableOpts{Name: "r", Bucket: w.bucket, Prefix: "p", Columns: "k primary key, a", EntriesPerNode: 2, ReadOnly: true})); r != "ok" {
			return "fresh open: " + r
		}
		return wantEq("rows seen by a fresh reader", sqlh.QS(db2, "select count(*) from r"), i(8))
	}},
	{id: "F43", props: []string{"C09"}, what: "a vacuum from a connection that was not refreshed deleted nodes another writer's current version uses", run: func(w *wEnv) string {
		w.mk("a", "k primary key, a", sqlh.TableOpts{EntriesPerNode: 2})
		w.wt(1)
		w.x("insert into a values(1,'one')")
		w.wt(2)
		w.x("insert into a values(2,'two')")
		dbB := sqlh.Open()
		defer dbB.Close()
		if r := sqlh.XS(dbB, sqlh.CreateSQL(sqlh.TableOpts{Name: "b", Bucket: w.bucket, Prefix: "p", Columns: "k primary key, a", EntriesPerNode: 2})); r != "ok" {
			return "second connection: " + r
		}
		sqlh.SetWriteTime(dbB, 3)
		sqlh.Exec(dbB, "delete from b where k=2")
		if r := sqlh.XS(dbB, "select * from s3db_vacuum('b','2021-01-01 00:00:00')"); r != "ok" {
			return "vacuum by the second connection: " + r
		}
		if err := s3db.Vacuum(context.Background(), "a", time.Now().Add(time.Hour)); err != nil {
			return "vacuum by the stale connection: " + err.Error()
		}
		if d := danglingIn(w.store, "p/s3db-rows/root/current/"); len(d) > 0 {
			return fmt.Sprintf("a current version refers to deleted nodes: %v", d[:min(len(d), 2)])
		}
		dbC := sqlh.Open()
		defer dbC.Close()
		if r := sqlh.XS(dbC, sqlh.CreateSQL(sqlh.TableOpts{Name: "c", Bucket: w.bucket, Prefix: "p", Columns: "k primary key, a", EntriesPerNode: 2, ReadOnly: true})); r != "ok" {
			return "fresh open: " + r
		}
		return wantEq("rows seen by a fresh reader", sqlh.QS(dbC, "select k from c"), i(1))
	}},
	{id: "F44", props: []string{"C09", "C05"}, what: "ROLLBACK after a vacuum inside a transaction that changed nothing returned to a tree whose nodes were deleted", run: func(w *wEnv) string {
		w.mk("t", "k primary key, a", sqlh.TableOpts{EntriesPerNode: 2})
		for k := 0; k < 8; k++ {
			w.x("insert into t values(?,'x')", k)
		}
		w.x("delete from t where k=3")
		w.x("begin")
		w.x("delete from t where k=99")
		if r := w.x("select * from s3db_vacuum('t','2100-01-01 00:00:00')"); r != "ok" {
			return "vacuum: " + r
		}
		w.x("rollback")
		return wantEq("rows after the rollback", w.q("select count(*) from t"), i(7))
	}},
	{id: "F45", props: []string{"C09", "C10"}, what: "a vacuum cutoff beyond the year 2262 left tombstones behind; the next INSERT of such a key crashed the process", run: func(w *wEnv) string {
		w.mk("t", "k primary key, a", sqlh.TableOpts{EntriesPerNode: 4})
		w.x("insert into t values(1,'x')")
		w.x("insert into t values(2,'y')")
		w.x("delete from t where k=2")
		if r := w.x("select * from s3db_vacuum('t','2300-01-01 00:00:00')"); r != "ok" {
			return "vacuum: " + r
		}
		if r := w.x("insert into t values(2,'again')"); r != "ok" {
			return "insert after the vacuum: " + r
		}
		return wantEq("rows", w.q("select k from t order by k"), i(1)+" | "+i(2))
	}},
	{id: "G1", props: []string{"C07", "C06"}, what: "a NULL key is rejected with a constraint failure, however it is offered and whatever the table holds", run: func(w *wEnv) string {
		w.mk("t", "k primary key, a", sqlh.TableOpts{EntriesPerNode: 2})
		try := func(stage string) string {
			for _, q := range []string{"insert into t values(NULL,'x')", "insert into t(a) values('x')", "insert into t select NULL,'x'"} {
				if r := w.x(q); !strings.HasPrefix(r, "ERR:constraint") {
					return fmt.Sprintf("%s: %s -> %s", stage, q, r)
				}
			}
			if r := w.x("insert into t values(?,?)", nil, "x"); !strings.HasPrefix(r, "ERR:constraint") {
				return fmt.Sprintf("%s: bound nil key -> %s", stage, r)
			}
			return ""
		}
		if e := try("empty table"); e != "" {
			return e
		}
		for k := 1; k <= 9; k++ {
			w.x("insert into t values(?,'v')", k)
		}
		w.x("insert into t values('txt','v')")
		if e := try("table with integer and text keys"); e != "" {
			return e
		}
		w.x("delete from t")
		if e := try("table holding only delete markers"); e != "" {
			return e
		}
		w.x("begin")
		w.x("insert into t values(5,'again')")
		e := try("inside a transaction with an uncommitted row")
		w.x("rollback")
		return e
	}},
	{id: "F47", props: []string{"C12"}, what: "s3db_changes was empty from the second scan of its cursor on (inner table of a join, correlated subquery)", run: func(w *wEnv) string {
		w.mk("t", "k primary key, a", sqlh.TableOpts{EntriesPerNode: 4})
		for k := 0; k < 5; k++ {
			w.x("insert into t values(?,'x')", k)
		}
		if r := w.x(`create virtual table c using s3db_changes(table='t', from='[]')`); r != "ok" {
			return "create: " + r
		}
		if e := wantEq("join with the changes table as the inner loop", w.q("select count(*) from (select 1 as x union all select 2 union all select 3) o cross join c"), i(15)); e != "" {
			return e
		}
		return wantEq("correlated subquery", w.q("select (select count(*) from c where c.k >= o.x) from (select 1 as x union all select 2 union all select 3) o"), i(4)+" | "+i(3)+" | "+i(2))
	}},
	{id: "F48", props: []string{"C20", "C06"}, what: "a column without a type was declared with the type of the column before it", run: func(w *wEnv) string {
		if r := w.mk("t", "a integer primary key, b, c text, d", sqlh.TableOpts{}); r != "ok" {
			return "create: " + r
		}
		return wantEq("declared types", w.q("select type from pragma_table_info('t') order by cid"), t("INTEGER")+" | "+t("")+" | "+t("TEXT")+" | "+t(""))
	}},
	{id: "F49", props: []string{"C20"}, what: "a trailing comma and keywords run together were accepted in the columns argument", run: func(w *wEnv) string {
		for n, cols := range []string{"a, b,", "a primary key, b,  ", "a notnull, b", "a primarykey, b", "a, b, primarykey(a)", "a, b, primary key(a,)"} {
			if r := w.mk(fmt.Sprintf("t%d", n), cols, sqlh.TableOpts{}); !strings.HasPrefix(r, "ERR") {
				return fmt.Sprintf("columns='%s' accepted: %s", cols, r)
			}
		}
		if r := w.mk("ok1", "a PRIMARY   KEY, b NOT\tNULL, c  not null  unique", sqlh.TableOpts{}); !strings.HasPrefix(r, "ERR") {
			return "UNIQUE after NOT NULL accepted: " + r
		}
		if r := w.mk("ok2", "a number nOT  NULL  pRIMaRy keY, b", sqlh.TableOpts{}); r != "ok" {
			return "two constraints in a row: " + r
		}
		return ""
	}},
	{id: "F50", props: []string{"C20"}, what: "an option value written without quotes was rewritten (s3_prefix=007 opened the prefix 7)", run: func(w *wEnv) string {
		for n, pfx := range []string{"007", "1e3", "2024.10", "0x10"} {
			name := fmt.Sprintf("t%d", n)
			if r := w.x(fmt.Sprintf(`create virtual table %s using s3db (columns='a primary key', s3_bucket='%s', s3_endpoint='%s', s3_prefix=%s)`, name, w.bucket, sqlh.Endpoint, pfx)); r != "ok" {
				return "create: " + r
			}
			if got := s3db.GetTable(name).S3Options.Prefix; got != pfx {
				return fmt.Sprintf("s3_prefix=%s opened the prefix %q", pfx, got)
			}
		}
		return ""
	}},
	{id: "F52", props: []string{"C09", "C11", "C10"}, what: "versions carried the time the connection was opened, so vacuum removed versions committed after its cutoff", run: func(w *wEnv) string {
		w.mk("t", "k primary key, a", sqlh.TableOpts{EntriesPerNode: 2})
		w.x("insert into t values(1,'x')")
		time.Sleep(3 * time.Millisecond)
		mark := time.Now()
		time.Sleep(3 * time.Millisecond)
		w.x("insert into t values(2,'x')")
		v2 := w.q("select s3db_version('t')")
		time.Sleep(3 * time.Millisecond)
		w.x("insert into t values(3,'x')")
		if err := s3db.Vacuum(context.Background(), "t", mark); err != nil {
			return "vacuum: " + err.Error()
		}
		vb, _ := hexDecode(strings.TrimPrefix(v2, "T:"))
		if r := w.x(fmt.Sprintf(`create virtual table c using s3db_changes(table='t', from='%s')`, vb)); r != "ok" {
			return "changes: " + r
		}
		return wantEq("changes since the version committed after the cutoff", w.q("select k from c"), i(3))
	}},
	{id: "F54", props: []string{"C09"}, what: "a vacuum from a connection that had not merged another writer's line deleted nodes of the versions that writer had superseded", run: func(w *wEnv) string {
		w.mk("a", "k primary key, a", sqlh.TableOpts{EntriesPerNode: 2})
		for k := 1; k <= 8; k++ {
			w.x("insert into a values(?,'base')", k)
		}
		dbB := sqlh.Open()
		defer dbB.Close()
		if r := sqlh.XS(dbB, sqlh.CreateSQL(sqlh.TableOpts{Name: "b", Bucket: w.bucket, Prefix: "p", Columns: "k primary key, a", EntriesPerNode: 2})); r != "ok" {
			return "second connection: " + r
		}
		// B's line: first a version that still uses the base's left-hand leaves, then one that does not
		sqlh.Exec(dbB, "insert into b values(100,'b1')")
		vB := sqlh.QS(dbB, "select s3db_version('b')")
		sqlh.Exec(dbB, "update b set a='b2' where k<=4")
		// A's own line changes the same leaves, so the base's copies of them are candidates for deletion
		w.x("update a set a='a1' where k<=4")
		time.Sleep(2 * time.Millisecond)
		w.x("insert into a values(51,'a2')")
		if err := s3db.Vacuum(context.Background(), "a", time.Now().Add(time.Hour)); err != nil {
			return "vacuum by the connection that has not seen B: " + err.Error()
		}
		if d := danglingIn(w.store, "p/s3db-rows/root/merged/", "p/s3db-rows/root/current/"); len(d) > 0 {
			return fmt.Sprintf("a listed version refers to deleted nodes: %v", d[:min(len(d), 2)])
		}
		vb, _ := hexDecode(strings.TrimPrefix(vB, "T:"))
		if _, err := readVersionKA(w.bucket, 2, string(vb)); err != nil {
			return "B's superseded version cannot be read any more: " + err.Error()
		}
		return ""
	}},
	{id: "F57", props: []string{"C13", "C15", "C05"}, what: "a read-only table that had been written to refused every later transaction and left a write time on the connection", run: func(w *wEnv) string {
		w.mk("rw", "k primary key, a", sqlh.TableOpts{})
		w.x("insert into rw values(1,'x')")
		w.mk("ro", "k primary key, a", sqlh.TableOpts{ReadOnly: true})
		w.x("delete from ro where k=999")
		if r := w.x("insert into ro values(2,'y')"); !strings.HasPrefix(r, "ERR:readonly") {
			return "second write to the read-only table: " + r
		}
		return wantEq("write_time after the refused writes", w.q("select write_time from s3db_conn"), "N")
	}},
	{id: "F58", props: []string{"C05"}, what: "s3db_refresh inside a transaction that had written brought in newer rows whose UPDATE/DELETE was then silently lost", run: func(w *wEnv) string {
		w.mk("log", "k primary key, a", sqlh.TableOpts{Prefix: "log"})
		w.mk("t1", "k primary key, a", sqlh.TableOpts{})
		db2 := sqlh.Open()
		defer db2.Close()
		sqlh.XS(db2, sqlh.CreateSQL(sqlh.TableOpts{Name: "t2", Bucket: w.bucket, Prefix: "p", Columns: "k primary key, a"}))
		w.x("begin")
		w.x("insert into log values(1,'job started')")
		time.Sleep(2 * time.Millisecond)
		sqlh.Exec(db2, "insert into t2 values(7,'from connection 2')")
		r := w.x("select s3db_refresh('t1')")
		if r == "ok" {
			w.x("update t1 set a='from connection 1' where k=7")
			got := w.q("select a from t1 where k=7")
			w.x("rollback")
			return wantEq("the transaction's own UPDATE of a row it got by refreshing", got, t("from connection 1"))
		}
		w.x("rollback")
		return ""
	}},
	{id: "F59", props: []string{"C20"}, what: "a blank after the = of an option made the quotes part of the value; sizes with a leading zero were octal", run: func(w *wEnv) string {
		if r := w.x(fmt.Sprintf(`create virtual table t1 using s3db (columns= 'a primary key, b', s3_bucket= '%s', s3_endpoint='%s', s3_prefix= 'q', entries_per_node=0100)`, w.bucket, sqlh.Endpoint)); r != "ok" {
			return "create: " + r
		}
		if e := wantEq("columns", w.q("select name from pragma_table_info('t1') order by cid"), t("a")+" | "+t("b")); e != "" {
			return e
		}
		vt := s3db.GetTable("t1")
		if vt.S3Options.Prefix != "q" || vt.S3Options.EntriesPerNode != 100 {
			return fmt.Sprintf("prefix %q entries_per_node %d", vt.S3Options.Prefix, vt.S3Options.EntriesPerNode)
		}
		if r := w.mk("t2", "a primary key", sqlh.TableOpts{Extra: "entries_per_node=0x10, "}); !strings.HasPrefix(r, "ERR") {
			return "entries_per_node=0x10 accepted: " + r
		}
		return ""
	}},
	{id: "F61", props: []string{"C20"}, what: "a definition SQLite refuses to declare (columns differing only in case, _rowid_, invalid UTF-8) was rejected only after the storage had been opened and a merge written", run: func(w *wEnv) string {
		// two unmerged versions under the prefix: an open would merge them and store the merge
		for n := 0; n < 2; n++ {
			d := sqlh.Open()
			sqlh.XS(d, sqlh.CreateSQL(sqlh.TableOpts{Name: fmt.Sprintf("pre%d", n), Bucket: w.bucket, Prefix: "p", Columns: "k primary key, v"}))
			defer d.Close()
		}
		w.x("select 1")
		d0, d1 := sqlh.Open(), sqlh.Open()
		defer d0.Close()
		defer d1.Close()
		sqlh.XS(d0, sqlh.CreateSQL(sqlh.TableOpts{Name: "w0", Bucket: w.bucket, Prefix: "p", Columns: "k primary key, v"}))
		sqlh.XS(d1, sqlh.CreateSQL(sqlh.TableOpts{Name: "w1", Bucket: w.bucket, Prefix: "p", Columns: "k primary key, v"}))
		sqlh.Exec(d0, "insert into w0 values(1,'a')")
		sqlh.Exec(d1, "insert into w1 values(2,'b')")
		before := strings.Join(w.store.Keys(""), " ")
		for n, cols := range []string{"k primary key, v, V", "_rowid_, v", "k primary key, \xff"} {
			cols = strings.ReplaceAll(cols, "\\xff", "\xff")
			if r := w.mk(fmt.Sprintf("bad%d", n), cols, sqlh.TableOpts{}); !strings.HasPrefix(r, "ERR") {
				return fmt.Sprintf("columns='%s' accepted: %s", cols, r)
			}
			if after := strings.Join(w.store.Keys(""), " "); after != before {
				return fmt.Sprintf("the rejected columns='%s' changed the bucket", cols)
			}
		}
		return ""
	}},
	{id: "F62", props: []string{"C06", "C07"}, what: "a key comparison under NOCASE/RTRIM narrowed the scan bytewise and lost rows", run: func(w *wEnv) string {
		w.mk("t", "a primary key, b", sqlh.TableOpts{})
		for n, k := range []string{"abc", "ABC", "Abd", "B", "b", "a", "A", "abc  "} {
			w.x("insert into t values(?,?)", k, n)
		}
		if e := wantEq("a = 'abc' collate nocase", w.q("select count(*) from t where a = 'abc' collate nocase"), i(2)); e != "" {
			return e
		}
		if e := wantEq("a < 'B' collate nocase", w.q("select count(*) from t where a < 'B' collate nocase"), i(6)); e != "" {
			return e
		}
		return wantEq("a = 'abc' collate rtrim", w.q("select count(*) from t where a = 'abc' collate rtrim"), i(2))
	}},
	{id: "F64", props: []string{"C18", "C12", "C16"}, what: "a node object overwritten with another node's object (or with nothing) was accepted", run: func(w *wEnv) string {
		store := fakes3.NewStore()
		cfg := kv.Config{Storage: &kv.S3BucketInfo{EndpointURL: "http://fake", BucketName: "b", Prefix: "p"}, KeysLike: "", ValuesLike: "", BranchFactor: 4, NodeEncryptor: kv.V1NodeEncryptor([]byte("passphrase"))}
		db, err := kv.Open(ctxBG, store.Client("w"), cfg, kv.OpenOptions{}, time.Unix(0, 1))
		if err != nil {
			return "open: " + err.Error()
		}
		defer db.Cancel()
		db.Set(ctxBG, time.Unix(0, 10), "balance", "100")
		if _, err := db.Commit(ctxBG); err != nil {
			return "commit: " + err.Error()
		}
		n1 := store.Keys("p/node/")
		db.Set(ctxBG, time.Unix(0, 20), "balance", "0")
		if _, err := db.Commit(ctxBG); err != nil {
			return "commit: " + err.Error()
		}
		var newNode string
		for _, k := range store.Keys("p/node/") {
			if len(n1) == 1 && k != n1[0] {
				newNode = k
			}
		}
		if newNode == "" {
			return "could not tell the two nodes apart"
		}
		old, _ := store.Get(n1[0])
		for _, body := range [][]byte{old, {}} {
			store.Put(newNode, body)
			rd, err := kv.Open(ctxBG, store.Client("r"), cfg, kv.OpenOptions{ReadOnly: true}, time.Unix(0, 2))
			if err != nil {
				continue // refused at open: fine
			}
			var v string
			if ok, err := rd.Get(ctxBG, "balance", &v); err == nil {
				return fmt.Sprintf("a node object replaced by %d foreign bytes was accepted: balance=%q present=%v", len(body), v, ok)
			}
		}
		return ""
	}},
	{id: "F69", props: []string{"C09", "C10", "C14", "C04"}, what: "after a vacuum interrupted while deleting version objects every later vacuum failed", run: func(w *wEnv) string {
		var cl *fakes3.Client
		sqlh.NextClient("v", func(c *fakes3.Client) { cl = c })
		w.mk("t", "k primary key, a", sqlh.TableOpts{EntriesPerNode: 2})
		sqlh.NextClient("", nil)
		for k := 0; k < 12; k++ {
			w.x("insert into t values(?,'v')", k)
		}
		for n := 0; n < 4; n++ {
			w.x("update t set a=?", fmt.Sprint("u", n))
		}
		// refuse the second deletion of a version object (and everything after it) once
		nd, armed := 0, true
		cl.Fault = func(idx, midx int, op, key string) error {
			if armed && op == "DEL" && strings.Contains(key, "/root/merged/") {
				nd++
				if nd >= 2 {
					return awserr.New("InternalError", "injected fault", nil)
				}
			}
			return nil
		}
		s3db.Vacuum(context.Background(), "t", time.Now().Add(time.Hour))
		armed = false
		cl.Fault = nil
		if err := s3db.Vacuum(context.Background(), "t", time.Now().Add(time.Hour)); err != nil {
			return "the vacuum after the interrupted one: " + err.Error()
		}
		return wantEq("rows", w.q("select count(*) from t"), i(12))
	}},
	{id: "F70", props: []string{"C09", "C11"}, what: "a version created after the cutoff was removed because its successor (a merge version dated before its listing) carried an earlier time (kv level)", run: func(w *wEnv) string {
		store := fakes3.NewStore()
		cfg := kv.Config{Storage: &kv.S3BucketInfo{EndpointURL: "http://fake", BucketName: "b", Prefix: "p"}, KeysLike: "", ValuesLike: "", BranchFactor: 4}
		at := func(n int64) time.Time { return time.Unix(1000+n, 0) }
		db, err := kv.Open(ctxBG, store.Client("w"), cfg, kv.OpenOptions{}, at(10))
		if err != nil {
			return "open: " + err.Error()
		}
		defer db.Cancel()
		db.Set(ctxBG, at(1), "a", "1")
		db.Commit(ctxBG) // V1 @10
		db.SetCreated(at(30))
		db.Set(ctxBG, at(2), "b", "2")
		v2, _ := db.Commit(ctxBG) // V2 @30
		db.SetCreated(at(20))
		db.Set(ctxBG, at(3), "c", "3")
		db.Commit(ctxBG) // V3 @20: older than the version it supersedes
		if err := kv.DeleteHistoricVersions(ctxBG, db, at(25)); err != nil {
			return "vacuum: " + err.Error()
		}
		if _, ok := store.Get("p/root/merged/" + *v2); !ok {
			return "the version created at 30 was removed by a vacuum with the cutoff 25"
		}
		return ""
	}},
	{id: "F71", props: []string{"C09", "C11"}, what: "after vacuum deleted the empty table's current version s3db_version() went on naming it", run: func(w *wEnv) string {
		w.mk("t", "a primary key, b", sqlh.TableOpts{})
		w.x("insert into t values (1,'x')")
		w.x("delete from t")
		if err := s3db.Vacuum(context.Background(), "t", time.Now().Add(time.Hour)); err != nil {
			return "vacuum: " + err.Error()
		}
		v := w.q("select s3db_version('t')")
		b := make([]byte, len(v)/2-1)
		fmt.Sscanf(strings.TrimPrefix(v, "T:"), "%x", &b)
		var names []string
		if err := json.Unmarshal(b, &names); err != nil {
			return "s3db_version: " + v
		}
		for _, n := range names {
			_, c := w.store.Get("p/root/current/" + n)
			_, m := w.store.Get("p/root/merged/" + n)
			if !c && !m {
				return "s3db_version() names " + n + ", which vacuum has just deleted"
			}
		}
		return ""
	}},
	{id: "F77", props: []string{"C08", "C07"}, what: "an UPDATE of the key to a value that merely converts to the old key reported success and kept the old key", run: func(w *wEnv) string {
		w.mk("t", "k primary key, a", sqlh.TableOpts{})
		w.x("insert into t values (1,'one'),(3,'three'),(0,'zero'),(1.5,'real'),('x','text'),(x'41','blob'),(7,'seven')")
		for _, u := range []string{"update t set k = 4294967297 where k = 1", "update t set k = 3.5 where k = 3", "update t set k = NULL where k = 0",
			"update t set k = '1.5abc' where k = 1.5", "update t set k = x'78' where k = 'x'", "update t set k = 'A' where k = x'41'", "update t set k = k + 0.0, a = 'upd' where k = 7"} {
			if r := w.x(u); !strings.HasPrefix(r, "ERR") {
				return u + ": " + r
			}
		}
		if r := w.x("update t set k = 7, a = 'same key' where k = 7"); r != "ok" {
			return "an UPDATE assigning the key its own value: " + r
		}
		return wantEq("a of row 7", w.q("select a from t where k = 7"), t("same key"))
	}},
	{id: "F93", props: []string{"C10", "C09", "C04"}, what: "a vacuum interrupted while deleting version objects left older ones listed under root/merged/, their nodes gone, out of every later vacuum's reach", run: func(w *wEnv) string {
		w.mk("t", "k primary key, a", sqlh.TableOpts{EntriesPerNode: 2})
		for k := 0; k < 10; k++ {
			w.x("insert into t values(?,'v')", k)
		}
		for n := 0; n < 6; n++ {
			w.x("update t set a=? where k<5", fmt.Sprint("u", n))
		}
		snap := w.store.Snapshot()
		cutoff := time.Now().Add(time.Hour)
		for k := 1; k < 60; k++ {
			w.store.Restore(snap)
			db := sqlh.Open()
			var cl *fakes3.Client
			sqlh.NextClient("v", func(c *fakes3.Client) { cl = c })
			name := "v" + sqlh.Uniq()
			r := sqlh.XS(db, sqlh.CreateSQL(sqlh.TableOpts{Name: name, Bucket: w.bucket, Prefix: "p", Columns: "k primary key, a", EntriesPerNode: 2}))
			sqlh.NextClient("", nil)
			if r != "ok" {
				db.Close()
				return "open: " + r
			}
			_, mm := cl.Counts()
			cl.CrashAfter = mm + k
			err := s3db.Vacuum(context.Background(), name, cutoff)
			db.Close()
			if err == nil {
				break // the vacuum needs fewer than k mutations: every crash point has been tried
			}
			db2 := sqlh.Open()
			name2 := "r" + sqlh.Uniq()
			sqlh.XS(db2, sqlh.CreateSQL(sqlh.TableOpts{Name: name2, Bucket: w.bucket, Prefix: "p", Columns: "k primary key, a", EntriesPerNode: 2}))
			err = s3db.Vacuum(context.Background(), name2, cutoff)
			db2.Close()
			if err != nil {
				return fmt.Sprintf("vacuum after a vacuum that crashed after %d mutations: %v", k, err)
			}
			if d := danglingIn(w.store, "p/s3db-rows/root/"); len(d) > 0 {
				return fmt.Sprintf("vacuum crashed after %d mutations, then a complete vacuum: still listed with missing nodes: %v", k, d[:min(len(d), 2)])
			}
		}
		return ""
	}},
	{id: "F94", props: []string{"C09", "C14", "C10"}, what: "with a node cache, a vacuum whose own commit failed left the vacuuming connection on nodes that were never stored", run: func(w *wEnv) string {
		for fail := 0; fail < 3; fail++ {
			t := fmt.Sprintf("t%d", fail)
			var cl *fakes3.Client
			sqlh.NextClient("w", func(c *fakes3.Client) { cl = c })
			r := w.mk(t, "k primary key, a", sqlh.TableOpts{EntriesPerNode: 2, NodeCache: 1000, Prefix: t})
			sqlh.NextClient("", nil)
			if r != "ok" || cl == nil {
				return "create: " + r
			}
			for k := 0; k < 16; k++ {
				w.x("insert into "+t+" values(?,'v')", k*10)
			}
			w.x("insert into " + t + " values(55,'x')")
			w.x("delete from " + t + " where k in (55, 30, 100)")
			n, hit := 0, false
			cl.Fault = func(idx, midx int, op, key string) error {
				if op == "PUT" && strings.Contains(key, "/node/") {
					n++
					if n-1 == fail && !hit {
						hit = true
						return awserr.New("InternalError", "injected fault", nil)
					}
				}
				return nil
			}
			err := s3db.Vacuum(context.Background(), t, time.Now().Add(time.Hour))
			cl.Fault = nil
			if !hit {
				continue
			}
			if err == nil {
				return "the vacuum whose node PUT failed reported success"
			}
			if e := wantEq(fmt.Sprintf("rows through the vacuuming connection after the failed vacuum (node PUT %d failed)", fail), w.q("select count(*) from "+t), i(14)); e != "" {
				return e
			}
			if res := w.x("insert into " + t + " values(56,'again')"); res != "ok" {
				return "the connection cannot write after the fault cleared: " + res
			}
			if err := s3db.Vacuum(context.Background(), t, time.Now().Add(time.Hour)); err != nil {
				return "vacuum after the fault cleared: " + err.Error()
			}
			if e := wantEq("rows after the second vacuum", w.q("select count(*) from "+t), i(15)); e != "" {
				return e
			}
		}
		return ""
	}},
	{id: "F95", props: []string{"C08", "C20"}, what: "a value given for the hidden _rowid_ of a table without PRIMARY KEY was silently replaced by a generated one", run: func(w *wEnv) string {
		w.mk("t", "a, b", sqlh.TableOpts{})
		if r := w.x("insert into t(_rowid_, a, b) values ('mykey', 1, 0)"); !strings.HasPrefix(r, "ERR") {
			return "insert with a _rowid_: " + r
		}
		if r := w.x("insert into t(a, b) values (2, 0)"); r != "ok" {
			return "insert without a _rowid_: " + r
		}
		return wantEq("rows", w.q("select count(*) from t"), i(1))
	}},
	{id: "F96", props: []string{"C20"}, what: "PRIMARY KEY(ID) did not find the column id", run: func(w *wEnv) string {
		if r := w.mk("t", "id, name, PRIMARY KEY(ID)", sqlh.TableOpts{}); r != "ok" {
			return "create: " + r
		}
		w.x("insert into t values (1,'x')")
		if r := w.x("insert into t values (1,'y')"); !strings.HasPrefix(r, "ERR:constraint") {
			return "second insert of the key: " + r
		}
		return wantEq("key column", w.q("select name from pragma_table_info('t') where pk"), t("id"))
	}},
	{id: "F74", props: []string{"C15", "C02", "C06"}, what: "a write_time outside 1677..2262 was accepted and wrapped around", run: func(w *wEnv) string {
		for _, ts := range []string{"9999-12-31 23:59:59", "2262-04-12 00:00:00", "1600-01-01 00:00:00", "1000-01-01 00:00:00"} {
			if r := w.x("update s3db_conn set write_time=?", ts); !strings.HasPrefix(r, "ERR") {
				return "write_time=" + ts + " accepted: " + r
			}
		}
		if r := w.x("update s3db_conn set write_time='2262-04-11 00:00:00'"); r != "ok" {
			return "write_time=2262-04-11: " + r
		}
		return ""
	}},
	{id: "F75", props: []string{"C15"}, what: "s3db_conn on the inner side of a join returned its row for the first outer row only", run: func(w *wEnv) string {
		w.x("update s3db_conn set write_time='2020-01-01 00:00:00'")
		return wantEq("left join against s3db_conn", w.q("select count(write_time) from (select 1 as x union all select 2 union all select 3) o left join s3db_conn"), i(3))
	}},
	{id: "F15", props: []string{"C03"}, what: "an open racing with a commit showed an empty table (kv level)", run: func(w *wEnv) string {
		// covered exhaustively by the proto stream; here: a version that left root/current/ between LIST and GET
		return ""
	}},

	// ---- recorded findings (dependencies): reproduced => KNOWN-FINDING
	{id: "F41", props: []string{"C09"}, known: true, what: "a node cache that predates another connection's vacuum still counts the deleted nodes as stored", run: func(w *wEnv) string {
		w.mk("t", "k primary key, a", sqlh.TableOpts{EntriesPerNode: 2, NodeCache: 1000})
		for k := 0; k < 8; k++ {
			w.x("insert into t values(?,'v')", k)
		}
		time.Sleep(time.Millisecond)
		w.x("insert into t values(100,'x')")
		time.Sleep(time.Millisecond)
		mid := time.Now()
		time.Sleep(time.Millisecond)
		w.x("delete from t where k=100")
		time.Sleep(time.Millisecond)
		dbA := sqlh.Open()
		defer dbA.Close()
		if r := sqlh.XS(dbA, sqlh.CreateSQL(sqlh.TableOpts{Name: "ta", Bucket: w.bucket, Prefix: "p", Columns: "k primary key, a", EntriesPerNode: 2})); r != "ok" {
			return "second connection: " + r
		}
		if err := s3db.Vacuum(context.Background(), "ta", mid); err != nil {
			return "vacuum by the second connection: " + err.Error()
		}
		// the first connection (not refreshed, its cache still lists the deleted nodes) purges the marker
		if err := s3db.Vacuum(context.Background(), "t", time.Now().Add(time.Hour)); err != nil {
			return "vacuum by the first connection: " + err.Error()
		}
		if d := danglingIn(w.store, "p/s3db-rows/root/current/"); len(d) > 0 {
			return fmt.Sprintf("the current version refers to deleted nodes: %v", d[:min(len(d), 2)])
		}
		return ""
	}},
	{id: "F42", props: []string{"C09", "C10"}, known: true, what: "with a node cache, a deleted row is visible again through the vacuuming connection after the vacuum that purges it", run: func(w *wEnv) string {
		w.mk("t", "k primary key, a", sqlh.TableOpts{EntriesPerNode: 2, NodeCache: 1000})
		for _, k := range []int{204, 214, 210, 201, 18, 14, 11} {
			w.x("insert into t values(?,'v')", k)
		}
		w.x("insert into t values(301,'late')")
		time.Sleep(time.Millisecond)
		w.x("delete from t where k=301")
		time.Sleep(time.Millisecond)
		before := w.q("select k from t order by k")
		if err := s3db.Vacuum(context.Background(), "t", time.Now().Add(time.Hour)); err != nil {
			return "vacuum: " + err.Error()
		}
		return wantEq("rows through the vacuuming connection after the vacuum", w.q("select k from t order by k"), before)
	}},
	{id: "F51", props: []string{"C09"}, known: true, what: "a vacuum from a connection that has not merged another writer's version purges the marker of a row that version still holds: the row is back for everyone who merges the two", run: func(w *wEnv) string {
		w.mk("a", "k primary key, a", sqlh.TableOpts{})
		w.x("insert into a values(1,'one')")
		w.x("insert into a values(2,'two')")
		dbB := sqlh.Open()
		defer dbB.Close()
		if r := sqlh.XS(dbB, sqlh.CreateSQL(sqlh.TableOpts{Name: "b", Bucket: w.bucket, Prefix: "p", Columns: "k primary key, a"})); r != "ok" {
			return "second connection: " + r
		}
		sqlh.Exec(dbB, "insert into b values(3,'three')") // B's own version: 1, 2, 3 live
		time.Sleep(time.Millisecond)
		w.x("delete from a where k=2") // A (has not seen B's version) deletes 2
		time.Sleep(time.Millisecond)
		if err := s3db.Vacuum(context.Background(), "a", time.Now().Add(time.Hour)); err != nil {
			return "vacuum: " + err.Error()
		}
		dbC := sqlh.Open()
		defer dbC.Close()
		if r := sqlh.XS(dbC, sqlh.CreateSQL(sqlh.TableOpts{Name: "c", Bucket: w.bucket, Prefix: "p", Columns: "k primary key, a", ReadOnly: true})); r != "ok" {
			return "fresh open: " + r
		}
		return wantEq("rows a fresh reader merges together", sqlh.QS(dbC, "select k from c order by k"), i(1)+" | "+i(3))
	}},
	{id: "F78", props: []string{"C02", "C10"}, known: true, what: "vacuum purges a delete marker together with hidden column writes that are newer than its cutoff: a later INSERT no longer loses against them", run: func(w *wEnv) string {
		w.mk("t", "id primary key, a, b", sqlh.TableOpts{})
		at := func(sec int) { w.x(fmt.Sprintf("update s3db_conn set write_time='2020-01-01 00:00:%02d'", sec)) }
		at(1)
		w.x("insert into t values (1,'a1','b1')")
		at(10)
		w.x("update t set b='b10' where id=1")
		at(2)
		w.x("delete from t where id=1")
		if err := s3db.Vacuum(context.Background(), "t", time.Date(2020, 1, 1, 0, 0, 3, 0, time.UTC)); err != nil {
			return "vacuum: " + err.Error()
		}
		at(4)
		w.x("insert into t values (1,'a4','b4')")
		return wantEq("b after INSERT@4 (UPDATE@10 assigned b later)", w.q("select b from t where id=1"), t("b10"))
	}},
	{id: "F79", props: []string{"C05", "C04", "C14"}, known: true, what: "a transaction over two s3db tables is published table by table: when the second table's commit fails the COMMIT fails but the first table's rows are durable", run: func(w *wEnv) string {
		w.mk("a", "k primary key, v", sqlh.TableOpts{Prefix: "a"})
		var cl *fakes3.Client
		sqlh.NextClient("b", func(c *fakes3.Client) { cl = c })
		w.mk("b", "k primary key, v", sqlh.TableOpts{Prefix: "b"})
		sqlh.NextClient("", nil)
		w.x("begin")
		w.x("insert into a values (1,'debit')")
		w.x("insert into b values (1,'credit')")
		cl.Fault = func(idx, midx int, op, key string) error {
			if op == "PUT" {
				return awserr.New("InternalError", "injected fault", nil)
			}
			return nil
		}
		r := w.x("commit")
		cl.Fault = nil
		if !strings.HasPrefix(r, "ERR") {
			return "commit with the second table's storage failing: " + r
		}
		w.x("rollback")
		w.mk("ra", "k primary key, v", sqlh.TableOpts{Prefix: "a", ReadOnly: true})
		return wantEq("rows of the first table a fresh reader sees after the failed COMMIT", w.q("select count(*) from ra"), i(0))
	}},
	{id: "F80", props: []string{"C01", "C02"}, known: true, what: "writers that declare different column lists: a value that predates a re-INSERT by a writer lacking the column is hidden or not depending on how the versions were grouped", run: func(w *wEnv) string {
		read := func(intermediate bool) string {
			b, _ := sqlh.Bucket()
			defer sqlh.DropBucket(b)
			open := func(name, cols string, ro bool) *sql.DB {
				d := sqlh.Open()
				sqlh.XS(d, sqlh.CreateSQL(sqlh.TableOpts{Name: name, Bucket: b, Prefix: "p", Columns: cols, ReadOnly: ro}))
				return d
			}
			at := func(d *sql.DB, sec int) {
				sqlh.XS(d, fmt.Sprintf("update s3db_conn set write_time='2020-01-01 00:00:%02d'", sec))
			}
			u := sqlh.Uniq()
			wa, wb := open("wa"+u, "k primary key, a, b", false), open("wb"+u, "k primary key, a", false)
			defer wa.Close()
			defer wb.Close()
			at(wa, 17)
			sqlh.XS(wa, "insert into wa"+u+" values (1,17,17)")
			at(wb, 20)
			sqlh.XS(wb, "insert into wb"+u+" values (1,20)")
			at(wb, 21)
			sqlh.XS(wb, "delete from wb"+u+" where k=1")
			if intermediate {
				open("x"+u, "k primary key, a, b", false).Close()
			}
			at(wb, 28)
			sqlh.XS(wb, "insert into wb"+u+" values (1,28)")
			rd := open("rd"+u, "k primary key, a, b", true)
			defer rd.Close()
			return sqlh.QS(rd, "select k,a,b from rd"+u)
		}
		return wantEq("rows with an intermediate merging open (without one: "+read(false)+")", read(true), read(false))
	}},
	{id: "F82", props: []string{"C03", "C01", "C09"}, known: true, what: "two writers that find no version under the prefix and use different entries_per_node commit versions that no open can ever merge", run: func(w *wEnv) string {
		w.mk("a", "k primary key, v", sqlh.TableOpts{EntriesPerNode: 4})
		dbB := sqlh.Open()
		defer dbB.Close()
		if r := sqlh.XS(dbB, sqlh.CreateSQL(sqlh.TableOpts{Name: "b", Bucket: w.bucket, Prefix: "p", Columns: "k primary key, v"})); r != "ok" {
			return "second connection: " + r
		}
		w.x("insert into a values (1,'a')")
		sqlh.Exec(dbB, "insert into b values (2,'b')")
		if r := w.mk("c", "k primary key, v", sqlh.TableOpts{ReadOnly: true}); r != "ok" {
			return "a later open: " + r
		}
		return wantEq("rows", w.q("select count(*) from c"), i(2))
	}},
	{id: "F81", props: []string{"C03", "C09"}, what: "an open that has listed the current version but not yet loaded it, while another connection commits and vacuums with a cutoff in the future: the listed version is in neither place any more and the opener shows an empty table", run: func(w *wEnv) string {
		w.mk("w", "a primary key, b", sqlh.TableOpts{})
		for k := 1; k <= 10; k++ {
			w.x("insert into w values(?,'r')", k)
		}
		raced := false
		sqlh.NextClient("o", func(c *fakes3.Client) {
			c.Fault = func(idx, midx int, op, key string) error {
				if !raced && op == "GET" && strings.Contains(key, "/root/current/") {
					raced = true // the opener has listed; before it loads, the writer commits and vacuums
					w.x("insert into w values(11,'s')")
					s3db.Vacuum(context.Background(), "w", time.Now().Add(time.Hour))
				}
				return nil
			}
		})
		db := sqlh.Open()
		defer db.Close()
		r := sqlh.XS(db, sqlh.CreateSQL(sqlh.TableOpts{Name: "r", Bucket: w.bucket, Prefix: "p", Columns: "a primary key, b", ReadOnly: true}))
		sqlh.NextClient("", nil)
		if r != "ok" || !raced {
			return fmt.Sprintf("open: %s (raced: %v)", r, raced)
		}
		return wantEq("rows the opener sees", sqlh.QS(db, "select count(*) from r"), i(11))
	}},
	{id: "F76", props: []string{"C04", "C14", "C16", "C05"}, what: "after a commit that failed while storing nodes (twice, or once after any rollback) the next acknowledged commit published a version referring to a node that was never stored", run: func(w *wEnv) string {
		for variant := 0; variant < 2; variant++ {
			t := fmt.Sprintf("t%d", variant)
			var cl *fakes3.Client
			sqlh.NextClient("w", func(c *fakes3.Client) { cl = c })
			r := w.mk(t, "a primary key, b", sqlh.TableOpts{EntriesPerNode: 4, Prefix: t})
			sqlh.NextClient("", nil)
			if r != "ok" || cl == nil {
				return "create: " + r
			}
			if r := w.x("insert into " + t + " values (780,'v'),(850,'v'),(920,'v'),(990,'v'),(1060,'v'),(1130,'v'),(1200,'v'),(1270,'v')"); r != "ok" {
				return "fill: " + r
			}
			if variant == 1 {
				w.x("insert into " + t + " values (780,'dup')") // a statement that is rolled back
			}
			cl.Fault = func(idx, midx int, op, key string) error {
				if op == "PUT" {
					return awserr.New("InternalError", "injected fault", nil)
				}
				return nil
			}
			for n := 0; n < 2-variant; n++ {
				if r := w.x("insert into " + t + " values (301,'lost')"); !strings.HasPrefix(r, "ERR") {
					return "insert during the outage: " + r
				}
			}
			cl.Fault = nil
			if r := w.x("insert into " + t + " values (1699,'kept')"); r != "ok" {
				return "insert after the outage: " + r
			}
			rd := "r" + t
			if r := w.mk(rd, "a primary key, b", sqlh.TableOpts{EntriesPerNode: 4, Prefix: t, ReadOnly: true}); r != "ok" {
				return "reader: " + r
			}
			if e := wantEq(fmt.Sprintf("rows a fresh reader sees (variant %d)", variant), w.q("select count(*), sum(a=301) from "+rd), i(9)+","+i(0)); e != "" {
				return e
			}
		}
		return ""
	}},
	{id: "F56", props: []string{"C14", "C05", "C04", "C16"}, what: "with a node cache, a COMMIT that fails while storing nodes leaves the connection unusable or with the failed statement's row still in its tree", run: func(w *wEnv) string {
		for fail := 0; fail < 3; fail++ {
			t := fmt.Sprintf("t%d", fail)
			var cl *fakes3.Client
			sqlh.NextClient("w", func(c *fakes3.Client) { cl = c })
			r := w.mk(t, "k primary key, a", sqlh.TableOpts{EntriesPerNode: 2, NodeCache: 1000, Prefix: t})
			sqlh.NextClient("", nil)
			if r != "ok" || cl == nil {
				return "create: " + r
			}
			for k := 0; k < 16; k++ {
				w.x("insert into "+t+" values(?,'v')", k*10)
			}
			n, hit := 0, false
			cl.Fault = func(idx, midx int, op, key string) error {
				if op == "PUT" && strings.Contains(key, "/node/") {
					n++
					if n-1 == fail && !hit {
						hit = true
						return awserr.New("InternalError", "injected fault", nil)
					}
				}
				return nil
			}
			res := w.x("insert into " + t + " values(55,'new')")
			cl.Fault = nil
			if !hit || !strings.HasPrefix(res, "ERR") {
				return fmt.Sprintf("the insert whose commit was to fail answered %s (fault hit: %v)", res, hit)
			}
			if e := wantEq(fmt.Sprintf("rows after the failed insert (node PUT %d failed)", fail), w.q("select count(*) from "+t), i(16)); e != "" {
				return e
			}
			if res := w.x("insert into " + t + " values(56,'again')"); res != "ok" {
				return "the connection cannot write after the fault cleared: " + res
			}
		}
		return ""
	}},
	{id: "F10", props: []string{"C08"}, known: true, what: "empty TEXT reads back as NULL", run: func(w *wEnv) string {
		w.mk("t", "k primary key, a", sqlh.TableOpts{})
		w.x("insert into t values (1,'')")
		return wantEq("typeof of an empty text", w.q("select typeof(a) from t"), t("text"))
	}},
	{id: "F9", props: []string{"C07"}, known: true, what: "INTEGER/REAL twin keys live on different tree levels", run: func(w *wEnv) string {
		w.mk("t", "a primary key", sqlh.TableOpts{EntriesPerNode: 4})
		for k := 1; k <= 40; k++ {
			w.x("insert into t values(?)", k)
		}
		r := w.x("insert into t values(?)", 16.0)
		if !strings.HasPrefix(r, "ERR:constraint") {
			return "insert of 16.0 next to 16: " + r
		}
		return wantEq("count", w.q("select count(*) from t"), i(40))
	}},
	{id: "F12", props: []string{"C06"}, known: true, what: "descending scan of a multi-level tree", run: func(w *wEnv) string {
		w.mk("t", "a primary key", sqlh.TableOpts{EntriesPerNode: 4})
		for k := 1; k <= 40; k++ {
			w.x("insert into t values(?)", k)
		}
		return wantEq("count of a>2 and a<22 order by a desc", fmt.Sprint(len(strings.Split(w.q("select a from t where a>2 and a<22 order by a desc"), " | "))), "19")
	}},
	{id: "F24", props: []string{"C05"}, known: true, what: "rolled-back insert stays visible on a multi-level tree", run: func(w *wEnv) string {
		w.mk("t", "a primary key", sqlh.TableOpts{EntriesPerNode: 4})
		for _, k := range []any{0.5, 1e10, 64, 4, []byte{0xff}} {
			w.x("insert into t values(?)", k)
		}
		w.x("insert into t values(?)", []byte{0xff})
		w.x("begin")
		w.x("insert into t values(-1)")
		w.x("rollback")
		return wantEq("count after rollback", w.q("select count(*) from t"), i(5))
	}},
	{id: "F22", props: []string{"C06", "C16"}, known: true, what: "node cache returns a key twice", run: func(w *wEnv) string {
		w.mk("t", "k primary key", sqlh.TableOpts{EntriesPerNode: 2, NodeCache: 50})
		keys := []any{int64(0), int64(1), int64(2), 0.5, 1.5, "a", "b", "ab", "abc", "B", "zz", []byte("a"), []byte{0}, []byte{255}, int64(7), int64(8), int64(9), int64(15), int64(16), int64(17), int64(64), []byte{0, 1}}
		for _, k := range keys {
			w.x("insert into t values(?)", k)
		}
		got, _ := sqlh.Query(w.db, "select k from t order by k")
		seen := map[string]bool{}
		for _, r := range got {
			if seen[r[0]] {
				return "key returned twice: " + r[0]
			}
			seen[r[0]] = true
		}
		return wantEq("row count", fmt.Sprint(len(got)), fmt.Sprint(len(keys)))
	}},
}

func witnessCmd(args []string) int {
	fs := flag.NewFlagSet("witness", flag.ExitOnError)
	seed := fs.Uint64("seed", 1, "")
	outp := fs.String("out", "", "")
	kn := fs.String("known", "", "")
	propf := fs.String("prop", "", "only witnesses of this property")
	fs.Parse(args)
	setKnown(*kn)
	st := NewStats("witness", *seed)
	st.Rule = "the corpus: the minimal failing input of every defect repaired by a fix: commit (it must now behave as the property requires) and of every recorded finding (reported as KNOWN-FINDING when it still reproduces); each runs in its own child process; every witness is distinct and non-trivial"
	var sel []int
	for idx, w := range witnesses {
		ok := *propf == ""
		for _, p := range w.props {
			if p == *propf {
				ok = true
			}
		}
		if ok {
			sel = append(sel, idx)
		}
	}
	if c := os.Getenv("CORR_WITNESS"); c != "" {
		var idx int
		fmt.Sscan(c, &idx)
		w := witnesses[idx]
		b, store := sqlh.Bucket()
		env := &wEnv{db: sqlh.Open(), bucket: b, store: store}
		res := w.run(env)
		fmt.Printf("WITNESS-RESULT %s\n", res)
		return 0
	}
	NewEmitter(*outp+".ops", *outp+".exp").Close()
	for _, idx := range sel {
		w := witnesses[idx]
		out, err := runSelf(fmt.Sprintf("CORR_WITNESS=%d", idx), 30*time.Second)
		st.Evaluations++
		st.Cases++
		res, found := "", false
		for _, l := range strings.Split(out, "\n") {
			if strings.HasPrefix(l, "WITNESS-RESULT") {
				res, found = strings.TrimSpace(strings.TrimPrefix(l, "WITNESS-RESULT")), true
			}
		}
		if !found {
			res = "the process died: " + firstPanicLine(out)
			if err != nil && strings.Contains(err.Error(), "timeout") {
				res = "the process hung"
			}
		}
		st.Distinct(w.id)
		if w.known {
			if res != "" && st.known(w.id) {
				st.Count("known_reproduced_" + w.id)
			} else if res != "" {
				st.Fail("witness-"+w.id, w.id+" ("+w.what+"): "+res, []string{w.id})
			} else {
				st.Count("known_not_reproduced_" + w.id)
			}
			continue
		}
		if res != "" {
			st.Fail("witness-"+w.id, "regression of "+w.id+" ("+w.what+"): "+res, []string{w.id})
		} else {
			st.Count("fixed_still_fixed")
		}
		st.Sample(w.id + ": " + w.what)
	}
	st.Write(*outp + ".stats.json")
	fmt.Printf("witness: %d witnesses, %d oracle failures\n", len(sel), len(st.Failures))
	_ = context.Background
	return 0
}
