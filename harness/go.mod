module verif/harness

go 1.25.0

require (
	github.com/aws/aws-sdk-go v1.55.8
	github.com/jrhy/mast v1.2.33
	github.com/jrhy/s3db v0.0.0
	github.com/mattn/go-sqlite3 v1.14.49
	golang.org/x/crypto v0.55.0
	google.golang.org/protobuf v1.36.12
)

require (
	github.com/hashicorp/golang-lru v1.0.2 // indirect
	github.com/jmespath/go-jmespath v0.4.0 // indirect
	github.com/johannesboyne/gofakes3 v1.2.0 // indirect
	github.com/johncgriffin/overflow v0.0.0-20211019200055-46fa312c352c // indirect
	github.com/mattn/go-pointer v0.0.1 // indirect
	github.com/minio/blake2b-simd v0.0.0-20160723061019-3f5f724cb5b1 // indirect
	github.com/ryszard/goskiplist v0.0.0-20150312221310-2dfbae5fcf46 // indirect
	github.com/segmentio/ksuid v1.0.4 // indirect
	go.riyazali.net/sqlite v0.0.0-20250204091031-8aa392720bb1 // indirect
	golang.org/x/sys v0.47.0 // indirect
)

replace github.com/jrhy/s3db => /repo
