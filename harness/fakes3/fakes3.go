// Package fakes3 is an in-process object store implementing kv.S3Interface:
// request log, per-request fault plan, crash-after-k-mutations, snapshot/restore
// and an optional deterministic scheduler that releases one request at a time.
package fakes3

import (
	"bytes"
	"context"
	"errors"
	"fmt"
	"io"
	"sort"
	"strings"
	"sync"

	"github.com/aws/aws-sdk-go/aws"
	"github.com/aws/aws-sdk-go/aws/awserr"
	"github.com/aws/aws-sdk-go/aws/request"
	"github.com/aws/aws-sdk-go/service/s3"
)

// Req is one object-store request as seen by the store.
type Req struct {
	Seq    int    // global sequence number (order of service)
	Client string // label of the issuing client
	Op     string // LIST GET PUT DEL
	Key    string // object key (LIST: prefix)
	Err    string // "" ok, "nosuchkey", "fault", "ctx", "crashed"
	Size   int
}

func (r Req) Mutation() bool { return r.Op == "PUT" || r.Op == "DEL" }

func (r Req) String() string {
	e := ""
	if r.Err != "" {
		e = " !" + r.Err
	}
	return fmt.Sprintf("%s %s %s%s", r.Client, r.Op, r.Key, e)
}

var ErrInjected = errors.New("fakes3: injected transport error")
var ErrCrashed = errors.New("fakes3: client crashed")

// Store is one bucket.
type Store struct {
	mu      sync.Mutex
	objs    map[string][]byte
	log     []Req
	rewrote []string // keys PUT again with different bytes
	// Sched, when non-nil, is consulted before every request is served (see Scheduler).
	Sched *Scheduler
	// GlobalFault, when non-nil, decides the fate of the n-th request (0-based) the store receives,
	// whichever client issues it.
	GlobalFault func(n int, client, op, key string) error
	nreq        int
}

// Requests returns how many requests the store has received so far.
func (s *Store) Requests() int {
	s.mu.Lock()
	defer s.mu.Unlock()
	return s.nreq
}

func (s *Store) ResetRequests() {
	s.mu.Lock()
	defer s.mu.Unlock()
	s.nreq = 0
}

func NewStore() *Store { return &Store{objs: map[string][]byte{}} }

func (s *Store) Snapshot() map[string][]byte {
	s.mu.Lock()
	defer s.mu.Unlock()
	m := make(map[string][]byte, len(s.objs))
	for k, v := range s.objs {
		m[k] = append([]byte(nil), v...)
	}
	return m
}

func (s *Store) Restore(m map[string][]byte) {
	s.mu.Lock()
	defer s.mu.Unlock()
	s.objs = make(map[string][]byte, len(m))
	for k, v := range m {
		s.objs[k] = append([]byte(nil), v...)
	}
}

func (s *Store) Keys(prefix string) []string {
	s.mu.Lock()
	defer s.mu.Unlock()
	var ks []string
	for k := range s.objs {
		if strings.HasPrefix(k, prefix) {
			ks = append(ks, k)
		}
	}
	sort.Strings(ks)
	return ks
}

func (s *Store) Get(key string) ([]byte, bool) {
	s.mu.Lock()
	defer s.mu.Unlock()
	b, ok := s.objs[key]
	return b, ok
}

func (s *Store) Put(key string, b []byte) {
	s.mu.Lock()
	defer s.mu.Unlock()
	s.objs[key] = append([]byte(nil), b...)
}

func (s *Store) Delete(key string) {
	s.mu.Lock()
	defer s.mu.Unlock()
	delete(s.objs, key)
}

func (s *Store) Log() []Req {
	s.mu.Lock()
	defer s.mu.Unlock()
	return append([]Req(nil), s.log...)
}

func (s *Store) LogLen() int {
	s.mu.Lock()
	defer s.mu.Unlock()
	return len(s.log)
}

func (s *Store) ResetLog() {
	s.mu.Lock()
	defer s.mu.Unlock()
	s.log = nil
	s.rewrote = nil
}

// Rewritten lists keys that were PUT with bytes different from what they held.
func (s *Store) Rewritten() []string {
	s.mu.Lock()
	defer s.mu.Unlock()
	return append([]string(nil), s.rewrote...)
}

// Fault decides the fate of a request before it is served. idx counts the
// requests of this client (0-based), midx the mutations of this client so far.
type Fault func(idx, midx int, op, key string) error

// Client is one handle on a Store with its own label, counters and fault plan.
type Client struct {
	S     *Store
	Name  string
	mu    sync.Mutex
	n, m  int
	Fault Fault
	// CrashAfter >= 0: after that many mutations were served, every further request fails.
	CrashAfter int
}

func (s *Store) Client(name string) *Client {
	return &Client{S: s, Name: name, CrashAfter: -1}
}

func (c *Client) Counts() (reqs, muts int) {
	c.mu.Lock()
	defer c.mu.Unlock()
	return c.n, c.m
}

func (c *Client) ResetCounts() {
	c.mu.Lock()
	defer c.mu.Unlock()
	c.n, c.m = 0, 0
}

func (c *Client) pre(ctx context.Context, op, key string) (func(errs string, size int), error) {
	if c.S.Sched != nil {
		c.S.Sched.wait(c.Name, op, key)
	}
	c.mu.Lock()
	idx, midx := c.n, c.m
	c.n++
	mut := op == "PUT" || op == "DEL"
	var err error
	var es string
	if c.CrashAfter >= 0 && midx >= c.CrashAfter && (mut || true) {
		// the process is dead: nothing is served any more
		err, es = ErrCrashed, "crashed"
	} else if ctx != nil && ctx.Err() != nil {
		err, es = awserr.New(request.CanceledErrorCode, "request context canceled", ctx.Err()), "ctx"
	} else if c.Fault != nil {
		if e := c.Fault(idx, midx, op, key); e != nil {
			err, es = e, "fault"
		}
	}
	c.S.mu.Lock()
	gn := c.S.nreq
	c.S.nreq++
	gf := c.S.GlobalFault
	c.S.mu.Unlock()
	if err == nil && gf != nil {
		if e := gf(gn, c.Name, op, key); e != nil {
			err, es = e, "fault"
		}
	}
	if err == nil && mut {
		c.m++
	}
	c.mu.Unlock()
	done := func(errs string, size int) {
		c.S.mu.Lock()
		c.S.log = append(c.S.log, Req{Seq: len(c.S.log), Client: c.Name, Op: op, Key: key, Err: errs, Size: size})
		c.S.mu.Unlock()
		if c.S.Sched != nil && !strings.Contains(key, "/node/") {
			c.S.Sched.done(c.Name)
		}
	}
	if err != nil {
		done(es, 0)
		return nil, err
	}
	return done, nil
}

func (c *Client) DeleteObjectWithContext(ctx aws.Context, in *s3.DeleteObjectInput, _ ...request.Option) (*s3.DeleteObjectOutput, error) {
	done, err := c.pre(ctx, "DEL", *in.Key)
	if err != nil {
		return nil, err
	}
	c.S.mu.Lock()
	delete(c.S.objs, *in.Key)
	c.S.mu.Unlock()
	done("", 0)
	return &s3.DeleteObjectOutput{}, nil
}

func (c *Client) GetObjectWithContext(ctx aws.Context, in *s3.GetObjectInput, _ ...request.Option) (*s3.GetObjectOutput, error) {
	done, err := c.pre(ctx, "GET", *in.Key)
	if err != nil {
		return nil, err
	}
	c.S.mu.Lock()
	b, ok := c.S.objs[*in.Key]
	c.S.mu.Unlock()
	if !ok {
		done("nosuchkey", 0)
		return nil, awserr.New(s3.ErrCodeNoSuchKey, "The specified key does not exist.", nil)
	}
	done("", len(b))
	return &s3.GetObjectOutput{Body: io.NopCloser(bytes.NewReader(append([]byte(nil), b...))), ContentLength: aws.Int64(int64(len(b)))}, nil
}

func (c *Client) PutObjectWithContext(ctx aws.Context, in *s3.PutObjectInput, _ ...request.Option) (*s3.PutObjectOutput, error) {
	b, rerr := io.ReadAll(in.Body)
	if rerr != nil {
		return nil, rerr
	}
	done, err := c.pre(ctx, "PUT", *in.Key)
	if err != nil {
		return nil, err
	}
	c.S.mu.Lock()
	if old, ok := c.S.objs[*in.Key]; ok && !bytes.Equal(old, b) {
		c.S.rewrote = append(c.S.rewrote, *in.Key)
	}
	c.S.objs[*in.Key] = b
	c.S.mu.Unlock()
	done("", len(b))
	return &s3.PutObjectOutput{}, nil
}

func (c *Client) ListObjectsV2WithContext(ctx aws.Context, in *s3.ListObjectsV2Input, _ ...request.Option) (*s3.ListObjectsV2Output, error) {
	p := ""
	if in.Prefix != nil {
		p = *in.Prefix
	}
	done, err := c.pre(ctx, "LIST", p)
	if err != nil {
		return nil, err
	}
	var out s3.ListObjectsV2Output
	c.S.mu.Lock()
	var ks []string
	for k := range c.S.objs {
		if strings.HasPrefix(k, p) {
			ks = append(ks, k)
		}
	}
	c.S.mu.Unlock()
	sort.Strings(ks)
	for _, k := range ks {
		out.Contents = append(out.Contents, &s3.Object{Key: aws.String(k)})
	}
	out.IsTruncated = aws.Bool(false)
	out.KeyCount = aws.Int64(int64(len(ks)))
	done("", len(ks))
	return &out, nil
}

// Scheduler serialises the requests of several client goroutines: every request
// parks until Step(name) releases it, and Step returns once it has been served.
type Scheduler struct {
	mu      sync.Mutex
	cond    *sync.Cond
	parked  map[string]string // client -> "OP key" it is parked on
	allowed map[string]bool
	served  map[string]int
	free    map[string]bool // clients that run unscheduled
}

func NewScheduler() *Scheduler {
	s := &Scheduler{parked: map[string]string{}, allowed: map[string]bool{}, served: map[string]int{}, free: map[string]bool{}}
	s.cond = sync.NewCond(&s.mu)
	return s
}

// Free lets a client run without being scheduled.
func (s *Scheduler) Free(name string, v bool) {
	s.mu.Lock()
	s.free[name] = v
	s.mu.Unlock()
	s.cond.Broadcast()
}

func (s *Scheduler) wait(name, op, key string) {
	s.mu.Lock()
	defer s.mu.Unlock()
	// node objects are content-addressed and write-once: their requests commute with everything
	// (nothing refers to a node before the version PUT), so only root/ requests are scheduled
	if s.free[name] || strings.Contains(key, "/node/") {
		return
	}
	s.parked[name] = op + " " + key
	s.cond.Broadcast()
	for !s.allowed[name] && !s.free[name] {
		s.cond.Wait()
	}
	s.allowed[name] = false
	delete(s.parked, name)
}

func (s *Scheduler) done(name string) {
	s.mu.Lock()
	s.served[name]++
	s.mu.Unlock()
	s.cond.Broadcast()
}

// Lock/Unlock/Wait give callers access to the scheduler's condition for their own flags.
func (s *Scheduler) Lock()   { s.mu.Lock() }
func (s *Scheduler) Unlock() { s.mu.Unlock() }

// Parked reports what the client is parked on, or "" if it is not parked.
func (s *Scheduler) Parked(name string) string {
	s.mu.Lock()
	defer s.mu.Unlock()
	return s.parked[name]
}

// WaitParkedOr blocks until the client is parked on a request or fin() is true.
func (s *Scheduler) WaitParkedOr(name string, fin func() bool) (string, bool) {
	s.mu.Lock()
	defer s.mu.Unlock()
	for {
		if p, ok := s.parked[name]; ok {
			return p, true
		}
		if fin() {
			return "", false
		}
		s.cond.Wait()
	}
}

// Kick wakes waiters so they re-evaluate their fin() condition. The flag fin() reads is changed
// outside the scheduler's mutex, so the mutex is taken here: a waiter is then either before its
// check (and sees the new value) or already registered in Wait (and gets the broadcast) — without
// it the wake-up could fall between the two and be lost (a hang of the proto stream under load).
func (s *Scheduler) Kick() {
	s.mu.Lock()
	s.mu.Unlock() //nolint:staticcheck // empty critical section on purpose
	s.cond.Broadcast()
}

// Step releases the parked request of the client and waits until it was served.
func (s *Scheduler) Step(name string) {
	s.mu.Lock()
	n := s.served[name]
	s.allowed[name] = true
	s.cond.Broadcast()
	for s.served[name] == n {
		s.cond.Wait()
	}
	s.mu.Unlock()
}
