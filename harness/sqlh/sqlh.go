// Package sqlh drives the real s3db extension through database/sql + mattn/go-sqlite3,
// with every table's object store replaced by an in-process fakes3.Store (hook H1).
package sqlh

import (
	"database/sql"
	"encoding/hex"
	"errors"
	"fmt"
	"math"
	"os"
	"sort"
	"strings"
	"sync"
	"sync/atomic"
	"time"

	"github.com/jrhy/s3db"
	"github.com/jrhy/s3db/kv"
	_ "github.com/jrhy/s3db/sqlite"
	_ "github.com/jrhy/s3db/sqlite/sqlite-autoload-extension"
	sqlite3 "github.com/mattn/go-sqlite3"

	"verif/harness/fakes3"
)

const Endpoint = "http://fakes3.invalid"

var (
	mu      sync.Mutex
	stores  = map[string]*fakes3.Store{}
	nextCli string
	lastCli *fakes3.Client
	clients []*fakes3.Client
	prepare func(*fakes3.Client)
	seq     int64
)

func init() {
	os.Setenv("AWS_REGION", "dummy")
	os.Setenv("AWS_ACCESS_KEY_ID", "dummy")
	os.Setenv("AWS_SECRET_ACCESS_KEY", "dummy")
	os.Unsetenv("AWS_CA_BUNDLE")
	// A table that is opened again after a failed commit keeps its client: the
	// streams attach faults, crash points and request logs to the client they got
	// when the table was created.
	s3db.VerifReopening = func(vt *s3db.VirtualTable) {
		if cl, ok := vt.Tree.Root.VerifS3().(*fakes3.Client); ok {
			mu.Lock()
			inherit = cl
			mu.Unlock()
		}
	}
	s3db.VerifWrapS3 = func(c kv.S3Interface, o s3db.S3Options) kv.S3Interface {
		mu.Lock()
		defer mu.Unlock()
		st := stores[o.Bucket]
		if st == nil {
			return c
		}
		if inherit != nil {
			cl := inherit
			inherit = nil
			return cl
		}
		name := nextCli
		if name == "" {
			name = fmt.Sprintf("c%d", len(clients))
		}
		cl := st.Client(name)
		if prepare != nil {
			prepare(cl)
		}
		if d := time.Duration(atomic.LoadInt64(&slowLists)); d > 0 {
			cl.Fault = func(idx, midx int, op, key string) error {
				if op == "LIST" {
					time.Sleep(d)
				}
				return nil
			}
		}
		lastCli = cl
		clients = append(clients, cl)
		return cl
	}
}

var slowLists int64
var inherit *fakes3.Client

// SlowLists makes every LIST of the clients created from now on take d (0: off), so that
// concurrent opens overlap inside the storage open.
func SlowLists(d time.Duration) { atomic.StoreInt64(&slowLists, int64(d)) }

// Bucket registers a fresh store under a unique bucket name.
func Bucket() (string, *fakes3.Store) {
	name := fmt.Sprintf("bkt%d", atomic.AddInt64(&seq, 1))
	st := fakes3.NewStore()
	mu.Lock()
	stores[name] = st
	mu.Unlock()
	return name, st
}

// StoreOf returns the store registered under a bucket name.
func StoreOf(name string) *fakes3.Store {
	mu.Lock()
	defer mu.Unlock()
	return stores[name]
}

func DropBucket(name string) {
	mu.Lock()
	delete(stores, name)
	mu.Unlock()
}

// NextClient sets the label (and an optional preparation hook) of the client
// created by the next table open / refresh.
func NextClient(name string, prep func(*fakes3.Client)) {
	mu.Lock()
	nextCli, prepare = name, prep
	mu.Unlock()
}

func LastClient() *fakes3.Client {
	mu.Lock()
	defer mu.Unlock()
	return lastCli
}

// Uniq returns a process-unique identifier suffix (table names are process-global).
func Uniq() string { return fmt.Sprintf("%d", atomic.AddInt64(&seq, 1)) }

// Open returns a single-connection in-memory SQLite database with the extension loaded.
func Open() *sql.DB {
	db, err := sql.Open("sqlite3", ":memory:")
	if err != nil {
		panic(err)
	}
	db.SetMaxOpenConns(1)
	return db
}

type TableOpts struct {
	Name, Bucket, Prefix, Columns string
	EntriesPerNode, NodeCache     int
	ReadOnly                      bool
	Extra                         string
}

func CreateSQL(o TableOpts) string {
	var b strings.Builder
	fmt.Fprintf(&b, `create virtual table "%s" using s3db (`, o.Name)
	if o.ReadOnly {
		b.WriteString("readonly, ")
	}
	if o.EntriesPerNode > 0 {
		fmt.Fprintf(&b, "entries_per_node=%d, ", o.EntriesPerNode)
	}
	if o.NodeCache > 0 {
		fmt.Fprintf(&b, "node_cache_entries=%d, ", o.NodeCache)
	}
	b.WriteString(o.Extra)
	fmt.Fprintf(&b, `s3_bucket='%s', s3_endpoint='%s', s3_prefix='%s', columns='%s')`, o.Bucket, Endpoint, o.Prefix, o.Columns)
	return b.String()
}

// ErrClass maps an error to a small enum.
func ErrClass(err error) string {
	if err == nil {
		return "ok"
	}
	var se sqlite3.Error
	if errors.As(err, &se) {
		switch se.ExtendedCode {
		case sqlite3.ErrConstraintPrimaryKey:
			return "constraint_pk"
		case sqlite3.ErrConstraintNotNull:
			return "constraint_notnull"
		case sqlite3.ErrConstraintUnique:
			return "constraint_unique"
		}
		if se.Code == sqlite3.ErrConstraint {
			return "constraint"
		}
	}
	m := err.Error()
	switch {
	case strings.Contains(m, "read-only") || strings.Contains(m, "readonly") || strings.Contains(m, "opened as read-only"):
		return "readonly"
	case strings.Contains(m, "fakes3: injected"):
		return "storage"
	case strings.Contains(m, "fakes3: client crashed"):
		return "crashed"
	case strings.Contains(m, "context") && (strings.Contains(m, "deadline") || strings.Contains(m, "cancel")):
		return "deadline"
	case strings.Contains(m, "constraint failed"):
		return "constraint"
	}
	return "other"
}

func Exec(db *sql.DB, q string, args ...any) error {
	if os.Getenv("SQLH_TRACE") != "" {
		fmt.Fprintln(os.Stderr, "EXEC", q, args)
	}
	_, err := db.Exec(q, args...)
	return err
}

// Canon renders one SQL value with its storage class.
func Canon(v any) string {
	switch x := v.(type) {
	case nil:
		return "N"
	case int64:
		return fmt.Sprintf("I:%d", x)
	case float64:
		return fmt.Sprintf("R:%016x", math.Float64bits(x))
	case string:
		return "T:" + hex.EncodeToString([]byte(x))
	case []byte:
		return "B:" + hex.EncodeToString(x)
	case bool:
		if x {
			return "I:1"
		}
		return "I:0"
	case time.Time:
		return "T:" + hex.EncodeToString([]byte(x.UTC().Format("2006-01-02 15:04:05")))
	}
	return fmt.Sprintf("?%T", v)
}

// Query returns the canonical rows (in result order) or an error.
func Query(db *sql.DB, q string, args ...any) ([][]string, error) {
	rows, err := db.Query(q, args...)
	if err != nil {
		return nil, err
	}
	defer rows.Close()
	cols, _ := rows.Columns()
	var out [][]string
	for rows.Next() {
		row := make([]any, len(cols))
		for i := range row {
			var x any
			row[i] = &x
		}
		if err := rows.Scan(row...); err != nil {
			return nil, err
		}
		r := make([]string, len(cols))
		for i := range row {
			r[i] = Canon(*(row[i].(*any)))
		}
		out = append(out, r)
	}
	if err := rows.Err(); err != nil {
		return nil, err
	}
	return out, nil
}

func RowsString(rows [][]string) string {
	var b strings.Builder
	for i, r := range rows {
		if i > 0 {
			b.WriteString(" | ")
		}
		b.WriteString(strings.Join(r, ","))
	}
	return b.String()
}

// QS is Query rendered as one line ("ERR:<class>:<msg>" on error).
func QS(db *sql.DB, q string, args ...any) string {
	rows, err := Query(db, q, args...)
	if err != nil {
		return "ERR:" + ErrClass(err) + ":" + err.Error()
	}
	return RowsString(rows)
}

// XS is Exec rendered as one line.
func XS(db *sql.DB, q string, args ...any) string {
	err := Exec(db, q, args...)
	if err != nil {
		return "ERR:" + ErrClass(err) + ":" + err.Error()
	}
	return "ok"
}

func SortedRows(rows [][]string) []string {
	out := make([]string, len(rows))
	for i, r := range rows {
		out[i] = strings.Join(r, ",")
	}
	sort.Strings(out)
	return out
}

// TimeStr renders a write_time / cutoff value for second k after a fixed base.
func TimeStr(k int) string {
	return Base.Add(time.Duration(k) * time.Second).Format(s3db.SQLiteTimeFormat)
}

var Base = time.Date(2020, 1, 1, 0, 0, 0, 0, time.UTC)

func SetWriteTime(db *sql.DB, k int) error {
	return Exec(db, "update s3db_conn set write_time=?", TimeStr(k))
}
