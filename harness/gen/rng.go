// Package gen holds the PRNG every generator draws from: one splitmix64 state per
// run, seeded by VERIF_SEED, so that (seed, case index) reproduces a case exactly.
package gen

type Rng struct{ s uint64 }

func New(seed uint64) *Rng { return &Rng{s: seed*0x9E3779B97F4A7C15 + 0x1234567} }

// Fork derives an independent stream for case i.
func (r *Rng) Fork(i int) *Rng {
	return &Rng{s: r.s ^ (uint64(i)+1)*0xBF58476D1CE4E5B9}
}

func (r *Rng) U64() uint64 {
	r.s += 0x9E3779B97F4A7C15
	z := r.s
	z = (z ^ (z >> 30)) * 0xBF58476D1CE4E5B9
	z = (z ^ (z >> 27)) * 0x94D049BB133111EB
	return z ^ (z >> 31)
}

func (r *Rng) Intn(n int) int {
	if n <= 0 {
		return 0
	}
	return int(r.U64() % uint64(n))
}

func (r *Rng) Bool() bool { return r.U64()&1 == 1 }

// Chance is true with probability num/den.
func (r *Rng) Chance(num, den int) bool { return r.Intn(den) < num }

func (r *Rng) Perm(n int) []int {
	p := make([]int, n)
	for i := range p {
		p[i] = i
	}
	for i := n - 1; i > 0; i-- {
		j := r.Intn(i + 1)
		p[i], p[j] = p[j], p[i]
	}
	return p
}

func Pick[T any](r *Rng, xs []T) T { return xs[r.Intn(len(xs))] }
