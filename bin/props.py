"""Per-property configuration for bin/check."""

MAST = "MastSpec: mast v1.2.33 behaves as an ordered map (Get/Insert/Delete/cursor/DiffIter agree with an association list); not verified, exercised by every correspondence run"

PROPS = {
    "C17": {
        "modules": ["S3db.Props.C17"],
        "tie_files": ["kv/crdt/value.go"],
        "corr": {
            "quick": [("kv", ["kv", "-n", "150"])],
            "thorough": [("kv", ["kv", "-n", "3000"])],
        },
        "trusted_base": [MAST, "gob/JSON codecs of the kv layer; BLAKE2b version names are collision-free"],
        "assumptions": ["distinct times for different writes of one key (the property's own quantifier)",
                        "TraceHistory is checked on the implementation only (oracle), it is not modelled in Lean"],
        "explanation": "LastWriteWins is regenerated from kv/crdt/value.go by go2lean on every run; the theorems (selection laws, convergence of any merge plan, gate behaviour, RemoveTombstones, Diff exactness) are proved about that generated definition and the tree model; the tree model is run against kv.DB on random multi-handle histories.",
    },
}
