"""Per-property configuration for bin/check."""

MAST = "MastSpec: mast v1.2.33 behaves as an ordered map (Get/Insert/Delete/cursor/DiffIter agree with an association list); not verified, exercised by every correspondence run"

PROPS = {
    "C17": {
        "modules": ["S3db.Props.C17"],
        "tie_files": ["kv/crdt/value.go"],
        "corr": {
            "quick": [("kv", ["kv", "-n", "150"])],
            "thorough": [("kv", ["kv", "-n", "3000"])],
        },
        "trusted_base": [MAST, "gob/JSON codecs of the kv layer; BLAKE2b version names are collision-free"],
        "assumptions": ["distinct times for different writes of one key (the property's own quantifier)",
                        "TraceHistory is checked on the implementation only (oracle), it is not modelled in Lean"],
        "explanation": "LastWriteWins is regenerated from kv/crdt/value.go by go2lean on every run; the theorems (selection laws, convergence of any merge plan, gate behaviour, RemoveTombstones, Diff exactness) are proved about that generated definition and the tree model; the tree model is run against kv.DB on random multi-handle histories.",
    },
    "C07": {
        "modules": ["S3db.Props.C07"],
        "tie_files": ["key.go"],
        "corr": {
            "quick": [("key", ["key", "-n", "20000", "-triples", "5000"])],
            "thorough": [("key", ["key", "-n", "300000", "-triples", "100000"])],
        },
        "trusted_base": ["F64 is the exact value of an IEEE-754 double decoded from its bits; Go's float64(int64) is round-to-nearest-even and int64(float64) truncates (model definitions F64.ofInt / F64.toInt, compared with the Go runtime by the correspondence stream)",
                         "SQLite's comparison of bound values (second oracle: `SELECT ?1 < ?2` in native SQLite on every generated pair)"],
        "assumptions": ["NaN cannot reach a key through SQLite (it becomes NULL); theorems carry the guard KeyOK",
                        "the tree level of a key (Key.Layer) is outside these theorems: numerically equal INTEGER and REAL keys hash to different levels (finding F9)"],
        "explanation": "Key.Order, orderType, typeIndex, order and compareIntReal are regenerated from key.go by go2lean on every run; order_matches_sqlite proves the generated function equal to the hand-written SQLite order on every admissible pair (full int64 range, every non-NaN double), and the order laws are proved on the specification and transferred.",
    },
}
