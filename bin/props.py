"""Per-property configuration for bin/check."""

MAST = "MastSpec: mast v1.2.33 behaves as an ordered map (Get/Insert/Delete/cursor/DiffIter agree with an association list); not verified, exercised by every correspondence run"

PROPS = {
    "C17": {
        "modules": ["S3db.Props.C17"],
        "tie_files": ["kv/crdt/value.go"],
        "corr": {
            "quick": [("kv", ["kv", "-n", "150"])],
            "thorough": [("kv", ["kv", "-n", "3000"])],
        },
        "trusted_base": [MAST, "gob/JSON codecs of the kv layer; BLAKE2b version names are collision-free"],
        "assumptions": ["distinct times for different writes of one key (the property's own quantifier)",
                        "TraceHistory is checked on the implementation only (oracle), it is not modelled in Lean"],
        "explanation": "LastWriteWins is regenerated from kv/crdt/value.go by go2lean on every run; the theorems (selection laws, convergence of any merge plan, gate behaviour, RemoveTombstones, Diff exactness) are proved about that generated definition and the tree model; the tree model is run against kv.DB on random multi-handle histories.",
    },
    "C07": {
        "modules": ["S3db.Props.C07"],
        "tie_files": ["key.go"],
        "corr": {
            "quick": [("key", ["key", "-n", "20000", "-triples", "5000"])],
            "thorough": [("key", ["key", "-n", "300000", "-triples", "100000"])],
        },
        "trusted_base": ["F64 is the exact value of an IEEE-754 double decoded from its bits; Go's float64(int64) is round-to-nearest-even and int64(float64) truncates (model definitions F64.ofInt / F64.toInt, compared with the Go runtime by the correspondence stream)",
                         "SQLite's comparison of bound values (second oracle: `SELECT ?1 < ?2` in native SQLite on every generated pair)"],
        "assumptions": ["NaN cannot reach a key through SQLite (it becomes NULL); theorems carry the guard KeyOK",
                        "the tree level of a key (Key.Layer) is outside these theorems: numerically equal INTEGER and REAL keys hash to different levels (finding F9)"],
        "explanation": "Key.Order, orderType, typeIndex, order and compareIntReal are regenerated from key.go by go2lean on every run; order_matches_sqlite proves the generated function equal to the hand-written SQLite order on every admissible pair (full int64 range, every non-NaN double), and the order laws are proved on the specification and transferred.",
    },
    "C01": {
        "modules": ["S3db.Props.C01"],
        "tie_files": ["kv/crdt/value.go"],
        "corr": {
            "quick": [("rows", ["rows", "-n", "3000"]), ("tbl", ["tbl", "-n", "120"])],
            "thorough": [("rows", ["rows", "-n", "50000"]), ("tbl", ["tbl", "-n", "3000"])],
        },
        "trusted_base": [MAST, "time arithmetic without time.Duration saturation (|dt| < 292 years); the model works on absolute times",
                         "every writer of a prefix declares the same column list (RowInv speaks of the declared columns)"],
        "assumptions": ["pairwise distinct write times on conflicting rows, or byte-identical retries (the property's quantifier; hypotheses StatusR / ColR)",
                        "rows written through SQL: every INSERT assigns every column (RowInv); on arbitrary hand-built rows MergeRows is not a join (merge_not_join_unreachable)"],
        "explanation": "MergeRows/mergeValues/Insert/Update/Delete are hand-modelled (Model/Row.lean, Model/Table.lean) and run against the real functions (rows: 2 merges per generated pair; tbl: multi-writer histories at the virtual-table level with a chosen merge order at every open, entry-level dumps compared). The theorems show that on SQL-written rows the merge is a cell-wise selection, hence any two merge plans over the same versions agree (C01_converges, C01_visible) and re-merging is absorbed (C01_remerge_absorbs). Implementation-only oracles: 5 readers with different merge orders agree; quiescent re-open issues no PUT.",
    },
    "C02": {
        "modules": ["S3db.Props.C02"],
        "tie_files": [],
        "corr": {
            "quick": [("tbl", ["tbl", "-n", "150"])],
            "thorough": [("tbl", ["tbl", "-n", "4000"])],
        },
        "trusted_base": [MAST, "time arithmetic without time.Duration saturation"],
        "assumptions": ["distinct write times per key among the accepted statements", "the SQL glue (NoChange handling) is exercised by the sql stream and tied by the facts columnHonoursNoChange / valuesSkipNoChange"],
        "explanation": "local_insert/local_update/local_delete show what each statement contributes to the cells of its key; C01.cells_of_plan shows merges merge cells; status_latest/column_latest/delete_sticky identify the winner. The tbl stream compares the merged table of every generated history with the README rule computed independently from the accepted statements.",
    },
    "C15": {
        "modules": ["S3db.Props.C15"],
        "tie_files": [],
        "corr": {
            "quick": [("tbl", ["tbl", "-n", "120"])],
            "thorough": [("tbl", ["tbl", "-n", "3000"])],
        },
        "trusted_base": [MAST],
        "assumptions": ["retries carry the same write time and the same values"],
        "explanation": "retry_* and older_*_cannot_undo on the table model; the tbl stream replays earlier accepted statements on arbitrary writers (retry) and uses non-monotone write times throughout.",
    },
    "C03": {
        "modules": ["S3db.Props.C03"],
        "tie_files": ["kv/kv.go"],
        "corr": {
            "quick": [("proto", ["proto", "-n", "150"])],
            "thorough": [("proto", ["proto", "-n", "3000"])],
        },
        "trusted_base": ["fakes3 semantics of the object store: atomic single-object PUT/GET/DELETE, read-after-write, LIST consistent at a point in time",
                         "node objects are content-addressed and write-once, so their requests commute with all others and are not scheduled (only root/ requests are)",
                         "BLAKE2b version names are collision-free"],
        "assumptions": ["no vacuum runs concurrently (C09/C10 treat vacuum)", "parents of a merge commit are retired in Go map order; the model is told the order (`proto prefer`), the theorems hold for every order"],
        "explanation": "The request-level transition system (Model/Proto.lean) takes the order of requests inside Commit / moveMergedRoots and the lookup order of Open from Gen.facts (regenerated from kv/kv.go). The invariants are proved for every number of clients, every schedule and crashes anywhere. The proto stream runs 2-3 real kv clients under a deterministic scheduler that releases one root-level request at a time and compares every served request with the model's.",
    },
    "C04": {
        "modules": ["S3db.Props.C04"],
        "tie_files": ["kv/kv.go"],
        "corr": {
            "quick": [("crash", ["crash", "-n", "120"]), ("proto", ["proto", "-n", "60"])],
            "thorough": [("crash", ["crash", "-n", "2500"]), ("proto", ["proto", "-n", "1000"])],
        },
        "trusted_base": ["mast's MakeRoot returns only after every node PUT completed (checked on every trace: all node PUTs precede the version PUT)",
                         "table contents form a join-semilattice under the merge (C01: on SQL-written rows with distinct write times per transaction)"],
        "assumptions": ["consecutive transactions carry distinct write times (the default: wall clock); with a constant explicit write_time and different values the middle crash state is outside C01's quantifier"],
        "explanation": "crash_old_or_new / crash_after_put_is_new / nodes_before_root are proved for every crash point k of commitReqs (order from Gen.facts) and every parent list; the crash stream enumerates EVERY k for SQL transactions, merge-opens and vacuums on the real code and checks old-or-new, acked-implies-new and stability across recovery opens.",
    },
    "C06": {
        "modules": ["S3db.Props.C06"],
        "tie_files": ["vtable_common.go", "sqlite/vtable.go"],
        "corr": {
            "quick": [("sql", ["sql", "-n", "120"])],
            "thorough": [("sql", ["sql", "-n", "2500"])],
        },
        "trusted_base": [MAST + " — the real cursor violates it on descending scans of multi-level trees (finding F12)",
                         "SQLite's xBestIndex/xFilter contract, including the re-check of constraints that are not marked Omit",
                         "native SQLite (a WITHOUT ROWID twin table in the same connection) is the reference for every statement outcome and query result"],
        "assumptions": ["UPDATEs that change a key value and OR IGNORE / OR REPLACE are outside the comparison (as the property says)",
                        "numerically equal INTEGER and REAL keys are not both stored (finding F9); multi-row statements that fail midway inside an explicit transaction are not generated (no savepoints: observation O1)"],
        "explanation": "window_sound / scan_complete_asc / scan_complete_desc are proved for every constraint list, tree content and direction over the Filter/Next model, whose decision points are tied to the source by the facts (filterWindowAsExpected, nextAsExpected, descSeekFallsBackToMax, bestIndexNeverOmits, filterNullOperandEmpty); the sql stream compares whole programs with native SQLite.",
    },
    "C08": {
        "modules": ["S3db.Props.C08"],
        "tie_files": ["vtable_common.go"],
        "corr": {
            "quick": [("codec", ["codec", "-n", "3000"]), ("sql", ["sql", "-n", "60"]), ("rows", ["rows", "-n", "1500"])],
            "thorough": [("codec", ["codec", "-n", "60000"]), ("sql", ["sql", "-n", "1200"]), ("rows", ["rows", "-n", "20000"])],
        },
        "trusted_base": ["the protobuf wire codec", "the cgo boundary of go.riyazali.net/sqlite and mattn/go-sqlite3 (finding F10: an empty TEXT crosses it as NULL)"],
        "assumptions": ["empty TEXT values are excluded from the comparison with native SQLite (finding F10); NaN cannot be stored (SQLite turns it into NULL)"],
        "explanation": "from_to, merge_preserves_values, insert_stores_given, codec_keeps_rows on the model; the codec stream round-trips random nodes through the real marshalProto/unmarshalProto; the sql stream reads back value, typeof() and hex() of every stored value and compares with native SQLite across commit, re-open, fresh readers.",
    },
    "C11": {
        "modules": ["S3db.Props.C11"],
        "tie_files": ["kv/kv.go"],
        "corr": {
            "quick": [("ver", ["ver", "-n", "40"])],
            "thorough": [("ver", ["ver", "-n", "800"])],
        },
        "trusted_base": ["BLAKE2b version names are collision-free", "fakes3 semantics of the object store"],
        "assumptions": ["no vacuum whose cutoff covers the version (C09/C10)"],
        "explanation": "historic_open_stable / historic_open_fails_on_missing / version_objects_immutable / empty_version_is_empty over the protocol model with the generated facts (historicLoadsFrom, historicCond, historicFailsOnMissing, nameIsHashOfStoredBytes); the ver stream records s3db_version() and the rows after every step and re-reads every earlier version later, through the Go API and through s3db_changes.",
    },
    "C12": {
        "modules": ["S3db.Props.C12"],
        "tie_files": ["kv/kv.go"],
        "corr": {
            "quick": [("ver", ["ver", "-n", "40"])],
            "thorough": [("ver", ["ver", "-n", "800"])],
        },
        "trusted_base": [MAST + " (DiffCursor yields exactly the keys whose entries differ)"],
        "assumptions": [],
        "explanation": "changes_sound / changes_complete / changes_deleted_silent / changes_fault on the model of ChangesCursor over an exact diff; the ver stream queries s3db_changes for ordered pairs of recorded snapshots, checks soundness and completeness against the recorded rows, and re-runs pairs with one failing request (transport error, expired context, NoSuchKey answer) at every request index.",
    },
    "C13": {
        "modules": ["S3db.Props.C13"],
        "tie_files": ["kv/kv.go", "sqlite/vtable.go"],
        "corr": {
            "quick": [("ro", ["ro", "-n", "60"])],
            "thorough": [("ro", ["ro", "-n", "1500"])],
        },
        "trusted_base": ["fakes3 request log (every request of every client is logged with the client's label)"],
        "assumptions": [],
        "explanation": "ro_no_mutation is proved over the request-level protocol model for every schedule; the guards it rests on (roGuards, commitGuardBeforeFlush, openCommitsOnlyIfRW, syncSkipsRO) are re-extracted from the source on every run; the ro stream drives read-only tables over buckets with 0-5 unmerged versions through selects, write attempts, refresh/version/changes/vacuum and checks the request log after every operation.",
    },
    "C16": {
        "modules": ["S3db.Props.C16"],
        "tie_files": ["vtable_common.go"],
        "corr": {
            "quick": [("codec", ["codec", "-n", "3000"]), ("sql", ["sql", "-n", "60"])],
            "thorough": [("codec", ["codec", "-n", "60000"]), ("sql", ["sql", "-n", "1200"])],
        },
        "trusted_base": ["the protobuf wire codec", MAST],
        "assumptions": ["the node cache is used only with entries_per_node >= 16 (finding F22: mast writes into shared cached nodes)"],
        "explanation": "codec_roundtrip is proved for every well-formed node from the generated codec facts (marshalFields, unmarshalFields, marshalNilLinkAs, unmarshalEmptyLinkAs); the codec stream round-trips random nodes through the real functions; the sql stream re-reads the table through a fresh read-only connection (empty cache) after commits on trees of height 0-4 and checks that no stored object is ever re-written with different bytes.",
    },
}
