---------------------------- MODULE Proto ----------------------------
(* Design-validation sketch (not the verification technique): the open/commit/retire
   protocol of kv.go at request granularity, to check that the C03 statements planned
   for Lean are true of the repaired protocol and false of today's.  *)
EXTENDS Naturals, FiniteSets, Sequences, TLC
CONSTANTS Clients, MaxVer, LookInMerged

Ver == 1..MaxVer
VARIABLES current, merged, parents, nextVer,
          pc, listed, todo, loaded, mustSee, retire, mine, acked, violated

vars == <<current, merged, parents, nextVer, pc, listed, todo, loaded, mustSee, retire, mine, acked, violated>>

RECURSIVE Anc(_)
Anc(S) == LET P == UNION {parents[v] : v \in S} IN IF P \subseteq S THEN S ELSE Anc(S \cup P)

Init == /\ current = {} /\ merged = {} /\ parents = [v \in Ver |-> {}] /\ nextVer = 1
        /\ pc = [c \in Clients |-> "idle"] /\ listed = [c \in Clients |-> {}] /\ todo = [c \in Clients |-> {}]
        /\ loaded = [c \in Clients |-> {}] /\ mustSee = [c \in Clients |-> {}]
        /\ retire = [c \in Clients |-> {}] /\ mine = [c \in Clients |-> {}]
        /\ acked = {} /\ violated = FALSE

Tick == TRUE

(* open: LIST *)
List(c) == /\ pc[c] = "idle" /\ Tick
           /\ pc' = [pc EXCEPT ![c] = "get"] /\ listed' = [listed EXCEPT ![c] = current]
           /\ todo' = [todo EXCEPT ![c] = current] /\ loaded' = [loaded EXCEPT ![c] = {}]
           /\ mustSee' = [mustSee EXCEPT ![c] = acked]
           /\ UNCHANGED <<current, merged, parents, nextVer, retire, mine, acked, violated>>

(* open: one GET per listed name; missing names are skipped *)
Get(c) == /\ pc[c] = "get" /\ todo[c] # {} /\ Tick
          /\ \E n \in todo[c] :
               /\ todo' = [todo EXCEPT ![c] = @ \ {n}]
               /\ loaded' = [loaded EXCEPT ![c] =
                     IF n \in current \/ (LookInMerged /\ n \in merged) THEN @ \cup {n} ELSE @]
          /\ UNCHANGED <<current, merged, parents, nextVer, pc, listed, mustSee, retire, mine, acked, violated>>

(* open finished: check the C03 statement, then either stay a reader or write *)
Covered(c) == mustSee[c] \subseteq Anc(loaded[c])

OpenDone(c) == /\ pc[c] = "get" /\ todo[c] = {} /\ Tick
               /\ violated' = (violated \/ ~Covered(c))
               /\ mine' = [mine EXCEPT ![c] = loaded[c]]
               /\ pc' = [pc EXCEPT ![c] = "opened"]
               /\ UNCHANGED <<current, merged, parents, nextVer, listed, todo, loaded, mustSee, retire, acked>>

(* commit: PUT the new version (nodes are invisible until then); ack; then retire parents *)
PutVersion(c) == /\ pc[c] = "opened" /\ nextVer <= MaxVer /\ Tick
                 /\ parents' = [parents EXCEPT ![nextVer] = mine[c]]
                 /\ current' = current \cup {nextVer}
                 /\ acked' = acked \cup {nextVer}
                 /\ retire' = [retire EXCEPT ![c] = mine[c]]
                 /\ mine' = [mine EXCEPT ![c] = {nextVer}]
                 /\ nextVer' = nextVer + 1
                 /\ pc' = [pc EXCEPT ![c] = "retireput"]
                 /\ UNCHANGED <<merged, listed, todo, loaded, mustSee, violated>>

RetirePut(c) == /\ pc[c] = "retireput" /\ Tick
                /\ IF retire[c] = {} THEN pc' = [pc EXCEPT ![c] = "opened"] /\ UNCHANGED <<merged>>
                   ELSE /\ \E p \in retire[c] : merged' = merged \cup {p} /\ todo' = [todo EXCEPT ![c] = {p}]
                        /\ pc' = [pc EXCEPT ![c] = "retiredel"]
                /\ IF retire[c] = {} THEN UNCHANGED todo ELSE TRUE
                /\ UNCHANGED <<current, parents, nextVer, listed, loaded, mustSee, retire, mine, acked, violated>>

RetireDel(c) == /\ pc[c] = "retiredel" /\ Tick
                /\ current' = current \ todo[c]
                /\ retire' = [retire EXCEPT ![c] = @ \ todo[c]]
                /\ todo' = [todo EXCEPT ![c] = {}]
                /\ pc' = [pc EXCEPT ![c] = "retireput"]
                /\ UNCHANGED <<merged, parents, nextVer, listed, loaded, mustSee, mine, acked, violated>>

(* close and re-open (refresh) *)
Reopen(c) == /\ pc[c] = "opened" /\ Tick /\ pc' = [pc EXCEPT ![c] = "idle"]
             /\ UNCHANGED <<current, merged, parents, nextVer, listed, todo, loaded, mustSee, retire, mine, acked, violated>>

(* a crash at any point: the client forgets everything and starts over *)
Crash(c) == /\ pc[c] \in {"get", "retireput", "retiredel"} /\ Tick
            /\ pc' = [pc EXCEPT ![c] = "idle"] /\ todo' = [todo EXCEPT ![c] = {}]
            /\ retire' = [retire EXCEPT ![c] = {}]
            /\ UNCHANGED <<current, merged, parents, nextVer, listed, loaded, mustSee, mine, acked, violated>>

Next == \E c \in Clients : List(c) \/ Get(c) \/ OpenDone(c) \/ PutVersion(c) \/ RetirePut(c) \/ RetireDel(c) \/ Reopen(c) \/ Crash(c)
Spec == Init /\ [][Next]_vars

(* C03 open_covers_acked *)
OpenCoversAcked == ~violated
(* C03 acked_never_lost: every acknowledged version stays reachable from current *)
AckedNeverLost == acked \subseteq Anc(current)
(* listed_stays_loadable (meaningful with LookInMerged) *)
ListedStaysLoadable == \A c \in Clients : pc[c] = "get" => todo[c] \subseteq (current \cup merged)
Bound == TRUE
=======================================================================
