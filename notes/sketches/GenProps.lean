import Leantest.GenValue
/-! Property theorems stated about the GENERATED definitions. -/
namespace Gen

def Compat (a b : Value) : Prop :=
  (a.tomb ≠ 0 → b.tomb ≠ 0 → a.tomb = b.tomb → a = b) ∧
  (a.tomb = 0 → b.tomb = 0 → a.mod = b.mod → a = b)

theorem lww_comm (a b : Value) (h : Compat a b) : lastWriteWins a b = lastWriteWins b a := by
  obtain ⟨h1, h2⟩ := h
  unfold lastWriteWins firstTombstoneWins tombstoned
  by_cases ha : a.tomb = 0 <;> by_cases hb : b.tomb = 0 <;> simp [ha, hb]
  · by_cases hm : a.mod = b.mod
    · have := h2 ha hb hm; subst this; simp
    · by_cases h3 : b.mod ≤ a.mod <;> by_cases h4 : a.mod ≤ b.mod <;> simp_all <;> omega
  · by_cases hm : a.tomb = b.tomb
    · have := h1 ha hb hm; subst this; simp
    · by_cases h3 : a.tomb < b.tomb <;> by_cases h4 : b.tomb < a.tomb <;> simp_all <;> omega

theorem lww_assoc (a b c : Value) (hab : Compat a b) (hbc : Compat b c) (hac : Compat a c) :
    lastWriteWins (lastWriteWins a b) c = lastWriteWins a (lastWriteWins b c) := by
  obtain ⟨h1, h2⟩ := hab
  obtain ⟨h3, h4⟩ := hbc
  obtain ⟨h5, h6⟩ := hac
  unfold lastWriteWins firstTombstoneWins tombstoned
  by_cases ha : a.tomb = 0 <;> by_cases hb : b.tomb = 0 <;> by_cases hc : c.tomb = 0 <;>
    simp [ha, hb, hc] <;> (repeat' split) <;> simp_all <;> omega

/-- the entry gate of `crdt.Tree.update`: a write that ties with the stored entry wins -/
theorem tie_goes_to_new (n o : Value) (hn : n.tomb = 0) (ho : o.tomb = 0) (h : n.mod = o.mod) :
    lastWriteWins n o = n := by
  unfold lastWriteWins firstTombstoneWins tombstoned; simp [hn, ho, h]

theorem earliest_tombstone (a b : Value) (ha : a.tomb ≠ 0) (hb : b.tomb ≠ 0) (h : a.tomb < b.tomb) :
    lastWriteWins a b = a ∧ lastWriteWins b a = a := by
  unfold lastWriteWins firstTombstoneWins tombstoned
  simp [ha, hb, h]; intro h'; omega
end Gen
