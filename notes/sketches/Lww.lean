/-! Sketch: kv/crdt/value.go as it would come out of go2lean (function mode). -/
namespace Sketch

structure Value where
  mod  : Int
  tomb : Int          -- 0 = not tombstoned
  val  : Nat          -- payload abstracted
deriving DecidableEq, Repr

def Value.tombstoned (v : Value) : Bool := v.tomb != 0

def firstTombstoneWins (n o : Value) : Value :=
  if !n.tombstoned then o
  else if !o.tombstoned then n
  else if n.tomb < o.tomb then n
  else o

def lastWriteWins (n o : Value) : Value :=
  if n.tombstoned || o.tombstoned then firstTombstoneWins n o
  else if n.mod ≥ o.mod then n
  else o

/-- two values never tie unless they are the same value -/
def Compat (a b : Value) : Prop :=
  (a.tomb ≠ 0 → b.tomb ≠ 0 → a.tomb = b.tomb → a = b) ∧
  (a.tomb = 0 → b.tomb = 0 → a.mod = b.mod → a = b)

theorem lww_idem (a : Value) : lastWriteWins a a = a := by
  unfold lastWriteWins firstTombstoneWins Value.tombstoned
  split <;> simp_all

theorem lww_comm (a b : Value) (h : Compat a b) : lastWriteWins a b = lastWriteWins b a := by
  obtain ⟨h1, h2⟩ := h
  unfold lastWriteWins firstTombstoneWins Value.tombstoned
  by_cases ha : a.tomb = 0 <;> by_cases hb : b.tomb = 0 <;> simp [ha, hb]
  · by_cases hm : a.mod = b.mod
    · have := h2 ha hb hm; subst this; simp
    · have : ¬ (b.mod ≤ a.mod ∧ a.mod ≤ b.mod) := by omega
      by_cases h3 : b.mod ≤ a.mod <;> by_cases h4 : a.mod ≤ b.mod <;> simp_all <;> omega
  · by_cases hm : a.tomb = b.tomb
    · have := h1 ha hb hm; subst this; simp
    · by_cases h3 : a.tomb < b.tomb <;> by_cases h4 : b.tomb < a.tomb <;> simp_all <;> omega

theorem lww_picks (a b : Value) : lastWriteWins a b = a ∨ lastWriteWins a b = b := by
  unfold lastWriteWins firstTombstoneWins
  repeat (first | split | simp)

theorem tombstone_dominates (a b : Value) (ha : a.tomb ≠ 0) : (lastWriteWins a b).tomb ≠ 0 ∧ (lastWriteWins b a).tomb ≠ 0 := by
  unfold lastWriteWins firstTombstoneWins Value.tombstoned
  by_cases hb : b.tomb = 0 <;> simp [ha, hb] <;> (constructor <;> split <;> simp_all)


theorem lww_assoc (a b c : Value) (hab : Compat a b) (hbc : Compat b c) (hac : Compat a c) :
    lastWriteWins (lastWriteWins a b) c = lastWriteWins a (lastWriteWins b c) := by
  obtain ⟨h1, h2⟩ := hab
  obtain ⟨h3, h4⟩ := hbc
  obtain ⟨h5, h6⟩ := hac
  unfold lastWriteWins firstTombstoneWins Value.tombstoned
  by_cases ha : a.tomb = 0 <;> by_cases hb : b.tomb = 0 <;> by_cases hc : c.tomb = 0 <;>
    simp [ha, hb, hc] <;> (repeat' split) <;> simp_all <;> omega

end Sketch
