/-! Sketch: exact order on dyadic rationals num / 2^e (finite doubles), core Lean only. -/
namespace Sketch3

structure Dy where
  num : Int
  e   : Nat        -- value = num / 2^e
deriving DecidableEq, Repr

def p2 (e : Nat) : Int := (2 : Int) ^ e
theorem p2_pos (e : Nat) : 0 < p2 e := Int.pow_pos (by decide)

def Dy.lt (a b : Dy) : Prop := a.num * p2 b.e < b.num * p2 a.e
def Dy.ofInt (i : Int) : Dy := ⟨i, 0⟩

theorem Dy.lt_trans {a b c : Dy} (h1 : a.lt b) (h2 : b.lt c) : a.lt c := by
  unfold Dy.lt at *
  have pa := p2_pos a.e; have pb := p2_pos b.e; have pc := p2_pos c.e
  -- a.num*pb < b.num*pa ; b.num*pc < c.num*pb  ⊢ a.num*pc < c.num*pa
  have h1' : a.num * p2 b.e * p2 c.e < b.num * p2 a.e * p2 c.e := Int.mul_lt_mul_of_pos_right h1 pc
  have h2' : b.num * p2 c.e * p2 a.e < c.num * p2 b.e * p2 a.e := Int.mul_lt_mul_of_pos_right h2 pa
  have h3 : a.num * p2 c.e * p2 b.e < c.num * p2 a.e * p2 b.e := by
    have e1 : a.num * p2 c.e * p2 b.e = a.num * p2 b.e * p2 c.e := by
      rw [Int.mul_assoc, Int.mul_comm (p2 c.e), ← Int.mul_assoc]
    have e2 : b.num * p2 a.e * p2 c.e = b.num * p2 c.e * p2 a.e := by
      rw [Int.mul_assoc, Int.mul_comm (p2 a.e), ← Int.mul_assoc]
    have e3 : c.num * p2 b.e * p2 a.e = c.num * p2 a.e * p2 b.e := by
      rw [Int.mul_assoc, Int.mul_comm (p2 b.e), ← Int.mul_assoc]
    rw [e1, ← e3]; exact Int.lt_trans (e2 ▸ h1') h2'
  exact Int.lt_of_mul_lt_mul_right h3 (Int.le_of_lt pb)

theorem Dy.lt_irrefl (a : Dy) : ¬ a.lt a := by unfold Dy.lt; omega

theorem Dy.trichotomy (a b : Dy) : a.lt b ∨ a.num * p2 b.e = b.num * p2 a.e ∨ b.lt a := by
  unfold Dy.lt; omega

/-- integer keys embed: the mixed INT/REAL comparison is the same order -/
theorem ofInt_lt (i j : Int) : (Dy.ofInt i).lt (Dy.ofInt j) ↔ i < j := by
  simp [Dy.lt, Dy.ofInt, p2]

-- 2^53+1 (INT) vs 2^53 (REAL) are different keys under the exact order:
example : (Dy.ofInt (2^53)).lt (Dy.ofInt (2^53+1)) := by decide
end Sketch3
