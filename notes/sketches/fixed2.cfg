CONSTANTS Clients = {a, r}
MaxVer = 3
LookInMerged = TRUE
SPECIFICATION Spec
INVARIANTS OpenCoversAcked AckedNeverLost ListedStaysLoadable

