CONSTANTS Clients = {a, r}
MaxVer = 3
LookInMerged = FALSE
SPECIFICATION Spec
INVARIANTS OpenCoversAcked

