/-! Sketch: per-column merge on sorted association lists, observed through `lookup`. -/
namespace Sketch2

structure ACol where
  v : Nat
  t : Int
deriving DecidableEq, Repr

abbrev Cols := List (String × ACol)

/-- `case UpdateTime(t1,v1).Before(UpdateTime(t2,v2))` → v2, `default` → v1 -/
def pick (x y : ACol) : ACol := if x.t < y.t then y else x

def pickOpt : Option ACol → Option ACol → Option ACol
  | none, y => y
  | x, none => x
  | some x, some y => some (pick x y)

def upsert (p : String × ACol) : Cols → Cols
  | [] => [p]
  | q :: qs =>
    if p.1 < q.1 then p :: q :: qs
    else if q.1 < p.1 then q :: upsert p qs
    else (q.1, pick q.2 p.2) :: qs

def mergeCols (xs ys : Cols) : Cols := ys.foldl (fun acc p => upsert p acc) xs

def lookup (c : String) : Cols → Option ACol
  | [] => none
  | q :: qs => if q.1 = c then some q.2 else lookup c qs

def Sorted : Cols → Prop
  | [] => True
  | q :: qs => (∀ r ∈ qs, q.1 < r.1) ∧ Sorted qs

theorem lookup_none_of_lt {c : String} : ∀ {xs : Cols}, (∀ r ∈ xs, c < r.1) → lookup c xs = none
  | [], _ => rfl
  | q :: qs, h => by
    have hq : c < q.1 := h q (List.mem_cons_self ..)
    have : q.1 ≠ c := fun e => String.lt_irrefl c (e ▸ hq)
    simp [lookup, this]
    exact lookup_none_of_lt (fun r hr => h r (List.mem_cons_of_mem _ hr))

theorem mem_upsert {p r : String × ACol} : ∀ {xs : Cols}, r ∈ upsert p xs → r.1 = p.1 ∨ r ∈ xs
  | [], h => by simp [upsert] at h; left; rw [h]
  | q :: qs, h => by
    unfold upsert at h
    split at h
    · rcases List.mem_cons.1 h with h | h
      · left; rw [h]
      · right; exact h
    · split at h
      · rcases List.mem_cons.1 h with h | h
        · right; rw [h]; exact List.mem_cons_self ..
        · rcases mem_upsert h with h | h
          · left; exact h
          · right; exact List.mem_cons_of_mem _ h
      · rename_i h1 h2
        have : q.1 = p.1 := by
          rcases Std.lt_trichotomy p.1 q.1 with h | h | h
          · exact absurd h h1
          · exact h.symm
          · exact absurd h h2
        rcases List.mem_cons.1 h with h | h
        · left; rw [h]; exact this
        · right; exact List.mem_cons_of_mem _ h

theorem sorted_upsert (p : String × ACol) : ∀ {xs : Cols}, Sorted xs → Sorted (upsert p xs)
  | [], _ => by simp [upsert, Sorted]
  | q :: qs, ⟨hq, hs⟩ => by
    unfold upsert
    split
    · rename_i h
      refine ⟨?_, hq, hs⟩
      intro r hr
      rcases List.mem_cons.1 hr with hr | hr
      · rw [hr]; exact h
      · exact String.lt_trans h (hq r hr)
    · split
      · rename_i h1 h2
        refine ⟨?_, sorted_upsert p hs⟩
        intro r hr
        rcases mem_upsert hr with hr | hr
        · rw [hr]; exact h2
        · exact hq r hr
      · exact ⟨hq, hs⟩

theorem lookup_upsert (c : String) (p : String × ACol) :
    ∀ {xs : Cols}, Sorted xs →
      lookup c (upsert p xs) = if p.1 = c then pickOpt (lookup c xs) (some p.2) else lookup c xs
  | [], _ => by
    by_cases h : p.1 = c <;> simp [upsert, lookup, h, pickOpt]
  | q :: qs, ⟨hq, hs⟩ => by
    unfold upsert
    split
    · rename_i h
      by_cases hc : p.1 = c
      · subst hc
        have : lookup p.1 (q :: qs) = none :=
          lookup_none_of_lt (by
            intro r hr
            rcases List.mem_cons.1 hr with hr | hr
            · rw [hr]; exact h
            · exact String.lt_trans h (hq r hr))
        simp only [lookup] at this
        simp only [lookup, if_true, this]
        rfl
      · simp [lookup, hc]
    · split
      · rename_i h1 h2
        have hne : q.1 ≠ p.1 := fun e => String.lt_irrefl p.1 (e ▸ h2)
        by_cases hc : p.1 = c
        · subst hc
          simp [lookup, hne, lookup_upsert p.1 p hs]
        · by_cases hqc : q.1 = c
          · simp [lookup, hqc, hc]
          · simp [lookup, hqc, hc, lookup_upsert c p hs]
      · rename_i h1 h2
        have heq : q.1 = p.1 := by
          rcases Std.lt_trichotomy p.1 q.1 with h | h | h
          · exact absurd h h1
          · exact h.symm
          · exact absurd h h2
        by_cases hc : p.1 = c
        · subst hc
          simp [lookup, heq, pickOpt]
        · have : q.1 ≠ c := heq ▸ hc
          simp [lookup, this, hc]

theorem lookup_mergeCols (c : String) : ∀ (ys : Cols) {xs : Cols}, Sorted xs →
    lookup c (mergeCols xs ys) = ys.foldl (fun acc p => if p.1 = c then pickOpt acc (some p.2) else acc) (lookup c xs)
  | [], _, _ => rfl
  | y :: ys, xs, hs => by
    have := lookup_mergeCols c ys (sorted_upsert y hs)
    simp only [mergeCols, List.foldl_cons] at this ⊢
    rw [this, lookup_upsert c y hs]

end Sketch2
